inductive Num where
  | nan | ninf | fin (q : Rat) | pinf
deriving DecidableEq, Repr

namespace Num
def le : Num → Num → Bool
  | nan, _ => false | _, nan => false
  | ninf, _ => true | _, pinf => true
  | fin a, fin b => decide (a ≤ b)
  | pinf, _ => false | _, ninf => false
def lt (a b : Num) : Bool := le a b && !le b a

/-- np.minimum / np.maximum propagate NaN -/
def maxN (a b : Num) : Num := match a, b with
  | nan, _ => nan | _, nan => nan | a, b => if le a b then b else a
def minN (a b : Num) : Num := match a, b with
  | nan, _ => nan | _, nan => nan | a, b => if le a b then a else b
/-- np.clip(x, lo, hi) = minimum(maximum(x, lo), hi) -/
def clip (x : Num) (lo hi : Rat) : Num := minN (maxN x (fin lo)) (fin hi)

def isNaN : Num → Bool | nan => true | _ => false

theorem clip_mem (x : Num) (lo hi : Rat) (h : lo ≤ hi) (hx : x.isNaN = false) :
    ∃ q, clip x lo hi = fin q ∧ lo ≤ q ∧ q ≤ hi := by
  cases x with
  | nan => simp [isNaN] at hx
  | ninf => exact ⟨lo, by simp [clip, maxN, minN, le, h], Rat.le_refl, h⟩
  | pinf => exact ⟨hi, by simp [clip, maxN, minN, le], h, Rat.le_refl⟩
  | fin q =>
    by_cases h1 : q ≤ lo
    · exact ⟨lo, by simp [clip, maxN, minN, le, h1, h], Rat.le_refl, h⟩
    · have h1' : lo ≤ q := by rcases Rat.le_total (a := q) (b := lo) with h | h; exact absurd h h1; exact h
      by_cases h2 : q ≤ hi
      · exact ⟨q, by simp [clip, maxN, minN, le, h1, h2], h1', h2⟩
      · have h2' : hi ≤ q := by rcases Rat.le_total (a := q) (b := hi) with h | h; exact absurd h h2; exact h
        exact ⟨hi, by simp [clip, maxN, minN, le, h1, h2], h, Rat.le_refl⟩

theorem clip_fix (q lo hi : Rat) (h1 : lo ≤ q) (h2 : q ≤ hi) : clip (fin q) lo hi = fin q := by
  by_cases e : q ≤ lo
  · have : q = lo := Rat.le_antisymm e h1
    subst this; simp [clip, maxN, minN, le, h2]
  · simp [clip, maxN, minN, le, e, h2]

/-- DiscreteVariable.correct: int(np.clip(x, 0, n-1)); raises on NaN -/
def discCorrect (n : Nat) (x : Num) : Except Unit Int :=
  match clip x 0 (((n : Int) - 1 : Int) : Rat) with
  | fin q => .ok q.floor      -- q ≥ 0 after clipping, so int() truncation = floor
  | _ => .error ()

theorem discCorrect_mem (n : Nat) (hn : 0 < n) (x : Num) (hx : x.isNaN = false) :
    ∃ i : Int, discCorrect n x = .ok i ∧ 0 ≤ i ∧ i ≤ (n : Int) - 1 := by
  have hle : (0 : Rat) ≤ (((n : Int) - 1 : Int) : Rat) := by
    have : (0 : Int) ≤ (n : Int) - 1 := by omega
    exact_mod_cast this
  obtain ⟨q, hq, h0, h1⟩ := clip_mem x 0 (((n : Int) - 1 : Int) : Rat) hle hx
  refine ⟨q.floor, by unfold discCorrect; rw [hq], ?_, ?_⟩
  · exact Rat.le_floor_iff.mpr (by simpa using h0)
  · have := Rat.floor_le q
    have h2 : ((q.floor : Int) : Rat) ≤ (((n : Int) - 1 : Int) : Rat) := Rat.le_trans this h1
    exact_mod_cast h2
end Num
#print axioms Num.discCorrect_mem
#print axioms Num.clip_fix
