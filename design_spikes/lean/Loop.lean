structure Arith (R : Type) where
  sub : R → R → R
  abs : R → R
  lt : R → R → Bool
  le : R → R → Bool
  zero : R

structure ES (R : Type) where
  patience : Nat
  minDelta : R

structure Cfg (R : Type) where
  maxCycles : Int
  fe : Option R
  es : Option (ES R)

structure Book (R : Type) where
  cycle : Int
  errors : List R
  diffs : List R

def lastN (n : Nat) (l : List α) : List α := l.drop (l.length - n)

variable {R : Type} (ar : Arith R) (cfg : Cfg R)

def esFires (es : ES R) (diffs : List R) : Bool :=
  (lastN es.patience diffs).all (fun d => ar.lt d ar.zero && ar.lt (ar.abs d) es.minDelta)

/-- mirrors `__should_stop__` -/
def shouldStop (cycle : Int) (diffs : List R) (cur : R) : Bool :=
  let s0 := decide (cycle ≥ cfg.maxCycles)
  let s1 := match cfg.es with
    | none => s0
    | some es => s0 || esFires ar es diffs
  match cfg.fe with
  | none => s1
  | some fe => s1 || ar.le cur fe

/-- mirrors `__error_check__` -/
def errorCheck (b : Book R) (cur : R) : Book R × Bool :=
  let prev := b.errors.getLast?.getD ar.zero
  let b' : Book R := { b with errors := b.errors ++ [cur], diffs := b.diffs ++ [ar.sub cur prev] }
  (b', shouldStop ar cfg b'.cycle b'.diffs cur)

variable {σ : Type} (step : σ → σ) (rate : σ → R)

def loop : Nat → σ → Book R → List σ → List σ × Book R
  | 0, _, b, hist => (hist, b)
  | fuel+1, s, b, hist =>
    let s' := step s
    let hist' := hist ++ [s']
    let r := errorCheck ar cfg b (rate s')
    if r.2 then (hist', r.1) else loop fuel s' { r.1 with cycle := r.1.cycle + 1 } hist'

/-! declarative spec -/
def iter (f : σ → σ) : Nat → σ → σ
  | 0, s => s
  | n+1, s => iter f n (f s)

/-- rate observed at cycle k (1-based) from initial state s0 -/
def rateAt (s0 : σ) (k : Nat) : R := rate (iter step k s0)

/-- rates of cycles 1..k -/
def ratesUpTo (s0 : σ) (k : Nat) : List R := (List.range k).map (fun i => rateAt step rate s0 (i+1))

/-- first differences against zero -/
def diffs0 : List R → R → List R
  | [], _ => []
  | r :: rs, prev => ar.sub r prev :: diffs0 rs r

def stopAt (s0 : σ) (k : Nat) : Bool :=
  shouldStop ar cfg (k : Int) (diffs0 ar (ratesUpTo step rate s0 k) ar.zero) (rateAt step rate s0 k)

theorem getLastD_cons (r : R) (rs : List R) (a b : R) :
    ((r :: rs).getLast?).getD a = ((r :: rs).getLast?).getD b := by
  rw [List.getLast?_eq_some_getLast (List.cons_ne_nil r rs)]; rfl

theorem diffs0_append (rs : List R) (prev x : R) :
    diffs0 ar (rs ++ [x]) prev = diffs0 ar rs prev ++ [ar.sub x ((rs.getLast?).getD prev)] := by
  induction rs generalizing prev with
  | nil => simp [diffs0]
  | cons r rs ih =>
    simp only [List.cons_append, diffs0, ih]
    cases rs with
    | nil => simp
    | cons r' rs' =>
      rw [getLastD_cons r' rs' r prev, List.getLast?_cons_cons]

theorem iter_succ (f : σ → σ) (n : Nat) (s : σ) : iter f (n+1) s = f (iter f n s) := by
  induction n generalizing s with
  | zero => rfl
  | succ n ih => simp only [iter] at *; rw [ih]

theorem ratesUpTo_succ (s0 : σ) (k : Nat) :
    ratesUpTo step rate s0 (k+1) = ratesUpTo step rate s0 k ++ [rateAt step rate s0 (k+1)] := by
  simp [ratesUpTo, List.range_succ]

/-- loop invariant: after k completed cycles (none of which stopped) -/
structure LoopInv (s0 : σ) (k : Nat) (s : σ) (b : Book R) (hist : List σ) : Prop where
  state : s = iter step k s0
  cyc : b.cycle = (k : Int) + 1
  errs : b.errors = ratesUpTo step rate s0 k
  dfs : b.diffs = diffs0 ar (ratesUpTo step rate s0 k) ar.zero
  hist : hist = (List.range (k+1)).map (fun i => iter step i s0)
  nostop : ∀ j, 1 ≤ j → j ≤ k → stopAt ar cfg step rate s0 j = false

theorem loop_spec (s0 : σ) (fuel k : Nat) (s : σ) (b : Book R) (hist : List σ)
    (inv : LoopInv ar cfg step rate s0 k s b hist)
    (hfuel : ∃ n, k < n ∧ n ≤ k + fuel ∧ stopAt ar cfg step rate s0 n = true) :
    ∃ N, k < N ∧ stopAt ar cfg step rate s0 N = true ∧
      (∀ j, 1 ≤ j → j < N → stopAt ar cfg step rate s0 j = false) ∧
      (loop ar cfg step rate fuel s b hist).1 = (List.range (N+1)).map (fun i => iter step i s0) ∧
      (loop ar cfg step rate fuel s b hist).2.errors = ratesUpTo step rate s0 N := by
  induction fuel generalizing k s b hist with
  | zero =>
    obtain ⟨n, h1, h2, _⟩ := hfuel
    omega
  | succ fuel ih =>
    -- one cycle
    have hs' : step s = iter step (k+1) s0 := by rw [iter_succ, inv.state]
    have hrate : rate (step s) = rateAt step rate s0 (k+1) := by simp [rateAt, hs']
    have herr : (errorCheck ar cfg b (rate (step s))).1.errors = ratesUpTo step rate s0 (k+1) := by
      simp [errorCheck, inv.errs, ratesUpTo_succ, hrate]
    have hdf : (errorCheck ar cfg b (rate (step s))).1.diffs
        = diffs0 ar (ratesUpTo step rate s0 (k+1)) ar.zero := by
      simp only [errorCheck, inv.errs, inv.dfs, ratesUpTo_succ, diffs0_append, hrate]
    have hcyc : (errorCheck ar cfg b (rate (step s))).1.cycle = ((k+1 : Nat) : Int) := by
      simp [errorCheck, inv.cyc]
    have hstop : (errorCheck ar cfg b (rate (step s))).2 = stopAt ar cfg step rate s0 (k+1) := by
      have h2 : (errorCheck ar cfg b (rate (step s))).2 =
          shouldStop ar cfg (errorCheck ar cfg b (rate (step s))).1.cycle
            (errorCheck ar cfg b (rate (step s))).1.diffs (rate (step s)) := rfl
      rw [h2, hdf, hcyc, hrate]; rfl
    have hhist : hist ++ [step s] = (List.range (k+2)).map (fun i => iter step i s0) := by
      rw [inv.hist, List.range_succ (n := k+1), List.map_append]; simp [hs']
    unfold loop
    simp only []
    by_cases hst : (errorCheck ar cfg b (rate (step s))).2 = true
    · rw [if_pos hst]
      refine ⟨k+1, by omega, by rw [← hstop]; exact hst, ?_, hhist, herr⟩
      intro j h1 h2
      exact inv.nostop j h1 (by omega)
    · rw [if_neg hst]
      have hst' : stopAt ar cfg step rate s0 (k+1) = false := by
        rw [← hstop]; simpa using hst
      have inv' : LoopInv ar cfg step rate s0 (k+1) (step s)
          { (errorCheck ar cfg b (rate (step s))).1 with
            cycle := (errorCheck ar cfg b (rate (step s))).1.cycle + 1 } (hist ++ [step s]) :=
        { state := hs', cyc := by simp [hcyc], errs := herr, dfs := hdf, hist := hhist,
          nostop := by
            intro j h1 h2
            by_cases hj : j = k+1
            · subst hj; exact hst'
            · exact inv.nostop j h1 (by omega) }
      obtain ⟨n, hn1, hn2, hn3⟩ := hfuel
      have hn : k + 1 < n := by
        rcases Nat.lt_or_ge (k+1) n with h | h
        · exact h
        · have : n = k+1 := by omega
          subst this; rw [hst'] at hn3; cases hn3
      obtain ⟨N, hN1, hN2, hN3, hN4, hN5⟩ := ih (k+1) (step s) _ _ inv' ⟨n, hn, by omega, hn3⟩
      exact ⟨N, by omega, hN2, hN3, hN4, hN5⟩

/-- the max-cycle criterion always fires at cycle max(maxCycles,1) -/
theorem stopAt_max (s0 : σ) (n : Nat) (h : cfg.maxCycles ≤ (n : Int)) :
    stopAt ar cfg step rate s0 n = true := by
  unfold stopAt shouldStop
  have : decide ((n : Int) ≥ cfg.maxCycles) = true := by simpa using h
  cases hes : cfg.es <;> cases hfe : cfg.fe <;> simp [this]

def fresh : Book R := { cycle := 1, errors := [], diffs := [] }

theorem c04_first (s0 : σ) :
    let M := max cfg.maxCycles.toNat 1
    ∃ N, 1 ≤ N ∧ N ≤ M ∧ stopAt ar cfg step rate s0 N = true ∧
      (∀ j, 1 ≤ j → j < N → stopAt ar cfg step rate s0 j = false) ∧
      (loop ar cfg step rate M s0 fresh [s0]).1 = (List.range (N+1)).map (fun i => iter step i s0) ∧
      (loop ar cfg step rate M s0 fresh [s0]).2.errors = ratesUpTo step rate s0 N := by
  intro M
  have inv0 : LoopInv ar cfg step rate s0 0 s0 (fresh : Book R) [s0] :=
    { state := rfl, cyc := rfl, errs := rfl, dfs := rfl, hist := by simp [iter],
      nostop := by intro j h1 h2; omega }
  have hM : stopAt ar cfg step rate s0 M = true := by
    apply stopAt_max; show cfg.maxCycles ≤ ((max cfg.maxCycles.toNat 1 : Nat) : Int); omega
  obtain ⟨N, h1, h2, h3, h4, h5⟩ := loop_spec ar cfg step rate s0 M 0 s0 fresh [s0] inv0
    ⟨M, by show 0 < max cfg.maxCycles.toNat 1; omega, by omega, hM⟩
  refine ⟨N, h1, ?_, h2, h3, h4, h5⟩
  -- N ≤ M because stopAt M holds and N is the first
  rcases Nat.lt_or_ge M N with h | h
  · have := h3 M (by show 1 ≤ max cfg.maxCycles.toNat 1; omega) h
    rw [hM] at this; cases this
  · exact h

#print axioms c04_first
