-- feasibility: selection spec over an abstract total preorder given as Bool relation
structure Agent (K : Type) where
  id : Nat
  cost : K
deriving Repr

variable {K : Type} (le : K → K → Bool)

def sortByCost (pop : List (Agent K)) : List (Agent K) :=
  pop.mergeSort (fun a b => le a.cost b.cost)

def bestAgents (pop : List (Agent K)) (n : Nat) : List (Agent K) := (sortByCost le pop).take n

theorem best_split (htrans : ∀ a b c : K, le a b → le b c → le a c) (htotal : ∀ a b : K, le a b || le b a)
    (pop : List (Agent K)) (n : Nat) :
    ∀ a ∈ bestAgents le pop n, ∀ b ∈ (sortByCost le pop).drop n, le a.cost b.cost = true := by
  intro a ha b hb
  have hs : List.Pairwise (fun a b : Agent K => le a.cost b.cost = true) (sortByCost le pop) := by
    unfold sortByCost
    exact List.pairwise_mergeSort (le := fun a b : Agent K => le a.cost b.cost)
      (fun a b c => htrans a.cost b.cost c.cost) (fun a b => htotal a.cost b.cost) pop
  have := List.take_append_drop n (sortByCost le pop)
  rw [← this] at hs
  exact (List.pairwise_append.mp hs).2.2 a ha b hb

theorem best_perm (pop : List (Agent K)) (n : Nat) :
    (bestAgents le pop n ++ (sortByCost le pop).drop n).Perm pop := by
  unfold bestAgents
  rw [List.take_append_drop]
  exact List.mergeSort_perm _ _

#print axioms best_split
#print axioms best_perm
