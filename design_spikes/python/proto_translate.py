"""Prototype of the fact extractor (design spike, not the framework)."""
import ast, glob, os, sys, json, collections
ROOT = '/repo/pyvolutionary'
U = ast.unparse

def agent_classes():
    names = {'Agent'}
    changed = True
    trees = {f: ast.parse(open(f).read()) for f in glob.glob(ROOT + '/**/*.py', recursive=True)}
    while changed:
        changed = False
        for t in trees.values():
            for n in ast.walk(t):
                if isinstance(n, ast.ClassDef) and n.name not in names and any(isinstance(b, ast.Name) and b.id in names for b in n.bases):
                    names.add(n.name); changed = True
    return names, trees

AGENTS, TREES = agent_classes()

def mangle(cls, attr):
    return attr  # keep source spelling

class ClassFacts:
    def __init__(self, cls, modtree, fname):
        self.cls, self.fname = cls, fname
        self.meths = {m.name: m for m in cls.body if isinstance(m, ast.FunctionDef)}
        self.facts = {}

    def reach(self, roots):
        """methods of this class reachable from roots through self.<m>() calls"""
        seen, todo = set(), [r for r in roots if r in self.meths]
        while todo:
            m = todo.pop()
            if m in seen: continue
            seen.add(m)
            for n in ast.walk(self.meths[m]):
                if isinstance(n, ast.Call) and isinstance(n.func, ast.Attribute) and isinstance(n.func.value, ast.Name) and n.func.value.id == 'self' and n.func.attr in self.meths:
                    todo.append(n.func.attr)
        return seen

    def self_fields(self, meths, ctx):
        out = set()
        for m in meths:
            for n in ast.walk(self.meths[m]):
                if isinstance(n, ast.Attribute) and isinstance(n.value, ast.Name) and n.value.id == 'self' and isinstance(n.ctx, ctx):
                    if n.attr.startswith('__') or n.attr in ('_current_cycle', '_errors', '_error_diffs', '_best_agent', '_worst_agent', '_population', '_mode', '_workers'):
                        out.add(n.attr)
        return out

    def uncond_writes(self, m):
        """fields assigned by a top-level (unconditional) simple assignment in method m"""
        out = set()
        if m not in self.meths: return out
        for st in self.meths[m].body:
            if isinstance(st, (ast.Assign, ast.AnnAssign)):
                tgts = st.targets if isinstance(st, ast.Assign) else [st.target]
                for t in tgts:
                    for e in (t.elts if isinstance(t, ast.Tuple) else [t]):
                        if isinstance(e, ast.Attribute) and isinstance(e.value, ast.Name) and e.value.id == 'self':
                            out.add(e.attr)
        return out

    def analyse(self):
        f = self.facts
        allm = list(self.meths)
        # agent constructors
        ctors = []
        for m in allm:
            for n in ast.walk(self.meths[m]):
                if isinstance(n, ast.Call) and isinstance(n.func, ast.Name) and n.func.id in AGENTS:
                    kind = 'raw'
                    stars = [k for k in n.keywords if k.arg is None]
                    named = {k.arg for k in n.keywords if k.arg}
                    if stars and not n.args and not (named & {'position', 'cost', 'fitness'}):
                        v = stars[0].value
                        if isinstance(v, ast.Call) and isinstance(v.func, ast.Attribute) and v.func.attr == 'model_dump':
                            src = v.func.value
                            if isinstance(src, ast.Call) and U(src.func) in ('self._init_agent', 'super()._init_agent'):
                                kind = 'fromInit'
                            elif isinstance(src, ast.Call) and U(src.func) in ('best_agent', 'worst_agent'):
                                kind = 'fromBestOf'
                            else:
                                kind = 'fromAgent'
                    ctors.append((m, n.func.id, kind))
        f['agentCtors'] = collections.Counter(k for _, _, k in ctors)
        f['rawCtors'] = [(m, c) for m, c, k in ctors if k == 'raw']
        # model_copy updates
        upd = set()
        for m in allm:
            for n in ast.walk(self.meths[m]):
                if isinstance(n, ast.Call) and isinstance(n.func, ast.Attribute) and n.func.attr == 'model_copy':
                    for k in n.keywords:
                        if k.arg == 'update' and isinstance(k.value, ast.Dict):
                            upd |= {U(x).strip("'\"") for x in k.value.keys}
                        elif k.arg == 'update': upd.add('?')
        f['copyUpdates'] = sorted(upd)
        # core stores
        stores = []
        for m in allm:
            for n in ast.walk(self.meths[m]):
                if isinstance(n, ast.Attribute) and isinstance(n.ctx, ast.Store) and n.attr in ('position', 'cost', 'fitness') and not (isinstance(n.value, ast.Name) and n.value.id == 'self'):
                    stores.append((m, U(n)))
        f['coreStores'] = stores
        # config / task writes
        cw = []
        for m in allm:
            for n in ast.walk(self.meths[m]):
                if isinstance(n, (ast.Assign, ast.AugAssign)):
                    for t in (n.targets if isinstance(n, ast.Assign) else [n.target]):
                        s = U(t)
                        if s.startswith('self._config.') or s.startswith('self._task.') or s.startswith('self._config[') :
                            cw.append((m, s))
        f['cfgTaskWrites'] = cw
        # ctor reads config
        f['ctorReadsConfig'] = any(isinstance(n, ast.Attribute) and U(n).startswith('self._config.') or (isinstance(n, ast.Attribute) and isinstance(n.value, ast.Name) and n.value.id == 'config')
                                   for n in ast.walk(self.meths['__init__'])) if '__init__' in self.meths else False
        # fields
        step_m = self.reach(['optimization_step', '_init_agent', '_greedy_select_agent'])
        init_order = ['before_initialization', '_init_population', 'after_initialization']
        initw = set()
        for m in init_order:
            initw |= self.uncond_writes(m)
        reads = self.self_fields(step_m, ast.Load)
        writes_step = self.self_fields(step_m, ast.Store)
        priv_reads = {r for r in reads if r.startswith('__')}
        f['stepReadsPriv'] = sorted(priv_reads)
        f['stepWritesPriv'] = sorted(w for w in writes_step if w.startswith('__'))
        f['initWrites'] = sorted(w for w in initw if w.startswith('__'))
        f['leakCandidates'] = sorted(priv_reads - initw)
        # rng
        src = open(self.fname).read()
        f['usesPyRandom'] = ('get_partner_index' in src) or ('import random' in src)
        f['readsFitness'] = any(isinstance(n, ast.Attribute) and n.attr == 'fitness' and isinstance(n.ctx, ast.Load) for m in allm for n in ast.walk(self.meths[m]))
        f['readsDirection'] = 'minmax' in src or 'TaskType' in src
        sc = self.meths.get('set_config_parameters')
        f['setConfigCanonical'] = bool(sc and len(sc.body) == 1 and U(sc.body[0]).startswith('self._config = ') and U(sc.body[0]).endswith('(**parameters)'))
        return f

rows = {}
for fn in sorted(glob.glob(ROOT + '/*/*_optimization*.py')):
    t = ast.parse(open(fn).read())
    for c in t.body:
        if isinstance(c, ast.ClassDef) and any('OptimizationAbstract' in U(b) for b in c.bases):
            rows[c.name] = ClassFacts(c, t, fn).analyse()
print(len(rows), 'classes')
tot = collections.Counter()
for r in rows.values(): tot.update(r['agentCtors'])
print('agent ctors', dict(tot))
print('raw ctors', {k: v['rawCtors'] for k, v in rows.items() if v['rawCtors']})
print('copy updates', collections.Counter(u for v in rows.values() for u in v['copyUpdates']))
print('core stores', {k: v['coreStores'] for k, v in rows.items() if v['coreStores']})
print('cfg/task writes', {k: v['cfgTaskWrites'] for k, v in rows.items() if v['cfgTaskWrites']})
print('ctorReadsConfig', [k for k, v in rows.items() if v['ctorReadsConfig']])
print('pyRandom', [k for k, v in rows.items() if v['usesPyRandom']])
print('readsFitness', [k for k, v in rows.items() if v['readsFitness']])
print('readsDirection', [k for k, v in rows.items() if v['readsDirection']])
print('non-canonical set_config', [k for k, v in rows.items() if not v['setConfigCanonical']])
print('leak candidates:')
for k, v in rows.items():
    if v['leakCandidates']: print('  ', k, v['leakCandidates'], '| stepWrites', v['stepWritesPriv'])
