from common import *
import io, contextlib, tempfile, os
import warnings; warnings.filterwarnings('ignore')
class A(Task):
    def objective_function(self, x): return float(np.sum(np.array(x) ** 2))
class B(Task):
    def objective_function(self, x): return float(np.sum(np.abs(x)))
def tk(c): return c(variables=[ContinuousMultiVariable(name='x', lower_bounds=[-10]*2, upper_bounds=[10]*2)])
algs = (make('ParticleSwarmOptimization', max_cycles=2), make('ZebraOptimization', max_cycles=2), make('WhalesOptimization', max_cycles=2))
tasks = (tk(A), tk(B))
for modes in [None, ('thread',), ('serial','thread','serial'), ('serial','thread'), ('serial','thread','serial','thread','serial','serial'), (('serial','thread'),('serial','thread'),('serial','serial')), ('bogus',)]:
    try:
        m = pv.Multitask(algs, tasks, modes=modes, n_workers=2)
        with contextlib.redirect_stdout(io.StringIO()):
            m.execute(n_trials=2)
        print(modes, 'OK', [df.shape for df in m._df2], list(m._df2[0].columns), m._modes)
        d = tempfile.mkdtemp()
        m.export_results('csv', d)
        print([os.path.relpath(os.path.join(r, f), d) for r, _, fs in os.walk(d) for f in fs])
    except Exception as e:
        print(modes, 'EXC', type(e).__name__, str(e)[:90])
