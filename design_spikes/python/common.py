import sys, json, inspect, math, copy, traceback, random
sys.path.insert(0, '/repo')
import numpy as np
import pyvolutionary as pv
from pyvolutionary.abstract import OptimizationAbstract
from pyvolutionary.models import *
from pyvolutionary.enums import TaskType

_orig_seed = np.random.seed
def _seed(s=None):
    if s is None: return _orig_seed(None)
    return _orig_seed(int(s))
np.random.seed = _seed

OPTS = {n: c for n, c in vars(pv).items() if inspect.isclass(c) and issubclass(c, OptimizationAbstract) and c is not OptimizationAbstract}
CFGS = json.load(open('' + __import__('os').path.dirname(__file__) + '/cfgs.json'))

def make(name, **over):
    cname, d = CFGS[name]
    d = copy.deepcopy(d); d.update(over)
    cfgcls = getattr(pv, cname)
    return OPTS[name](cfgcls(**d))

class Sph(Task):
    def objective_function(self, x):
        return float(sum((xi - 0.5) ** 2 for xi in x))
class Flat(Task):
    # generic objective for any encoding
    def objective_function(self, x):
        tot = 0.0
        for i, xi in enumerate(x):
            if isinstance(xi, (list, tuple)):
                tot += sum((j + 1) * v for j, v in enumerate(xi))
            else:
                tot += (i + 1) * float(xi) + 0.1 * float(xi) ** 2
        return tot

def cont_task(minmax='min', seed=1, d=3, lb=-10, ub=10, cls=Sph):
    return cls(variables=[ContinuousMultiVariable(name='x', lower_bounds=[lb]*d, upper_bounds=[ub]*d)], minmax=minmax, seed=seed)
