from common import *
import warnings; warnings.filterwarnings('ignore')
import io, contextlib
res = {}
for name in sorted(OPTS):
    o = make(name, max_cycles=5, fitness_error=None)
    t = cont_task()
    try:
        with contextlib.redirect_stdout(io.StringIO()):
            r = o.optimize(t)
    except Exception as e:
        print(name, 'EXC', type(e).__name__, e); continue
    sizes = [len(g.agents) for g in r.evolution]
    ps = CFGS[name][1]['population_size']
    bad = []
    lb, ub = t.get_bounds()
    for k, g in enumerate(r.evolution):
        for a in g.agents:
            p = a.position
            if len(p) != 3 or not all(isinstance(c, float) and math.isfinite(c) and lb[i] <= c <= ub[i] for i, c in enumerate(p)):
                bad.append(('pos', k, p))
            c = t.objective_function(p)
            if c != a.cost: bad.append(('cost', k, a.cost, c))
    bests = [min(a.cost for a in g.agents) for g in r.evolution]
    mono = all(bests[i+1] <= bests[i] for i in range(len(bests)-1))
    print(name, 'ps', ps, 'sizes', sizes if len(set(sizes))>1 or sizes[0]!=ps else 'ok', 'ngen', len(r.evolution), 'nrates', len(r.rates), 'bad', bad[:2], 'mono', mono, 'best_ok', r.best_solution.cost == bests[-1])
