from common import *
import warnings; warnings.filterwarnings('ignore')
import io, contextlib, collections
np.seterr(all='ignore')
class MO(Task):
    def objective_function(self, x): return [float(sum(xi**2 for xi in x)), float(sum(abs(xi) for xi in x))]
def variants():
    yield 'mc1', dict(max_cycles=1), cont_task()
    yield 'mc2', dict(max_cycles=2), cont_task()
    yield 'd1', dict(max_cycles=3), cont_task(d=1)
    yield 'd2', dict(max_cycles=3), cont_task(d=2)
    yield 'd7', dict(max_cycles=3), cont_task(d=7)
    yield 'max', dict(max_cycles=3), cont_task('max')
    yield 'big', dict(max_cycles=3), cont_task(lb=-1e6, ub=1e9)
    yield 'tiny', dict(max_cycles=3), cont_task(lb=1e-9, ub=2e-9)
    yield 'pos', dict(max_cycles=3), cont_task(lb=5, ub=6)
    yield 'ps1.5', None, cont_task()
    yield 'ps3', None, cont_task()
    yield 'mo', dict(max_cycles=3), MO(variables=[MultiObjectiveVariable(name='x', lower_bounds=(-5,-5), upper_bounds=(5,5))], objective_weights=[0.3,0.7], seed=2)
    yield 'momax', dict(max_cycles=3), MO(variables=[MultiObjectiveVariable(name='x', lower_bounds=(-5,-5), upper_bounds=(5,5))], objective_weights=[0.3,0.7], seed=2, minmax='max')
    yield 'es', dict(max_cycles=30, early_stopping=dict(patience=2, min_delta=0.5)), cont_task()
cnt = collections.Counter()
for name in sorted(OPTS):
    for tag, kw, t in variants():
        if kw is None:
            ps = CFGS[name][1]['population_size']
            kw = dict(max_cycles=3, population_size=int(ps*1.5) if tag=='ps1.5' else ps*3)
        try:
            o = make(name, fitness_error=None, **kw)
            with contextlib.redirect_stdout(io.StringIO()):
                r = o.optimize(t)
        except Exception as e:
            tb = traceback.extract_tb(e.__traceback__)
            fr = [f for f in tb if 'pyvolutionary' in f.filename]
            fr = fr[-1] if fr else tb[-1]
            print(name, tag, type(e).__name__, f"{fr.filename.split('/')[-1]}:{fr.lineno}", str(e)[:70].replace('\n',' '))
            cnt[tag] += 1
print(cnt)
