"""Prototype of the PopExp skeleton classifier (design spike)."""
import ast, glob, collections
ROOT = '/repo/pyvolutionary'
U = ast.unparse
POP = 'self._population'

def is_pop_iter(it):
    s = U(it)
    return s in (POP, f'enumerate({POP})') or (s.startswith('zip(') and POP in s) or (s.startswith('enumerate(zip(') and POP in s)

def loop_vars(t):
    return {n.id for n in ast.walk(t) if isinstance(n, ast.Name)}

class Cls:
    def __init__(self, c):
        self.c = c
        self.meths = {m.name: m for m in c.body if isinstance(m, ast.FunctionDef)}
        self.greedy_overridden = '_greedy_select_agent' in self.meths

    def locals_of(self, fn):
        return {n.name: n for n in ast.walk(fn) if isinstance(n, ast.FunctionDef) and n is not fn}

    def elem_kind(self, e, vars_, loc, depth=0):
        """kind of an element expression wrt incumbent loop vars: greedy | keep | fresh | other"""
        if depth > 6: return 'other'
        if isinstance(e, ast.Name) and e.id in vars_: return 'keep'
        if isinstance(e, ast.IfExp):
            ks = {self.elem_kind(e.body, vars_, loc, depth+1), self.elem_kind(e.orelse, vars_, loc, depth+1)}
            return self.join(ks)
        if isinstance(e, ast.Call):
            f = U(e.func)
            args = list(e.args) + [k.value for k in e.keywords]
            if f == 'self._greedy_select_agent':
                if any(isinstance(a, ast.Name) and a.id in vars_ for a in args): return 'greedy'
                # incumbent may be a greedy/keep expression itself
                ks = [self.elem_kind(a, vars_, loc, depth+1) for a in args]
                return 'greedy' if any(k in ('greedy', 'keep') for k in ks) else 'other'
            if f in ('self._init_agent', 'super()._init_agent'): return 'fresh'
            if isinstance(e.func, ast.Name) and e.func.id[:1].isupper():
                # Agent subclass ctor from **X.model_dump()
                for k in e.keywords:
                    if k.arg is None and isinstance(k.value, ast.Call) and U(k.value.func).endswith('.model_dump'):
                        return self.elem_kind(k.value.func.value, vars_, loc, depth+1)
                return 'other'
            if isinstance(e.func, ast.Attribute) and e.func.attr == 'model_copy':
                return self.elem_kind(e.func.value, vars_, loc, depth+1)
            if isinstance(e.func, ast.Name) and e.func.id in loc:
                fn = loc[e.func.id]
                params = [a.arg for a in fn.args.args]
                pv = {p for p, a in zip(params, e.args) if isinstance(a, ast.Name) and a.id in vars_}
                return self.fn_kind(fn, pv, loc, depth+1)
        return 'other'

    def join(self, ks):
        ks = set(ks)
        if 'other' in ks or not ks: return 'other'
        if ks <= {'greedy', 'keep'}: return 'greedy'
        return 'fresh' if ks <= {'fresh', 'greedy', 'keep'} else 'other'

    def fn_kind(self, fn, pvars, loc, depth):
        loc2 = dict(loc); loc2.update(self.locals_of(fn))
        # track simple aliases: name = <expr> (single assignment) inside fn
        env = {}
        for n in ast.walk(fn):
            if isinstance(n, ast.Assign) and len(n.targets) == 1 and isinstance(n.targets[0], ast.Name):
                env.setdefault(n.targets[0].id, []).append(n.value)
        def k_of(e, d):
            if isinstance(e, ast.Name) and e.id not in pvars and e.id in env and d < 4:
                return self.join(k_of(v, d+1) for v in env[e.id])
            return self.elem_kind(e, pvars, loc2, depth + d)
        rets = [n.value for n in ast.walk(fn) if isinstance(n, ast.Return) and n.value is not None and self.owner(fn, n)]
        return self.join(k_of(r, 0) for r in rets)

    def owner(self, fn, node):
        # return belongs to fn itself, not to a nested def
        for inner in ast.walk(fn):
            if isinstance(inner, ast.FunctionDef) and inner is not fn and any(node is x for x in ast.walk(inner)):
                return False
        return True

    def expr_class(self, v, loc):
        s = U(v)
        if isinstance(v, ast.ListComp) and len(v.generators) == 1 and not v.generators[0].ifs:
            g = v.generators[0]
            if is_pop_iter(g.iter):
                k = self.elem_kind(v.elt, loop_vars(g.target), loc)
                return {'greedy': 'mapGreedy', 'keep': 'mapGreedy', 'fresh': 'mapFresh', 'other': 'mapOther'}[k]
            it = U(g.iter)
            if it.startswith('range(') and ('population_size' in it or 'pop_size' in it or 'len(self._population)' in it):
                return 'rangePS'
        if s == f'sort_by_cost({POP})': return 'sortBy'
        if s.startswith('sort_and_trim('): return 'sortTrim'
        return 'opaque:' + s[:50]

    def stmts(self, body, loc, out):
        for st in body:
            if isinstance(st, ast.FunctionDef): continue
            if isinstance(st, ast.Assign):
                tg = [U(t) for t in st.targets]
                if tg == [POP]:
                    out.append(self.expr_class(st.value, loc)); continue
                if any(t.startswith(POP + '[') for t in tg):
                    out.append('setAt'); continue
                if any(POP in t for t in tg):
                    out.append('opaque:tuple-assign'); continue
            if isinstance(st, ast.Expr) and isinstance(st.value, ast.Call):
                f = U(st.value.func)
                if f == 'self._extend_and_trim_population': out.append('extendTrim'); continue
                if f == 'self._greedy_select_population': out.append('greedyPop'); continue
                if f == 'self._replace_and_trim_population': out.append('replaceTrim'); continue
                if f.startswith(POP + '.'): out.append('opaque:' + f); continue
                if f.startswith('self.') and f[5:] in self.meths and f[5:] not in ('_init_agent',):
                    m = self.meths[f[5:]]
                    l2 = dict(loc); l2.update(self.locals_of(m))
                    self.stmts(m.body, l2, out); continue
            if isinstance(st, (ast.For, ast.While, ast.If, ast.With, ast.Try)):
                inner = []
                for fld in ('body', 'orelse', 'finalbody'):
                    self.stmts(getattr(st, fld, []) or [], loc, inner)
                if inner:
                    out.append('ctl[' + ','.join(inner) + ']')
                # also writes hidden in nested expressions
                continue
            # any other statement that mentions a population store
            for n in ast.walk(st):
                if isinstance(n, ast.Attribute) and U(n) == POP and isinstance(n.ctx, ast.Store):
                    out.append('opaque:store'); break

    def skeleton(self):
        step = self.meths['optimization_step']
        out = []
        self.stmts(step.body, self.locals_of(step), out)
        return out

MONO = {'mapGreedy', 'sortBy', 'extendTrim', 'greedyPop'}
SIZE = MONO | {'mapFresh', 'mapOther', 'rangePS', 'setAt'}
res = {}
for fn in sorted(glob.glob(ROOT + '/*/*_optimization*.py')):
    t = ast.parse(open(fn).read())
    for c in t.body:
        if isinstance(c, ast.ClassDef) and any('OptimizationAbstract' in U(b) for b in c.bases):
            k = Cls(c); sk = k.skeleton()
            res[c.name] = (sk, k.greedy_overridden)
def flat(sk):
    out = []
    for s in sk:
        if s.startswith('ctl['): out += s[4:-1].split(',')
        else: out.append(s)
    return out
mono = [n for n, (sk, go) in res.items() if sk and all(s in MONO for s in sk)]
size = [n for n, (sk, go) in res.items() if sk and all(s in SIZE for s in flat(sk))]
print('monotone skeleton:', len(mono)); print('size-preserving skeleton:', len(size))
print('greedy overridden:', [n for n, (sk, go) in res.items() if go])
print('NOT monotone-classified:')
for n, (sk, go) in res.items():
    if n not in mono: print('  ', n, sk)
