import sys, importlib, pkgutil, inspect, json
sys.path.insert(0, '/repo')
import pyvolutionary as pv
from pyvolutionary.abstract import OptimizationAbstract
import tests.algorithms as ta
import glob, os
opts = {n: c for n, c in vars(pv).items() if inspect.isclass(c) and issubclass(c, OptimizationAbstract) and c is not OptimizationAbstract}
print(len(opts))
cfgs = {}
for f in sorted(glob.glob('/repo/tests/algorithms/test_*.py')):
    m = importlib.import_module('tests.algorithms.' + os.path.basename(f)[:-3])
    fx = m.optimization_config
    fn = getattr(fx, '__wrapped__', None) or fx.__pytest_wrapped__.obj if hasattr(fx,'__pytest_wrapped__') else getattr(fx,'_fixture_function', None) or fx.__wrapped__
    cfg = fn()
    # find optimizer class
    oc = [c for n, c in vars(m).items() if n in opts]
    assert len(oc) == 1, (f, oc)
    cfgs[oc[0].__name__] = (type(cfg).__name__, cfg.model_dump())
print(len(cfgs), set(opts) - set(cfgs))
json.dump(cfgs, open(__import__('os').path.join(__import__('os').path.dirname(__file__), 'cfgs.json'), 'w'), indent=1, default=str)
