from common import *
import warnings; warnings.filterwarnings('ignore')
import io, contextlib, collections
np.seterr(all='ignore')

def member(task, p):
    vs = task.get_variables()
    if len(p) != len(vs): return 'len'
    for c, v in zip(p, vs):
        if isinstance(v, ContinuousVariable):
            if not isinstance(c, float) or not math.isfinite(c) or not (v.lower_bound <= c <= v.upper_bound): return ('cont', c)
        elif isinstance(v, DiscreteVariable):
            if type(c) is not int or not (0 <= c < len(v.choices)): return ('disc', c)
        elif isinstance(v, PermutationVariable):
            if not isinstance(c, list) or sorted(c) != list(range(len(v.items))) or not all(type(i) is int for i in c): return ('perm', c)
    return None

class Rec(Task):
    def objective_function(self, x):
        m = member(self, x)
        if m is not None:
            CALLS.append((m, x))
        tot = 0.0
        for i, xi in enumerate(x):
            if isinstance(xi, (list, tuple, np.ndarray)):
                tot += float(sum((j + 1) * v for j, v in enumerate(xi)))
            else:
                tot += (i + 1) * float(xi) + 0.1 * float(xi) ** 2
        return tot

def tasks(minmax='min'):
    return {
     'cont': Rec(variables=[ContinuousMultiVariable(name='x', lower_bounds=[-5, 0, 1], upper_bounds=[5, 3, 2.5])], minmax=minmax, seed=3),
     'contzero': Rec(variables=[ContinuousMultiVariable(name='x', lower_bounds=[0, 0, -1], upper_bounds=[1, 3, 0])], minmax=minmax, seed=3),
     'single': Rec(variables=[ContinuousVariable(name='x', lower_bound=-2, upper_bound=3), ContinuousVariable(name='y', lower_bound=-2, upper_bound=3)], minmax=minmax, seed=3),
     'disc': Rec(variables=[DiscreteVariable(name='a', choices=['p','q','r']), DiscreteVariable(name='b', choices=[1,2,3,4,5])], minmax=minmax, seed=3),
     'discmulti': Rec(variables=[DiscreteMultiVariable(name='a', choices=[['p','q','r'],[1,2],[3,4,5,6]])], minmax=minmax, seed=3),
     'bin': Rec(variables=[BinaryVariable(name='b', n_vars=4)], minmax=minmax, seed=3),
     'mixed': Rec(variables=[ContinuousVariable(name='x', lower_bound=-2, upper_bound=3), DiscreteVariable(name='a', choices=['p','q','r']), BinaryVariable(name='b', n_vars=2), ContinuousMultiVariable(name='z', lower_bounds=[0,0], upper_bounds=[1,2])], minmax=minmax, seed=3),
     'perm': Rec(variables=[PermutationVariable(name='r', items=list('abcde'))], minmax=minmax, seed=3),
    }
import sys
kinds = sys.argv[1].split(',') if len(sys.argv) > 1 else list(tasks())
tab = collections.defaultdict(dict)
for name in sorted(OPTS):
    for kind in kinds:
        CALLS = []
        globals()['CALLS'] = CALLS
        t = tasks()[kind]
        o = make(name, max_cycles=4, fitness_error=None)
        try:
            with contextlib.redirect_stdout(io.StringIO()):
                r = o.optimize(t)
        except Exception as e:
            tb = traceback.extract_tb(e.__traceback__)
            fr = [f for f in tb if 'pyvolutionary' in f.filename][-1]
            tab[name][kind] = f"EXC {type(e).__name__} {fr.filename.split('/')[-1]}:{fr.lineno} {str(e)[:50]}"
            continue
        ncalls = len(CALLS); first = CALLS[:1]
        bad = [member(t, a.position) for g in r.evolution for a in g.agents]
        bad = [b for b in bad if b]
        costbad = sum(1 for g in r.evolution for a in g.agents if t.objective_function(a.position) != a.cost)
        tab[name][kind] = f"ok badpos={len(bad)} {bad[:1] if bad else ''} badcalls={ncalls} {first if ncalls else ''} costbad={costbad}"
for name in tab:
    for kind in tab[name]:
        if tab[name][kind] != "ok badpos=0  badcalls=0  costbad=0":
            print(name, kind, tab[name][kind])
