from common import *
import io, contextlib, collections, tempfile, os
import warnings; warnings.filterwarnings('ignore')
def run(o, t, **k):
    with contextlib.redirect_stdout(io.StringIO()):
        return o.optimize(t, **k)
for mode in ['thread', 'process']:
    for w in [1, 2, 4]:
        r = run(make('ParticleSwarmOptimization', max_cycles=2, fitness_error=None), cont_task(), mode=mode, workers=w)
        init = [tuple(a.position) for a in r.evolution[0].agents]
        print(mode, w, 'init distinct', len(set(init)), 'of', len(init), 'sizes', [len(g.agents) for g in r.evolution])
# hypertuner
class P(Task):
    def objective_function(self, x): return float(np.sum(np.array(x) ** 2))
for mm in ['min', 'max']:
  for nt in [1, 2]:
    t = P(variables=[ContinuousMultiVariable(name='x', lower_bounds=[-10]*3, upper_bounds=[10]*3)], minmax=mm)
    tuner = pv.HyperTuner(pv.BiogeographyBasedOptimization(), {"max_cycles": [2, 30], "population_size": [10, 40], "n_elites": [3], "p_m": [0.01]})
    try:
        with contextlib.redirect_stdout(io.StringIO()):
            tuner.execute(task=t, n_trials=nt)
        df = tuner._df_fit
        print(mm, nt, 'best', tuner.best_parameters, tuner.best_score, 'means', df['trial_mean'].tolist(), 'rank', df['rank_mean_std'].tolist())
    except Exception as e:
        print(mm, nt, 'EXC', type(e).__name__, str(e)[:100])
