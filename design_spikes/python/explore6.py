from common import *
import warnings; warnings.filterwarnings('ignore')
import io, contextlib, collections
np.seterr(all='ignore')
LOG = []
orig = OptimizationAbstract._init_agent
def wrapped(self, position=None):
    raw = None if position is None else (position.tolist() if isinstance(position, np.ndarray) else list(position))
    a = orig(self, position)
    LOG.append((raw, tuple(a.position), a.cost, a.fitness))
    return a
OptimizationAbstract._init_agent = wrapped
def flat(x):
    for e in x:
        if isinstance(e, (list, tuple, np.ndarray)): yield from flat(e)
        else: yield e
for kind, mk in [('cont', lambda: cont_task(d=3, lb=0, ub=4)), ('max', lambda: cont_task('max'))]:
    for name in sorted(OPTS):
        LOG.clear()
        t = mk()
        try:
            with contextlib.redirect_stdout(io.StringIO()):
                r = make(name, max_cycles=4, fitness_error=None).optimize(t)
        except Exception as e:
            print(kind, name, 'EXC', type(e).__name__); continue
        made = {(p, c, f) for _, p, c, f in LOG}
        sgn = -1 if kind == 'max' else 1
        orphan = sum(1 for g in r.evolution for a in g.agents if (tuple(a.position), sgn * a.cost, a.fitness) not in made)
        nan_raw = sum(1 for raw, *_ in LOG if raw is not None and any(isinstance(v, float) and v != v for v in flat(raw)))
        short = sum(1 for raw, *_ in LOG if raw is not None and len(raw) < 3)
        long_ = sum(1 for raw, *_ in LOG if raw is not None and len(raw) > 3)
        nan_cost = sum(1 for _, p, c, f in LOG if c != c)
        nan_in_pop = sum(1 for g in r.evolution for a in g.agents if a.cost != a.cost)
        fl = []
        if orphan: fl.append(f'orphans={orphan}')
        if nan_raw: fl.append(f'nan_raw={nan_raw}')
        if short or long_: fl.append(f'short={short} long={long_}')
        if nan_cost: fl.append(f'nan_cost={nan_cost}')
        if nan_in_pop: fl.append(f'NAN_IN_POP={nan_in_pop}')
        if fl: print(kind, name, f'inits={len(LOG)}', *fl)
