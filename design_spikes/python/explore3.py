from common import *
import warnings; warnings.filterwarnings('ignore')
import io, contextlib
np.seterr(all='ignore')
class F(Task):
    def objective_function(self, x):
        return float(sum((i+1)*(xi - 0.5) ** 2 + xi for i, xi in enumerate(x)))
class NF(Task):
    def objective_function(self, x):
        return -float(sum((i+1)*(xi - 0.5) ** 2 + xi for i, xi in enumerate(x)))
def T(cls=F, minmax='min', seed=7):
    return cls(variables=[ContinuousMultiVariable(name='x', lower_bounds=[-5, -1, 1], upper_bounds=[5, 3, 2.5])], minmax=minmax, seed=seed)
def run(o, t):
    with contextlib.redirect_stdout(io.StringIO()):
        return o.optimize(t)
def sig(r, neg=False):
    s = -1 if neg else 1
    return [[(tuple(a.position), s*a.cost) for a in g.agents] for g in r.evolution], list(r.rates)
def reset(o):
    o._current_cycle = 1; o._errors = []; o._error_diffs = []
for name in sorted(OPTS):
    out = [name]
    try:
        kw = dict(max_cycles=4, fitness_error=None)
        a = sig(run(make(name, **kw), T()))
        b = sig(run(make(name, **kw), T()))
        out.append('det' if a == b else 'NONDET')
        o = make(name, **kw)
        r1 = run(o, T()); 
        r2raw = run(o, T())
        out.append(f'2nd:gens={len(r2raw.evolution)},rates={len(r2raw.rates)}')
        o = make(name, **kw)
        run(o, T()); reset(o); r2 = sig(run(o, T()))
        out.append('reuse_ok' if r2 == a else 'REUSE_DIFF')
        # other task first
        o = make(name, **kw)
        run(o, cont_task(d=5)); reset(o); r3 = sig(run(o, T()))
        out.append('reuse2_ok' if r3 == a else 'REUSE2_DIFF')
        # duality
        mx = sig(run(make(name, **kw), T(NF, 'max')))
        pa = [[p for p, c in g] for g in a[0]]; pm = [[p for p, c in g] for g in mx[0]]
        ca = [[c for p, c in g] for g in a[0]]; cm = [[-c for p, c in g] for g in mx[0]]
        out.append('dual_ok' if (pa == pm and ca == cm) else ('DUAL_DIFF pos' if pa != pm else 'DUAL_DIFF cost'))
        # ctor vs set_config
        cname, d = CFGS[name]; d = dict(d); d.update(kw)
        try:
            o2 = OPTS[name]()
            try:
                run(o2, T()); out.append('NOCFG_RAN')
            except ValueError: pass
            o2.set_config_parameters(d)
            eq = o2.configuration == getattr(pv, cname)(**d)
            rs = sig(run(o2, T()))
            out.append('setcfg_ok' if rs == a and eq else f'SETCFG_DIFF eq={eq}')
        except Exception as e:
            out.append(f'CTOR_EXC {type(e).__name__}')
    except Exception as e:
        out.append(f'EXC {type(e).__name__} {str(e)[:60]}')
    print(*out)
