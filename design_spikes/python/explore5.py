from common import *
import warnings; warnings.filterwarnings('ignore')
import io, contextlib, collections, sys
np.seterr(all='ignore')
mode = sys.argv[1]
for name in sorted(OPTS):
    t = cont_task('max' if mode == 'max' else 'min')
    o = make(name, max_cycles=3, fitness_error=None)
    try:
        with contextlib.redirect_stdout(io.StringIO()):
            r = o.optimize(t, mode=None if mode in ('max',) else mode, workers=3)
    except Exception as e:
        print(name, 'EXC', type(e).__name__, str(e)[:80]); continue
    ps = CFGS[name][1]['population_size']
    sizes = [len(g.agents) for g in r.evolution]
    bad = sum(1 for g in r.evolution for a in g.agents if t.objective_function(a.position) != a.cost)
    last = [a.cost for a in r.evolution[-1].agents]
    bestok = r.best_solution.cost == (max(last) if mode == 'max' else min(last))
    inl = any(a.position == r.best_solution.position and a.cost == r.best_solution.cost for a in r.evolution[-1].agents)
    bests = [(max if mode=='max' else min)(a.cost for a in g.agents) for g in r.evolution]
    mono = all((bests[i+1] >= bests[i]) if mode=='max' else (bests[i+1] <= bests[i]) for i in range(len(bests)-1))
    trend = pv.best_agent_trend(r)
    flags = []
    if len(set(sizes)) > 1 or sizes[0] != ps: flags.append(f'sizes={sizes}')
    if bad: flags.append(f'costbad={bad}')
    if not (bestok and inl): flags.append(f'best bestok={bestok} in={inl}')
    if not mono: flags.append('nonmono')
    if trend[-1] != r.best_solution.cost: flags.append('trend!=best')
    dup = len(set(tuple(a.position) for a in r.evolution[0].agents))
    if dup != sizes[0]: flags.append(f'initdistinct={dup}/{sizes[0]}')
    if flags: print(name, *flags)
