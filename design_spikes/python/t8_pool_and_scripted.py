from common import *
import io, contextlib, random as pyr
import pyvolutionary.abstract as ab
import concurrent.futures as cf
import warnings; warnings.filterwarnings('ignore')
ORDERS = []
def permuted(executors):
    cf.wait(executors)
    idx = list(range(len(executors)))
    pyr.Random(SEED).shuffle(idx)
    ORDERS.append(idx[:5])
    return [executors[i].result() for i in idx]
ab.get_pool_results = permuted
for SEED in (1, 2):
    for mode in ('thread', 'process'):
        o = make('ZebraOptimization', max_cycles=2, fitness_error=None)
        with contextlib.redirect_stdout(io.StringIO()):
            r = o.optimize(cont_task(), mode=mode, workers=3)
        print(SEED, mode, [len(g.agents) for g in r.evolution], ORDERS[-1])
# scripted optimizer
class Scripted(OptimizationAbstract):
    def __init__(self, cfg, script):
        super().__init__(cfg); self.script = list(script); self.steps = 0
    def set_config_parameters(self, p): self._config = BaseOptimizationConfig(**p)
    def _mk(self, fits):
        return [Agent(position=[0.0], cost=(1/f - 1), fitness=f) for f in fits]
    def _init_population(self): self._population = self._mk(self.script[0])
    def optimization_step(self):
        self.steps += 1; self._population = self._mk(self.script[min(self.steps, len(self.script)-1)])
cfg = BaseOptimizationConfig(population_size=2, max_cycles=5, fitness_error=None, early_stopping=EarlyStopping(patience=2, min_delta=0.2))
s = Scripted(cfg, [[0.5,0.5],[0.5,0.25],[0.5,0.5],[0.5,0.625],[0.5,0.75],[1,1]])
with contextlib.redirect_stdout(io.StringIO()):
    r = s.optimize(cont_task(d=1))
print('scripted steps', s.steps, 'rates', r.rates, 'gens', len(r.evolution))
