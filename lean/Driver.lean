import Driver.Main
