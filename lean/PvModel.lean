import PvModel.Num
import PvModel.Sort
import PvModel.Vars
import PvModel.Task
import PvModel.Props.C13
import PvModel.Props.C14
