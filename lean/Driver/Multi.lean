import Driver.Proto
import PvModel.Multi
/-!
# Driver handlers for `PvModel.Multi` (ops `multi.*`, suite S-multi, property C20)

`modes` crosses as `null` (None), `{"notTuple": true}` (any non-tuple) or an array of strings (a tuple).
-/
open Lean Proto Multi

namespace Driver

def getModesArg (j : Json) : Except String (ModesArg String) :=
  match j with
  | .null => .ok .none
  | .arr a => do .ok (.tuple (← a.toList.mapM getStr))
  | _ => .ok .notTuple

def getOptNat (j : Json) : Except String (Option Nat) :=
  match j with
  | .null => .ok none
  | _ => do .ok (some (← getNat j))

def getOptStr (j : Json) : Except String (Option String) :=
  match j with
  | .null => .ok none
  | _ => do .ok (some (← getStr j))

def rTable (t : Option (List (List String))) : Json :=
  match t with
  | none => .null
  | some t => rList (rList Json.str) t

def rCall (c : Call) : Json :=
  Json.mkObj [("alg", .str c.algName), ("task", .str c.taskName), ("mode", .str c.mode.toString),
    ("workers", match c.workers with | none => .null | some w => rNat w)]

def rCell (c : Cell Call) : Json :=
  Json.mkObj [("id_trial", rNat c.idTrial), ("problem_name", .str c.problemName), ("solution", rCall c.solution)]

def rTables (ts : List (Table Call)) : Json :=
  rList (fun (tb : Table Call) => rList (fun (col : String × List (Cell Call)) => Json.arr #[.str col.1, rList rCell col.2]) tb) ts

/-- consecutive equal entries collapsed into `[entry, count]` (the trials of one pair run concurrently) -/
def collapse : List Json → List (Json × Nat)
  | [] => []
  | x :: rest =>
    match collapse rest with
    | (y, k) :: more => if x.compress = y.compress then (y, k + 1) :: more else (x, 1) :: (y, k) :: more
    | [] => [(x, 1)]

def rLog (log : List Call) : Json :=
  rList (fun (p : Json × Nat) => Json.arr #[p.1, rNat p.2]) (collapse (log.map rCall))

def handleMulti (op : String) (j : Json) : Except String Json := do
  match op with
  | "multi.construct" =>   -- `_modes` after `__init__`, or the error
    let n ← getNat (← field j "n")
    let m ← getNat (← field j "m")
    let arg ← getModesArg (← field j "modes")
    .ok (rExcept (fun t => Json.mkObj [("modes", rTable t)]) (construct n m arg))
  | "multi.getmodes" =>    -- `[[str(__get_mode__(i, j)) for j in range(m)] for i in range(n)]` after construction
    let n ← getNat (← field j "n")
    let m ← getNat (← field j "m")
    let arg ← getModesArg (← field j "modes")
    let r : Except Err (List (List String)) := do
      let t ← construct n m arg
      (List.range n).mapM (fun i => (List.range m).mapM (fun k => do .ok (← getMode t i k).toString))
    .ok (rExcept (rList (rList Json.str)) r)
  | "multi.execute" =>     -- construct, then `execute(n_trials)` `times` times on the same instance
    let algs ← (← getArr (← field j "algs")).mapM getStr
    let tasks ← (← getArr (← field j "tasks")).mapM getStr
    let arg ← getModesArg (← field j "modes")
    let w ← getOptNat (← field j "workers")
    let k ← getNat (← field j "n_trials")
    let times ← getNat (← field j "times")
    let r : Except Err (List (Table Call) × List Call) := do
      let t ← construct algs.length tasks.length arg
      (List.range times).foldlM (fun (st : List (Table Call) × List Call) _ => do
        let (df2, log) ← executeFrom (fun c => c) t w algs tasks k st.1
        .ok (df2, st.2 ++ log)) ([], [])
    .ok (rExcept (fun (st : List (Table Call) × List Call) => Json.mkObj [("tables", rTables st.1), ("log", rLog st.2)]) r)
  | "multi.export" =>
    let saveAs ← getStr (← field j "save_as")
    let sp ← getOptStr (← field j "save_path")
    let names ← (← getArr (← field j "names")).mapM getStr
    let stamps ← (← getArr (← field j "stamps")).mapM getStr   -- observed `datetime.now()` texts, one per iteration
    let nt ← getNat (← field j "n_tables")
    .ok (rExcept (rList (fun (e : Export) => Json.mkObj [("dir", .str e.dir), ("file", .str e.file), ("table", rNat e.table)]))
      (exportResults saveAs sp names (fun i => stamps.getD i "?") nt))
  | _ => err s!"unknown op {op}"

end Driver
