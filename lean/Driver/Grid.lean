import Driver.Proto
import PvModel.Grid
/-!
# Driver handlers for `grid.*` (ParameterGrid) and `tuner.*` (HyperTuner selection / execute)

Requests
* `grid.iter | grid.len | grid.valid`  `{"grid": [[[key, [v, …]], …], …]}` — values are arbitrary JSON, passed through.
* `grid.getitem`                        `… , "i": int`
* `grid.all`                            `… , "lo": int, "hi": int` → `{"valid","iter","len","getitem":[…lo..hi]}`
* `tuner.select`   `{"dir": "min"|"max", "scores": [[bits,…],…], "stds": [bits,…]}` → ranks (doubled), dense ranks per row,
                    the best rows, the reported row for the code as repaired and as pinned, and the exact means.
* `tuner.execute`  same + `"n": trials`: the scripted run function is the table itself (`run (some i) t = scores[i][t]`).
-/
open Lean Proto Grid

namespace Driver

def getSubGrid (j : Json) : Except String (SubGrid Json) := do
  (← getArr j).mapM (fun kv => do
    match (← getArr kv) with
    | [k, vs] => .ok ((← getStr k), (← getArr vs))
    | _ => err s!"bad grid item {kv}")

def getGrid (j : Json) : Except String (PGrid Json) := do (← getArr j).mapM getSubGrid

def rPoint (p : Point Json) : Json := rList (fun kv => Json.arr #[.str kv.1, kv.2]) p

def rPyExcept (f : α → Json) : Except PyErr α → Json
  | .ok a => f a
  | .error e => Json.mkObj [("err", .str e.render)]

def rRat (q : Rat) : Json := .str (toString q.num ++ "/" ++ toString q.den)

def getRatBits (j : Json) : Except String Rat := do
  match (← getNum j) with
  | .fin q => .ok q
  | x => err s!"not a finite double: {x.render}"

def getStd (j : Json) : Except String (Option Rat) := do
  match (← getNum j) with
  | .fin q => .ok (some q)
  | .nan => .ok none
  | x => err s!"infinite std: {x.render}"

def getTunerDir (j : Json) : Except String Dir := do
  match (← getStr j) with
  | "min" => .ok .min
  | "max" => .ok .max
  | s => err s!"bad dir {s}"

def rOptNat : Option Nat → Json
  | some n => rNat n
  | none => .null

/-- dense rank of each row, in row order -/
def denseByRow (tupAsc : Bool) (keys : List Key) : List (Option Nat) :=
  let d := denseRanks tupAsc keys
  (List.range keys.length).map (fun i => (d.find? (fun p => p.1 == i)).map (·.2))

def handleGrid (op : String) (j : Json) : Except String Json := do
  if op.startsWith "grid." then
    let g ← getGrid (← field j "grid")
    match op with
    | "grid.iter" => .ok (rList rPoint (iter g))
    | "grid.len" => .ok (rNat (len g))
    | "grid.valid" => .ok (rPyExcept (fun _ => Json.bool true) (mk g))
    | "grid.getitem" => .ok (rPyExcept rPoint (getitem g (← getInt (← field j "i"))))
    | "grid.all" =>
      let lo ← getInt (← field j "lo")
      let hi ← getInt (← field j "hi")
      let idx := (List.range (hi - lo + 1).toNat).map (fun (k : Nat) => lo + Int.ofNat k)
      .ok (Json.mkObj [("valid", rPyExcept (fun _ => Json.bool true) (mk g)), ("iter", rList rPoint (iter g)), ("len", rNat (len g)),
        ("getitem", rList (fun i => rPyExcept rPoint (getitem g i)) idx)])
    | _ => err s!"unknown op {op}"
  else
    let dir ← getTunerDir (← field j "dir")
    let scores ← (← getArr (← field j "scores")).mapM (fun r => do (← getArr r).mapM getRatBits)
    let stds ← (← getArr (← field j "stds")).mapM getStd
    let means := scores.map mean
    match op with
    | "tuner.select" =>
      let asc := dir.ascending
      let keys := keysOf asc means stds
      .ok (Json.mkObj [
        ("means", rList rRat means),
        ("rank_mean2", rList rOptNat (rankCol asc (means.map some))),
        ("rank_std2", rList rOptNat (rankCol asc stds)),
        ("dense", rList rOptNat (denseByRow true keys)),
        ("dense_pinned", rList rOptNat (denseByRow asc keys)),
        ("best_rows", rList rNat (bestRows true keys)),
        ("best", rOptNat (selectBest dir means stds)),
        ("best_pinned", rOptNat (selectBestPinned dir means stds))])
    | "tuner.execute" =>
      let n ← getNat (← field j "n")
      let run : Option Nat → Nat → Rat := fun c t => match c with
        | some i => (scores.getD i []).getD t 0
        | none => 0
      let points := List.range scores.length
      let rEvent : Event Nat → Json := fun e => match e with
        | .setConfig p => Json.arr #[.str "set", rNat p]
        | .optimize c t => Json.arr #[.str "run", rOptNat c, rNat t]
      .ok (rPyExcept (fun (o : Outcome Nat) => Json.mkObj [
        ("log", rList rEvent o.state.log),
        ("table", rList (fun (r : Nat × List Rat) => Json.arr #[rNat r.1, rList rRat r.2]) o.state.table),
        ("best", rNat o.bestParams), ("score", rRat o.bestScore),
        ("resolve", rList rEvent (resolve o))]) (execute run dir n points stds {}))
    | _ => err s!"unknown op {op}"

end Driver
