import Driver.Proto
import PvModel.Loop
import PvModel.Utils
import PvModel.Pool
import PvModel.Accept
import PvModel.PopExp
/-! Driver handlers for the selection helpers / combinators (`sel.*`) and the optimise loop (`loop.*`). -/
open Lean Proto

namespace Driver

def getDir (j : Json) : Except String Dir := do
  match (← getStr j) with
  | "min" => .ok .min
  | "max" => .ok .max
  | s => err s!"bad dir {s}"

/-- an agent as the harness sends it: `{"c": cost bits, "f": fitness bits, "t": tag}` -/
def getAgent (j : Json) : Except String Agent := do
  let c ← getNum (← field j "c")
  let f ← match j.getObjVal? "f" with | .ok v => getNum v | .error _ => pure (Num.fin 0)
  let t ← getNat (← field j "t")
  .ok { position := [], cost := c, fitness := f, tag := t }

def getPop (j : Json) : Except String (List Agent) := do (← getArr j).mapM getAgent

def rTags (l : List Agent) : Json := rList (fun a => rNat a.tag) l
def rAgentTC (a : Agent) : Json := Json.arr #[rNat a.tag, rNum a.cost]

def handleSel (op : String) (j : Json) : Except String Json := do
  let pop ← getPop (← field j "pop")
  let d ← match j.getObjVal? "dir" with | .ok v => getDir v | .error _ => pure Dir.min
  let n ← match j.getObjVal? "n" with | .ok v => getNat v | .error _ => pure 0
  match op with
  | "sel.sort" => .ok (rTags (sortByCost d pop))
  | "sel.sortIdx" => .ok (rList rNat (sortByCostIndexes d pop))
  | "sel.trim" => .ok (rTags (sortAndTrim pop n))
  | "sel.best" => .ok (rTags (bestAgents d pop n))
  | "sel.worst" => .ok (rTags (worstAgents d pop n))
  | "sel.bestIdx" => .ok (rList rNat (bestAgentsIndexes d pop n))
  | "sel.worstIdx" => .ok (rList rNat (worstAgentsIndexes d pop n))
  | "sel.best1" => .ok (rExcept (fun a => rNat a.tag) (bestAgent d pop))
  | "sel.worst1" => .ok (rExcept (fun a => rNat a.tag) (worstAgent d pop))
  | "sel.special" =>
    let nb ← match j.getObjVal? "nb" with | .ok .null => pure none | .ok v => do pure (some (← getNat v)) | .error _ => pure none
    let nw ← match j.getObjVal? "nw" with | .ok .null => pure none | .ok v => do pure (some (← getNat v)) | .error _ => pure none
    .ok (rExcept (fun (p : List Agent × List Agent) => Json.arr #[rTags p.1, rTags p.2]) (specialAgents d pop nb nw))
  | "sel.greedy1" =>
    match pop with
    | [a, b] => .ok (rNat (greedyAgent a b).tag)
    | _ => err "sel.greedy1 needs two agents"
  | "sel.greedyPop" =>
    let new ← getPop (← field j "new")
    .ok (rExcept rTags (greedyPopulation pop new))
  | "sel.group" =>
    let ps ← getNat (← field j "ps")
    let ng ← getNat (← field j "nGroups")
    let na ← getNat (← field j "nAgents")
    let wr ← match j.getObjVal? "withResidual" with | .ok (.bool b) => pure b | _ => pure true
    .ok (match groupPopulation pop ps ng na wr with
      | some gs => rList rTags gs
      | none => Json.mkObj [("err", "ZeroDivisionError")])
  | "sel.extendTrim" =>
    let new ← getPop (← field j "new")
    .ok (rTags (extendTrim pop new n))
  | "sel.replaceTrim" =>
    let new ← getPop (← field j "new")
    .ok (rTags (replaceTrim new n))
  | _ => err s!"unknown op {op}"

/-! ### the optimise loop on a scripted optimizer -/

def floatArith : Arith Float :=
  { sub := (· - ·), abs := Float.abs, lt := (· < ·), le := (· ≤ ·), zero := 0.0 }

def getFloat (j : Json) : Except String Float := do
  let b ← getNat j
  .ok (Float.ofBits b.toUInt64)

def rFloat (x : Float) : Json := rNat x.toBits.toNat

/-- `np.average` of the fitnesses followed by `abs(1 - avg)`; the harness scripts dyadic fitness values so the sum is exact
in any order. -/
def rateOf (fit : Array Float) (pop : List Agent) : Float :=
  let s := pop.foldl (fun acc a => acc + fit.getD a.tag 0.0) 0.0
  Float.abs (1.0 - s / pop.length.toFloat)

def handleLoop (op : String) (j : Json) : Except String Json := do
  match op with
  | "loop.run" =>
    let gensJ ← getArr (← field j "gens")
    let gens ← gensJ.mapM getPop
    -- fitness floats by tag
    let mut fit : Array Float := #[]
    for g in gensJ do
      for a in (← getArr g) do
        let t ← getNat (← field a "t")
        let f ← getFloat (← field a "f")
        if t ≠ fit.size then throw s!"tags must be consecutive: {t} vs {fit.size}"
        fit := fit.push f
    let d ← getDir (← field j "dir")
    let mc ← getInt (← field j "maxCycles")
    let fe ← match j.getObjVal? "fe" with | .ok .null => pure none | .ok v => do pure (some (← getFloat v)) | .error _ => pure none
    let es ← match j.getObjVal? "es" with
      | .ok .null => pure none
      | .ok v => do pure (some ({ patience := (← getNat (← field v "patience")), minDelta := (← getFloat (← field v "minDelta")) } : ES Float))
      | .error _ => pure none
    let hasCfg ← match j.getObjVal? "hasConfig" with | .ok (.bool b) => pure b | _ => pure true
    let workers ← match j.getObjVal? "workers" with | .ok .null => pure none | .ok v => do pure (some (← getInt v)) | .error _ => pure none
    let modeValid ← match j.getObjVal? "modeValid" with | .ok (.bool b) => pure (some b) | _ => pure none
    let cfg : StopCfg Float := { maxCycles := mc, fe := fe, es := es }
    let alg : Alg Nat :=
      { init := fun _ => match gens with | [] => .error .indexError | _ => .ok 0
        step := fun s => if s + 1 < gens.length then .ok (s + 1) else .error .indexError
        pop := fun s => gens.getD s [] }
    let r := optimize floatArith cfg alg (rateOf fit) d { hasConfig := hasCfg, workers := workers, modeValid := modeValid } 0
    .ok (rExcept (fun (p : Result Float × Nat × Book Float) =>
      Json.mkObj [("evolution", rList (rList rAgentTC) p.1.evolution), ("rates", rList rFloat p.1.rates),
                  ("best", rAgentTC p.1.best), ("steps", rNat p.2.1)]) r)
  | "loop.firststop" =>
    -- the declarative criterion on a REPORTED rate history (`C04.c04_reported`): first cycle at which a configured criterion holds
    let rates ← (← getArr (← field j "rates")).mapM getFloat
    let mc ← getInt (← field j "maxCycles")
    let fe ← match j.getObjVal? "fe" with | .ok .null => pure none | .ok v => do pure (some (← getFloat v)) | .error _ => pure none
    let es ← match j.getObjVal? "es" with
      | .ok .null => pure none
      | .ok v => do pure (some ({ patience := (← getNat (← field v "patience")), minDelta := (← getFloat (← field v "minDelta")) } : ES Float))
      | .error _ => pure none
    let cfg : StopCfg Float := { maxCycles := mc, fe := fe, es := es }
    .ok (Json.mkObj [("first", match firstStop floatArith cfg rates with | some n => rNat n | none => Json.null)])
  | "run.accept" =>
    -- the proved-sound acceptor (PvModel/Accept.lean) on one traced run
    let t ← getTask (← field j "task")
    let vars := t.getVariables
    let getEv (e : Json) : Except String InitEv := do
      let raw ← match e.getObjVal? "raw" with
        | .ok .null => pure none
        | .ok v => do pure (some (← (← getArr v).mapM getRaw))
        | .error _ => pure none
      .ok { raw := raw, pos := (← (← getArr (← field e "pos")).mapM getCoord), cost := (← getNum (← field e "cost")), fit := (← getNum (← field e "fit")) }
    let getRep (e : Json) : Except String Reported := do
      .ok { pos := (← (← getArr (← field e "pos")).mapM getCoord), cost := (← getNum (← field e "cost")), fit := (← getNum (← field e "fit")) }
    let inits ← (← getArr (← field j "inits")).mapM getEv
    let gens ← (← getArr (← field j "gens")).mapM (fun g => do (← getArr g).mapM getRep)
    let tr : RunTrace := { inits := inits, gens := gens }
    let badInit := (inits.zipIdx.filter (fun p => !initOK vars p.1)).map (·.2)
    let orphans := (gens.zipIdx.flatMap (fun g => (g.1.zipIdx.filter (fun a => !fromInit inits a.1)).map (fun a => (g.2, a.2))))
    .ok (Json.mkObj [("accept", .bool (acceptRun vars tr)), ("badInit", rList rNat (badInit.take 3)),
                     ("orphans", rList (fun (p : Nat × Nat) => Json.arr #[rNat p.1, rNat p.2]) (orphans.take 3))])
  | "pool.greedy" =>
    let pop ← getPop (← field j "pop")
    let new ← getPop (← field j "new")
    let σ ← getNats (← field j "sigma")
    .ok (rExcept rTags (greedyPopulationPooled pop new σ))
  | "loop.trend" =>
    -- the trend utilities on a recorded evolution: costs of the idx-th best agent of each requested generation
    let gens ← (← getArr (← field j "gens")).mapM getPop
    let d ← getDir (← field j "dir")
    let idx ← getNat (← field j "idx")
    let iters ← match j.getObjVal? "iters" with | .ok .null => pure (allIters gens) | .ok v => getNats v | .error _ => pure (allIters gens)
    .ok (rExcept (rList rNum) (agentTrend d gens idx iters))
  | _ => err s!"unknown op {op}"

end Driver
