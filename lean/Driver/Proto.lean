import Lean.Data.Json
import PvModel.Task
/-!
# Line protocol helpers: JSON ⇄ model values.

Doubles cross the boundary as their 64-bit pattern (a JSON integer); the model answers with exact rationals
(`"num/den"`), `"nan"`, `"inf"`, `"-inf"`. The Python harness renders its own results in the same canonical form.
-/
open Lean

namespace Proto

def err (s : String) : Except String α := .error s

def getNat (j : Json) : Except String Nat :=
  match j with
  | .num n => if n.exponent = 0 ∧ 0 ≤ n.mantissa then .ok n.mantissa.toNat else err s!"not a nat: {j}"
  | _ => err s!"not a nat: {j}"

def getInt (j : Json) : Except String Int :=
  match j with
  | .num n => if n.exponent = 0 then .ok n.mantissa else err s!"not an int: {j}"
  | _ => err s!"not an int: {j}"

def getNum (j : Json) : Except String Num := do .ok (Num.ofBits (← getNat j))

def getArr (j : Json) : Except String (List Json) :=
  match j with
  | .arr a => .ok a.toList
  | _ => err s!"not an array: {j}"

def getStr (j : Json) : Except String String :=
  match j with
  | .str s => .ok s
  | _ => err s!"not a string: {j}"

def field (j : Json) (k : String) : Except String Json :=
  match j.getObjVal? k with
  | .ok v => .ok v
  | .error _ => err s!"missing field {k}"

def getNums (j : Json) : Except String (List Num) := do (← getArr j).mapM getNum
def getNats (j : Json) : Except String (List Nat) := do (← getArr j).mapM getNat
def getInts (j : Json) : Except String (List Int) := do (← getArr j).mapM getInt

def getRaw (j : Json) : Except String Raw :=
  match j with
  | .arr _ => do .ok (.vec (← getNums j))
  | _ => do .ok (.scalar (← getNum j))

/-- a corrected coordinate as the harness sends it: `{"f": bits}` float, `{"i": n}` int, `{"p": [..]}` permutation -/
def getCoord (j : Json) : Except String Coord :=
  match j.getObjVal? "f" with
  | .ok v => do .ok (.num (← getNum v))
  | .error _ =>
    match j.getObjVal? "i" with
    | .ok v => do .ok (.int (← getInt v))
    | .error _ =>
      match j.getObjVal? "p" with
      | .ok v => do .ok (.ints (← getInts v))
      | .error _ => err s!"bad coord {j}"

def getVar (j : Json) : Except String Var := do
  let k ← getStr (← field j "k")
  match k with
  | "cont" => .ok (.cont (← getNum (← field j "lb")) (← getNum (← field j "ub")))
  | "disc" => .ok (.disc (← getNat (← field j "n")))
  | "perm" => .ok (.perm (← getNat (← field j "n")))
  | _ => err s!"bad var kind {k}"

def getVarDecl (j : Json) : Except String VarDecl := do
  let k ← getStr (← field j "k")
  match k with
  | "cont" => .ok (.cont (← getNum (← field j "lb")) (← getNum (← field j "ub")))
  | "contMulti" => .ok (.contMulti (← getNums (← field j "lbs")) (← getNums (← field j "ubs")))
  | "multiObj" => .ok (.multiObj (← getNums (← field j "lbs")) (← getNums (← field j "ubs")))
  | "disc" => .ok (.disc (← getNat (← field j "n")))
  | "discMulti" => .ok (.discMulti (← getNats (← field j "ns")))
  | "perm" => .ok (.perm (← getNat (← field j "n")))
  | "binary" => .ok (.binary (← getInt (← field j "n")))
  | _ => err s!"bad decl kind {k}"

def getTask (j : Json) : Except String TaskDecl := do
  .ok { vars := (← (← getArr j).mapM getVarDecl) }

/-! ### rendering -/

def rNum (x : Num) : Json := .str x.render
def rInt (i : Int) : Json := .num ⟨i, 0⟩
def rNat (n : Nat) : Json := .num ⟨n, 0⟩
def rList (f : α → Json) (l : List α) : Json := .arr (l.map f).toArray

def rCoord : Coord → Json
  | .num x => rNum x
  | .int i => rInt i
  | .ints l => rList rInt l

def rErr (e : Err) : Json := Json.mkObj [("err", .str e.render)]

def rExcept (f : α → Json) : Except Err α → Json
  | .ok a => f a
  | .error e => rErr e

def rBEntry : BEntry → Json
  | .scalar x => rNum x
  | .vec xs => rList rNum xs

def rDecoded : TaskDecl.Decoded → Json
  | .num x => rNum x
  | .nums xs => rList rNum xs
  | .choice i => Json.mkObj [("c", rNat i)]
  | .choices is => rList (fun i => Json.mkObj [("c", rNat i)]) is
  | .labels is => rList (fun i => Json.mkObj [("l", rNat i)]) is

end Proto
