import Driver.Proto
import Driver.Select
import Driver.Multi
import Driver.Grid
import PvModel.Labels
/-!
# Model driver: one JSON request per line on stdin → one canonical JSON answer per line on stdout.
-/
open Lean Proto

namespace Driver

def handleVars (op : String) (j : Json) : Except String Json := do
  match op with
  | "var.correct" =>
    let v ← getVar (← field j "var")
    let x ← getRaw (← field j "x")
    .ok (rExcept rCoord (v.correct x))
  | "var.correct2" =>   -- correct ∘ correct
    let v ← getVar (← field j "var")
    let x ← getRaw (← field j "x")
    .ok (rExcept rCoord (do let y ← v.correct x; v.correct y.toRaw))
  | "var.mem" =>
    let v ← getVar (← field j "var")
    let c ← getCoord (← field j "c")
    .ok (.bool (v.mem c))
  | "decl.correct" =>   -- multi/binary variables: `[v.correct(value[idx]) for idx, v in enumerate(children)]`
    let d ← getVarDecl (← field j "decl")
    let xs ← (← getArr (← field j "x")).mapM getRaw
    .ok (rExcept (rList rCoord) (TaskDecl.correctList xs d.children))
  | "decl.valid" => .ok (.bool (← getVarDecl (← field j "decl")).valid)
  | "decl.size" => .ok (rNat (← getVarDecl (← field j "decl")).size)
  | "decl.children" =>
    let d ← getVarDecl (← field j "decl")
    .ok (rList (fun (v : Var) => match v with
      | .cont lb ub => Json.mkObj [("k", "cont"), ("lb", rNum lb), ("ub", rNum ub)]
      | .disc n => Json.mkObj [("k", "disc"), ("n", rNat n)]
      | .perm n => Json.mkObj [("k", "perm"), ("n", rNat n)]) d.children)
  | _ => err s!"unknown op {op}"

def handleLabel (op : String) (j : Json) : Except String Json := do
  let e : Encoder Nat := ⟨← getNats (← field j "labels")⟩
  match op with
  | "label.transform" =>
    let y ← getNats (← field j "y")
    .ok (match e.transform y with | some is => rList rNat is | none => Json.mkObj [("err", "KeyError")])
  | "label.inverse" =>
    let is ← getNats (← field j "y")
    .ok (rList (fun (o : Option Nat) => match o with | some c => rNat c | none => Json.null) (e.inverseTransform is))
  | _ => err s!"unknown op {op}"

def handleTask (op : String) (j : Json) : Except String Json := do
  let t ← getTask (← field j "task")
  match op with
  | "task.dim" => .ok (rNat t.dim)
  | "task.valid" => .ok (.bool t.valid)
  | "task.bounds" =>
    let pu ← getNums (← field j "permUb")   -- observed `n - 1e-4`, indexed by n
    let f := fun (n : Nat) => pu.getD n .nan
    .ok (rExcept (fun (p : List BEntry × List BEntry) => Json.arr #[rList rBEntry p.1, rList rBEntry p.2]) (t.getBounds f))
  | "task.correct" =>
    let xs ← (← getArr (← field j "x")).mapM getRaw
    .ok (rExcept (rList rCoord) (t.correctSolution xs))
  | "task.correct2" =>
    let xs ← (← getArr (← field j "x")).mapM getRaw
    .ok (rExcept (rList rCoord) (do let y ← t.correctSolution xs; t.correctSolution (y.map Coord.toRaw)))
  | "task.mem" =>
    let cs ← (← getArr (← field j "c")).mapM getCoord
    let vs := t.getVariables
    .ok (.bool (decide (cs.length = vs.length) && (cs.zip vs).all (fun p => p.2.mem p.1)))
  | "task.transform" =>
    let cs ← (← getArr (← field j "c")).mapM getCoord
    .ok (rExcept (rList (fun (p : Nat × TaskDecl.Decoded) => Json.arr #[rNat p.1, rDecoded p.2])) (t.transformSolution cs))
  | _ => err s!"unknown op {op}"

def handle (line : String) : String :=
  match Json.parse line with
  | .error e => "{\"bad\":" ++ (Json.str e).compress ++ "}"
  | .ok j =>
    let r : Except String Json := do
      let op ← getStr (← field j "op")
      if op.startsWith "var." || op.startsWith "decl." then handleVars op j
      else if op.startsWith "task." then handleTask op j
      else if op.startsWith "label." then handleLabel op j
      else if op.startsWith "multi." then handleMulti op j
      else if op.startsWith "grid." || op.startsWith "tuner." then handleGrid op j
      else if op.startsWith "sel." then handleSel op j
      else if op.startsWith "loop." || op.startsWith "pool." || op.startsWith "run." then handleLoop op j
      else err s!"unknown op {op}"
    match r with
    | .ok v => v.compress
    | .error e => "{\"bad\":" ++ (Json.str e).compress ++ "}"

partial def loop (h : IO.FS.Stream) (out : IO.FS.Stream) : IO Unit := do
  let line ← h.getLine
  if line.isEmpty then return ()
  out.putStrLn (handle line)
  loop h out

def main : IO Unit := do
  let stdin ← IO.getStdin
  let stdout ← IO.getStdout
  loop stdin stdout
  stdout.flush

end Driver
