import PvModel.Task
/-!
# Agent — `pyvolutionary.models.Agent` and the direction handling around it

An agent is a value: a corrected position, its (internal) cost, its fitness, and an opaque `tag` standing for whatever
else distinguishes the Python object (identity, subclass extras such as `trials`, `velocity`, …).  Selection only ever
looks at `cost`.
-/

inductive Dir where
  | min
  | max
deriving DecidableEq, Repr, Inhabited

structure Agent where
  position : List Coord
  cost : Num
  fitness : Num
  tag : Nat := 0
deriving DecidableEq, Repr, Inhabited

namespace Agent

/-- `a.model_copy(update={"cost": -a.cost})` for max tasks, identity for min tasks
(`Population.__init__`, `OptimizationResult.__init__`, models.py:100-110, 135-146). -/
def refine (d : Dir) (a : Agent) : Agent :=
  match d with
  | .min => a
  | .max => { a with cost := a.cost.neg }

end Agent

/-- `x` is strictly better than `y` in direction `d` (on user-visible costs). -/
def better (d : Dir) (x y : Num) : Bool :=
  match d with
  | .min => Num.lt x y
  | .max => Num.lt y x
