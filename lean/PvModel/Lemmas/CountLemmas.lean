import PvModel.Lemmas.PopExpLemmas
/-!
# Count domination — the whole sorted cost vector, not only its head

`CountDom q p`: for every threshold `t`, `q` has at least as many agents of cost `≤ t` as `p`.  For populations of equal size this
is the same as "the sorted cost vector of `q` is not above the one of `p` at any rank" (`rank_le_of_countDom`), which is what the
harness observes between consecutive generations of a class whose step skeleton is monotone.
-/

/-- number of agents whose cost is `≤ t` -/
def countLE (t : Num) (l : List Agent) : Nat := l.countP (fun a => Num.le a.cost t)

/-- `q` is rank-wise not costlier than `p` -/
def CountDom (q p : List Agent) : Prop := ∀ t, countLE t p ≤ countLE t q

theorem countLE_nil (t : Num) : countLE t [] = 0 := rfl

theorem countLE_cons (t : Num) (a : Agent) (l : List Agent) :
    countLE t (a :: l) = countLE t l + (if Num.le a.cost t then 1 else 0) := by
  simp [countLE, List.countP_cons]

theorem countLE_le_length (t : Num) (l : List Agent) : countLE t l ≤ l.length := List.countP_le_length

theorem countLE_perm {l l' : List Agent} (h : l.Perm l') (t : Num) : countLE t l = countLE t l' := h.countP_eq _

theorem countLE_append (t : Num) (l l' : List Agent) : countLE t (l ++ l') = countLE t l + countLE t l' := by
  simp [countLE, List.countP_append]

theorem countDom_refl (p : List Agent) : CountDom p p := fun _ => Nat.le_refl _

theorem countDom_trans {r q p : List Agent} (h1 : CountDom r q) (h2 : CountDom q p) : CountDom r p :=
  fun t => Nat.le_trans (h2 t) (h1 t)

theorem countDom_of_perm {q p : List Agent} (h : q.Perm p) : CountDom q p := fun t => by rw [countLE_perm h t]; exact Nat.le_refl _

/-- element-wise not costlier ⇒ count-dominating: `[g(i, a) for i, a in enumerate(l, n)]` with `cost(g(i, a)) ≤ cost(a)`. -/
theorem countLE_imap_le (g : Nat → Agent → Agent) (n : Nat) (l : List Agent)
    (hg : ∀ i a, a ∈ l → Num.le (g i a).cost a.cost = true) (t : Num) : countLE t l ≤ countLE t (imap g n l) := by
  induction l generalizing n with
  | nil => simp [imap, countLE_nil]
  | cons a l ih =>
    simp only [imap, countLE_cons]
    have h1 := ih (n + 1) (fun i b hb => hg i b (by simp [hb]))
    by_cases hle : Num.le a.cost t = true
    · have : Num.le (g n a).cost t = true := Num.le_trans _ _ _ (hg n a (by simp)) hle
      simp [hle, this]; exact h1
    · have hle' : Num.le a.cost t = false := by simpa using hle
      simp only [hle', Bool.false_eq_true, if_false, Nat.add_zero]
      exact Nat.le_trans h1 (Nat.le_add_right _ _)

/-- in a cost-sorted list the first `n` agents hold as many agents `≤ t` as possible. -/
theorem countLE_take_sorted (l : List Agent) (hs : l.Pairwise (fun x y => Num.le x.cost y.cost = true)) (n : Nat) (t : Num) :
    min n (countLE t l) ≤ countLE t (l.take n) := by
  induction l generalizing n with
  | nil => simp [countLE_nil]
  | cons a l ih =>
    cases n with
    | zero => simp [countLE_nil]
    | succ n =>
      obtain ⟨ha, hl⟩ := List.pairwise_cons.mp hs
      simp only [List.take_succ_cons, countLE_cons]
      by_cases hle : Num.le a.cost t = true
      · simp only [hle, if_true]
        have := ih hl n
        omega
      · have hle' : Num.le a.cost t = false := by simpa using hle
        have hz : countLE t l = 0 := by
          unfold countLE
          rw [List.countP_eq_zero]
          intro b hb hbt
          have hbt' : Num.le b.cost t = true := by simpa using hbt
          exact hle (Num.le_trans _ _ _ (ha b hb) hbt')
        simp [hle', hz]

/-- sort-and-trim to `n` never loses rank-wise as long as the population it is compared with fits into `n`. -/
theorem countDom_sortAndTrim (l p : List Agent) (n : Nat) (hl : NoNaN l) (hp : p.length ≤ n) (h : ∀ t, countLE t p ≤ countLE t l) :
    CountDom (sortAndTrim l n) p := by
  intro t
  have hs : (sortByCost .min l).Pairwise (fun x y => Num.le x.cost y.cost = true) := by
    simpa [costLe] using sortByCost_sorted .min l hl
  have h1 := countLE_take_sorted (sortByCost .min l) hs n t
  rw [countLE_perm (sortByCost_perm .min l) t] at h1
  have h2 := h t
  have h3 := countLE_le_length t p
  unfold sortAndTrim
  omega

theorem countDom_extendTrim (pop new : List Agent) (ps : Nat) (hp : NoNaN pop) (hn : NoNaN new) (hl : pop.length ≤ ps) :
    CountDom (extendTrim pop new ps) pop := by
  unfold extendTrim
  split
  · exact countDom_refl pop
  · exact countDom_sortAndTrim (pop ++ new) pop ps (noNaN_append hp hn) hl (fun t => by rw [countLE_append]; omega)

theorem greedyZip_countLE (as bs out : List Agent) (h : greedyZip as bs = .ok out) (ha : NoNaN as) (hb : NoNaN bs) (t : Num) :
    countLE t as ≤ countLE t out ∧ out.length = as.length := by
  induction as generalizing bs out with
  | nil => simp [greedyZip] at h; subst h; simp
  | cons a as ih =>
    cases bs with
    | nil => simp [greedyZip] at h
    | cons b bs =>
      simp only [greedyZip] at h
      cases hr : greedyZip as bs with
      | error e => simp [hr, bind, Except.bind] at h
      | ok rest =>
        simp [hr, bind, Except.bind] at h
        cases h
        obtain ⟨h1, h2⟩ := ih bs rest hr (fun x hx => ha x (by simp [hx])) (fun x hx => hb x (by simp [hx]))
        have hg := (C16.greedyAgent_cost_le a b (ha a (by simp)) (hb b (by simp))).1
        simp only [countLE_cons, List.length_cons, h2, and_true]
        by_cases hle : Num.le a.cost t = true
        · have : Num.le (greedyAgent a b).cost t = true := Num.le_trans _ _ _ hg hle
          simp [hle, this]; exact h1
        · have hle' : Num.le a.cost t = false := by simpa using hle
          simp only [hle', Bool.false_eq_true, if_false, Nat.add_zero]
          exact Nat.le_trans h1 (Nat.le_add_right _ _)

theorem countDom_greedyPopulation (pop new out : List Agent) (h : greedyPopulation pop new = .ok out) (hp : NoNaN pop)
    (hn : NoNaN new) : CountDom out pop ∧ out.length = pop.length := by
  have hp' : NoNaN (sortByCost .min pop) := noNaN_of_perm (sortByCost_perm _ _) hp
  have hn' : NoNaN (sortByCost .min new) := noNaN_of_perm (sortByCost_perm _ _) hn
  refine ⟨fun t => ?_, ?_⟩
  · have := (greedyZip_countLE _ _ _ h hp' hn' t).1
    rwa [countLE_perm (sortByCost_perm .min pop) t] at this
  · rw [(greedyZip_countLE _ _ _ h hp' hn' .nan).2, sortByCost_length]

/-! ## from counts to ranks -/

/-- in a cost-sorted list of numbers, the agent at rank `i` has at least `i + 1` agents not costlier than it. -/
theorem rank_count (l : List Agent) (hs : l.Pairwise (fun x y => Num.le x.cost y.cost = true)) (hn : NoNaN l) (i : Nat)
    (hi : i < l.length) : i + 1 ≤ countLE (l[i]).cost l := by
  induction l generalizing i with
  | nil => simp at hi
  | cons a l ih =>
    obtain ⟨ha, hl⟩ := List.pairwise_cons.mp hs
    cases i with
    | zero =>
      simp only [List.getElem_cons_zero, countLE_cons, Num.le_refl_of_not_nan _ (hn a (by simp)), if_true]
      omega
    | succ i =>
      have hi' : i < l.length := by simpa using hi
      simp only [List.getElem_cons_succ, countLE_cons]
      have h1 := ih hl (fun x hx => hn x (by simp [hx])) i hi'
      have h2 : Num.le a.cost (l[i]).cost = true := ha _ (List.getElem_mem hi')
      simp only [h2, if_true]
      omega

/-- conversely, if at least `i + 1` agents of a cost-sorted list are `≤ t`, the agent at rank `i` is. -/
theorem rank_le_of_count (l : List Agent) (hs : l.Pairwise (fun x y => Num.le x.cost y.cost = true)) (t : Num) (i : Nat)
    (hi : i < l.length) (hc : i + 1 ≤ countLE t l) : Num.le (l[i]).cost t = true := by
  induction l generalizing i with
  | nil => simp at hi
  | cons a l ih =>
    obtain ⟨ha, hl⟩ := List.pairwise_cons.mp hs
    by_cases hle : Num.le a.cost t = true
    · cases i with
      | zero => simpa using hle
      | succ i =>
        have hi' : i < l.length := by simpa using hi
        simp only [List.getElem_cons_succ]
        apply ih hl i hi'
        simp only [countLE_cons, hle, if_true] at hc
        omega
    · exfalso
      have hle' : Num.le a.cost t = false := by simpa using hle
      have hz : countLE t l = 0 := by
        unfold countLE
        rw [List.countP_eq_zero]
        intro b hb hbt
        have hbt' : Num.le b.cost t = true := by simpa using hbt
        exact hle (Num.le_trans _ _ _ (ha b hb) hbt')
      simp [countLE_cons, hle', hz] at hc

/-- **ranks**: if `q` count-dominates `p`, then at every rank present in both the sorted cost vector of `q` is not above the one of
`p` — what a reader of two consecutive generations compares. -/
theorem rank_le_of_countDom (q p : List Agent) (hq : NoNaN q) (hp : NoNaN p) (h : CountDom q p) (i : Nat)
    (hip : i < (sortByCost .min p).length) (hiq : i < (sortByCost .min q).length) :
    Num.le ((sortByCost .min q)[i]).cost ((sortByCost .min p)[i]).cost = true := by
  have hsp : (sortByCost .min p).Pairwise (fun x y => Num.le x.cost y.cost = true) := by
    simpa [costLe] using sortByCost_sorted .min p hp
  have hsq : (sortByCost .min q).Pairwise (fun x y => Num.le x.cost y.cost = true) := by
    simpa [costLe] using sortByCost_sorted .min q hq
  have hnp : NoNaN (sortByCost .min p) := noNaN_of_perm (sortByCost_perm _ _) hp
  have h1 := rank_count _ hsp hnp i hip
  rw [countLE_perm (sortByCost_perm .min p)] at h1
  have h2 := h ((sortByCost .min p)[i]).cost
  apply rank_le_of_count _ hsq _ i hiq
  rw [countLE_perm (sortByCost_perm .min q)]
  omega

theorem noNaN_sortAndTrim (l : List Agent) (n : Nat) (h : NoNaN l) : NoNaN (sortAndTrim l n) :=
  fun a ha => h a (mem_sortByCost.mp (List.mem_of_mem_take ha))

theorem noNaN_extendTrim (pop new : List Agent) (ps : Nat) (hp : NoNaN pop) (hn : NoNaN new) : NoNaN (extendTrim pop new ps) := by
  unfold extendTrim
  split
  · exact hp
  · exact noNaN_sortAndTrim _ _ (noNaN_append hp hn)
