import PvModel.Run
import PvModel.Props.C13
import PvModel.Lemmas.LoopLemmas
/-! Validity of agents built by `mkAgent`, and its preservation by every disciplined program. -/

open TaskDecl

/-- well-formed flattened variable: finite bounds with `lb ≤ ub`, at least one choice. -/
def Var.wf : Var → Bool
  | .cont (.fin lb) (.fin ub) => decide (lb ≤ ub)
  | .cont _ _ => false
  | .disc n => decide (0 < n)
  | .perm _ => true

/-- a raw candidate coordinate the correction rules can handle: a non-NaN number for continuous / discrete variables,
a key vector of the right length for a permutation. -/
def rawOK : Var → Raw → Bool
  | .cont _ _, .scalar x => !x.isNaN
  | .disc _, .scalar x => !x.isNaN
  | .perm n, .vec xs => decide (xs.length = n)
  | _, _ => false

/-- `RawOK`: at least one well-shaped, NaN-free coordinate per flattened variable (`zip` ignores surplus coordinates). -/
def rawOKList : List Var → List Raw → Bool
  | [], _ => true
  | _ :: _, [] => false
  | v :: vs, x :: xs => rawOK v x && rawOKList vs xs

/-- membership of a position in the search space: exactly one coordinate per flattened variable, each a member of its
variable's domain. -/
def memList : List Var → List Coord → Bool
  | [], [] => true
  | v :: vs, y :: ys => v.mem y && memList vs ys
  | _, _ => false

theorem memList_length : ∀ (vs : List Var) (ys : List Coord), memList vs ys = true → ys.length = vs.length
  | [], [], _ => rfl
  | [], _ :: _, h => by simp [memList] at h
  | _ :: _, [], h => by simp [memList] at h
  | v :: vs, y :: ys, h => by
    simp only [memList, Bool.and_eq_true] at h
    simp [memList_length vs ys h.2]

/-- one coordinate: corrected into the domain, and a fixed point of a second correction. -/
theorem coord_ok (v : Var) (hw : v.wf = true) (x : Raw) (hx : rawOK v x = true) :
    ∃ y, v.correct x = .ok y ∧ v.mem y = true ∧ v.correct y.toRaw = .ok y := by
  cases v with
  | cont lb ub =>
    cases lb <;> cases ub <;> simp [Var.wf] at hw
    rename_i lb ub
    cases x with
    | vec xs => simp [rawOK] at hx
    | scalar x =>
      simp [rawOK] at hx
      obtain ⟨y, h1, h2⟩ := C13.cont_correct_mem lb ub hw x hx
      exact ⟨y, h1, h2, C13.cont_correct_fix _ _ y h2⟩
  | disc n =>
    simp [Var.wf] at hw
    cases x with
    | vec xs => simp [rawOK] at hx
    | scalar x =>
      simp [rawOK] at hx
      obtain ⟨y, h1, h2⟩ := C13.disc_correct_member n hw x hx
      exact ⟨y, h1, h2, C13.disc_correct_fix n y h2⟩
  | perm n =>
    cases x with
    | scalar x => simp [rawOK] at hx
    | vec xs =>
      simp [rawOK] at hx
      obtain ⟨y, h1, h2⟩ := C13.perm_correct_mem n xs hx
      cases y with
      | ints l => exact ⟨_, h1, h2, C13.perm_correct_fix n l h2⟩
      | num _ => simp [Var.mem] at h2
      | int _ => simp [Var.mem] at h2

/-- a whole candidate: the corrected solution is in the search space and is a fixed point of `correct_solution`. -/
theorem correctList_ok (vs : List Var) (hw : ∀ v ∈ vs, v.wf = true) (xs : List Raw) (h : rawOKList vs xs = true) :
    ∃ ys, correctList xs vs = .ok ys ∧ memList vs ys = true ∧ correctList (ys.map Coord.toRaw) vs = .ok ys := by
  induction vs generalizing xs with
  | nil => exact ⟨[], by cases xs <;> simp [correctList], rfl, by simp [correctList]⟩
  | cons v vs ih =>
    cases xs with
    | nil => simp [rawOKList] at h
    | cons x xs =>
      simp only [rawOKList, Bool.and_eq_true] at h
      obtain ⟨y, h1, h2, h3⟩ := coord_ok v (hw v List.mem_cons_self) x h.1
      obtain ⟨ys, g1, g2, g3⟩ := ih (fun v' hv' => hw v' (List.mem_cons_of_mem _ hv')) xs h.2
      refine ⟨y :: ys, ?_, ?_, ?_⟩
      · simp [correctList, h1, g1, bind, Except.bind]
      · simp [memList, h2, g2]
      · simp [correctList, h3, g3, bind, Except.bind]

/-- a member of the search space is left unchanged by `correct_solution` (used for reported positions). -/
theorem correctList_fix (vs : List Var) (ys : List Coord) (h : memList vs ys = true) :
    correctList (ys.map Coord.toRaw) vs = .ok ys := by
  induction vs generalizing ys with
  | nil => cases ys <;> simp_all [memList, correctList]
  | cons v vs ih =>
    cases ys with
    | nil => simp [memList] at h
    | cons y ys =>
      simp only [memList, Bool.and_eq_true] at h
      have h1 : v.correct y.toRaw = .ok y := by
        cases v with
        | cont lb ub => exact C13.cont_correct_fix lb ub y h.1
        | disc n => exact C13.disc_correct_fix n y h.1
        | perm n =>
          cases y with
          | ints l => exact C13.perm_correct_fix n l h.1
          | num _ => simp [Var.mem] at h
          | int _ => simp [Var.mem] at h
      simp [correctList, h1, ih ys h.2, bind, Except.bind]

/-! ## agents -/

def TaskSem.vars (T : TaskSem) : List Var := T.decl.getVariables

/-- the task's flattened variables are well-formed (finite bounds `lb ≤ ub`, non-empty choice lists) -/
def TaskSem.WF (T : TaskSem) : Prop := ∀ v ∈ T.vars, v.wf = true

/-- what C01, C02 and C05 say of one agent: its position is in the search space, its cost is the (signed, weighted)
objective *of that very position*, its fitness is the documented function of the user-visible cost. -/
structure Valid (T : TaskSem) (a : Agent) : Prop where
  pos : memList T.vars a.position = true
  cost : weigh T.dot T.weights (signIn T.dir (T.F a.position)) = .ok a.cost
  fit : a.fitness = T.fit (signOut T.dir a.cost)

theorem mkAgent_valid (T : TaskSem) (hT : T.WF) (raw : List Raw) (hraw : rawOKList T.vars raw = true) (tag : Nat)
    (a : Agent) (arg : List Coord) (h : mkAgent T raw tag = .ok (a, arg)) :
    Valid T a ∧ arg = a.position ∧ memList T.vars arg = true := by
  obtain ⟨ys, h1, h2, h3⟩ := correctList_ok T.vars hT raw hraw
  unfold mkAgent at h
  simp only [TaskDecl.correctSolution] at h
  have e1 : correctList raw T.decl.getVariables = .ok ys := h1
  have e3 : correctList (ys.map Coord.toRaw) T.decl.getVariables = .ok ys := h3
  simp only [e1, e3, bind, Except.bind] at h
  cases hw : weigh T.dot T.weights (signIn T.dir (T.F ys)) with
  | error e => simp [hw] at h
  | ok c =>
    simp [hw] at h
    obtain ⟨rfl, rfl⟩ := h
    exact ⟨⟨h2, hw, rfl⟩, rfl, h2⟩

/-- `_init_agent` raises only for a weight/objective count mismatch — given a RawOK candidate it never fails in correction. -/
theorem mkAgent_error (T : TaskSem) (hT : T.WF) (raw : List Raw) (hraw : rawOKList T.vars raw = true) (tag : Nat) (e : Err)
    (h : mkAgent T raw tag = .error e) :
    ∃ ys, memList T.vars ys = true ∧ weigh T.dot T.weights (signIn T.dir (T.F ys)) = .error e := by
  obtain ⟨ys, h1, h2, h3⟩ := correctList_ok T.vars hT raw hraw
  unfold mkAgent at h
  simp only [TaskDecl.correctSolution] at h
  have e1 : correctList raw T.decl.getVariables = .ok ys := h1
  have e3 : correctList (ys.map Coord.toRaw) T.decl.getVariables = .ok ys := h3
  simp only [e1, e3, bind, Except.bind] at h
  cases hw : weigh T.dot T.weights (signIn T.dir (T.F ys)) with
  | error e' => simp [hw] at h; subst h; exact ⟨ys, h2, hw⟩
  | ok c => simp [hw] at h

/-! ## programs -/

/-- every candidate the program hands to `_init_agent` is RawOK, whatever agents it has seen -/
inductive Prog.RawsOK (T : TaskSem) : Prog σ → Prop where
  | done (s : σ) (pop : List Nat) : Prog.RawsOK T (.done s pop)
  | fail (e : Err) : Prog.RawsOK T (.fail e)
  | eval (raw : List Raw) (k : Agent → Prog σ) : rawOKList T.vars raw = true → (∀ a, Prog.RawsOK T (k a)) →
      Prog.RawsOK T (.eval raw k)

def ArenaOK (T : TaskSem) (arena : List Agent) : Prop := ∀ a ∈ arena, Valid T a
def CallsOK (T : TaskSem) (calls : List (List Coord)) : Prop := ∀ c ∈ calls, memList T.vars c = true

theorem exec_inv (T : TaskSem) (hT : T.WF) (p : Prog σ) (hp : p.RawsOK T) (arena : List Agent) (calls : List (List Coord))
    (ha : ArenaOK T arena) (hc : CallsOK T calls) (st : RunState σ) (h : p.exec T arena calls = .ok st) :
    ArenaOK T st.arena ∧ CallsOK T st.calls ∧ (∃ pop, resolve st.arena st.pop = .ok pop) := by
  induction hp generalizing arena calls with
  | done s pop =>
    simp only [Prog.exec] at h
    cases hr : resolve arena pop with
    | error e => simp [hr] at h
    | ok l => simp [hr] at h; subst h; exact ⟨ha, hc, l, hr⟩
  | fail e => simp [Prog.exec] at h
  | eval raw k hraw _ ih =>
    simp only [Prog.exec] at h
    cases hm : mkAgent T raw arena.length with
    | error e => simp [hm] at h
    | ok r =>
      obtain ⟨a, arg⟩ := r
      simp only [hm] at h
      obtain ⟨hv, harg, hmem⟩ := mkAgent_valid T hT raw hraw _ a arg hm
      refine ih a (arena ++ [a]) (calls ++ [arg]) ?_ ?_ h
      · intro x hx
        rcases List.mem_append.mp hx with h1 | h1
        · exact ha x h1
        · simp at h1; subst h1; exact hv
      · intro c hc'
        rcases List.mem_append.mp hc' with h1 | h1
        · exact hc c h1
        · simp at h1; subst h1; exact hmem

theorem resolve_mem (arena : List Agent) (pop : List Nat) (l : List Agent) (h : resolve arena pop = .ok l) :
    ∀ a ∈ l, a ∈ arena := by
  induction pop generalizing l with
  | nil => simp [resolve] at h; subst h; simp
  | cons i is ih =>
    simp only [resolve] at h
    cases hi : arena[i]? with
    | none => simp [hi] at h
    | some a0 =>
      cases hr : resolve arena is with
      | error e => simp [hi, hr, bind, Except.bind] at h
      | ok rest =>
        simp [hi, hr, bind, Except.bind] at h
        subst h
        intro a ha
        rcases List.mem_cons.mp ha with rfl | h1
        · exact List.mem_of_getElem? hi
        · exact ih rest hr a h1

/-- the invariant of a run of a disciplined optimizer -/
structure RunInv (T : TaskSem) (st : RunState σ) : Prop where
  arena : ArenaOK T st.arena
  calls : CallsOK T st.calls

/-- a disciplined optimizer all of whose candidates are RawOK -/
structure DAlg.RawsOK (T : TaskSem) (A : DAlg σ) : Prop where
  init : ∀ s, (A.init s).RawsOK T
  step : ∀ s arena pop, (A.step s arena pop).RawsOK T

theorem agents_valid (T : TaskSem) (st : RunState σ) (h : RunInv T st) : ∀ a ∈ st.agents, Valid T a := by
  intro a ha
  unfold RunState.agents at ha
  cases hr : resolve st.arena st.pop with
  | error e => simp [hr, Except.toOption] at ha
  | ok l =>
    simp [hr, Except.toOption] at ha
    exact h.arena a (resolve_mem _ _ l hr a ha)

theorem toAlg_init_inv (T : TaskSem) (hT : T.WF) (A : DAlg σ) (hA : A.RawsOK T) (s s' : RunState σ)
    (h : (A.toAlg T).init s = .ok s') : RunInv T s' := by
  obtain ⟨h1, h2, _⟩ := exec_inv T hT _ (hA.init s.priv) [] [] (by intro a ha; simp at ha) (by intro c hc; simp at hc) s' h
  exact ⟨h1, h2⟩

theorem toAlg_step_inv (T : TaskSem) (hT : T.WF) (A : DAlg σ) (hA : A.RawsOK T) (s s' : RunState σ) (hs : RunInv T s)
    (h : (A.toAlg T).step s = .ok s') : RunInv T s' := by
  obtain ⟨h1, h2, _⟩ := exec_inv T hT _ (hA.step s.priv s.arena s.pop) s.arena s.calls hs.arena hs.calls s' h
  exact ⟨h1, h2⟩
