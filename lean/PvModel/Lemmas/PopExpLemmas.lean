import PvModel.PopExp
import PvModel.Loop
import PvModel.Lemmas.NumLemmas
import PvModel.Lemmas.SelectLemmas
import PvModel.Lemmas.LoopLemmas
import PvModel.Props.C16
/-! Lemmas about the population algebra (`PvModel/PopExp.lean`): lengths, best cost, the history of `runBody`. -/

/-! ## `Num`: min / max of numbers -/
namespace Num

theorem minN_eq (a b : Num) (ha : a.isNaN = false) (hb : b.isNaN = false) : minN a b = if le a b then a else b := by
  cases a <;> cases b <;> simp_all [minN, isNaN]

theorem maxN_eq (a b : Num) (ha : a.isNaN = false) (hb : b.isNaN = false) : maxN a b = if le a b then b else a := by
  cases a <;> cases b <;> simp_all [maxN, isNaN]

theorem isNaN_minN (a b : Num) (ha : a.isNaN = false) (hb : b.isNaN = false) : (minN a b).isNaN = false := by
  rw [minN_eq a b ha hb]; split <;> assumption

theorem minN_le_left (a b : Num) (ha : a.isNaN = false) (hb : b.isNaN = false) : le (minN a b) a = true := by
  rw [minN_eq a b ha hb]
  split
  · exact le_refl_of_not_nan a ha
  · rename_i h
    have := le_total_of_not_nan a b ha hb
    simp only [Bool.or_eq_true] at this
    rcases this with h' | h'
    · exact absurd h' h
    · exact h'

theorem minN_le_right (a b : Num) (ha : a.isNaN = false) (hb : b.isNaN = false) : le (minN a b) b = true := by
  rw [minN_eq a b ha hb]
  split
  · assumption
  · exact le_refl_of_not_nan b hb

theorem le_minN (z a b : Num) (ha : a.isNaN = false) (hb : b.isNaN = false) (h1 : le z a = true) (h2 : le z b = true) :
    le z (minN a b) = true := by
  rw [minN_eq a b ha hb]; split <;> assumption

theorem le_pinf (x : Num) (h : x.isNaN = false) : le x pinf = true := by
  cases x <;> simp_all [le, isNaN]

/-- `lt x y = false` on numbers means `y ≤ x`. -/
theorem le_of_not_lt (x y : Num) (hx : x.isNaN = false) (hy : y.isNaN = false) (h : lt x y = false) : le y x = true := by
  have ht := le_total_of_not_nan x y hx hy
  simp only [Bool.or_eq_true] at ht
  rcases ht with h' | h'
  · simp only [lt, h', Bool.true_and, Bool.not_eq_false'] at h
    exact h
  · exact h'

theorem not_lt_of_le (x y : Num) (h : le y x = true) : lt x y = false := by
  simp [lt, h]

/-- `-min(a, b) = max(-a, -b)` on doubles (NaN included). -/
theorem neg_minN (a b : Num) : neg (minN a b) = maxN (neg a) (neg b) := by
  by_cases ha : a.isNaN = true
  · cases a <;> simp_all [isNaN, minN, maxN, neg]
  by_cases hb : b.isNaN = true
  · cases b <;> cases a <;> simp_all [isNaN, minN, maxN, neg]
  have ha' : a.isNaN = false := by simpa using ha
  have hb' : b.isNaN = false := by simpa using hb
  rw [minN_eq a b ha' hb', maxN_eq _ _ (by rw [isNaN_neg]; exact ha') (by rw [isNaN_neg]; exact hb'), le_neg_neg]
  by_cases h1 : le a b = true <;> by_cases h2 : le b a = true
  · have := le_antisymm a b h1 h2; subst this; simp
  · simp [h1, h2]
  · simp [h1, h2]
  · have := le_total_of_not_nan a b ha' hb'
    simp_all

end Num

/-! ## `bestCost` -/

theorem bestCost_notNaN (pop : List Agent) (h : NoNaN pop) : (bestCost pop).isNaN = false := by
  induction pop with
  | nil => rfl
  | cons a l ih =>
    exact Num.isNaN_minN _ _ (h a (by simp)) (ih (fun b hb => h b (by simp [hb])))

/-- `bestCost` is a lower bound … -/
theorem bestCost_le (pop : List Agent) (h : NoNaN pop) : ∀ a ∈ pop, Num.le (bestCost pop) a.cost = true := by
  induction pop with
  | nil => intro a ha; cases ha
  | cons x l ih =>
    have hx := h x (by simp)
    have hl : NoNaN l := fun b hb => h b (by simp [hb])
    have hbl := bestCost_notNaN l hl
    intro a ha
    rcases List.mem_cons.mp ha with rfl | ha
    · exact Num.minN_le_left _ _ hx hbl
    · exact Num.le_trans _ _ _ (Num.minN_le_right _ _ hx hbl) (ih hl a ha)

/-- … that is attained. -/
theorem bestCost_attained (pop : List Agent) (hne : pop ≠ []) (h : NoNaN pop) : ∃ m ∈ pop, m.cost = bestCost pop := by
  induction pop with
  | nil => exact absurd rfl hne
  | cons x l ih =>
    have hx := h x (by simp)
    have hl : NoNaN l := fun b hb => h b (by simp [hb])
    have hbl := bestCost_notNaN l hl
    simp only [bestCost]
    rw [Num.minN_eq _ _ hx hbl]
    split
    · exact ⟨x, by simp, rfl⟩
    · rename_i hle
      cases l with
      | nil =>
        exfalso; apply hle
        simp only [bestCost]; exact Num.le_pinf _ hx
      | cons y l' =>
        obtain ⟨m, hm, hmc⟩ := ih (by simp) hl
        exact ⟨m, List.mem_cons_of_mem _ hm, hmc⟩

/-- `q` dominates `p`: every agent of `p` is matched by an agent of `q` that is not costlier. -/
def Dominates (q p : List Agent) : Prop := ∀ a ∈ p, ∃ b ∈ q, Num.le b.cost a.cost = true

theorem bestCost_le_of_dominates (q p : List Agent) (hq : NoNaN q) (hp : NoNaN p) (h : Dominates q p) :
    Num.le (bestCost q) (bestCost p) = true := by
  induction p with
  | nil => exact Num.le_pinf _ (bestCost_notNaN q hq)
  | cons x l ih =>
    have hx := hp x (by simp)
    have hl : NoNaN l := fun b hb => hp b (by simp [hb])
    refine Num.le_minN _ _ _ hx (bestCost_notNaN l hl) ?_ (ih hl (fun a ha => h a (by simp [ha])))
    obtain ⟨b, hb, hbx⟩ := h x (by simp)
    exact Num.le_trans _ _ _ (bestCost_le q hq b hb) hbx

theorem dominates_refl (p : List Agent) (hp : NoNaN p) : Dominates p p :=
  fun a ha => ⟨a, ha, Num.le_refl_of_not_nan _ (hp a ha)⟩

/-- for max tasks the recorded costs are the negated internal ones, so the highest recorded cost is minus the lowest internal one. -/
theorem maxCost_snapshot_max (pop : List Agent) : maxCost (snapshot .max pop) = (bestCost pop).neg := by
  induction pop with
  | nil => rfl
  | cons a l ih =>
    simp only [snapshot, List.map_cons, maxCost, bestCost, Num.neg_minN] at *
    rw [ih]; rfl

theorem snapshot_min (pop : List Agent) : snapshot .min pop = pop := by
  induction pop with
  | nil => rfl
  | cons a l ih => simp only [snapshot, List.map_cons] at *; rw [ih]; rfl

theorem snapshot_length (dir : Dir) (pop : List Agent) : (snapshot dir pop).length = pop.length := by
  simp [snapshot]

/-! ## `imap`, `chase`, `retag` -/

theorem imap_length (g : Nat → Agent → Agent) (n : Nat) (l : List Agent) : (imap g n l).length = l.length := by
  induction l generalizing n with
  | nil => rfl
  | cons a l ih => simp [imap, ih]

theorem mem_imap_of_mem (g : Nat → Agent → Agent) (n : Nat) (l : List Agent) (a : Agent) (ha : a ∈ l) :
    ∃ i, g i a ∈ imap g n l := by
  induction l generalizing n with
  | nil => cases ha
  | cons x l ih =>
    rcases List.mem_cons.mp ha with rfl | ha
    · exact ⟨n, by simp [imap]⟩
    · obtain ⟨i, hi⟩ := ih (n + 1) ha
      exact ⟨i, by simp [imap, hi]⟩

theorem mem_imap (g : Nat → Agent → Agent) (n : Nat) (l : List Agent) (b : Agent) (hb : b ∈ imap g n l) :
    ∃ i, ∃ a ∈ l, b = g i a := by
  induction l generalizing n with
  | nil => cases hb
  | cons x l ih =>
    simp only [imap, List.mem_cons] at hb
    rcases hb with rfl | hb
    · exact ⟨n, x, by simp, rfl⟩
    · obtain ⟨i, a, ha, e⟩ := ih (n + 1) hb
      exact ⟨i, a, by simp [ha], e⟩

@[simp] theorem retag_cost (a : Agent) (t : Nat) : (retag a t).cost = a.cost := rfl

/-- whatever challengers it meets, in whatever argument order: what survives a chain of greedy selections is not costlier than
the agent that entered it. -/
theorem chase_cost_le (x : Agent) (ch : List (Agent × Bool)) (hx : x.cost.isNaN = false)
    (hch : ∀ c ∈ ch, c.1.cost.isNaN = false) :
    Num.le (chase x ch).cost x.cost = true ∧ (chase x ch).cost.isNaN = false := by
  induction ch generalizing x with
  | nil => exact ⟨Num.le_refl_of_not_nan _ hx, hx⟩
  | cons c rest ih =>
    obtain ⟨c, first⟩ := c
    have hc : c.cost.isNaN = false := hch (c, first) (by simp)
    have hrest : ∀ d ∈ rest, d.1.cost.isNaN = false := fun d hd => hch d (by simp [hd])
    simp only [chase]
    cases first
    · have h1 := C16.greedyAgent_cost_le x c hx hc
      have hn : (greedyAgent x c).cost.isNaN = false := by
        rcases C16.greedyAgent_mem x c with e | e <;> rw [e] <;> assumption
      obtain ⟨h2, h3⟩ := ih (greedyAgent x c) hn hrest
      exact ⟨Num.le_trans _ _ _ (by simpa using h2) h1.1, by simpa using h3⟩
    · have h1 := C16.greedyAgent_cost_le c x hc hx
      have hn : (greedyAgent c x).cost.isNaN = false := by
        rcases C16.greedyAgent_mem c x with e | e <;> rw [e] <;> assumption
      obtain ⟨h2, h3⟩ := ih (greedyAgent c x) hn hrest
      exact ⟨Num.le_trans _ _ _ (by simpa using h2) h1.2, by simpa using h3⟩

/-! ## the selection combinators never lose the best -/

theorem greedyZip_dominates (as bs out : List Agent) (h : greedyZip as bs = .ok out) (ha : NoNaN as) (hb : NoNaN bs) :
    Dominates out as ∧ NoNaN out := by
  induction as generalizing bs out with
  | nil =>
    simp [greedyZip] at h; subst h
    exact ⟨fun a ha => (by cases ha), fun a ha => (by cases ha)⟩
  | cons a as ih =>
    cases bs with
    | nil => simp [greedyZip] at h
    | cons b bs =>
      simp only [greedyZip] at h
      cases hr : greedyZip as bs with
      | error e => simp [hr, bind, Except.bind] at h
      | ok rest =>
        simp [hr, bind, Except.bind] at h
        cases h
        have hac := ha a (by simp)
        have hbc := hb b (by simp)
        obtain ⟨hd, hn⟩ := ih bs rest hr (fun x hx => ha x (by simp [hx])) (fun x hx => hb x (by simp [hx]))
        constructor
        · intro x hx
          rcases List.mem_cons.mp hx with rfl | hx
          · exact ⟨greedyAgent x b, by simp, (C16.greedyAgent_cost_le x b hac hbc).1⟩
          · obtain ⟨y, hy, hyx⟩ := hd x hx
            exact ⟨y, by simp [hy], hyx⟩
        · intro x hx
          rcases List.mem_cons.mp hx with rfl | hx
          · rcases C16.greedyAgent_mem a b with e | e <;> rw [e] <;> assumption
          · exact hn x hx

theorem greedyPopulation_dominates (pop new out : List Agent) (h : greedyPopulation pop new = .ok out) (hp : NoNaN pop)
    (hn : NoNaN new) : Dominates out pop ∧ NoNaN out := by
  have hp' : NoNaN (sortByCost .min pop) := noNaN_of_perm (sortByCost_perm _ _) hp
  have hn' : NoNaN (sortByCost .min new) := noNaN_of_perm (sortByCost_perm _ _) hn
  obtain ⟨hd, hno⟩ := greedyZip_dominates _ _ _ h hp' hn'
  exact ⟨fun a ha => hd a (mem_sortByCost.mpr ha), hno⟩

/-- sorting and keeping at least one agent keeps the cheapest one. -/
theorem sortAndTrim_dominates (l : List Agent) (n : Nat) (hn : 1 ≤ n) (h : NoNaN l) :
    Dominates (sortAndTrim l n) l ∧ NoNaN (sortAndTrim l n) := by
  have hs := sortByCost_sorted .min l h
  have hmem : ∀ a, a ∈ sortByCost .min l ↔ a ∈ l := fun a => mem_sortByCost
  constructor
  · intro a ha
    have ha' := (hmem a).mpr ha
    unfold sortAndTrim
    cases hsl : sortByCost .min l with
    | nil => rw [hsl] at ha'; cases ha'
    | cons x t =>
      rw [hsl] at ha' hs
      obtain ⟨m, rfl⟩ : ∃ m, n = m + 1 := ⟨n - 1, by omega⟩
      refine ⟨x, by simp [List.take], ?_⟩
      rcases List.mem_cons.mp ha' with rfl | hat
      · exact Num.le_refl_of_not_nan _ (h _ ha)
      · have := (List.pairwise_cons.mp hs).1 a hat
        simpa [costLe] using this
  · intro a ha
    exact h a ((hmem a).mp (List.mem_of_mem_take ha))

theorem extendTrim_dominates (pop new : List Agent) (ps : Nat) (hps : 1 ≤ ps) (hp : NoNaN pop) (hn : NoNaN new) :
    Dominates (extendTrim pop new ps) pop ∧ NoNaN (extendTrim pop new ps) := by
  unfold extendTrim
  split
  · exact ⟨dominates_refl pop hp, hp⟩
  · obtain ⟨hd, hno⟩ := sortAndTrim_dominates (pop ++ new) ps hps (noNaN_append hp hn)
    exact ⟨fun a ha => hd a (List.mem_append_left _ ha), hno⟩

/-! ## the history recorded by `runBody` -/

section
variable {R σ : Type} (ar : Arith R) (cfg : StopCfg R) (alg : Alg σ) (rate : List Agent → R) (dir : Dir)

/-- `(best,), (worst,) = special_agents(pop, 1, 1)` unpacks only for a non-empty population. -/
theorem special_ne (pop : List Agent) (b w : Agent) (h : specialAgents .min pop (some 1) (some 1) = .ok ([b], [w])) : pop ≠ [] := by
  intro e; subst e
  simp [specialAgents, bestAgents, worstAgents, sortByCost, isort] at h

/-- the loop only ever records non-empty generations — for every optimizer: an empty population makes `optimize` raise. -/
theorem loop_nonempty (fuel : Nat) (s : σ) (b : Book R) (hist : List (List Agent)) (hh : ∀ g ∈ hist, g ≠ [])
    (s' : σ) (b' : Book R) (hist' : List (List Agent))
    (h : loop ar cfg alg rate dir fuel s b hist = .ok (s', b', hist')) : ∀ g ∈ hist', g ≠ [] := by
  induction fuel generalizing s b hist with
  | zero => simp [loop] at h; obtain ⟨_, _, rfl⟩ := h; exact hh
  | succ fuel ih =>
    unfold loop at h
    cases hst : alg.step s with
    | error e => simp [hst] at h
    | ok s1 =>
      simp only [hst] at h
      split at h
      · rename_i bb ww hsp
        have hne : alg.pop s1 ≠ [] := special_ne _ _ _ hsp
        have hh1 : ∀ g ∈ hist ++ [snapshot dir (alg.pop s1)], g ≠ [] := by
          intro g hg
          rcases List.mem_append.mp hg with h1 | h1
          · exact hh g h1
          · simp at h1; subst h1
            intro e; apply hne
            simpa [snapshot] using e
        split at h
        · cases h; exact hh1
        · exact ih s1 _ _ hh1 h
      · cases h

theorem runBody_nonempty (s0 : σ) (res : Result R) (sN : σ) (bN : Book R)
    (h : runBody ar cfg alg rate dir s0 = .ok (res, sN, bN)) : ∀ g ∈ res.evolution, g ≠ [] := by
  unfold runBody at h
  cases hi : alg.init s0 with
  | error e => simp [hi] at h
  | ok s1 =>
    simp only [hi] at h
    split at h
    · rename_i bb ww hsp
      cases hl : loop ar cfg alg rate dir (max cfg.maxCycles.toNat 1) s1 Book.fresh [snapshot dir (alg.pop s1)] with
      | error e => simp [hl] at h
      | ok r =>
        obtain ⟨s, b, hist⟩ := r
        simp only [hl] at h
        cases hb : bestAgent .min (alg.pop s) with
        | error e => simp [hb] at h
        | ok best =>
          simp only [hb] at h
          have hne : alg.pop s1 ≠ [] := special_ne _ _ _ hsp
          have := loop_nonempty ar cfg alg rate dir _ s1 _ _
            (by intro g hg; simp at hg; subst hg; intro e; apply hne; simpa [snapshot] using e) s b hist hl
          cases h
          exact this
    · cases h

/-- the last recorded generation is the snapshot of the final population. -/
theorem loop_last (fuel : Nat) (s : σ) (b : Book R) (hist : List (List Agent))
    (s' : σ) (b' : Book R) (hist' : List (List Agent))
    (h : loop ar cfg alg rate dir fuel s b (hist ++ [snapshot dir (alg.pop s)]) = .ok (s', b', hist')) :
    hist'.getLast? = some (snapshot dir (alg.pop s')) := by
  induction fuel generalizing s b hist with
  | zero => simp [loop] at h; obtain ⟨rfl, _, rfl⟩ := h; simp
  | succ fuel ih =>
    unfold loop at h
    cases hst : alg.step s with
    | error e => simp [hst] at h
    | ok s1 =>
      simp only [hst] at h
      split at h
      · split at h
        · cases h; simp
        · exact ih s1 _ (hist ++ [snapshot dir (alg.pop s)]) h
      · cases h

theorem runBody_last (s0 : σ) (res : Result R) (sN : σ) (bN : Book R)
    (h : runBody ar cfg alg rate dir s0 = .ok (res, sN, bN)) :
    res.evolution.getLast? = some (snapshot dir (alg.pop sN)) := by
  unfold runBody at h
  cases hi : alg.init s0 with
  | error e => simp [hi] at h
  | ok s1 =>
    simp only [hi] at h
    split at h
    · cases hl : loop ar cfg alg rate dir (max cfg.maxCycles.toNat 1) s1 Book.fresh [snapshot dir (alg.pop s1)] with
      | error e => simp [hl] at h
      | ok r =>
        obtain ⟨s, b, hist⟩ := r
        simp only [hl] at h
        cases hb : bestAgent .min (alg.pop s) with
        | error e => simp [hb] at h
        | ok best =>
          simp only [hb] at h
          have := loop_last ar cfg alg rate dir _ s1 _ [] s b hist hl
          cases h
          exact this
    · cases h

end

/-- in a chain of a transitive relation every element is related to the last one (the last one to itself if `Rel` is reflexive there). -/
theorem chain_to_last {α : Type} (Rel : α → α → Prop) (htr : ∀ a b c, Rel a b → Rel b c → Rel a c) (l : List α) (z : α)
    (hc : Chain Rel l) (hl : l.getLast? = some z) (hz : Rel z z) : ∀ x ∈ l, Rel x z := by
  induction l with
  | nil => intro x hx; cases hx
  | cons a l ih =>
    cases l with
    | nil =>
      simp at hl; subst hl
      intro x hx; simp at hx; subst hx; exact hz
    | cons b l' =>
      have hl' : (b :: l').getLast? = some z := by rw [List.getLast?_cons_cons] at hl; exact hl
      have ih' := ih hc.2 hl'
      intro x hx
      rcases List.mem_cons.mp hx with rfl | hx
      · exact htr _ _ _ hc.1 (ih' b (by simp))
      · exact ih' x hx
