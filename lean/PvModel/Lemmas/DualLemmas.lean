import PvModel.Sort
import PvModel.Vars
/-!
Position-wise relations between two lists (`List.Forall₂`, not in core Lean), between two `Except Err` results (`ExRel`),
and the fact that a stable insertion sort commutes with a position-wise relation its comparators respect.
Used by `Props/C12` (two runs of the same optimizer on a task and on its dual).
-/

namespace List

/-- `Forall₂ R l1 l2`: the lists have the same length and `R` holds position by position. -/
inductive Forall₂ {α β : Type} (R : α → β → Prop) : List α → List β → Prop where
  | nil : Forall₂ R [] []
  | cons {a : α} {b : β} {l1 : List α} {l2 : List β} : R a b → Forall₂ R l1 l2 → Forall₂ R (a :: l1) (b :: l2)

namespace Forall₂
variable {α β : Type} {R : α → β → Prop}

theorem length_eq {l1 : List α} {l2 : List β} (h : Forall₂ R l1 l2) : l1.length = l2.length := by
  induction h with
  | nil => rfl
  | cons _ _ ih => simp [ih]

theorem append {l1 m1 : List α} {l2 m2 : List β} (h : Forall₂ R l1 l2) (h' : Forall₂ R m1 m2) :
    Forall₂ R (l1 ++ m1) (l2 ++ m2) := by
  induction h with
  | nil => exact h'
  | cons hab _ ih => exact .cons hab ih

theorem map {γ δ : Type} {S : γ → δ → Prop} (f : α → γ) (g : β → δ) (hfg : ∀ a b, R a b → S (f a) (g b))
    {l1 : List α} {l2 : List β} (h : Forall₂ R l1 l2) : Forall₂ S (l1.map f) (l2.map g) := by
  induction h with
  | nil => exact .nil
  | cons hab _ ih => exact .cons (hfg _ _ hab) ih

theorem take (n : Nat) {l1 : List α} {l2 : List β} (h : Forall₂ R l1 l2) : Forall₂ R (l1.take n) (l2.take n) := by
  induction h generalizing n with
  | nil => simp only [List.take_nil]; exact .nil
  | cons hab _ ih =>
    cases n with
    | zero => simp only [List.take_zero]; exact .nil
    | succ n => simp only [List.take_succ_cons]; exact .cons hab (ih n)

theorem drop (n : Nat) {l1 : List α} {l2 : List β} (h : Forall₂ R l1 l2) : Forall₂ R (l1.drop n) (l2.drop n) := by
  induction h generalizing n with
  | nil => simp only [List.drop_nil]; exact .nil
  | cons hab ht ih =>
    cases n with
    | zero => simp only [List.drop_zero]; exact .cons hab ht
    | succ n => simp only [List.drop_succ_cons]; exact ih n

/-- indexing: both out of range, or both in range with related elements. -/
theorem getElem? {l1 : List α} {l2 : List β} (h : Forall₂ R l1 l2) (i : Nat) :
    (l1[i]? = none ∧ l2[i]? = none) ∨ ∃ a b, l1[i]? = some a ∧ l2[i]? = some b ∧ R a b := by
  induction h generalizing i with
  | nil => left; simp
  | cons hab _ ih =>
    cases i with
    | zero => right; exact ⟨_, _, by simp, by simp, hab⟩
    | succ i => simpa using ih i

end Forall₂
end List

/-- two computations that may raise are related: both return, with `R`-related values, or both raise the same error. -/
def ExRel {α β : Type} (R : α → β → Prop) : Except Err α → Except Err β → Prop
  | .ok a, .ok b => R a b
  | .error e1, .error e2 => e1 = e2
  | _, _ => False

theorem insertBy_forall₂ {α β : Type} {R : α → β → Prop} (le1 : α → α → Bool) (le2 : β → β → Bool)
    (hle : ∀ a a' b b', R a b → R a' b' → le1 a a' = le2 b b')
    {a : α} {b : β} (hab : R a b) {l1 : List α} {l2 : List β} (h : List.Forall₂ R l1 l2) :
    List.Forall₂ R (insertBy le1 a l1) (insertBy le2 b l2) := by
  induction h with
  | nil => exact .cons hab .nil
  | cons hcd ht ih =>
    simp only [insertBy]
    rw [hle _ _ _ _ hab hcd]
    split
    · exact .cons hab (.cons hcd ht)
    · exact .cons hcd ih

/-- a stable sort whose two comparators agree on related elements maps related lists to related lists. -/
theorem isort_forall₂ {α β : Type} {R : α → β → Prop} (le1 : α → α → Bool) (le2 : β → β → Bool)
    (hle : ∀ a a' b b', R a b → R a' b' → le1 a a' = le2 b b')
    {l1 : List α} {l2 : List β} (h : List.Forall₂ R l1 l2) :
    List.Forall₂ R (isort le1 l1) (isort le2 l2) := by
  induction h with
  | nil => exact .nil
  | cons hab _ ih => exact insertBy_forall₂ le1 le2 hle hab ih
