import PvModel.Lemmas.NumLemmas
import PvModel.Lemmas.SortLemmas
/-! `argsort` returns a permutation of the indices, ordered by key. -/

theorem keyLe_trans (a b c : Num) (h1 : keyLe a b = true) (h2 : keyLe b c = true) : keyLe a c = true := by
  cases a <;> cases b <;> cases c <;> simp_all [keyLe, Num.le]
  exact Rat.le_trans h1 h2

theorem keyLe_total (a b : Num) : (keyLe a b || keyLe b a) = true := by
  cases a <;> cases b <;> simp [keyLe, Num.le]
  exact Rat.le_total

theorem argsort_length (xs : List Num) : (argsort xs).length = xs.length := by
  simp [argsort, isort_length]

/-- `argsort xs` is a permutation of `0 .. len-1` — for every key vector, ties and NaN included. -/
theorem argsort_perm (xs : List Num) : (argsort xs).Perm (List.range xs.length) := by
  unfold argsort
  have h := (isort_perm (fun a b => keyLe a.2 b.2) ((List.range xs.length).zip xs)).map (·.1)
  refine h.trans ?_
  have : ((List.range xs.length).zip xs).map (·.1) = List.range xs.length := by
    apply List.map_fst_zip
    simp
  rw [this]
