import PvModel.Grid
import PvModel.Lemmas.SortLemmas
/-! Lemmas behind `Props/C19` (selection): the head of a stable sort is minimal, the dense-rank scan, `minNat`, pandas' average rank. -/

namespace Grid

/-! ### `minNat` -/

theorem minNat_isSome (l : List Nat) (h : l ≠ []) : ∃ m, minNat l = some m := by
  cases l with
  | nil => exact absurd rfl h
  | cons x xs =>
    simp only [minNat]
    cases minNat xs with
    | none => exact ⟨x, rfl⟩
    | some m => exact ⟨_, rfl⟩

theorem minNat_spec (l : List Nat) (m : Nat) (h : minNat l = some m) : m ∈ l ∧ ∀ x ∈ l, m ≤ x := by
  induction l generalizing m with
  | nil => simp [minNat] at h
  | cons x xs ih =>
    simp only [minNat] at h
    cases hxs : minNat xs with
    | none =>
      rw [hxs] at h
      cases xs with
      | nil => simp at h; subst h; simp
      | cons y ys =>
        obtain ⟨m', hm'⟩ := minNat_isSome (y :: ys) (by simp)
        rw [hm'] at hxs; cases hxs
    | some m' =>
      rw [hxs] at h
      obtain ⟨hmem, hle⟩ := ih m' hxs
      simp only [Option.some.injEq] at h
      by_cases hx : x ≤ m'
      · simp only [hx, if_true] at h; subst h
        exact ⟨List.mem_cons_self, fun y hy => by
          rcases List.mem_cons.mp hy with rfl | hy
          · exact Nat.le_refl _
          · exact Nat.le_trans hx (hle y hy)⟩
      · simp only [hx, if_false] at h; subst h
        exact ⟨List.mem_cons_of_mem _ hmem, fun y hy => by
          rcases List.mem_cons.mp hy with rfl | hy
          · omega
          · exact hle y hy⟩

theorem minNat_eq_of (l : List Nat) (m : Nat) (hm : m ∈ l) (hle : ∀ x ∈ l, m ≤ x) : minNat l = some m := by
  obtain ⟨m', h⟩ := minNat_isSome l (List.ne_nil_of_mem hm)
  obtain ⟨h1, h2⟩ := minNat_spec l m' h
  have : m' = m := Nat.le_antisymm (h2 m hm) (hle m' h1)
  rw [h, this]

/-! ### the head of an insertion sort -/

theorem isort_head_min (le : α → α → Bool) (m : α → Nat)
    (h1 : ∀ a b, le a b = true → m a ≤ m b) (h2 : ∀ a b, le a b = false → m b ≤ m a)
    (l : List α) (hl : l ≠ []) : ∃ h t, isort le l = h :: t ∧ ∀ y ∈ l, m h ≤ m y := by
  induction l with
  | nil => exact absurd rfl hl
  | cons a l ih =>
    by_cases hl' : l = []
    · subst hl'
      exact ⟨a, [], by simp [isort, insertBy], by simp⟩
    · obtain ⟨h', t', e, hmin⟩ := ih hl'
      simp only [isort, e, insertBy]
      cases hle : le a h' with
      | true =>
        refine ⟨a, h' :: t', by simp, ?_⟩
        intro y hy
        rcases List.mem_cons.mp hy with rfl | hy
        · exact Nat.le_refl _
        · exact Nat.le_trans (h1 _ _ hle) (hmin y hy)
      | false =>
        refine ⟨h', insertBy le a t', by simp, ?_⟩
        intro y hy
        rcases List.mem_cons.mp hy with rfl | hy
        · exact h2 _ _ hle
        · exact hmin y hy

/-! ### the dense-rank scan -/

theorem denseScan_ge (ne : α → α → Bool) (r : Nat) (p : α) (xs : List α) :
    ∀ q ∈ denseScan ne r p xs, r ≤ q.2 := by
  induction xs generalizing r p with
  | nil => simp [denseScan]
  | cons x xs ih =>
    intro q hq
    simp only [denseScan, List.mem_cons] at hq
    rcases hq with rfl | hq
    · simp only; split <;> omega
    · have := ih _ _ q hq
      split at this <;> omega

/-- an element that still carries the rank the scan started with is connected to the start by a chain of "not different"
neighbours; whatever `f` those preserve is preserved. -/
theorem denseScan_eq (ne : α → α → Bool) (f : α → β) (hne : ∀ a b, ne a b = false → f a = f b)
    (r : Nat) (p : α) (xs : List α) : ∀ q ∈ denseScan ne r p xs, q.2 = r → f q.1 = f p := by
  induction xs generalizing r p with
  | nil => simp [denseScan]
  | cons x xs ih =>
    intro q hq hr
    simp only [denseScan, List.mem_cons] at hq
    rcases hq with rfl | hq
    · simp only at hr ⊢
      cases hx : ne p x with
      | true => simp [hx] at hr
      | false => exact (hne _ _ hx).symm
    · have hge := denseScan_ge ne _ _ _ q hq
      cases hx : ne p x with
      | true => simp only [hx, if_true] at hge; omega
      | false =>
        simp only [hx] at hq
        have := ih r x q (by simpa using hq) hr
        rw [this, (hne _ _ hx)]

theorem denseScan_fst (ne : α → α → Bool) (r : Nat) (p : α) (xs : List α) :
    (denseScan ne r p xs).map (·.1) = xs := by
  induction xs generalizing r p with
  | nil => rfl
  | cons x xs ih => simp [denseScan, ih]

theorem denseSorted_fst (ne : α → α → Bool) (xs : List α) : (denseSorted ne xs).map (·.1) = xs := by
  cases xs with
  | nil => rfl
  | cons x xs => simp [denseSorted, denseScan_fst]

/-! ### pandas' average rank is strictly monotone -/

theorem countP_lt_add_eq_le (xs : List Rat) (a b : Rat) (h : a < b) :
    xs.countP (fun y => decide (y < a)) + xs.countP (fun y => decide (y = a)) ≤ xs.countP (fun y => decide (y < b)) := by
  induction xs with
  | nil => simp
  | cons y ys ih =>
    simp only [List.countP_cons]
    by_cases h1 : y < a
    · have h2 : y < b := by grind
      have h3 : ¬ y = a := by grind
      simp [h1, h2, h3]; omega
    · by_cases h3 : y = a
      · subst h3
        simp [h1, h]; omega
      · simp [h1, h3]
        split <;> omega

theorem countP_gt_add_eq_le (xs : List Rat) (a b : Rat) (h : b < a) :
    xs.countP (fun y => decide (a < y)) + xs.countP (fun y => decide (y = a)) ≤ xs.countP (fun y => decide (b < y)) := by
  induction xs with
  | nil => simp
  | cons y ys ih =>
    simp only [List.countP_cons]
    by_cases h1 : a < y
    · have h2 : b < y := by grind
      have h3 : ¬ y = a := by grind
      simp [h1, h2, h3]; omega
    · by_cases h3 : y = a
      · subst h3
        simp [h1, h]; omega
      · simp [h1, h3]
        split <;> omega

theorem countP_eq_pos (xs : List Rat) (a : Rat) (h : a ∈ xs) : 0 < xs.countP (fun y => decide (y = a)) := by
  rw [List.countP_pos_iff]
  exact ⟨a, h, by simp⟩

end Grid
