import PvModel.Select
import PvModel.Lemmas.ArgsortLemmas
/-! Selection lemmas shared by C03, C16, C17. -/

/-- every cost of the population is a number (no NaN): the hypothesis under which costs are totally ordered. -/
def NoNaN (pop : List Agent) : Prop := ∀ a ∈ pop, a.cost.isNaN = false

theorem costLe_trans (d : Dir) (a b c : Agent) (h1 : costLe d a b = true) (h2 : costLe d b c = true) : costLe d a c = true := by
  cases d <;> simp only [costLe] at *
  · exact Num.le_trans _ _ _ h1 h2
  · exact Num.le_trans _ _ _ h2 h1

theorem costLe_total (d : Dir) (a b : Agent) (ha : a.cost.isNaN = false) (hb : b.cost.isNaN = false) :
    (costLe d a b || costLe d b a) = true := by
  cases d <;> simp only [costLe]
  · exact Num.le_total_of_not_nan _ _ ha hb
  · exact Num.le_total_of_not_nan _ _ hb ha

theorem sortByCost_perm (d : Dir) (pop : List Agent) : (sortByCost d pop).Perm pop := isort_perm _ _

theorem sortByCost_length (d : Dir) (pop : List Agent) : (sortByCost d pop).length = pop.length := isort_length _ _

theorem mem_sortByCost {d : Dir} {pop : List Agent} {a : Agent} : a ∈ sortByCost d pop ↔ a ∈ pop := mem_isort

theorem sortByCost_sorted (d : Dir) (pop : List Agent) (h : NoNaN pop) :
    (sortByCost d pop).Pairwise (fun a b => costLe d a b = true) :=
  isort_pairwise_on (costLe d) (fun a => a.cost.isNaN = false)
    (fun a b c _ _ _ => costLe_trans d a b c) (fun a b ha hb => costLe_total d a b ha hb) pop h

/-- `costLe d a b` excludes that `b` is strictly better than `a` in direction `d`. -/
theorem not_better_of_costLe (d : Dir) (a b : Agent) (h : costLe d a b = true) : better d b.cost a.cost = false := by
  cases d <;> simp_all [costLe, better, Num.lt]

theorem take_drop_split (l : List Agent) (n : Nat) (R : Agent → Agent → Prop) (h : l.Pairwise R) :
    ∀ a ∈ l.take n, ∀ b ∈ l.drop n, R a b := by
  intro a ha b hb
  have := List.take_append_drop n l
  rw [← this] at h
  exact (List.pairwise_append.mp h).2.2 a ha b hb

theorem noNaN_of_perm {l l' : List Agent} (hp : l.Perm l') (h : NoNaN l') : NoNaN l :=
  fun a ha => h a (hp.mem_iff.mp ha)

theorem noNaN_append {l l' : List Agent} (h : NoNaN l) (h' : NoNaN l') : NoNaN (l ++ l') := by
  intro a ha
  rcases List.mem_append.mp ha with h1 | h1
  · exact h a h1
  · exact h' a h1
