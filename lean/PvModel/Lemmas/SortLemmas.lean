import PvModel.Sort
/-! `isort` returns a sorted permutation of its input. -/

theorem insertBy_perm (le : α → α → Bool) (a : α) (l : List α) : (insertBy le a l).Perm (a :: l) := by
  induction l with
  | nil => simp [insertBy]
  | cons b l ih =>
    simp only [insertBy]
    split
    · exact List.Perm.refl _
    · exact (List.Perm.cons b ih).trans (List.Perm.swap a b l)

theorem isort_perm (le : α → α → Bool) (l : List α) : (isort le l).Perm l := by
  induction l with
  | nil => exact List.Perm.refl _
  | cons a l ih => exact (insertBy_perm le a _).trans (List.Perm.cons a ih)

theorem isort_length (le : α → α → Bool) (l : List α) : (isort le l).length = l.length :=
  (isort_perm le l).length_eq

theorem mem_isort {le : α → α → Bool} {l : List α} {a : α} : a ∈ isort le l ↔ a ∈ l :=
  (isort_perm le l).mem_iff

/-- sortedness, for a comparison that is transitive and total on the elements satisfying `P` (e.g. NaN-free costs). -/
theorem insertBy_pairwise_on (le : α → α → Bool) (P : α → Prop)
    (trans : ∀ a b c, P a → P b → P c → le a b = true → le b c = true → le a c = true)
    (total : ∀ a b, P a → P b → (le a b || le b a) = true)
    (a : α) (l : List α) (ha : P a) (hl : ∀ x ∈ l, P x) (h : l.Pairwise (fun x y => le x y = true)) :
    (insertBy le a l).Pairwise (fun x y => le x y = true) := by
  induction l with
  | nil => simp [insertBy]
  | cons b l ih =>
    simp only [insertBy]
    have hb := List.pairwise_cons.mp h
    have hPb : P b := hl b List.mem_cons_self
    have hl' : ∀ x ∈ l, P x := fun x hx => hl x (List.mem_cons_of_mem _ hx)
    split
    · rename_i hab
      refine List.pairwise_cons.mpr ⟨?_, h⟩
      intro c hc
      rcases List.mem_cons.mp hc with rfl | hc
      · exact hab
      · exact trans _ _ _ ha hPb (hl' c hc) hab (hb.1 c hc)
    · rename_i hab
      have hba : le b a = true := by
        have := total a b ha hPb
        simp only [Bool.or_eq_true] at this
        rcases this with h' | h'
        · exact absurd h' hab
        · exact h'
      refine List.pairwise_cons.mpr ⟨?_, ih hl' hb.2⟩
      intro c hc
      have : c ∈ a :: l := (insertBy_perm le a l).mem_iff.mp hc
      rcases List.mem_cons.mp this with rfl | hc
      · exact hba
      · exact hb.1 c hc

theorem isort_pairwise_on (le : α → α → Bool) (P : α → Prop)
    (trans : ∀ a b c, P a → P b → P c → le a b = true → le b c = true → le a c = true)
    (total : ∀ a b, P a → P b → (le a b || le b a) = true) (l : List α) (hl : ∀ x ∈ l, P x) :
    (isort le l).Pairwise (fun x y => le x y = true) := by
  induction l with
  | nil => simp [isort]
  | cons a l ih =>
    have hl' : ∀ x ∈ l, P x := fun x hx => hl x (List.mem_cons_of_mem _ hx)
    exact insertBy_pairwise_on le P trans total a _ (hl a List.mem_cons_self)
      (fun x hx => hl' x ((isort_perm le l).mem_iff.mp hx)) (ih hl')

/-- the output is sorted, for every transitive and total comparison. -/
theorem isort_pairwise (le : α → α → Bool)
    (trans : ∀ a b c, le a b = true → le b c = true → le a c = true)
    (total : ∀ a b, (le a b || le b a) = true) (l : List α) :
    (isort le l).Pairwise (fun x y => le x y = true) :=
  isort_pairwise_on le (fun _ => True) (fun a b c _ _ _ => trans a b c) (fun a b _ _ => total a b) l (fun _ _ => trivial)

theorem insertBy_of_forall_le (le : α → α → Bool) (a : α) (l : List α) (h : ∀ b ∈ l, le a b = true) :
    insertBy le a l = a :: l := by
  cases l with
  | nil => rfl
  | cons b l => simp [insertBy, h b (List.mem_cons_self)]

/-- an already sorted list is left as it is. -/
theorem isort_of_pairwise (le : α → α → Bool) (l : List α) (h : l.Pairwise (fun x y => le x y = true)) :
    isort le l = l := by
  induction l with
  | nil => rfl
  | cons a l ih =>
    have hb := List.pairwise_cons.mp h
    simp only [isort, ih hb.2]
    exact insertBy_of_forall_le le a l hb.1

/-- uniqueness: a sorted permutation of `l` (w.r.t. an order that is antisymmetric on the elements of `l`) is `isort l`. -/
theorem isort_unique (le : α → α → Bool)
    (trans : ∀ a b c, le a b = true → le b c = true → le a c = true)
    (total : ∀ a b, (le a b || le b a) = true)
    (l s : List α) (hp : s.Perm l) (hs : s.Pairwise (fun x y => le x y = true))
    (anti : ∀ a b, a ∈ l → b ∈ l → le a b = true → le b a = true → a = b) :
    isort le l = s := by
  apply List.Perm.eq_of_pairwise (le := fun x y => le x y = true)
  · intro a b ha hb h1 h2
    exact anti a b (mem_isort.mp ha) (hp.mem_iff.mp hb) h1 h2
  · exact isort_pairwise le trans total l
  · exact hs
  · exact (isort_perm le l).trans hp.symm
