import PvModel.Py
/-!
# PyLemmas — the Python primitives of `PvModel/Py.lean` on the arguments the model quantifies over
(natural-number counts and indices); used by the refinement theorems `Props/R*.lean`.
-/

namespace Py

@[simp] theorem id_pure (x : α) : (pure x : Id α) = x := rfl

@[simp] theorem len_eq (l : List α) : Py.len l = (l.length : Int) := rfl

@[simp] theorem sliceTo_nat (l : List α) (n : Nat) : Py.sliceTo l (n : Int) = l.take n := by
  simp [Py.sliceTo]; omega

@[simp] theorem sliceFrom_nat (l : List α) (n : Nat) : Py.sliceFrom l (n : Int) = l.drop n := by
  simp [Py.sliceFrom]; omega

/-- `l[len(m) - n:]` for `n ≤ m`: no wrap-around -/
theorem sliceFrom_sub (l : List α) (m n : Nat) (h : n ≤ m) : Py.sliceFrom l ((m : Int) - (n : Int)) = l.drop (m - n) := by
  have : ((m : Int) - (n : Int)) = ((m - n : Nat) : Int) := by omega
  rw [this, sliceFrom_nat]

/-- `l[-n:]` for `n ≥ 1`: the last `n` elements (all of them when there are fewer) -/
theorem sliceFrom_neg (l : List α) (n : Nat) (h : 1 ≤ n) : Py.sliceFrom l (-(n : Int)) = l.drop (l.length - n) := by
  unfold Py.sliceFrom
  have : (-(n : Int)) < 0 := by omega
  simp only [this, ↓reduceIte, len_eq]
  congr 1; omega

@[simp] theorem slice_nat (l : List α) (a b : Nat) : Py.slice l (a : Int) (b : Int) = (l.take b).drop a := by
  simp [Py.slice]
  have ha : ¬ ((a : Int) < 0) := by omega
  have hb : ¬ ((b : Int) < 0) := by omega
  simp [ha, hb]

@[simp] theorem getNat_eq (l : List α) (i : Nat) : Py.getNat l i = match l[i]? with | some a => .ok a | none => .error .indexError := rfl

theorem getItem_nat (l : List α) (i : Nat) : Py.getItem l (i : Int) = match l[i]? with | some a => .ok a | none => .error .indexError := by
  unfold Py.getItem
  have h1 : ¬ ((i : Int) < 0) := by omega
  simp [h1]
  cases l[i]? <;> rfl

theorem range_zero_nat (n : Nat) : Py.range 0 (n : Int) = (List.range n).map (fun (k : Nat) => (k : Int)) := by
  simp [Py.range]

theorem except_ok_bind {α β : Type} (v : α) (f : α → Except Err β) : ((Except.ok v : Except Err α) >>= f) = f v := rfl

end Py
