import PvModel.Lemmas.ArgsortLemmas
/-! The rank transform `argsort ∘ argsort` leaves every permutation of the item indices unchanged. -/

theorem keyLe_antisymm (a b : Num) (h1 : keyLe a b = true) (h2 : keyLe b a = true) : a = b := by
  cases a <;> cases b <;> simp_all [keyLe, Num.le]
  exact Rat.le_antisymm h1 h2

theorem natNum_inj {a b : Nat} (h : natNum a = natNum b) : a = b := by
  simp only [natNum, Num.fin.injEq] at h
  have h' : (a : Int) = (b : Int) := by exact_mod_cast h
  omega

theorem natNum_keyLe {a b : Nat} (h : a ≤ b) : keyLe (natNum a) (natNum b) = true := by
  have h' : ((a : Int) : Rat) ≤ ((b : Int) : Rat) := by exact_mod_cast h
  simp [natNum, keyLe, Num.le, h']

theorem intNum_ofNat (k : Nat) : intNum (Int.ofNat k) = natNum k := rfl

theorem range_natNum_sorted (n : Nat) :
    ((List.range n).map natNum).Pairwise (fun a b => keyLe a b = true) := by
  rw [List.pairwise_map]
  exact (List.pairwise_lt_range (n := n)).imp (fun h => natNum_keyLe (Nat.le_of_lt h))

/-- the list `argsort` sorts: index/key pairs -/
theorem zip_range_eq (xs : List Num) :
    (List.range xs.length).zip xs = (List.range xs.length).map (fun i => (i, xs.getD i .nan)) := by
  apply List.ext_getElem
  · simp
  · intro i h1 h2
    simp at h1
    simp [List.getElem_zip, h1]

/-- uniqueness: a permutation of the indices that orders pairwise distinct keys is `argsort`. -/
theorem argsort_unique (xs : List Num) (hnd : xs.Nodup) (s : List Nat)
    (hs : s.Perm (List.range xs.length))
    (hsorted : (s.map (fun i => xs.getD i .nan)).Pairwise (fun a b => keyLe a b = true)) :
    argsort xs = s := by
  unfold argsort
  rw [zip_range_eq]
  have key := isort_unique (fun a b : Nat × Num => keyLe a.2 b.2)
    (fun a b c => keyLe_trans a.2 b.2 c.2) (fun a b => keyLe_total a.2 b.2)
    ((List.range xs.length).map (fun i => (i, xs.getD i .nan)))
    (s.map (fun i => (i, xs.getD i .nan)))
    (hs.map _)
    (by
      rw [List.pairwise_map]
      rw [List.pairwise_map] at hsorted
      exact hsorted)
    (by
      intro a b ha hb h1 h2
      simp only [List.mem_map, List.mem_range] at ha hb
      obtain ⟨i, hi, rfl⟩ := ha
      obtain ⟨j, hj, rfl⟩ := hb
      have he := keyLe_antisymm _ _ h1 h2
      have : i = j := (List.getD_inj hi hj hnd).mp he
      subst this; rfl)
  rw [key]
  simp [List.map_map, Function.comp_def]

/-- the keys read in `argsort` order are `isort`'s second components -/
theorem argsort_keys_eq (xs : List Num) :
    (argsort xs).map (fun i => xs.getD i .nan) =
      (isort (fun a b : Nat × Num => keyLe a.2 b.2) ((List.range xs.length).zip xs)).map (·.2) := by
  unfold argsort
  rw [List.map_map]
  apply List.map_congr_left
  intro e he
  have he' := mem_isort.mp he
  rw [zip_range_eq] at he'
  simp only [List.mem_map] at he'
  obtain ⟨i, _, rfl⟩ := he'
  rfl

theorem argsort_keys_sorted (xs : List Num) :
    ((argsort xs).map (fun i => xs.getD i .nan)).Pairwise (fun a b => keyLe a b = true) := by
  rw [argsort_keys_eq, List.pairwise_map]
  exact isort_pairwise (fun a b : Nat × Num => keyLe a.2 b.2)
    (fun a b c => keyLe_trans a.2 b.2 c.2) (fun a b => keyLe_total a.2 b.2) _

theorem argsort_keys_perm (xs : List Num) :
    ((argsort xs).map (fun i => xs.getD i .nan)).Perm xs := by
  rw [argsort_keys_eq]
  have h := (isort_perm (fun a b : Nat × Num => keyLe a.2 b.2) ((List.range xs.length).zip xs)).map (·.2)
  refine h.trans ?_
  have : ((List.range xs.length).zip xs).map (·.2) = xs := by
    apply List.map_snd_zip
    simp
  rw [this]

/-- the rank transform leaves every permutation of the item indices unchanged -/
theorem rank_fix (p : List Nat) (n : Nat) (hp : p.Perm (List.range n)) :
    argsort ((argsort (p.map natNum)).map natNum) = p := by
  have hlen : p.length = n := by simpa using hp.length_eq
  have hpnd : p.Nodup := (hp.nodup_iff).mpr List.nodup_range
  have hplt : ∀ i (h : i < p.length), p[i] < n := by
    intro i h
    have : p[i] ∈ List.range n := hp.mem_iff.mp (List.getElem_mem h)
    simpa using this
  -- q := argsort (p.map natNum)
  have hq : (argsort (p.map natNum)).Perm (List.range n) := by
    have := argsort_perm (p.map natNum)
    simpa [hlen] using this
  have hqlen : (argsort (p.map natNum)).length = n := by simpa using hq.length_eq
  have hqnd : (argsort (p.map natNum)).Nodup := (hq.nodup_iff).mpr List.nodup_range
  have hqlt : ∀ i (h : i < (argsort (p.map natNum)).length), (argsort (p.map natNum))[i] < n := by
    intro i h
    have : (argsort (p.map natNum))[i] ∈ List.range n := hq.mem_iff.mp (List.getElem_mem h)
    simpa using this
  -- step 1: the sorted keys are 0..n-1
  have hkeys : (argsort (p.map natNum)).map (fun i => (p.map natNum).getD i .nan) =
      (List.range n).map natNum := by
    apply List.Perm.eq_of_pairwise (le := fun a b => keyLe a b = true)
    · intro a b _ _ h1 h2; exact keyLe_antisymm a b h1 h2
    · exact argsort_keys_sorted _
    · exact range_natNum_sorted n
    · exact (argsort_keys_perm _).trans (hp.map natNum)
  -- p[q[k]] = k
  have hpq : ∀ k (hk : k < n), p[(argsort (p.map natNum))[k]'(by omega)]'(by
      have := hqlt k (by omega); omega) = k := by
    intro k hk
    have hk' : k < (argsort (p.map natNum)).length := by omega
    have hqk := hqlt k hk'
    have h := congrArg (fun l => l[k]?) hkeys
    simp only [List.getElem?_map, List.getElem?_eq_getElem hk', Option.map_some,
      List.getElem?_range hk] at h
    have h2 : (p.map natNum).getD (argsort (p.map natNum))[k] .nan
        = natNum p[(argsort (p.map natNum))[k]] := by
      simp [List.getD_eq_getElem?_getD, List.getElem?_eq_getElem (show (argsort (p.map natNum))[k] < p.length by omega)]
    rw [h2] at h
    exact natNum_inj (Option.some.inj h)
  -- q[p[m]] = m
  have hqp : ∀ m (hm : m < n), (argsort (p.map natNum))[p[m]'(by omega)]'(by
      have := hplt m (by omega); omega) = m := by
    intro m hm
    have hm' : m < p.length := by omega
    have hpm := hplt m hm'
    have h1 := hpq p[m] hpm
    have hb : (argsort (p.map natNum))[p[m]] < p.length := by
      have := hqlt p[m] (by omega); omega
    exact (List.getElem_inj (h₀ := hb) (h₁ := hm') hpnd).mp h1
  -- step 2: apply uniqueness
  apply argsort_unique
  · rw [List.nodup_iff_pairwise_ne, List.pairwise_map]
    exact hqnd.imp (fun h h' => h (natNum_inj h'))
  · simpa [hqlen] using hp
  · have : p.map (fun i => ((argsort (p.map natNum)).map natNum).getD i .nan) =
        (List.range n).map natNum := by
      apply List.ext_getElem
      · simp [hlen]
      · intro m h1 h2
        have hm : m < n := by simpa [hlen] using h1
        have hm' : m < p.length := by omega
        have hpm := hplt m hm'
        have hb : p[m] < (argsort (p.map natNum)).length := by omega
        simp [List.getD_eq_getElem?_getD, List.getElem?_eq_getElem hb, hqp m hm]
    rw [this]
    exact range_natNum_sorted n

/-- `PermutationVariable.correct` leaves every permutation of the item indices unchanged. -/
theorem perm_correct_fix (n : Nat) (l : List Int) (h : (Var.perm n).mem (.ints l) = true) :
    (Var.perm n).correct (Coord.toRaw (.ints l)) = .ok (.ints l) := by
  simp only [Var.mem, decide_eq_true_eq] at h
  have hperm : l.Perm ((List.range n).map Int.ofNat) := by
    rw [← h]; exact (isort_perm _ l).symm
  have hl : l = (l.map Int.toNat).map Int.ofNat := by
    rw [List.map_map]
    conv => lhs; rw [← List.map_id l]
    apply List.map_congr_left
    intro a ha
    have ha' := hperm.mem_iff.mp ha
    simp only [List.mem_map, List.mem_range] at ha'
    obtain ⟨k, _, rfl⟩ := ha'
    simp
  have hp : (l.map Int.toNat).Perm (List.range n) := by
    have := hperm.map Int.toNat
    simpa [List.map_map, Function.comp_def] using this
  have hkeys : l.map intNum = (l.map Int.toNat).map natNum := by
    conv => lhs; rw [hl]
    rw [List.map_map]
    apply List.map_congr_left
    intro k _
    rfl
  simp only [Coord.toRaw, Var.correct, hkeys, rank_fix _ n hp]
  rw [← hl]
