import PvModel.Vars
/-! Helper lemmas about `Num`: order, clip. -/

namespace Num

theorem le_fin_fin (a b : Rat) : le (fin a) (fin b) = decide (a ≤ b) := rfl

theorem rat_le_of_not_le {a b : Rat} (h : ¬ a ≤ b) : b ≤ a := by
  rcases Rat.le_total (a := a) (b := b) with h' | h'
  · exact absurd h' h
  · exact h'

theorem le_refl_of_not_nan (x : Num) (h : x.isNaN = false) : le x x = true := by
  cases x <;> simp_all [le, isNaN, Rat.le_refl]

theorem le_total_of_not_nan (x y : Num) (hx : x.isNaN = false) (hy : y.isNaN = false) :
    (le x y || le y x) = true := by
  cases x <;> cases y <;> simp_all [le, isNaN]
  exact Rat.le_total

theorem le_trans (x y z : Num) (h1 : le x y = true) (h2 : le y z = true) : le x z = true := by
  cases x <;> cases y <;> cases z <;> simp_all [le]
  exact Rat.le_trans h1 h2

theorem le_antisymm (x y : Num) (h1 : le x y = true) (h2 : le y x = true) : x = y := by
  cases x <;> cases y <;> simp_all [le]
  exact Rat.le_antisymm h1 h2

/-- on numbers (no NaN), "not strictly less" means "greater or equal" -/
theorem ge_of_not_lt (x y : Num) (hx : x.isNaN = false) (hy : y.isNaN = false) (h : lt x y = false) : le y x = true := by
  have ht := le_total_of_not_nan x y hx hy
  simp only [Bool.or_eq_true] at ht
  rcases ht with ht | ht
  · cases hyx : le y x with
    | true => rfl
    | false => simp [lt, ht, hyx] at h
  · exact ht

theorem neg_neg (x : Num) : neg (neg x) = x := by
  cases x <;> simp [neg, Rat.neg_neg]

/-- negation reverses the order of doubles. -/
theorem le_neg_neg (x y : Num) : le (neg x) (neg y) = le y x := by
  cases x <;> cases y <;> simp [le, neg, Rat.neg_le_neg_iff]

theorem lt_neg_neg (x y : Num) : lt (neg x) (neg y) = lt y x := by
  simp [lt, le_neg_neg]

theorem isNaN_neg (x : Num) : (neg x).isNaN = x.isNaN := by cases x <;> rfl

/-- `np.clip` of a non-NaN value into finite bounds `lo ≤ hi` is a finite value within the bounds. -/
theorem clip_mem (x : Num) (lo hi : Rat) (h : lo ≤ hi) (hx : x.isNaN = false) :
    ∃ q, clip x (fin lo) (fin hi) = fin q ∧ lo ≤ q ∧ q ≤ hi := by
  cases x with
  | nan => simp [isNaN] at hx
  | ninf => exact ⟨lo, by simp [clip, maxN, minN, le, h], Rat.le_refl, h⟩
  | pinf => exact ⟨hi, by simp [clip, maxN, minN, le], h, Rat.le_refl⟩
  | fin q =>
    by_cases h1 : q ≤ lo
    · exact ⟨lo, by simp [clip, maxN, minN, le, h1, h], Rat.le_refl, h⟩
    · have h1' : lo ≤ q := rat_le_of_not_le h1
      by_cases h2 : q ≤ hi
      · exact ⟨q, by simp [clip, maxN, minN, le, h1, h2], h1', h2⟩
      · have h2' : hi ≤ q := rat_le_of_not_le h2
        exact ⟨hi, by simp [clip, maxN, minN, le, h1, h2], h, Rat.le_refl⟩

/-- `np.clip` leaves a value that is already within the bounds unchanged. -/
theorem clip_fix (q lo hi : Rat) (h1 : lo ≤ q) (h2 : q ≤ hi) : clip (fin q) (fin lo) (fin hi) = fin q := by
  by_cases e : q ≤ lo
  · have : q = lo := Rat.le_antisymm e h1
    subst this; simp [clip, maxN, minN, le, h2]
  · simp [clip, maxN, minN, le, e, h2]

/-- general form: any value between the (possibly infinite) bounds is left unchanged. -/
theorem clip_fix' (x lo hi : Num) (h1 : le lo x = true) (h2 : le x hi = true) : clip x lo hi = x := by
  have hmax : maxN x lo = x := by
    cases x <;> cases lo <;> simp_all [maxN, le]
    rename_i q a
    intro e
    exact (Rat.le_antisymm h1 e)
  have hmin : minN x hi = x := by
    cases x <;> cases hi <;> simp_all [minN, le]
  simp [clip, hmax, hmin]

/-- NaN goes through `np.clip` unchanged (this is why C05 needs the NaN-free hypothesis). -/
theorem clip_nan (lo hi : Num) : clip nan lo hi = nan := by
  simp [clip, maxN, minN]

end Num
