import PvModel.Grid
import PvModel.Lemmas.SortLemmas
/-! Lemmas behind `Props/C19`: mixed-radix decoding of a Cartesian product, perm-invariance of the size product. -/

namespace Grid

/-- the product of the value-list lengths -/
def sizeProd : List (String × List V) → Nat
  | [] => 1
  | kv :: rest => kv.2.length * sizeProd rest

theorem foldl_mul_eq (l : List (String × List V)) (a : Nat) :
    l.foldl (fun acc kv => acc * kv.2.length) a = a * sizeProd l := by
  induction l generalizing a with
  | nil => simp [sizeProd]
  | cons kv l ih => simp [List.foldl_cons, ih, sizeProd, Nat.mul_assoc]

theorem subLen_eq (sg : SubGrid V) : subLen sg = sizeProd sg := by
  cases sg with
  | nil => rfl
  | cons kv l => obtain ⟨k, vs⟩ := kv; simp [subLen, foldl_mul_eq, sizeProd]

theorem sizeProd_perm {l₁ l₂ : List (String × List V)} (h : l₁.Perm l₂) : sizeProd l₁ = sizeProd l₂ := by
  induction h with
  | nil => rfl
  | cons x _ ih => simp [sizeProd, ih]
  | swap x y l => simp [sizeProd, Nat.mul_left_comm]
  | trans _ _ ih₁ ih₂ => exact ih₁.trans ih₂

theorem sizeProd_append (l₁ l₂ : List (String × List V)) : sizeProd (l₁ ++ l₂) = sizeProd l₁ * sizeProd l₂ := by
  induction l₁ with
  | nil => simp [sizeProd]
  | cons x l ih => simp [sizeProd, ih, Nat.mul_assoc]

theorem sizeProd_pos (l : List (String × List V)) (h : l.all (fun kv => !kv.2.isEmpty) = true) : 0 < sizeProd l := by
  induction l with
  | nil => simp [sizeProd]
  | cons kv l ih =>
    simp only [List.all_cons, Bool.and_eq_true] at h
    have h1 : 0 < kv.2.length := by
      have := h.1
      cases hkv : kv.2 with
      | nil => simp [hkv] at this
      | cons _ _ => simp
    exact Nat.mul_pos h1 (ih h.2)

theorem total_eq (items : List (String × List V)) : total items = (sizeProd items : Int) := by
  unfold total
  have : ∀ (a : Int), (items.map (fun kv => (kv.2.length : Int))).foldl (· * ·) a = a * (sizeProd items : Int) := by
    induction items with
    | nil => intro a; simp [sizeProd]
    | cons kv l ih => intro a; simp [List.foldl_cons, ih, sizeProd, Int.mul_assoc]
  simpa using this 1

/-! ### lists of constant-length blocks -/

theorem length_flatMap_const (l : List α) (f : α → List β) (n : Nat) (h : ∀ a, (f a).length = n) :
    (l.flatMap f).length = l.length * n := by
  induction l with
  | nil => simp
  | cons a l ih => simp [List.flatMap_cons, h, ih, Nat.add_mul, Nat.add_comm]

theorem getElem?_flatMap_const (l : List α) (f : α → List β) (n : Nat) (hn : 0 < n) (h : ∀ a, (f a).length = n) (i : Nat) :
    (l.flatMap f)[i]? = (l[i / n]?).bind (fun a => (f a)[i % n]?) := by
  induction l generalizing i with
  | nil => simp
  | cons a l ih =>
    rw [List.flatMap_cons, List.getElem?_append, h a]
    by_cases hi : i < n
    · simp [hi, Nat.div_eq_of_lt hi, Nat.mod_eq_of_lt hi]
    · simp only [hi, if_false]
      obtain ⟨j, rfl⟩ : ∃ j, i = n + j := ⟨i - n, by omega⟩
      rw [Nat.add_sub_cancel_left, ih j, Nat.add_div_left j hn, Nat.add_mod_left]
      simp

theorem cartesian_length (items : List (String × List V)) : (cartesian items).length = sizeProd items := by
  induction items with
  | nil => rfl
  | cons kv rest ih =>
    obtain ⟨k, vs⟩ := kv
    simp only [cartesian, sizeProd]
    rw [length_flatMap_const _ _ (sizeProd rest)]
    intro v; simp [ih]

theorem cartesian_append_single (A : List (String × List V)) (k : String) (vs : List V) :
    cartesian (A ++ [(k, vs)]) = (cartesian A).flatMap (fun p => vs.map (fun v => p ++ [(k, v)])) := by
  induction A with
  | nil =>
    simp only [List.nil_append, cartesian, List.map_cons, List.map_nil, List.flatMap_cons, List.flatMap_nil, List.append_nil]
    induction vs with
    | nil => rfl
    | cons v vs ihv => simp [List.flatMap_cons, ihv]
  | cons kv A ih =>
    obtain ⟨k0, vs0⟩ := kv
    simp only [List.cons_append, cartesian, ih, List.flatMap_assoc, List.map_flatMap, List.flatMap_map, List.map_map]
    rfl

/-- mixed-radix decoding: walking the keys last-to-first with `divmod` reads off the digits of the `i`-th product point. -/
theorem decode_spec (L : List (String × List V)) (hv : L.all (fun kv => !kv.2.isEmpty) = true) (i : Nat) :
    ∃ p, (cartesian L.reverse)[i % sizeProd L]? = some p ∧ decode L (i : Int) = .ok p.reverse := by
  induction L generalizing i with
  | nil => exact ⟨[], by simp [cartesian, sizeProd, Nat.mod_one], rfl⟩
  | cons kv L ih =>
    obtain ⟨k, vs⟩ := kv
    simp only [List.all_cons, Bool.and_eq_true] at hv
    have hn : 0 < vs.length := by
      cases vs with
      | nil => simp at hv
      | cons _ _ => simp
    obtain ⟨p', hp', hd'⟩ := ih hv.2 (i / vs.length)
    have hr : (i % vs.length) < vs.length := Nat.mod_lt _ hn
    refine ⟨p' ++ [(k, vs[i % vs.length])], ?_, ?_⟩
    · rw [List.reverse_cons, cartesian_append_single, getElem?_flatMap_const _ _ vs.length hn (by intro a; simp)]
      simp only [sizeProd]
      rw [Nat.mod_mul_right_div_self, Nat.mod_mul_right_mod]
      rw [hp']
      simp [hr]
    · have h1 : (i : Int).fdiv (vs.length : Int) = ((i / vs.length : Nat) : Int) := (Int.ofNat_fdiv i vs.length).symm
      have h2 : (i : Int).fmod (vs.length : Int) = ((i % vs.length : Nat) : Int) := by
        rw [Int.fmod_eq_emod_of_nonneg _ (Int.natCast_nonneg _)]; rfl
      unfold decode
      simp only [Nat.ne_of_gt hn, if_false, h1, h2, Int.toNat_natCast, hd']
      simp [hr]

end Grid
