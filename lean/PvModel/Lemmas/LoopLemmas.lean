import PvModel.Loop
import PvModel.Lemmas.SortLemmas
/-! Generic invariants of the optimise loop: whatever the step preserves holds of every recorded generation. -/

section
variable {R σ : Type} (ar : Arith R) (cfg : StopCfg R) (alg : Alg σ) (rate : List Agent → R) (dir : Dir)

/-- if `Inv` is preserved by the step and implies `P` of the snapshot, then the loop keeps `Inv` and only appends `P`-generations. -/
theorem loop_inv (Inv : σ → Prop) (P : List Agent → Prop)
    (hstep : ∀ s s', Inv s → alg.step s = .ok s' → Inv s')
    (hP : ∀ s, Inv s → P (snapshot dir (alg.pop s)))
    (fuel : Nat) (s : σ) (b : Book R) (hist : List (List Agent)) (hs : Inv s) (hh : ∀ g ∈ hist, P g)
    (s' : σ) (b' : Book R) (hist' : List (List Agent))
    (h : loop ar cfg alg rate dir fuel s b hist = .ok (s', b', hist')) :
    Inv s' ∧ ∀ g ∈ hist', P g := by
  induction fuel generalizing s b hist with
  | zero => simp [loop] at h; obtain ⟨rfl, _, rfl⟩ := h; exact ⟨hs, hh⟩
  | succ fuel ih =>
    unfold loop at h
    cases hst : alg.step s with
    | error e => simp [hst] at h
    | ok s1 =>
      have hs1 := hstep s s1 hs hst
      have hh1 : ∀ g ∈ hist ++ [snapshot dir (alg.pop s1)], P g := by
        intro g hg
        rcases List.mem_append.mp hg with h1 | h1
        · exact hh g h1
        · simp at h1; subst h1; exact hP s1 hs1
      simp only [hst] at h
      split at h
      · split at h
        · cases h; exact ⟨hs1, hh1⟩
        · exact ih s1 _ _ hs1 hh1 h
      · cases h

/-- the same for the whole body: initialisation establishes `Inv`, every generation of the result satisfies `P`,
and the final state (whose population `best_solution` is taken from) satisfies `Inv`. -/
theorem runBody_inv (Inv : σ → Prop) (P : List Agent → Prop)
    (hinit : ∀ s s', alg.init s = .ok s' → Inv s')
    (hstep : ∀ s s', Inv s → alg.step s = .ok s' → Inv s')
    (hP : ∀ s, Inv s → P (snapshot dir (alg.pop s)))
    (s0 : σ) (res : Result R) (sN : σ) (bN : Book R)
    (h : runBody ar cfg alg rate dir s0 = .ok (res, sN, bN)) :
    Inv sN ∧ (∀ g ∈ res.evolution, P g) ∧ ∃ b, bestAgent .min (alg.pop sN) = .ok b ∧ res.best = b.refine dir := by
  unfold runBody at h
  cases hi : alg.init s0 with
  | error e => simp [hi] at h
  | ok s1 =>
    simp only [hi] at h
    split at h
    · cases hl : loop ar cfg alg rate dir (max cfg.maxCycles.toNat 1) s1 Book.fresh [snapshot dir (alg.pop s1)] with
      | error e => simp [hl] at h
      | ok r =>
        obtain ⟨s, b, hist⟩ := r
        simp only [hl] at h
        cases hb : bestAgent .min (alg.pop s) with
        | error e => simp [hb] at h
        | ok best =>
          simp only [hb] at h
          have hs1 := hinit s0 s1 hi
          obtain ⟨h1, h2⟩ := loop_inv ar cfg alg rate dir Inv P hstep hP _ s1 _ _ hs1
            (by intro g hg; simp at hg; subst hg; exact hP s1 hs1) s b hist hl
          cases h
          exact ⟨h1, h2, best, hb, rfl⟩
    · cases h

/-- `Rel` holds between every two consecutive elements -/
def Chain (Rel : α → α → Prop) : List α → Prop
  | [] => True
  | [_] => True
  | a :: b :: l => Rel a b ∧ Chain Rel (b :: l)

theorem chain_snoc (Rel : α → α → Prop) (l : List α) (a b : α) (h : Chain Rel (l ++ [a])) (hab : Rel a b) :
    Chain Rel (l ++ [a] ++ [b]) := by
  induction l with
  | nil => exact ⟨hab, trivial⟩
  | cons x l ih =>
    cases l with
    | nil => exact ⟨h.1, hab, trivial⟩
    | cons y l => exact ⟨h.1, ih h.2⟩

/-- consecutive generations: if every step relates the population before to the population after by `Rel`, the recorded
history is a `Rel`-chain (on snapshots). -/
theorem loop_chain (Inv : σ → Prop) (Rel : List Agent → List Agent → Prop)
    (hstep : ∀ s s', Inv s → alg.step s = .ok s' → Inv s' ∧ Rel (snapshot dir (alg.pop s)) (snapshot dir (alg.pop s')))
    (fuel : Nat) (s : σ) (b : Book R) (hist : List (List Agent)) (hs : Inv s)
    (hh : Chain Rel (hist ++ [snapshot dir (alg.pop s)]))
    (s' : σ) (b' : Book R) (hist' : List (List Agent))
    (h : loop ar cfg alg rate dir fuel s b (hist ++ [snapshot dir (alg.pop s)]) = .ok (s', b', hist')) :
    Chain Rel hist' := by
  induction fuel generalizing s b hist with
  | zero => simp [loop] at h; obtain ⟨_, _, rfl⟩ := h; exact hh
  | succ fuel ih =>
    unfold loop at h
    cases hst : alg.step s with
    | error e => simp [hst] at h
    | ok s1 =>
      obtain ⟨hs1, hrel⟩ := hstep s s1 hs hst
      have hh1 := chain_snoc Rel hist _ _ hh hrel
      simp only [hst] at h
      split at h
      · split at h
        · cases h; exact hh1
        · exact ih s1 _ (hist ++ [snapshot dir (alg.pop s)]) hs1 hh1 h
      · cases h

/-- the whole body: the recorded history is a `Rel`-chain. -/
theorem runBody_chain (Inv : σ → Prop) (Rel : List Agent → List Agent → Prop)
    (hinit : ∀ s s', alg.init s = .ok s' → Inv s')
    (hstep : ∀ s s', Inv s → alg.step s = .ok s' → Inv s' ∧ Rel (snapshot dir (alg.pop s)) (snapshot dir (alg.pop s')))
    (s0 : σ) (res : Result R) (sN : σ) (bN : Book R)
    (h : runBody ar cfg alg rate dir s0 = .ok (res, sN, bN)) : Chain Rel res.evolution := by
  unfold runBody at h
  cases hi : alg.init s0 with
  | error e => simp [hi] at h
  | ok s1 =>
    simp only [hi] at h
    split at h
    · cases hl : loop ar cfg alg rate dir (max cfg.maxCycles.toNat 1) s1 Book.fresh [snapshot dir (alg.pop s1)] with
      | error e => simp [hl] at h
      | ok r =>
        obtain ⟨s, b, hist⟩ := r
        simp only [hl] at h
        cases hb : bestAgent .min (alg.pop s) with
        | error e => simp [hb] at h
        | ok best =>
          simp only [hb] at h
          have := loop_chain ar cfg alg rate dir Inv Rel hstep _ s1 _ [] (hinit s0 s1 hi) trivial s b hist hl
          cases h
          exact this
    · cases h
end

/-! ## totality under an invariant: the loop returns a complete result whenever every reachable step returns -/
section
variable {R σ : Type} (ar : Arith R) (cfg : StopCfg R) (alg : Alg σ) (rate : List Agent → R) (dir : Dir)

theorem special_ok_of_ne (pop : List Agent) (hne : pop ≠ []) :
    ∃ b w, specialAgents .min pop (some 1) (some 1) = .ok ([b], [w]) := by
  have hlen : 1 ≤ pop.length := Nat.pos_of_ne_zero (fun h => hne (List.length_eq_zero_iff.mp h))
  have hs : (sortByCost .min pop).length = pop.length := isort_length _ _
  have h1 : (bestAgents .min pop 1).length = 1 := by simp [bestAgents, hs]; omega
  have h2 : (worstAgents .min pop 1).length = 1 := by simp [worstAgents, hs]; omega
  match hb : bestAgents .min pop 1, hw : worstAgents .min pop 1, h1, h2 with
  | [b], [w], _, _ => exact ⟨b, w, by simp [specialAgents, hb, hw]⟩

/-- if `Good` is an invariant under which the step returns and leaves a non-empty population, the loop returns, and the history
grows by exactly one generation per recorded rate. -/
theorem loop_ok (Good : σ → Prop)
    (hstep : ∀ s, Good s → ∃ s', alg.step s = .ok s' ∧ Good s' ∧ alg.pop s' ≠ [])
    (fuel : Nat) (s : σ) (b : Book R) (hist : List (List Agent)) (hs : Good s) (hlen : hist.length = b.errors.length + 1) :
    ∃ s' b' hist', loop ar cfg alg rate dir fuel s b hist = .ok (s', b', hist') ∧ Good s' ∧ hist'.length = b'.errors.length + 1 := by
  induction fuel generalizing s b hist with
  | zero => exact ⟨s, b, hist, rfl, hs, hlen⟩
  | succ fuel ih =>
    obtain ⟨s1, hst, hg1, hne⟩ := hstep s hs
    obtain ⟨bb, ww, hsp⟩ := special_ok_of_ne (alg.pop s1) hne
    unfold loop
    simp only [hst, hsp]
    split
    · exact ⟨s1, _, _, rfl, hg1, by simp [errorCheck, hlen]⟩
    · exact ih s1 _ _ hg1 (by simp [errorCheck, hlen])

/-- **totality of `runBody`**: initialisation succeeds into a `Good` state with a non-empty population, `Good` is preserved by every
step (which returns and keeps the population non-empty) ⇒ `optimize`'s body returns a complete result: a non-empty history with one
rate per generation after the first. -/
theorem runBody_ok (Good : σ → Prop) (s0 : σ)
    (hinit : ∃ s1, alg.init s0 = .ok s1 ∧ Good s1 ∧ alg.pop s1 ≠ [])
    (hstep : ∀ s, Good s → ∃ s', alg.step s = .ok s' ∧ Good s' ∧ alg.pop s' ≠ [])
    (hpop : ∀ s, Good s → alg.pop s ≠ []) :
    ∃ res sN bN, runBody ar cfg alg rate dir s0 = .ok (res, sN, bN) ∧ res.evolution ≠ [] ∧ res.evolution.length = res.rates.length + 1 := by
  obtain ⟨s1, hi, hg1, hne1⟩ := hinit
  obtain ⟨bb, ww, hsp⟩ := special_ok_of_ne (alg.pop s1) hne1
  obtain ⟨s', b', hist', hl, hg', hlen'⟩ := loop_ok ar cfg alg rate dir Good hstep (max cfg.maxCycles.toNat 1) s1 Book.fresh
    [snapshot dir (alg.pop s1)] hg1 (by simp [Book.fresh])
  have hne' := hpop s' hg'
  have hlen1 : 1 ≤ (alg.pop s').length := Nat.pos_of_ne_zero (fun h => hne' (List.length_eq_zero_iff.mp h))
  have hb1 : (bestAgents .min (alg.pop s') 1).length = 1 := by
    have hs : (sortByCost .min (alg.pop s')).length = (alg.pop s').length := isort_length _ _
    simp [bestAgents, hs]; omega
  match hb : bestAgents .min (alg.pop s') 1, hb1 with
  | [best], _ =>
    refine ⟨{ evolution := hist', rates := b'.errors, best := best.refine dir }, s', b', ?_, ?_, hlen'⟩
    · simp only [runBody, hi, hsp, hl, bestAgent, hb]
    · intro h
      have h0 : hist' = [] := h
      rw [h0] at hlen'
      simp at hlen'
end
