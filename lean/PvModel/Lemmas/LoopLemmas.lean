import PvModel.Loop
/-! Generic invariants of the optimise loop: whatever the step preserves holds of every recorded generation. -/

section
variable {R σ : Type} (ar : Arith R) (cfg : StopCfg R) (alg : Alg σ) (rate : List Agent → R) (dir : Dir)

/-- if `Inv` is preserved by the step and implies `P` of the snapshot, then the loop keeps `Inv` and only appends `P`-generations. -/
theorem loop_inv (Inv : σ → Prop) (P : List Agent → Prop)
    (hstep : ∀ s s', Inv s → alg.step s = .ok s' → Inv s')
    (hP : ∀ s, Inv s → P (snapshot dir (alg.pop s)))
    (fuel : Nat) (s : σ) (b : Book R) (hist : List (List Agent)) (hs : Inv s) (hh : ∀ g ∈ hist, P g)
    (s' : σ) (b' : Book R) (hist' : List (List Agent))
    (h : loop ar cfg alg rate dir fuel s b hist = .ok (s', b', hist')) :
    Inv s' ∧ ∀ g ∈ hist', P g := by
  induction fuel generalizing s b hist with
  | zero => simp [loop] at h; obtain ⟨rfl, _, rfl⟩ := h; exact ⟨hs, hh⟩
  | succ fuel ih =>
    unfold loop at h
    cases hst : alg.step s with
    | error e => simp [hst] at h
    | ok s1 =>
      have hs1 := hstep s s1 hs hst
      have hh1 : ∀ g ∈ hist ++ [snapshot dir (alg.pop s1)], P g := by
        intro g hg
        rcases List.mem_append.mp hg with h1 | h1
        · exact hh g h1
        · simp at h1; subst h1; exact hP s1 hs1
      simp only [hst] at h
      split at h
      · split at h
        · cases h; exact ⟨hs1, hh1⟩
        · exact ih s1 _ _ hs1 hh1 h
      · cases h

/-- the same for the whole body: initialisation establishes `Inv`, every generation of the result satisfies `P`,
and the final state (whose population `best_solution` is taken from) satisfies `Inv`. -/
theorem runBody_inv (Inv : σ → Prop) (P : List Agent → Prop)
    (hinit : ∀ s s', alg.init s = .ok s' → Inv s')
    (hstep : ∀ s s', Inv s → alg.step s = .ok s' → Inv s')
    (hP : ∀ s, Inv s → P (snapshot dir (alg.pop s)))
    (s0 : σ) (res : Result R) (sN : σ) (bN : Book R)
    (h : runBody ar cfg alg rate dir s0 = .ok (res, sN, bN)) :
    Inv sN ∧ (∀ g ∈ res.evolution, P g) ∧ ∃ b, bestAgent .min (alg.pop sN) = .ok b ∧ res.best = b.refine dir := by
  unfold runBody at h
  cases hi : alg.init s0 with
  | error e => simp [hi] at h
  | ok s1 =>
    simp only [hi] at h
    split at h
    · cases hl : loop ar cfg alg rate dir (max cfg.maxCycles.toNat 1) s1 Book.fresh [snapshot dir (alg.pop s1)] with
      | error e => simp [hl] at h
      | ok r =>
        obtain ⟨s, b, hist⟩ := r
        simp only [hl] at h
        cases hb : bestAgent .min (alg.pop s) with
        | error e => simp [hb] at h
        | ok best =>
          simp only [hb] at h
          have hs1 := hinit s0 s1 hi
          obtain ⟨h1, h2⟩ := loop_inv ar cfg alg rate dir Inv P hstep hP _ s1 _ _ hs1
            (by intro g hg; simp at hg; subst hg; exact hP s1 hs1) s b hist hl
          cases h
          exact ⟨h1, h2, best, hb, rfl⟩
    · cases h

/-- `Rel` holds between every two consecutive elements -/
def Chain (Rel : α → α → Prop) : List α → Prop
  | [] => True
  | [_] => True
  | a :: b :: l => Rel a b ∧ Chain Rel (b :: l)

theorem chain_snoc (Rel : α → α → Prop) (l : List α) (a b : α) (h : Chain Rel (l ++ [a])) (hab : Rel a b) :
    Chain Rel (l ++ [a] ++ [b]) := by
  induction l with
  | nil => exact ⟨hab, trivial⟩
  | cons x l ih =>
    cases l with
    | nil => exact ⟨h.1, hab, trivial⟩
    | cons y l => exact ⟨h.1, ih h.2⟩

/-- consecutive generations: if every step relates the population before to the population after by `Rel`, the recorded
history is a `Rel`-chain (on snapshots). -/
theorem loop_chain (Inv : σ → Prop) (Rel : List Agent → List Agent → Prop)
    (hstep : ∀ s s', Inv s → alg.step s = .ok s' → Inv s' ∧ Rel (snapshot dir (alg.pop s)) (snapshot dir (alg.pop s')))
    (fuel : Nat) (s : σ) (b : Book R) (hist : List (List Agent)) (hs : Inv s)
    (hh : Chain Rel (hist ++ [snapshot dir (alg.pop s)]))
    (s' : σ) (b' : Book R) (hist' : List (List Agent))
    (h : loop ar cfg alg rate dir fuel s b (hist ++ [snapshot dir (alg.pop s)]) = .ok (s', b', hist')) :
    Chain Rel hist' := by
  induction fuel generalizing s b hist with
  | zero => simp [loop] at h; obtain ⟨_, _, rfl⟩ := h; exact hh
  | succ fuel ih =>
    unfold loop at h
    cases hst : alg.step s with
    | error e => simp [hst] at h
    | ok s1 =>
      obtain ⟨hs1, hrel⟩ := hstep s s1 hs hst
      have hh1 := chain_snoc Rel hist _ _ hh hrel
      simp only [hst] at h
      split at h
      · split at h
        · cases h; exact hh1
        · exact ih s1 _ (hist ++ [snapshot dir (alg.pop s)]) hs1 hh1 h
      · cases h

/-- the whole body: the recorded history is a `Rel`-chain. -/
theorem runBody_chain (Inv : σ → Prop) (Rel : List Agent → List Agent → Prop)
    (hinit : ∀ s s', alg.init s = .ok s' → Inv s')
    (hstep : ∀ s s', Inv s → alg.step s = .ok s' → Inv s' ∧ Rel (snapshot dir (alg.pop s)) (snapshot dir (alg.pop s')))
    (s0 : σ) (res : Result R) (sN : σ) (bN : Book R)
    (h : runBody ar cfg alg rate dir s0 = .ok (res, sN, bN)) : Chain Rel res.evolution := by
  unfold runBody at h
  cases hi : alg.init s0 with
  | error e => simp [hi] at h
  | ok s1 =>
    simp only [hi] at h
    split at h
    · cases hl : loop ar cfg alg rate dir (max cfg.maxCycles.toNat 1) s1 Book.fresh [snapshot dir (alg.pop s1)] with
      | error e => simp [hl] at h
      | ok r =>
        obtain ⟨s, b, hist⟩ := r
        simp only [hl] at h
        cases hb : bestAgent .min (alg.pop s) with
        | error e => simp [hb] at h
        | ok best =>
          simp only [hb] at h
          have := loop_chain ar cfg alg rate dir Inv Rel hstep _ s1 _ [] (hinit s0 s1 hi) trivial s b hist hl
          cases h
          exact this
    · cases h
end
