import PvModel.Fields
/-! The frame rule and noninterference for the field machine. -/

namespace Stmt
variable {F V : Type} [DecidableEq F]

/-- **frame rule**: a field the statement does not write keeps its value — on normal and on exceptional exits. -/
theorem frame (s : Stmt F V) (st : Store F V) (f : F) (h : f ∉ s.writes) : (s.run st).1.get f = st.get f := by
  induction s generalizing st with
  | skip => simp [run]
  | assign g rs e =>
    simp only [writes, List.mem_singleton] at h
    simp [run, Store.set, h]
  | seq a b iha ihb =>
    simp only [writes, List.mem_append, not_or] at h
    simp only [run]
    split
    · exact iha st h.1
    · rw [ihb _ h.2, iha st h.1]
  | ite rs c a b iha ihb =>
    simp only [writes, List.mem_append, not_or] at h
    simp only [run]
    split
    · exact iha st h.1
    · exact ihb st h.2
  | raise => simp [run]
  | «repeat» n body ih =>
    simp only [writes] at h
    induction n generalizing st with
    | zero => simp [run]
    | succ n ihn =>
      simp only [run]
      split
      · exact ih st h
      · rw [ihn, ih st h]

/-- two stores agree on the fields in `L` -/
def AgreeOn (L : F → Prop) (a b : Store F V) : Prop := ∀ f, L f → a.get f = b.get f

theorem map_get_eq (L : F → Prop) (a b : Store F V) (h : AgreeOn L a b) (rs : List F) (hr : ∀ f ∈ rs, L f) :
    rs.map a.get = rs.map b.get := by
  induction rs with
  | nil => rfl
  | cons r rs ih =>
    simp only [List.map_cons]
    rw [h r (hr r List.mem_cons_self), ih (fun f hf => hr f (List.mem_cons_of_mem _ hf))]

/-- **noninterference**: if everything the statement reads lies in `L`, then runs from two stores that agree on `L` take the
same control path (same exception behaviour) and end in stores that agree on `L` — whatever the other fields hold. -/
theorem noninterference (s : Stmt F V) (L : F → Prop) (hr : ∀ f ∈ s.reads, L f) (a b : Store F V) (h : AgreeOn L a b) :
    AgreeOn L (s.run a).1 (s.run b).1 ∧ (s.run a).2 = (s.run b).2 := by
  induction s generalizing a b with
  | skip => simpa [run] using h
  | assign g rs e =>
    simp only [reads] at hr
    refine ⟨?_, by simp [run]⟩
    intro f hf
    simp only [run, Store.set]
    rw [map_get_eq L a b h rs hr]
    split
    · rfl
    · exact h f hf
  | seq s1 s2 ih1 ih2 =>
    simp only [reads, List.mem_append] at hr
    obtain ⟨h1, h2⟩ := ih1 (fun f hf => hr f (Or.inl hf)) a b h
    simp only [run]
    rw [h2]
    split
    · exact ⟨h1, h2⟩
    · exact ih2 (fun f hf => hr f (Or.inr hf)) _ _ h1
  | ite rs c s1 s2 ih1 ih2 =>
    simp only [reads, List.mem_append] at hr
    simp only [run]
    rw [map_get_eq L a b h rs (fun f hf => hr f (Or.inl (Or.inl hf)))]
    split
    · exact ih1 (fun f hf => hr f (Or.inl (Or.inr hf))) a b h
    · exact ih2 (fun f hf => hr f (Or.inr hf)) a b h
  | raise => simpa [run] using h
  | «repeat» n body ih =>
    simp only [reads] at hr
    induction n generalizing a b with
    | zero => simpa [run] using h
    | succ n ihn =>
      obtain ⟨h1, h2⟩ := ih hr a b h
      simp only [run]
      rw [h2]
      split
      · exact ⟨h1, h2⟩
      · exact ihn _ _ h1

/-- a statement that unconditionally assigns `f` from values in `L` (re)initialises it: afterwards two stores that agreed on `L`
agree on `f` as well. Used for the per-run initialisation path. -/
theorem assign_establishes (f : F) (rs : List F) (e : List V → V) (L : F → Prop) (hr : ∀ g ∈ rs, L g) (a b : Store F V)
    (h : AgreeOn L a b) : ((assign f rs e).run a).1.get f = ((assign f rs e).run b).1.get f := by
  simp [run, Store.set, map_get_eq L a b h rs hr]

end Stmt
