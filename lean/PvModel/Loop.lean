import PvModel.Select
/-!
# Loop — `OptimizationAbstract.optimize` (abstract.py:195-299)

The optimizer itself (its private state, its numerical update rule, its randomness) is an arbitrary `Alg σ`:
`init` stands for `before_initialization; _init_population; after_initialization`, `step` for `optimization_step`,
`pop` reads `self._population`.  Both may raise (`Except Err`).  Floating-point arithmetic on rates is a parameter
(`Arith R`): theorems hold for every interpretation, the driver instantiates `R := Float`.
-/

structure Arith (R : Type) where
  sub : R → R → R
  abs : R → R
  lt : R → R → Bool
  le : R → R → Bool
  zero : R

/-- `EarlyStopping` (models.py:71-79); the validator guarantees `patience ≥ 1`. -/
structure ES (R : Type) where
  patience : Nat
  minDelta : R

/-- the stop-related part of `BaseOptimizationConfig` (models.py:82-86). -/
structure StopCfg (R : Type) where
  maxCycles : Int
  fe : Option R
  es : Option (ES R)

/-- the per-run bookkeeping fields `_current_cycle`, `_errors`, `_error_diffs`. -/
structure Book (R : Type) where
  cycle : Int
  errors : List R
  diffs : List R

/-- Python `l[-n:]` for `n ≥ 1`: the last `n` elements, or all of them when there are fewer. -/
def lastN (n : Nat) (l : List α) : List α := l.drop (l.length - n)

section
variable {R : Type} (ar : Arith R) (cfg : StopCfg R)

/-- `all([diff < 0 and abs(diff) < min_delta for diff in self._error_diffs[-patience:]])` -/
def esFires (es : ES R) (diffs : List R) : Bool :=
  (lastN es.patience diffs).all (fun d => ar.lt d ar.zero && ar.lt (ar.abs d) es.minDelta)

/-- `__should_stop__` (abstract.py:279-299), in the written order of the `|=` updates. -/
def shouldStop (cycle : Int) (diffs : List R) (cur : R) : Bool :=
  let s0 := decide (cycle ≥ cfg.maxCycles)
  let s1 := match cfg.es with
    | none => s0
    | some es => s0 || esFires ar es diffs
  match cfg.fe with
  | none => s1
  | some fe => s1 || ar.le cur fe

/-- `__error_check__` (abstract.py:259-277). -/
def errorCheck (b : Book R) (cur : R) : Book R × Bool :=
  let prev := b.errors.getLast?.getD ar.zero
  let b' : Book R := { b with errors := b.errors ++ [cur], diffs := b.diffs ++ [ar.sub cur prev] }
  (b', shouldStop ar cfg b'.cycle b'.diffs cur)

/-- the bookkeeping a run starts from: `_current_cycle = 1`, `_errors = []`, `_error_diffs = []`. -/
def Book.fresh : Book R := { cycle := 1, errors := [], diffs := [] }

/-- first differences of a rate history, the first one against `prev` (the code starts from `0`). -/
def rateDiffs : List R → R → List R
  | [], _ => []
  | r :: rs, prev => ar.sub r prev :: rateDiffs rs r

/-- the declarative stop criterion at cycle `k ≥ 1`, read off a reported rate history alone (`false` beyond its end). -/
def stopAtRates (rates : List R) (k : Nat) : Bool :=
  match rates[k - 1]? with
  | none => false
  | some cur => decide (1 ≤ k) && shouldStop ar cfg (k : Int) (rateDiffs ar (rates.take k) ar.zero) cur

/-- the first cycle of a reported rate history at which a configured criterion holds. -/
def firstStop (rates : List R) : Option Nat :=
  ((List.range rates.length).find? (fun i => stopAtRates ar cfg rates (i + 1))).map (· + 1)

end

structure Alg (σ : Type) where
  init : σ → Except Err σ
  step : σ → Except Err σ
  pop : σ → List Agent

/-- what `optimize` returns: `OptimizationResult(evolution, rates, best_solution)` -/
structure Result (R : Type) where
  evolution : List (List Agent)
  rates : List R
  best : Agent

section
variable {R σ : Type} (ar : Arith R) (cfg : StopCfg R) (alg : Alg σ) (rate : List Agent → R) (dir : Dir)

/-- `Population(agents=self._population, task_type=task.minmax)` -/
def snapshot (pop : List Agent) : List Agent := pop.map (Agent.refine dir)

/-- the `while True:` loop of `optimize` (abstract.py:233-249), with fuel instead of `while True`
(`loop_fuel_suffices` in Props/C04 shows `max(max_cycles, 1)` is always enough). Returns the final state, bookkeeping and history. -/
def loop : Nat → σ → Book R → List (List Agent) → Except Err (σ × Book R × List (List Agent))
  | 0, s, b, hist => .ok (s, b, hist)
  | fuel + 1, s, b, hist =>
    match alg.step s with
    | .error e => .error e
    | .ok s' =>
      let hist' := hist ++ [snapshot dir (alg.pop s')]
      match specialAgents .min (alg.pop s') (some 1) (some 1) with
      | .ok ([_], [_]) =>
        let r := errorCheck ar cfg b (rate (alg.pop s'))
        if r.2 then .ok (s', r.1, hist')
        else loop fuel s' { r.1 with cycle := r.1.cycle + 1 } hist'
      | _ => .error .valueError      -- `(best,), (worst,) = special_agents(...)` on an empty population

/-- everything after the prologue: initialise, snapshot, best/worst, loop, package. -/
def runBody (s0 : σ) : Except Err (Result R × σ × Book R) :=
  match alg.init s0 with
  | .error e => .error e
  | .ok s1 =>
    match specialAgents .min (alg.pop s1) (some 1) (some 1) with
    | .ok ([_], [_]) =>
      match loop ar cfg alg rate dir (max cfg.maxCycles.toNat 1) s1 Book.fresh [snapshot dir (alg.pop s1)] with
      | .error e => .error e
      | .ok (s, b, hist) =>
        match bestAgent .min (alg.pop s) with
        | .ok best => .ok ({ evolution := hist, rates := b.errors, best := best.refine dir }, s, b)
        | .error e => .error e
    | _ => .error .valueError

end

/-- the arguments of an `optimize` call that the prologue validates (abstract.py:206-221). -/
structure Call where
  hasConfig : Bool
  workers : Option Int
  modeValid : Option Bool      -- `none`: no mode passed; `some ok`: a mode string was passed and is / is not a `ModeSolver`

/-- the prologue's validation, in the written order: configuration, (seeding), workers, mode. -/
def prologue (c : Call) : Except Err Unit :=
  if !c.hasConfig then .error .valueError
  else match c.workers with
    | some w => if w ≤ 0 then .error .valueError else
        (match c.modeValid with | some false => .error .valueError | _ => .ok ())
    | none => (match c.modeValid with | some false => .error .valueError | _ => .ok ())

/-- `optimize`: prologue, then the body on fresh bookkeeping. -/
def optimize {R σ : Type} (ar : Arith R) (cfg : StopCfg R) (alg : Alg σ) (rate : List Agent → R) (dir : Dir)
    (c : Call) (s0 : σ) : Except Err (Result R × σ × Book R) :=
  match prologue c with
  | .error e => .error e
  | .ok () => runBody ar cfg alg rate dir s0
