import PvModel.Loop
/-!
# Utils — the trend utilities of `pyvolutionary/utils.py`

`agent_trend(result, idx, iters)` = `[sort_by_cost(result.evolution[i].agents, result.task_type)[idx].cost for i in iters]`
(and `agent_position` likewise with `.position`); `best_*` are the `idx = 0` instances.  Out-of-range generation or rank
indices raise `IndexError` as list indexing does (negative indices are outside the quantifier of the property).
-/

/-- the `idx`-th best agent of generation `i`, in the task's direction -/
def rankedAgent (dir : Dir) (evolution : List (List Agent)) (idx i : Nat) : Except Err Agent :=
  match evolution[i]? with
  | none => .error .indexError
  | some g => match (sortByCost dir g)[idx]? with
    | none => .error .indexError
    | some a => .ok a

def agentTrend (dir : Dir) (evolution : List (List Agent)) (idx : Nat) (iters : List Nat) : Except Err (List Num) :=
  iters.mapM (fun i => (rankedAgent dir evolution idx i).map (·.cost))

def agentPosition (dir : Dir) (evolution : List (List Agent)) (idx : Nat) (iters : List Nat) : Except Err (List (List Coord)) :=
  iters.mapM (fun i => (rankedAgent dir evolution idx i).map (·.position))

/-- `iters=None` means every generation -/
def allIters (evolution : List (List Agent)) : List Nat := List.range evolution.length

def bestAgentTrend (dir : Dir) (evolution : List (List Agent)) : Except Err (List Num) :=
  agentTrend dir evolution 0 (allIters evolution)
