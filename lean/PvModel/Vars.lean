import PvModel.Num
import PvModel.Sort
/-!
# Vars — the seven variable types of `pyvolutionary/models.py` (lines 149-431)

* `VarDecl` : what the user declares (seven kinds).
* `Var`     : a *flattened* scalar variable as returned by `Task.get_variables()`
              (`ContinuousVariable`, `DiscreteVariable`, `PermutationVariable`).
* `Raw`     : a raw candidate coordinate handed to `correct` (a number, or a key vector for a permutation).
* `Coord`   : a corrected coordinate (a double, a Python `int`, or a list of `int`s for a permutation).

Python exceptions are explicit (`Except Err`), never defaulted.
-/

inductive Err where
  | valueError
  | typeError
  | indexError
  | validationError
  | overflowError
  | zeroDivisionError
  | attributeError
deriving DecidableEq, Repr, Inhabited

deriving instance DecidableEq for Except

def Err.render : Err → String
  | .valueError => "ValueError"
  | .typeError => "TypeError"
  | .indexError => "IndexError"
  | .validationError => "ValidationError"
  | .overflowError => "OverflowError"
  | .zeroDivisionError => "ZeroDivisionError"
  | .attributeError => "AttributeError"

/-- a raw candidate coordinate -/
inductive Raw where
  | scalar (x : Num)
  | vec (xs : List Num)
deriving DecidableEq, Repr, Inhabited

/-- a corrected coordinate -/
inductive Coord where
  | num (x : Num)        -- Python float
  | int (i : Int)        -- Python int (index of a choice)
  | ints (l : List Int)  -- list of ints (a permutation coordinate)
deriving DecidableEq, Repr, Inhabited

def intNum (i : Int) : Num := .fin (i : Rat)
def natNum (n : Nat) : Num := .fin ((n : Int) : Rat)
/-- `len(choices) - 1` as a double -/
def discUb (n : Nat) : Num := intNum ((n : Int) - 1)

def Coord.toRaw : Coord → Raw
  | .num x => .scalar x
  | .int i => .scalar (intNum i)
  | .ints l => .vec (l.map intNum)

/-- flattened scalar variables -/
inductive Var where
  | cont (lb ub : Num)
  | disc (n : Nat)      -- n = len(choices)
  | perm (n : Nat)      -- n = len(items)
deriving DecidableEq, Repr, Inhabited

/-! ## argsort -/

/-- order used by `np.argsort` on doubles: NaN sorts last. -/
def keyLe (a b : Num) : Bool :=
  match a, b with
  | _, .nan => true
  | .nan, _ => false
  | a, b => Num.le a b

/-- stable argsort: the indices `0..n-1` ordered by key (ties keep index order). `np.argsort` agrees with it
whenever the keys are pairwise distinct; on ties numpy's order is unspecified and the harness compares relationally. -/
def argsort (xs : List Num) : List Nat :=
  (isort (fun a b => keyLe a.2 b.2) ((List.range xs.length).zip xs)).map (·.1)

/-! ## correct / mem / decode on flattened variables -/

namespace Var

/-- `ContinuousVariable.correct` = `float(np.clip(value, lb, ub))` (models.py:200),
`DiscreteVariable.correct` = `int(np.clip(value, 0, n-1))` (models.py:268),
`PermutationVariable.correct` (models.py:338). -/
def correct : Var → Raw → Except Err Coord
  | cont lb ub, .scalar x => .ok (.num (Num.clip x lb ub))
  | cont _ _, .vec _ => .error .typeError
  | disc n, .scalar x =>
    match Num.clip x (.fin 0) (discUb n) with
    | .fin q => .ok (.int (Num.truncRat q))
    | .nan => .error .valueError
    | _ => .error .overflowError
  | disc _, .vec _ => .error .typeError
  | perm _, .vec xs => .ok (.ints ((argsort ((argsort xs).map natNum)).map Int.ofNat))
  | perm _, .scalar _ => .ok (.ints [0])   -- np.argsort of a 0-d value is `[0]`

/-- membership of a corrected coordinate in the variable's domain (the rules of C01/C05). -/
def mem : Var → Coord → Bool
  | cont lb ub, .num x => x.isFinite && Num.le lb x && Num.le x ub
  | disc n, .int i => decide (0 ≤ i) && decide (i < (n : Int))
  | perm n, .ints l => decide (isort (fun a b => decide (a ≤ b)) l = (List.range n).map Int.ofNat)
  | _, _ => false

/-- bounds of a flattened variable as `Variable.get_bounds()` reports them for scalars. -/
def bounds : Var → Num × Num
  | cont lb ub => (lb, ub)
  | disc n => (.fin 0, .fin (((n : Int) - 1 : Int) : Rat))
  | perm n => (.fin 0, .fin (((n : Int) - 1 : Int) : Rat))

/-- `decode` of a corrected coordinate, as an index (or list of indices) into the declared choices /
into the label encoder's sorted unique labels; `none` models the Python `IndexError`. Negative indices wrap as in Python. -/
def decodeIdx (n : Nat) (i : Int) : Option Nat :=
  if 0 ≤ i ∧ i < n then some i.toNat
  else if -(n : Int) ≤ i ∧ i < 0 then some (i + n).toNat
  else none

end Var

/-! ## declarations -/

inductive VarDecl where
  | cont (lb ub : Num)
  | contMulti (lbs ubs : List Num)
  | disc (n : Nat)
  | discMulti (ns : List Nat)
  | perm (n : Nat)
  | multiObj (lbs ubs : List Num)
  | binary (n : Int)
deriving DecidableEq, Repr, Inhabited

namespace VarDecl

/-- the constructor validators (models.py:185-189, 226-232, 365-371, 404-408): `true` iff construction succeeds. -/
def valid : VarDecl → Bool
  | cont lb ub => !Num.le ub lb
  | contMulti lbs ubs => decide (lbs.length = ubs.length) && (lbs.zip ubs).all (fun p => !Num.le p.2 p.1)
  | multiObj lbs ubs => decide (lbs.length = ubs.length) && (lbs.zip ubs).all (fun p => !Num.le p.2 p.1)
  | binary n => decide (0 < n)
  | disc _ => true
  | discMulti _ => true
  | perm _ => true

def size : VarDecl → Nat
  | cont _ _ => 1
  | contMulti lbs _ => lbs.length
  | disc _ => 1
  | discMulti ns => ns.length
  | perm _ => 1
  | multiObj lbs _ => lbs.length
  | binary n => n.toNat

def hasChildren : VarDecl → Bool
  | cont _ _ => false
  | disc _ => false
  | perm _ => false
  | _ => true

/-- `v.get() if v.has_children() else [v.get()]` (models.py:464). -/
def children : VarDecl → List Var
  | cont lb ub => [.cont lb ub]
  | contMulti lbs ubs => (lbs.zip ubs).map (fun p => .cont p.1 p.2)
  | disc n => [.disc n]
  | discMulti ns => ns.map .disc
  | perm n => [.perm n]
  | multiObj lbs ubs => (lbs.zip ubs).map (fun p => .cont p.1 p.2)
  | binary n => List.replicate n.toNat (.disc 2)

end VarDecl
