/-!
# Sort — a stable, structurally recursive sort

CPython's `list.sort` and (for distinct keys) `np.argsort` are modelled by a stable insertion sort: equal elements keep
their input order, exactly as `list.sort(key=…)` guarantees (also with `reverse=True`).  Structural recursion keeps the
definition evaluable by the kernel (`decide`) and by the interpreter alike.
-/

/-- insert `a` before the first element `b` with `le a b`. -/
def insertBy (le : α → α → Bool) (a : α) : List α → List α
  | [] => [a]
  | b :: l => if le a b then a :: b :: l else b :: insertBy le a l

/-- stable insertion sort (the head is inserted into the sorted tail, so it lands before its equals). -/
def isort (le : α → α → Bool) : List α → List α
  | [] => []
  | a :: l => insertBy le a (isort le l)
