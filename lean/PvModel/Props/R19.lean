import PvModel.Generated.Src
import PvModel.Lemmas.PyLemmas
import PvModel.Lemmas.SortLemmas
import PvModel.Grid
import PvModel.Props.R10
import PvModel.Props.R14
/-!
# R19 — refinement: `ParameterGrid.__iter__` and `__len__` *as the source read now* are the model's `Grid.iter` / `Grid.len`

`__iter__` is a generator whose consumer takes all of it (`list(ParameterGrid(grid))` in `HyperTuner.execute`): the translation collects the yielded
dicts in order.  A sub-grid is a dict, i.e. an insertion-ordered association list with pairwise distinct keys (`GridOk`) — the hypothesis under which
`dict(zip(keys, v))` is the list of pairs itself.
-/

namespace R19
open Py Grid

variable {V : Type}

/-- every sub-grid is a dict: no key twice -/
def GridOk (g : PGrid V) : Prop := ∀ sg ∈ g, (sg.map Prod.fst).Nodup

theorem sortedItems_eq (sg : SubGrid V) : Py.sortedItems sg = sortItems sg := rfl

theorem dictOfPairs_acc (acc l : List (String × V)) (h : (acc.map Prod.fst ++ l.map Prod.fst).Nodup) :
    l.foldl (fun d kv => Py.dictSet d kv.1 kv.2) acc = acc ++ l := by
  induction l generalizing acc with
  | nil => simp
  | cons kv rest ih =>
    have hk : kv.1 ∉ acc.map Prod.fst := by
      intro hmem
      have := List.nodup_append.mp h
      exact this.2.2 _ hmem _ (by simp) rfl
    rw [List.foldl_cons, R14.dictSet_fresh acc kv.1 kv.2 hk, ih]
    · simp
    · simpa [List.append_assoc] using h

/-- `dict(pairs)` of pairs with pairwise distinct keys is the list of pairs -/
theorem dictOfPairs_nodup (l : List (String × V)) (h : (l.map Prod.fst).Nodup) : Py.dictOfPairs l = l := by
  have := dictOfPairs_acc [] l (by simpa using h)
  simpa [Py.dictOfPairs] using this


/-- every tuple of `product(*values)` has one component per factor -/
theorem product_length (ls : List (List V)) (v : List V) (h : v ∈ Py.product ls) : v.length = ls.length := by
  induction ls generalizing v with
  | nil => simp [Py.product] at h; subst h; rfl
  | cons vs rest ih =>
    simp only [Py.product, List.mem_flatMap, List.mem_map] at h
    obtain ⟨a, _, p, hp, rfl⟩ := h
    simp [ih p hp]

/-- `[dict(zip(keys, v)) for v in product(*values)]` is the model's `cartesian` of the items -/
theorem product_zip_eq (items : List (String × List V)) :
    (Py.product (items.map Prod.snd)).map (fun v => Py.zip (items.map Prod.fst) v) = cartesian items := by
  induction items with
  | nil => rfl
  | cons kv rest ih =>
    obtain ⟨k, vs⟩ := kv
    simp only [List.map_cons, Py.product, cartesian, List.map_flatMap, List.map_map]
    congr 1
    funext a
    rw [← ih]
    simp only [List.map_map]
    rfl

theorem zip_keys (keys : List String) (v : List V) (h : v.length = keys.length) : (Py.zip keys v).map Prod.fst = keys := by
  simp only [Py.zip]
  rw [List.map_fst_zip]
  omega

/-- one pass of the loop of `__iter__`: what the inner `for v in product(*values): yield dict(zip(keys, v))` appends -/
theorem inner_points (items : List (String × List V)) (hnd : (items.map Prod.fst).Nodup) :
    (Py.product (items.map Prod.snd)).map (fun v => Py.dictOfPairs (Py.zip (items.map Prod.fst) v)) = cartesian items := by
  rw [← product_zip_eq]
  apply List.map_congr_left
  intro v hv
  apply dictOfPairs_nodup
  rw [zip_keys _ _ (by rw [product_length _ _ hv]; simp)]
  exact hnd

theorem sortItems_nodup (sg : SubGrid V) (h : (sg.map Prod.fst).Nodup) : ((sortItems sg).map Prod.fst).Nodup := by
  have hp : (sortItems sg).Perm sg := isort_perm _ _
  exact (hp.map Prod.fst).nodup_iff.mpr h

/-- the body of the loop of `__iter__` -/
def iterBody (p : SubGrid V) (s : List (Point V)) : Except Err (ForInStep (List (Point V))) :=
  if (!!(Py.sortedItems p).isEmpty) = true then pure (ForInStep.yield (s ++ [[]]))
  else do
    let kv ← Py.unzipNonempty (Py.sortedItems p)
    match kv with
    | (t_keys, t_values) => do
      let s' ← forIn (Py.product t_values) s (fun v (s : List (Point V)) => (pure (ForInStep.yield (s ++ [Py.dictOfPairs (Py.zip t_keys v)])) : Except Err _))
      pure (ForInStep.yield s')

/-- one pass: the model's `subIter` of the sub-grid is appended -/
theorem iterBody_eq (sg : SubGrid V) (h : (sg.map Prod.fst).Nodup) (acc : List (Point V)) :
    iterBody sg acc = .ok (ForInStep.yield (acc ++ subIter sg)) := by
  have hnd : ((sortItems sg).map Prod.fst).Nodup := sortItems_nodup sg h
  unfold iterBody
  simp only [sortedItems_eq, Bool.not_not]
  by_cases he : (sortItems sg).isEmpty = true
  · simp [he, subIter, pure, Except.pure]
  · simp only [he, Bool.false_eq_true, ↓reduceIte, Py.unzipNonempty, List.unzip_eq_map, except_ok_bind]
    have := R10.forIn_append_yield (m := Except Err) (Py.product ((sortItems sg).map Prod.snd)) acc (fun v => Py.dictOfPairs (Py.zip ((sortItems sg).map Prod.fst) v))
    rw [this]
    simp only [pure, Except.pure, except_ok_bind]
    rw [inner_points _ hnd]
    simp [subIter, he]

theorem iter_loop (g : PGrid V) (hg : GridOk g) (acc : List (Point V)) : forIn g acc iterBody = .ok (acc ++ iter g) := by
  induction g generalizing acc with
  | nil => simp [iter]; rfl
  | cons sg rest ih =>
    rw [List.forIn_cons, iterBody_eq sg (hg sg List.mem_cons_self)]
    simp only [except_ok_bind]
    rw [ih (fun x hx => hg x (List.mem_cons_of_mem _ hx))]
    simp [iter]

/-- **`list(ParameterGrid(g))`** as the source reads now is the model's `iter` -/
theorem grid_iter_eq (g : PGrid V) (hg : GridOk g) : Src.grid_iter g = .ok (iter g) := by
  unfold Src.grid_iter
  have := iter_loop g hg []
  simp only [List.nil_append] at this
  refine Eq.trans (bind_pure _) ?_
  exact this

/-- `__len__`: the sum over the sub-grids of the product of the value counts in insertion order (`reduce(operator.mul, …)`), 1 for an empty dict -/
theorem grid_len_eq (g : PGrid V) : Src.grid_len g = .ok ((len g : Nat) : Int) := by
  unfold Src.grid_len
  have hsub : ∀ p : SubGrid V, (if (!p.isEmpty) = true then Py.reduceMul (List.map (fun v => Py.len v) (List.map Prod.snd p)) else pure 1 : Except Err Int)
      = .ok ((subLen p : Nat) : Int) := by
    intro p
    cases p with
    | nil => rfl
    | cons kv rest =>
      obtain ⟨k, vs⟩ := kv
      simp only [List.isEmpty_cons, Bool.not_false, ↓reduceIte, List.map_cons, Py.reduceMul, subLen, len_eq]
      congr 1
      generalize vs.length = a
      induction rest generalizing a with
      | nil => rfl
      | cons kv' rest' ih =>
        simp only [List.map_cons, List.foldl_cons, len_eq]
        rw [← ih (a * kv'.2.length)]
        simp
  simp only [hsub]
  have hm : ∀ l : List (SubGrid V), List.mapM (fun p => (Except.ok ((subLen p : Nat) : Int) : Except Err Int)) l = .ok (l.map (fun p => ((subLen p : Nat) : Int))) := by
    intro l
    induction l with
    | nil => rfl
    | cons x xs ih => simp only [List.mapM_cons, ih, except_ok_bind, List.map_cons]; rfl
  have hs : ∀ l : List (SubGrid V), (l.map (fun p => ((subLen p : Nat) : Int))).sum = (((l.map subLen).sum : Nat) : Int) := by
    intro l
    induction l with
    | nil => rfl
    | cons x xs ih => simp only [List.map_cons, List.sum_cons, ih]; omega
  rw [hm]
  simp only [except_ok_bind, hs, Grid.len]
  rfl

example : Src.grid_iter [[("b", [1, 2]), ("a", [10])], []] = .ok [[("a", 10), ("b", 1)], [("a", 10), ("b", 2)], []] := by decide
example : Src.grid_len [[("b", [1, 2]), ("a", [10, 20, 30])], ([] : List (String × List Nat))] = .ok 7 := by decide

end R19
