import PvModel.Lemmas.ArgsortLemmas
import PvModel.Lemmas.RankLemmas
/-!
# C13 — variable types obey their domain laws

For every flattened variable (`ContinuousVariable`, `DiscreteVariable`, `PermutationVariable`; the multi/binary
types delegate to these child by child, see `VarDecl.children`):

* `correct` maps every non-NaN input into the domain (`*_correct_mem`),
* leaves members of the domain unchanged (`*_correct_fix`),
* and is idempotent (`*_correct_idem`),
* `decode` of a corrected value designates a declared choice (`disc_decode_mem`),
* constructor validators reject inverted / equal / length-mismatched bounds and non-positive sizes (`valid_*`).

The NaN hypothesis is necessary: `cont_correct_nan` shows NaN passes through `np.clip`.
-/

namespace C13
open Num

/-! ## continuous -/

/-- `ContinuousVariable.correct` maps every non-NaN double (±inf included) to a finite value within the bounds. -/
theorem cont_correct_mem (lb ub : Rat) (h : lb ≤ ub) (x : Num) (hx : x.isNaN = false) :
    ∃ y, (Var.cont (fin lb) (fin ub)).correct (.scalar x) = .ok y ∧ (Var.cont (fin lb) (fin ub)).mem y = true := by
  obtain ⟨q, hq, h1, h2⟩ := clip_mem x lb ub h hx
  exact ⟨.num (fin q), by simp [Var.correct, hq], by simp [Var.mem, isFinite, le, h1, h2]⟩

/-- members of the domain are left unchanged. -/
theorem cont_correct_fix (lb ub : Num) (y : Coord) (hy : (Var.cont lb ub).mem y = true) :
    (Var.cont lb ub).correct y.toRaw = .ok y := by
  cases y with
  | num x =>
    simp [Var.mem] at hy
    simp [Coord.toRaw, Var.correct, clip_fix' x lb ub hy.1.2 hy.2]
  | int i => simp [Var.mem] at hy
  | ints l => simp [Var.mem] at hy

/-- idempotence: correcting a corrected value changes nothing. -/
theorem cont_correct_idem (lb ub : Rat) (h : lb ≤ ub) (x : Num) (hx : x.isNaN = false) :
    ∃ y, (Var.cont (fin lb) (fin ub)).correct (.scalar x) = .ok y ∧
      (Var.cont (fin lb) (fin ub)).correct y.toRaw = .ok y := by
  obtain ⟨y, h1, h2⟩ := cont_correct_mem lb ub h x hx
  exact ⟨y, h1, cont_correct_fix _ _ y h2⟩

/-- the hypothesis `x` is not NaN cannot be dropped: NaN goes through `np.clip`. -/
theorem cont_correct_nan (lb ub : Num) :
    (Var.cont lb ub).correct (.scalar nan) = .ok (.num nan) ∧ (Var.cont lb ub).mem (.num nan) = false := by
  simp [Var.correct, clip_nan, Var.mem, isFinite]

/-! ## discrete -/

theorem discUb_eq (n : Nat) : discUb n = fin ((((n : Int) - 1 : Int)) : Rat) := rfl

theorem truncRat_of_nonneg (q : Rat) (h : 0 ≤ q) : truncRat q = q.floor := by simp [truncRat, h]

/-- `DiscreteVariable.correct` maps every non-NaN double to an integer index of a declared choice (`n ≥ 1` choices). -/
theorem disc_correct_mem (n : Nat) (hn : 0 < n) (x : Num) (hx : x.isNaN = false) :
    ∃ i : Int, (Var.disc n).correct (.scalar x) = .ok (.int i) ∧ 0 ≤ i ∧ i < n := by
  have hle : (0 : Rat) ≤ ((((n : Int) - 1 : Int)) : Rat) := by
    have : (0 : Int) ≤ (n : Int) - 1 := by omega
    exact_mod_cast this
  obtain ⟨q, hq, h0, h1⟩ := clip_mem x 0 _ hle hx
  refine ⟨q.floor, ?_, ?_, ?_⟩
  · simp only [Var.correct, discUb_eq, intNum]
    rw [hq]; simp [truncRat_of_nonneg q h0]
  · exact Rat.le_floor_iff.mpr (by simpa using h0)
  · have h2 : ((q.floor : Int) : Rat) ≤ ((((n : Int) - 1 : Int)) : Rat) := Rat.le_trans (Rat.floor_le q) h1
    have : q.floor ≤ (n : Int) - 1 := by exact_mod_cast h2
    omega

theorem disc_correct_member (n : Nat) (hn : 0 < n) (x : Num) (hx : x.isNaN = false) :
    ∃ y, (Var.disc n).correct (.scalar x) = .ok y ∧ (Var.disc n).mem y = true := by
  obtain ⟨i, h, h0, h1⟩ := disc_correct_mem n hn x hx
  exact ⟨.int i, h, by simp [Var.mem, h0, h1]⟩

/-- an integer index of a declared choice is left unchanged. -/
theorem disc_correct_fix (n : Nat) (y : Coord) (hy : (Var.disc n).mem y = true) :
    (Var.disc n).correct y.toRaw = .ok y := by
  cases y with
  | int i =>
    simp [Var.mem] at hy
    obtain ⟨h0, h1⟩ := hy
    have a0 : (0 : Rat) ≤ (i : Rat) := by exact_mod_cast h0
    have a1 : (i : Rat) ≤ ((((n : Int) - 1 : Int)) : Rat) := by
      have : i ≤ (n : Int) - 1 := by omega
      exact_mod_cast this
    simp only [Coord.toRaw, Var.correct, discUb_eq, intNum]
    rw [clip_fix _ _ _ a0 a1]
    simp [truncRat_of_nonneg _ a0, Rat.floor_intCast]
  | num x => simp [Var.mem] at hy
  | ints l => simp [Var.mem] at hy

theorem disc_correct_idem (n : Nat) (hn : 0 < n) (x : Num) (hx : x.isNaN = false) :
    ∃ y, (Var.disc n).correct (.scalar x) = .ok y ∧ (Var.disc n).correct y.toRaw = .ok y := by
  obtain ⟨y, h1, h2⟩ := disc_correct_member n hn x hx
  exact ⟨y, h1, disc_correct_fix n y h2⟩

/-- NaN is rejected (`int(nan)` raises `ValueError`), it never becomes an index. -/
theorem disc_correct_nan (n : Nat) : (Var.disc n).correct (.scalar nan) = .error .valueError := by
  simp [Var.correct, clip_nan]

/-- `decode` of a corrected value is one of the declared choices. -/
theorem disc_decode_mem (n : Nat) (hn : 0 < n) (x : Num) (hx : x.isNaN = false) :
    ∃ i : Int, (Var.disc n).correct (.scalar x) = .ok (.int i) ∧ ∃ k, Var.decodeIdx n i = some k ∧ k < n := by
  obtain ⟨i, h, h0, h1⟩ := disc_correct_mem n hn x hx
  refine ⟨i, h, i.toNat, ?_, by omega⟩
  simp [Var.decodeIdx, h0, h1]

/-! ## permutation -/

/-- a list of `Int`s is a permutation of the item indices `0..n-1`. -/
def IsPermOfRange (n : Nat) (l : List Int) : Prop := l.Perm ((List.range n).map Int.ofNat)

theorem range_int_sorted (n : Nat) : ((List.range n).map Int.ofNat).Pairwise (fun a b => decide (a ≤ b) = true) := by
  rw [List.pairwise_map]
  have := List.pairwise_lt_range (n := n)
  exact this.imp (fun h => by simpa using Int.ofNat_le.mpr (Nat.le_of_lt h))

theorem mem_perm_iff (n : Nat) (l : List Int) : (Var.perm n).mem (.ints l) = true ↔ IsPermOfRange n l := by
  simp only [Var.mem, decide_eq_true_eq, IsPermOfRange]
  constructor
  · intro h; rw [← h]; exact (isort_perm _ l).symm
  · intro h
    apply List.Perm.eq_of_pairwise (le := fun a b => decide (a ≤ b) = true)
    · intro a b _ _ h1 h2; simp at h1 h2; omega
    · exact isort_pairwise (fun a b : Int => decide (a ≤ b))
        (fun a b c h1 h2 => by simp at *; omega) (fun a b => by simp; omega) l
    · exact range_int_sorted n
    · exact (isort_perm _ l).trans h

/-- `PermutationVariable.correct` maps every key vector of the right length (ties, NaN, ±inf included) to a permutation
of the item indices. -/
theorem perm_correct_mem (n : Nat) (xs : List Num) (hlen : xs.length = n) :
    ∃ y, (Var.perm n).correct (.vec xs) = .ok y ∧ (Var.perm n).mem y = true := by
  refine ⟨_, rfl, ?_⟩
  rw [mem_perm_iff]
  unfold IsPermOfRange
  have h := argsort_perm ((argsort xs).map natNum)
  simp only [List.length_map, argsort_length, hlen] at h
  exact h.map Int.ofNat

/-- a permutation of the item indices is left unchanged (`argsort ∘ argsort` is the identity on permutations). -/
theorem perm_correct_fix (n : Nat) (l : List Int) (h : (Var.perm n).mem (.ints l) = true) :
    (Var.perm n).correct (Coord.toRaw (.ints l)) = .ok (.ints l) :=
  _root_.perm_correct_fix n l h

/-- idempotence: correcting a corrected permutation changes nothing. -/
theorem perm_correct_idem (n : Nat) (xs : List Num) (hlen : xs.length = n) :
    ∃ y, (Var.perm n).correct (.vec xs) = .ok y ∧ (Var.perm n).correct y.toRaw = .ok y := by
  refine ⟨_, rfl, ?_⟩
  apply perm_correct_fix
  obtain ⟨y, h1, h2⟩ := perm_correct_mem n xs hlen
  cases h1
  exact h2

/-! ## validators -/

/-- inverted or equal bounds are rejected. -/
theorem valid_cont (lb ub : Rat) : (VarDecl.cont (fin lb) (fin ub)).valid = true ↔ lb < ub := by
  simp [VarDecl.valid, le, Rat.not_le]

/-- length-mismatched bounds are rejected. -/
theorem valid_contMulti_length (lbs ubs : List Num) (h : (VarDecl.contMulti lbs ubs).valid = true) :
    lbs.length = ubs.length := by
  simp [VarDecl.valid] at h; exact h.1

theorem valid_multiObj_length (lbs ubs : List Num) (h : (VarDecl.multiObj lbs ubs).valid = true) :
    lbs.length = ubs.length := by
  simp [VarDecl.valid] at h; exact h.1

/-- every child of a valid multi-variable has `lb < ub` (no inverted or equal pair survives construction). -/
theorem valid_contMulti_children (lbs ubs : List Num) (h : (VarDecl.contMulti lbs ubs).valid = true) :
    ∀ v ∈ (VarDecl.contMulti lbs ubs).children, ∃ lb ub, v = .cont lb ub ∧ Num.le ub lb = false := by
  simp [VarDecl.valid] at h
  intro v hv
  simp [VarDecl.children] at hv
  obtain ⟨a, b, hab, rfl⟩ := hv
  exact ⟨a, b, rfl, h.2 a b hab⟩

/-- a non-positive size is rejected. -/
theorem valid_binary (n : Int) : (VarDecl.binary n).valid = true ↔ 0 < n := by
  simp [VarDecl.valid]

/-- multi / binary variables are exactly the list of their children (so the scalar laws above lift coordinate-wise). -/
theorem binary_children (n : Int) : (VarDecl.binary n).children = List.replicate n.toNat (.disc 2) := rfl

/-! ## non-vacuity -/

example : (Var.cont (fin (-3)) (fin 5)).correct (.scalar pinf) = .ok (.num (fin 5)) := by decide +kernel
example : (Var.disc 4).correct (.scalar (fin (5/2))) = .ok (.int 2) := by decide +kernel
example : (Var.perm 3).correct (.vec [fin 3, fin 1, fin 2]) = .ok (.ints [2, 0, 1]) := by decide +kernel
example : (Var.perm 3).correct (Coord.toRaw (.ints [2, 0, 1])) = .ok (.ints [2, 0, 1]) := by decide +kernel
example : (Var.perm 3).mem (.ints [2, 0, 1]) = true := by decide +kernel

end C13

