import PvModel.Generated.Core
/-! Pin obligation for C20: the parts of Multitask that are not translated (`__check_input__`, `__check_modes__`, `__get_mode__`, `__init__`, `execute`, `__parallelize__`, `__run__` are: R20).
These functions are modelled by hand (not translated by `tools/py2lean.py`) and tied to the code by the correspondence suites. The regenerated
facts carry a fingerprint of their source text (docstrings / comments removed, `ast.unparse` under /venv's Python); this theorem says the text is
the one the model was last validated against. A change of any of them breaks it — the check then searches for a failing input; if none is found
the report is `no-failing-input-found` and, once the model has been re-validated, `tools/mkpins.py` rewrites the expected values. -/
namespace T20
open Generated

def expected : List (String × String) := [
      ("multitask.py:Multitask.__set_keyword_arguments__", "d7cddf9b9d3e66ba"),
      ("multitask.py:Multitask.export_results", "c0202127f4a2503f"),
      ("enums.py:ModeSolver", "4de7ea767a39ed87"),
      ("enums.py:ExportType", "6caabe4ba049c017")]

theorem source_pins_unchanged : expected.all (fun e => pins.contains e) = true := by decide

end T20
