import PvModel.Generated.Core
/-! Pin obligation for C14 (and C01/C02/C05/C09): the task's description of its search space.
These functions are modelled by hand (not translated by `tools/py2lean.py`) and tied to the code by the correspondence suites. The regenerated
facts carry a fingerprint of their source text (docstrings / comments removed, `ast.unparse` under /venv's Python); this theorem says the text is
the one the model was last validated against. A change of any of them breaks it — the check then searches for a failing input; if none is found
the report is `no-failing-input-found` and, once the model has been re-validated, `tools/mkpins.py` rewrites the expected values. -/
namespace T14
open Generated

def expected : List (String × String) := [
      ("models.py:Task.validate_objective_weights", "d992d22ca56f8850"),
      ("models.py:Task.empty_solution", "f68c6b2de6b5fac6"),
      ("models.py:ContinuousMultiVariable", "c4386bff7f69db10"),
      ("models.py:DiscreteMultiVariable", "aaef1aca2e3cb577"),
      ("models.py:MultiObjectiveVariable", "ede4a45722344bcb"),
      ("models.py:BinaryVariable", "b149cb6b4f5c30d5")]

theorem source_pins_unchanged : expected.all (fun e => pins.contains e) = true := by decide

end T14
