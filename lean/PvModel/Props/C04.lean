import PvModel.Loop
import PvModel.Lemmas.SelectLemmas
import PvModel.Props.C16
/-!
# C04 — `optimize()` terminates exactly when the first configured stop criterion holds

The optimizer is an arbitrary `Alg σ` whose step returns (`alg.step s = .ok (stepT s)`) and never empties the population;
the rate function and the arithmetic are arbitrary.  `stopAt k` is the *declarative* criterion at cycle `k`, written
against the history of rates only (independent of the incremental `_errors/_error_diffs` bookkeeping of the code):

    k ≥ max_cycles  ∨  (es configured ∧ every one of the last `patience` first differences d of rates[1..k] (against 0)
                        has d < 0 ∧ |d| < min_delta)  ∨  (fitness_error configured ∧ rates[k] ≤ fitness_error)

`c04_first`: the run stops at the first cycle `N ≥ 1` with `stopAt N`, `N ≤ max(max_cycles, 1)`; the result holds the initial
generation plus one generation and one rate per executed cycle.  `es_needs_patience_plus_one` resolves the "fewer than
`patience` changes" case in favour of the code: early stopping cannot fire before cycle `patience + 1`.
-/

namespace C04

section
variable {R σ : Type} (ar : Arith R) (cfg : StopCfg R) (alg : Alg σ) (rate : List Agent → R) (dir : Dir)
variable (stepT : σ → σ)

def iter (f : σ → σ) : Nat → σ → σ
  | 0, s => s
  | n + 1, s => iter f n (f s)

theorem iter_succ (f : σ → σ) (n : Nat) (s : σ) : iter f (n + 1) s = f (iter f n s) := by
  induction n generalizing s with
  | zero => rfl
  | succ n ih => simp only [iter] at *; rw [ih]

/-- rate observed after cycle `k` (1-based) -/
def rateAt (s1 : σ) (k : Nat) : R := rate (alg.pop (iter stepT k s1))

/-- rates of cycles `1..k` -/
def ratesUpTo (s1 : σ) (k : Nat) : List R := (List.range k).map (fun i => rateAt alg rate stepT s1 (i + 1))

/-- first differences, the first one against `0` -/
def diffs0 : List R → R → List R
  | [], _ => []
  | r :: rs, prev => ar.sub r prev :: diffs0 rs r

/-- the declarative stop criterion at cycle `k`. -/
def stopAt (s1 : σ) (k : Nat) : Bool :=
  shouldStop ar cfg (k : Int) (diffs0 ar (ratesUpTo alg rate stepT s1 k) ar.zero) (rateAt alg rate stepT s1 k)

/-- generation `i` of the history -/
def genAt (s1 : σ) (i : Nat) : List Agent := snapshot dir (alg.pop (iter stepT i s1))

theorem getLastD_cons (r : R) (rs : List R) (a b : R) :
    ((r :: rs).getLast?).getD a = ((r :: rs).getLast?).getD b := by
  rw [List.getLast?_eq_some_getLast (List.cons_ne_nil r rs)]; rfl

theorem diffs0_append (rs : List R) (prev x : R) :
    diffs0 ar (rs ++ [x]) prev = diffs0 ar rs prev ++ [ar.sub x ((rs.getLast?).getD prev)] := by
  induction rs generalizing prev with
  | nil => simp [diffs0]
  | cons r rs ih =>
    simp only [List.cons_append, diffs0, ih]
    cases rs with
    | nil => simp
    | cons r' rs' => rw [getLastD_cons r' rs' r prev, List.getLast?_cons_cons]

theorem diffs0_length (rs : List R) (prev : R) : (diffs0 ar rs prev).length = rs.length := by
  induction rs generalizing prev with
  | nil => rfl
  | cons r rs ih => simp [diffs0, ih]

theorem ratesUpTo_succ (s1 : σ) (k : Nat) :
    ratesUpTo alg rate stepT s1 (k + 1) = ratesUpTo alg rate stepT s1 k ++ [rateAt alg rate stepT s1 (k + 1)] := by
  simp [ratesUpTo, List.range_succ]

/-- the algorithm's step always returns and never leaves the population empty -/
structure Total : Prop where
  step_ok : ∀ s, alg.step s = .ok (stepT s)
  pop_ne : ∀ s, alg.pop s ≠ []

theorem special_ok (pop : List Agent) (hne : pop ≠ []) :
    ∃ b w, specialAgents .min pop (some 1) (some 1) = .ok ([b], [w]) := by
  obtain ⟨b, _, hb⟩ := C16.bestAgent_ok .min pop hne
  obtain ⟨w, _, hw⟩ := C16.worstAgent_ok .min pop hne
  exact ⟨b, w, by simp [specialAgents, hb, hw]⟩

/-- loop invariant: after `k` completed cycles, none of which stopped -/
structure LoopInv (s1 : σ) (k : Nat) (s : σ) (b : Book R) (hist : List (List Agent)) : Prop where
  state : s = iter stepT k s1
  cyc : b.cycle = (k : Int) + 1
  errs : b.errors = ratesUpTo alg rate stepT s1 k
  dfs : b.diffs = diffs0 ar (ratesUpTo alg rate stepT s1 k) ar.zero
  hist : hist = (List.range (k + 1)).map (genAt alg dir stepT s1)
  nostop : ∀ j, 1 ≤ j → j ≤ k → stopAt ar cfg alg rate stepT s1 j = false

theorem loop_spec (tot : Total alg stepT) (s1 : σ) (fuel k : Nat) (s : σ) (b : Book R) (hist : List (List Agent))
    (inv : LoopInv ar cfg alg rate dir stepT s1 k s b hist)
    (hfuel : ∃ n, k < n ∧ n ≤ k + fuel ∧ stopAt ar cfg alg rate stepT s1 n = true) :
    ∃ N bN, k < N ∧ stopAt ar cfg alg rate stepT s1 N = true ∧
      (∀ j, 1 ≤ j → j < N → stopAt ar cfg alg rate stepT s1 j = false) ∧
      loop ar cfg alg rate dir fuel s b hist =
        .ok (iter stepT N s1, bN, (List.range (N + 1)).map (genAt alg dir stepT s1)) ∧
      bN.errors = ratesUpTo alg rate stepT s1 N := by
  induction fuel generalizing k s b hist with
  | zero => obtain ⟨n, h1, h2, _⟩ := hfuel; omega
  | succ fuel ih =>
    have hs' : stepT s = iter stepT (k + 1) s1 := by rw [iter_succ, inv.state]
    have hrate : rate (alg.pop (stepT s)) = rateAt alg rate stepT s1 (k + 1) := by simp [rateAt, hs']
    have herr : (errorCheck ar cfg b (rate (alg.pop (stepT s)))).1.errors = ratesUpTo alg rate stepT s1 (k + 1) := by
      simp [errorCheck, inv.errs, ratesUpTo_succ, hrate]
    have hdf : (errorCheck ar cfg b (rate (alg.pop (stepT s)))).1.diffs
        = diffs0 ar (ratesUpTo alg rate stepT s1 (k + 1)) ar.zero := by
      simp only [errorCheck, inv.errs, inv.dfs, ratesUpTo_succ, diffs0_append, hrate]
    have hcyc : (errorCheck ar cfg b (rate (alg.pop (stepT s)))).1.cycle = ((k + 1 : Nat) : Int) := by
      simp [errorCheck, inv.cyc]
    have hstop : (errorCheck ar cfg b (rate (alg.pop (stepT s)))).2 = stopAt ar cfg alg rate stepT s1 (k + 1) := by
      have h2 : (errorCheck ar cfg b (rate (alg.pop (stepT s)))).2 =
          shouldStop ar cfg (errorCheck ar cfg b (rate (alg.pop (stepT s)))).1.cycle
            (errorCheck ar cfg b (rate (alg.pop (stepT s)))).1.diffs (rate (alg.pop (stepT s))) := rfl
      rw [h2, hdf, hcyc, hrate]; rfl
    have hhist : hist ++ [snapshot dir (alg.pop (stepT s))] = (List.range (k + 2)).map (genAt alg dir stepT s1) := by
      rw [inv.hist, List.range_succ (n := k + 1), List.map_append]; simp [genAt, hs']
    obtain ⟨bb, ww, hsp⟩ := special_ok (alg.pop (stepT s)) (tot.pop_ne _)
    unfold loop
    simp only [tot.step_ok s, hsp]
    by_cases hst : (errorCheck ar cfg b (rate (alg.pop (stepT s)))).2 = true
    · rw [if_pos hst]
      refine ⟨k + 1, _, by omega, by rw [← hstop]; exact hst, ?_, ?_, herr⟩
      · intro j h1 h2; exact inv.nostop j h1 (by omega)
      · rw [hhist, hs']
    · rw [if_neg hst]
      have hst' : stopAt ar cfg alg rate stepT s1 (k + 1) = false := by rw [← hstop]; simpa using hst
      have inv' : LoopInv ar cfg alg rate dir stepT s1 (k + 1) (stepT s)
          { (errorCheck ar cfg b (rate (alg.pop (stepT s)))).1 with
            cycle := (errorCheck ar cfg b (rate (alg.pop (stepT s)))).1.cycle + 1 }
          (hist ++ [snapshot dir (alg.pop (stepT s))]) :=
        { state := hs', cyc := by simp [hcyc], errs := herr, dfs := hdf, hist := hhist,
          nostop := by
            intro j h1 h2
            by_cases hj : j = k + 1
            · subst hj; exact hst'
            · exact inv.nostop j h1 (by omega) }
      obtain ⟨n, hn1, hn2, hn3⟩ := hfuel
      have hn : k + 1 < n := by
        rcases Nat.lt_or_ge (k + 1) n with h | h
        · exact h
        · have : n = k + 1 := by omega
          subst this; rw [hst'] at hn3; cases hn3
      obtain ⟨N, bN, hN1, hN2, hN3, hN4, hN5⟩ := ih (k + 1) (stepT s) _ _ inv' ⟨n, hn, by omega, hn3⟩
      exact ⟨N, bN, by omega, hN2, hN3, hN4, hN5⟩

/-- the cycle budget always fires at cycle `max(max_cycles, 1)` -/
theorem stopAt_max (s1 : σ) (n : Nat) (h : cfg.maxCycles ≤ (n : Int)) : stopAt ar cfg alg rate stepT s1 n = true := by
  unfold stopAt shouldStop
  have : decide ((n : Int) ≥ cfg.maxCycles) = true := by simpa using h
  cases hes : cfg.es <;> cases hfe : cfg.fe <;> simp [this]

/-- **C04** (termination, first criterion, shape of the result), for every optimizer whose step returns, every rate function
and every arithmetic: with `s1` the state after initialisation, the run executes `N` cycles where `N` is the *first* cycle
`≥ 1` at which a configured criterion holds; `N ≤ max(max_cycles, 1)`; `evolution` holds generations `0..N`
(initial generation + one per executed cycle) and `rates` holds the `N` rates of cycles `1..N`. -/
theorem c04_first (tot : Total alg stepT) (s0 s1 : σ) (hinit : alg.init s0 = .ok s1) :
    let M := max cfg.maxCycles.toNat 1
    ∃ N res sN bN, 1 ≤ N ∧ N ≤ M ∧ stopAt ar cfg alg rate stepT s1 N = true ∧
      (∀ j, 1 ≤ j → j < N → stopAt ar cfg alg rate stepT s1 j = false) ∧
      runBody ar cfg alg rate dir s0 = .ok (res, sN, bN) ∧
      res.evolution = (List.range (N + 1)).map (genAt alg dir stepT s1) ∧
      res.rates = ratesUpTo alg rate stepT s1 N ∧
      sN = iter stepT N s1 ∧
      ∃ b, bestAgent .min (alg.pop sN) = .ok b ∧ res.best = b.refine dir := by
  intro M
  have inv0 : LoopInv ar cfg alg rate dir stepT s1 0 s1 (Book.fresh : Book R) [snapshot dir (alg.pop s1)] :=
    { state := rfl, cyc := rfl, errs := rfl, dfs := rfl, hist := by simp [genAt, iter],
      nostop := by intro j h1 h2; omega }
  have hM : stopAt ar cfg alg rate stepT s1 M = true := by
    apply stopAt_max; show cfg.maxCycles ≤ ((max cfg.maxCycles.toNat 1 : Nat) : Int); omega
  obtain ⟨N, bN, h1, h2, h3, h4, h5⟩ := loop_spec ar cfg alg rate dir stepT tot s1 M 0 s1 Book.fresh _ inv0
    ⟨M, by show 0 < max cfg.maxCycles.toNat 1; omega, by omega, hM⟩
  have hNM : N ≤ M := by
    rcases Nat.lt_or_ge M N with h | h
    · have := h3 M (by show 1 ≤ max cfg.maxCycles.toNat 1; omega) h
      rw [hM] at this; cases this
    · exact h
  obtain ⟨bb, ww, hsp⟩ := special_ok (alg.pop s1) (tot.pop_ne _)
  obtain ⟨best, hbest, _⟩ := C16.bestAgent_ok .min (alg.pop (iter stepT N s1)) (tot.pop_ne _)
  refine ⟨N, { evolution := (List.range (N + 1)).map (genAt alg dir stepT s1), rates := bN.errors, best := best.refine dir },
    iter stepT N s1, bN, h1, hNM, h2, h3, ?_, rfl, h5, rfl, best, hbest, rfl⟩
  have h4' : loop ar cfg alg rate dir (max cfg.maxCycles.toNat 1) s1 Book.fresh [snapshot dir (alg.pop s1)] = _ := h4
  simp only [runBody, hinit, hsp, h4', hbest]

/-- shape: the initial generation plus one generation and one rate per executed cycle. -/
theorem c04_shape (tot : Total alg stepT) (s0 s1 : σ) (hinit : alg.init s0 = .ok s1) :
    ∃ N res sN bN, runBody ar cfg alg rate dir s0 = .ok (res, sN, bN) ∧
      1 ≤ N ∧ N ≤ max cfg.maxCycles.toNat 1 ∧ res.evolution.length = N + 1 ∧ res.rates.length = N ∧
      ∀ k, k < N → res.rates[k]? = some (rate (alg.pop (iter stepT (k + 1) s1))) := by
  obtain ⟨N, res, sN, bN, h1, h2, _, _, h5, h6, h7, _, _⟩ := c04_first ar cfg alg rate dir stepT tot s0 s1 hinit
  refine ⟨N, res, sN, bN, h5, h1, h2, by simp [h6], by simp [h7, ratesUpTo], ?_⟩
  intro k hk
  simp [h7, ratesUpTo, rateAt, hk]


/-! ## the same criterion read off the *reported* rates

`firstStop` (model, `Loop.lean`) looks only at `result.rates`.  `c04_reported`: for every optimizer whose step returns, the run executes
exactly `firstStop result.rates` cycles — so a result whose rate list and length disagree with `firstStop` is not a behaviour of
`optimize`.  The harness judges the results of the 84 real optimizers with this function (driver op `loop.firststop`). -/

theorem rateDiffs_eq (rs : List R) (prev : R) : rateDiffs ar rs prev = diffs0 ar rs prev := by
  induction rs generalizing prev with
  | nil => rfl
  | cons r rs ih => simp [rateDiffs, diffs0, ih]

theorem ratesUpTo_length (s1 : σ) (k : Nat) : (ratesUpTo alg rate stepT s1 k).length = k := by simp [ratesUpTo]

theorem ratesUpTo_take (s1 : σ) (N k : Nat) (hk : k ≤ N) :
    (ratesUpTo alg rate stepT s1 N).take k = ratesUpTo alg rate stepT s1 k := by
  simp only [ratesUpTo, ← List.map_take, List.take_range, Nat.min_eq_left hk]

theorem stopAtRates_eq (s1 : σ) (N k : Nat) (h1 : 1 ≤ k) (hk : k ≤ N) :
    stopAtRates ar cfg (ratesUpTo alg rate stepT s1 N) k = stopAt ar cfg alg rate stepT s1 k := by
  have hget : (ratesUpTo alg rate stepT s1 N)[k - 1]? = some (rateAt alg rate stepT s1 k) := by
    have : k - 1 < N := by omega
    simp only [ratesUpTo, List.getElem?_map, List.getElem?_range this, Option.map_some]
    congr 2; omega
  simp only [stopAtRates, hget, ratesUpTo_take alg rate stepT s1 N k hk, rateDiffs_eq, stopAt]
  simp [h1]

/-- **C04 on what the caller sees**: the number of executed cycles (= the number of reported rates) is the first cycle at which the
declarative criterion holds on the reported rate history — never earlier, never later. -/
theorem c04_reported (tot : Total alg stepT) (s0 s1 : σ) (hinit : alg.init s0 = .ok s1) :
    ∃ res sN bN, runBody ar cfg alg rate dir s0 = .ok (res, sN, bN) ∧ firstStop ar cfg res.rates = some res.rates.length := by
  obtain ⟨N, res, sN, bN, h1, _, h3, h4, h5, _, h7, _, _⟩ := c04_first ar cfg alg rate dir stepT tot s0 s1 hinit
  refine ⟨res, sN, bN, h5, ?_⟩
  rw [h7, ratesUpTo_length]
  unfold firstStop
  rw [ratesUpTo_length]
  have hfind : (List.range N).find? (fun i => stopAtRates ar cfg (ratesUpTo alg rate stepT s1 N) (i + 1)) = some (N - 1) := by
    rw [List.find?_eq_some_iff_getElem]
    refine ⟨?_, N - 1, by simp; omega, by simp, ?_⟩
    · rw [stopAtRates_eq ar cfg alg rate stepT s1 N (N - 1 + 1) (by omega) (by omega)]
      have : N - 1 + 1 = N := by omega
      rw [this]; exact h3
    · intro j hj
      simp only [List.getElem_range]
      rw [stopAtRates_eq ar cfg alg rate stepT s1 N (j + 1) (by omega) (by omega)]
      simp [h4 (j + 1) (by omega) (by omega)]
  rw [hfind]
  simp; omega

/-- the window `diffs[-patience:]` at cycle `k ≤ patience` still contains the first difference -/
theorem lastN_contains_head (p : Nat) (d : R) (ds : List R) (h : (d :: ds).length ≤ p) : d ∈ lastN p (d :: ds) := by
  have : (d :: ds).length - p = 0 := by omega
  unfold lastN
  rw [this]
  simp

/-- early stopping cannot fire before cycle `patience + 1`: the first recorded change is `rates[1] - 0`, which is not negative
(hypothesis `hfirst`, true of every `|1 - avg|` in IEEE arithmetic), and it stays inside the window `diffs[-patience:]` for the
first `patience` cycles. -/
theorem es_needs_patience_plus_one (es : ES R) (s1 : σ) (k : Nat) (hk1 : 1 ≤ k) (hk : k ≤ es.patience)
    (hfirst : ar.lt (ar.sub (rateAt alg rate stepT s1 1) ar.zero) ar.zero = false) :
    esFires ar es (diffs0 ar (ratesUpTo alg rate stepT s1 k) ar.zero) = false := by
  obtain ⟨k', rfl⟩ : ∃ k', k = k' + 1 := ⟨k - 1, by omega⟩
  have hr : ratesUpTo alg rate stepT s1 (k' + 1) =
      rateAt alg rate stepT s1 1 :: (List.range k').map (fun i => rateAt alg rate stepT s1 (i + 2)) := by
    simp [ratesUpTo, List.range_succ_eq_map]
  rw [hr]
  simp only [diffs0]
  have hlen : (ar.sub (rateAt alg rate stepT s1 1) ar.zero ::
      diffs0 ar ((List.range k').map (fun i => rateAt alg rate stepT s1 (i + 2))) (rateAt alg rate stepT s1 1)).length ≤ es.patience := by
    simp [diffs0_length]; omega
  have hmem := lastN_contains_head es.patience _ _ hlen
  simp only [esFires, List.all_eq_false]
  exact ⟨_, hmem, by simp [hfirst]⟩

/-- with no early stopping and no fitness-error criterion the run executes exactly `max(max_cycles, 1)` cycles. -/
theorem stopAt_only_budget (hes : cfg.es = none) (hfe : cfg.fe = none) (s1 : σ) (k : Nat) :
    stopAt ar cfg alg rate stepT s1 k = decide ((k : Int) ≥ cfg.maxCycles) := by
  simp [stopAt, shouldStop, hes, hfe]

end

/-! ## non-vacuity: a concrete optimizer, three criteria -/
private def ag (c : Int) : Agent := { position := [], cost := .fin c, fitness := .fin 0 }
private def toyAlg : Alg Nat := { init := fun s => .ok s, step := fun s => .ok (s + 1), pop := fun s => [ag (10 - s)] }
private def toyAr : Arith Int := { sub := (· - ·), abs := Int.natAbs ∘ id |> fun f x => (f x : Int), lt := (· < ·), le := (· ≤ ·), zero := 0 }
private def toyRate (p : List Agent) : Int := match p with | [a] => (match a.cost with | .fin q => q.num | _ => 0) | _ => 0

example : Total toyAlg (· + 1) := ⟨fun _ => rfl, fun _ => by simp [toyAlg]⟩
example : (runBody toyAr { maxCycles := 5, fe := some 7, es := none } toyAlg toyRate .min 0).map (fun r => (r.1.rates, r.1.evolution.length))
    = .ok ([9, 8, 7], 4) := by decide +kernel
example : (runBody toyAr { maxCycles := 3, fe := none, es := none } toyAlg toyRate .min 0).map (fun r => r.1.rates) = .ok [9, 8, 7] := by decide +kernel
example : (runBody toyAr { maxCycles := 9, fe := none, es := some ⟨2, 2⟩ } toyAlg toyRate .min 0).map (fun r => r.1.rates) = .ok [9, 8, 7] := by decide +kernel

end C04
