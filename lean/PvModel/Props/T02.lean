import PvModel.Generated.Core
/-! Pin obligation for C02/C04/C06/C11 and the loop: what is left of agent creation (`_generate_agents` / `_init_population` are translated: R11; `OptimizationAbstract.__init__`: R00) and the configuration / agent records.
These functions are modelled by hand (not translated by `tools/py2lean.py`) and tied to the code by the correspondence suites. The regenerated
facts carry a fingerprint of their source text (docstrings / comments removed, `ast.unparse` under /venv's Python); this theorem says the text is
the one the model was last validated against. A change of any of them breaks it — the check then searches for a failing input; if none is found
the report is `no-failing-input-found` and, once the model has been re-validated, `tools/mkpins.py` rewrites the expected values. -/
namespace T02
open Generated

def expected : List (String × String) := [
      ("models.py:EarlyStopping", "feb13891a9f3dbfa"),
      ("models.py:BaseOptimizationConfig", "bcc021fc8be4b711"),
      ("models.py:Agent", "4946ab827122aa01"),
      ("helpers.py:average_fitness", "36e2d2c1c4591bca")]

theorem source_pins_unchanged : expected.all (fun e => pins.contains e) = true := by decide

end T02
