import PvModel.Run
import PvModel.Utils
import PvModel.Lemmas.DualLemmas
import PvModel.Props.C04
/-!
# C12 — max/min duality

"For every optimizer whose search never consults an agent's fitness value or the task direction, maximising `f` and
minimising `-f` with the same seed and configuration (stopping by cycle count) visit exactly the same positions generation
by generation and report costs that are exact negatives of each other."

The optimizer is an arbitrary disciplined `DAlg σ` (arbitrary private state — which contains the seeded generator —,
arbitrary update rule, arbitrary number of evaluations per phase).  "Never consults fitness or direction" is `AlgFitBlind`:
the programs of both phases are the same for the two tasks (one `DAlg`, so no access to the direction) and their
continuations do not distinguish agents that differ in `fitness` only.  "Stopping by cycle count" is `cfg.es = none` and
`cfg.fe = none`; the two convergence-rate functions are *different* on purpose (rates are computed from fitness).
-/

namespace C12

/-- two agents that differ at most in their fitness -/
def EqUpToFit (a b : Agent) : Prop := a.position = b.position ∧ a.cost = b.cost ∧ a.tag = b.tag
def ArenaEq (l1 l2 : List Agent) : Prop := List.Forall₂ EqUpToFit l1 l2

/-- `Tmax` maximises `f`, `Tmin` minimises `-f`: same declaration, single objective, no weights -/
structure Dual (Tmax Tmin : TaskSem) : Prop where
  decl : Tmax.decl = Tmin.decl
  dmax : Tmax.dir = .max
  dmin : Tmin.dir = .min
  wmax : Tmax.weights = none
  wmin : Tmin.weights = none
  obj : ∀ p, ∃ x, Tmax.F p = .single x ∧ Tmin.F p = .single x.neg

/-- the program never consults an agent's fitness: its continuations give the same program for agents that differ only in fitness -/
inductive FitBlind {σ : Type} : Prog σ → Prop where
  | done (s : σ) (pop : List Nat) : FitBlind (.done s pop)
  | fail (e : Err) : FitBlind (.fail e)
  | eval (raw : List Raw) (k : Agent → Prog σ) : (∀ a b, EqUpToFit a b → k a = k b) → (∀ a, FitBlind (k a)) →
      FitBlind (.eval raw k)

structure AlgFitBlind {σ : Type} (A : DAlg σ) : Prop where
  init : ∀ s, FitBlind (A.init s)
  step : ∀ s ar pop, FitBlind (A.step s ar pop)
  stepArena : ∀ s ar1 ar2 pop, ArenaEq ar1 ar2 → A.step s ar1 pop = A.step s ar2 pop

/-- relation between the two results: same positions, costs exact negatives -/
def GenDual (g1 g2 : List Agent) : Prop :=
  List.Forall₂ (fun a b => a.position = b.position ∧ a.cost = b.cost.neg) g1 g2

/-! ## one agent -/

/-- `_init_agent` on the two tasks: the same error, or agents equal up to fitness and the same argument for the objective. -/
theorem mkAgent_dual (Tmax Tmin : TaskSem) (h : Dual Tmax Tmin) (raw : List Raw) (tag : Nat) :
    ExRel (fun r1 r2 => EqUpToFit r1.1 r2.1 ∧ r1.2 = r2.2) (mkAgent Tmax raw tag) (mkAgent Tmin raw tag) := by
  unfold mkAgent
  rw [h.decl]
  cases h1 : Tmin.decl.correctSolution raw with
  | error e => simp [bind, Except.bind, ExRel]
  | ok pos =>
    simp only [bind, Except.bind]
    cases h2 : Tmin.decl.correctSolution (pos.map Coord.toRaw) with
    | error e => simp [ExRel]
    | ok arg =>
      obtain ⟨x, hx1, hx2⟩ := h.obj arg
      simp [ExRel, hx1, hx2, h.dmax, h.dmin, h.wmax, h.wmin, signIn, weigh, EqUpToFit]

/-! ## one phase -/

theorem resolve_dual {ar1 ar2 : List Agent} (h : ArenaEq ar1 ar2) (pop : List Nat) :
    ExRel ArenaEq (resolve ar1 pop) (resolve ar2 pop) := by
  induction pop with
  | nil => simp only [resolve, ExRel]; exact .nil
  | cons i is ih =>
    simp only [resolve]
    rcases List.Forall₂.getElem? h i with ⟨h1, h2⟩ | ⟨a, b, h1, h2, hab⟩
    · simp [h1, h2, ExRel]
    · rw [h1, h2]
      cases hr1 : resolve ar1 is <;> cases hr2 : resolve ar2 is <;>
        simp only [hr1, hr2, ExRel, bind, Except.bind] at ih ⊢
      · exact ih
      · exact .cons hab ih

/-- the framework-visible parts of two run states agree up to fitness -/
structure StRel {σ : Type} (s1 s2 : RunState σ) : Prop where
  priv : s1.priv = s2.priv
  arena : ArenaEq s1.arena s2.arena
  pop : s1.pop = s2.pop
  calls : s1.calls = s2.calls

/-- a fitness-blind program run on the two tasks from arenas equal up to fitness: the same error, or related states
(same private state, same population references, same objective-call log). -/
theorem exec_dual {σ : Type} {Tmax Tmin : TaskSem} (h : Dual Tmax Tmin) (p : Prog σ) (hp : FitBlind p)
    (ar1 ar2 : List Agent) (ha : ArenaEq ar1 ar2) (calls : List (List Coord)) :
    ExRel StRel (p.exec Tmax ar1 calls) (p.exec Tmin ar2 calls) := by
  induction hp generalizing ar1 ar2 calls with
  | done s pop =>
    simp only [Prog.exec]
    have hr := resolve_dual ha pop
    cases h1 : resolve ar1 pop <;> cases h2 : resolve ar2 pop <;> simp only [h1, h2, ExRel] at hr ⊢
    · exact hr
    · exact ⟨rfl, ha, rfl, rfl⟩
  | fail e => simp [Prog.exec, ExRel]
  | eval raw k hk _ ih =>
    simp only [Prog.exec]
    rw [← List.Forall₂.length_eq ha]
    have hm := mkAgent_dual Tmax Tmin h raw ar1.length
    cases h1 : mkAgent Tmax raw ar1.length <;> cases h2 : mkAgent Tmin raw ar1.length <;>
      simp only [h1, h2, ExRel] at hm ⊢
    · exact hm
    · rename_i r1 r2
      obtain ⟨a, arg⟩ := r1
      obtain ⟨b, arg'⟩ := r2
      obtain ⟨hab, harg⟩ := hm
      simp only at hab harg
      subst harg
      rw [← hk a b hab]
      exact ih a _ _ (List.Forall₂.append ha (.cons hab .nil)) _

theorem agents_dual {σ : Type} {s1 s2 : RunState σ} (h : StRel s1 s2) : ArenaEq s1.agents s2.agents := by
  unfold RunState.agents
  have hr := resolve_dual h.arena s1.pop
  rw [← h.pop]
  cases h1 : resolve s1.arena s1.pop <;> cases h2 : resolve s2.arena s1.pop <;>
    simp only [h1, h2, ExRel, Except.toOption, Option.getD] at hr ⊢
  · exact .nil
  · exact hr


/-! ## the readers of the two results rank alike — ties included

What the caller reads off a maximisation result through the selection helpers with `task_type = MAX` (and through the trend utilities,
which call them) is what it reads off the dual minimisation result with `MIN`: the same agents in the same order, also among agents of
equal cost (both directions sort stably: `list.sort(key, reverse)` keeps the original order of equal keys). -/

/-- one recorded agent of the max run and its counterpart of the min run -/
def AgentDual (a b : Agent) : Prop := a.position = b.position ∧ a.cost = b.cost.neg

theorem costLe_max_min (a a' b b' : Agent) (h : AgentDual a b) (h' : AgentDual a' b') :
    costLe .max a a' = costLe .min b b' := by
  simp only [costLe, h.2, h'.2, Num.le_neg_neg]

/-- `sort_by_cost(g, MAX)` on the max run's generation = `sort_by_cost(g', MIN)` on the dual generation, agent by agent. -/
theorem sortByCost_max_min {g1 g2 : List Agent} (h : GenDual g1 g2) : GenDual (sortByCost .max g1) (sortByCost .min g2) :=
  isort_forall₂ _ _ costLe_max_min h

theorem bestAgents_max_min {g1 g2 : List Agent} (h : GenDual g1 g2) (n : Nat) : GenDual (bestAgents .max g1 n) (bestAgents .min g2 n) :=
  List.Forall₂.take n (sortByCost_max_min h)

theorem worstAgents_max_min {g1 g2 : List Agent} (h : GenDual g1 g2) (n : Nat) : GenDual (worstAgents .max g1 n) (worstAgents .min g2 n) := by
  unfold worstAgents
  rw [List.Forall₂.length_eq h]
  exact List.Forall₂.drop _ (sortByCost_max_min h)

/-- the `idx`-th best agent of generation `i`: same position, negated cost, or the same `IndexError`. -/
theorem rankedAgent_max_min {e1 e2 : List (List Agent)} (h : List.Forall₂ GenDual e1 e2) (idx i : Nat) :
    ExRel AgentDual (rankedAgent .max e1 idx i) (rankedAgent .min e2 idx i) := by
  unfold rankedAgent
  rcases List.Forall₂.getElem? h i with ⟨h1, h2⟩ | ⟨g1, g2, h1, h2, hg⟩
  · simp [h1, h2, ExRel]
  · simp only [h1, h2]
    rcases List.Forall₂.getElem? (sortByCost_max_min hg) idx with ⟨h3, h4⟩ | ⟨a, b, h3, h4, hab⟩
    · simp [h3, h4, ExRel]
    · simp only [h3, h4, ExRel]; exact hab

/-! ## selection looks at costs only -/

theorem costLe_dual (d : Dir) (a c b e : Agent) (h : EqUpToFit a b) (hce : EqUpToFit c e) :
    costLe d a c = costLe d b e := by
  unfold costLe; rw [h.2.1, hce.2.1]

theorem sortByCost_dual (d : Dir) {l1 l2 : List Agent} (h : ArenaEq l1 l2) :
    ArenaEq (sortByCost d l1) (sortByCost d l2) :=
  isort_forall₂ _ _ (costLe_dual d) h

theorem bestAgent_dual (d : Dir) {l1 l2 : List Agent} (h : ArenaEq l1 l2) :
    ExRel EqUpToFit (bestAgent d l1) (bestAgent d l2) := by
  have ht := List.Forall₂.take 1 (sortByCost_dual d h)
  unfold bestAgent bestAgents
  generalize (sortByCost d l1).take 1 = t1 at ht
  generalize (sortByCost d l2).take 1 = t2 at ht
  cases ht with
  | nil => simp [ExRel]
  | cons hab ht =>
    cases ht with
    | nil => simpa [ExRel] using hab
    | cons _ _ => simp [ExRel]

/-- `(best,), (worst,) = special_agents(...)` succeeds or fails for both populations -/
theorem special_dual {l1 l2 : List Agent} (h : ArenaEq l1 l2) :
    (l1 = [] ∧ l2 = []) ∨ ∃ b1 w1 b2 w2, specialAgents .min l1 (some 1) (some 1) = .ok ([b1], [w1]) ∧
      specialAgents .min l2 (some 1) (some 1) = .ok ([b2], [w2]) := by
  cases h with
  | nil => left; exact ⟨rfl, rfl⟩
  | cons _ _ =>
    right
    obtain ⟨b1, w1, e1⟩ := C04.special_ok (_ :: _) (List.cons_ne_nil _ _)
    obtain ⟨b2, w2, e2⟩ := C04.special_ok (_ :: _) (List.cons_ne_nil _ _)
    exact ⟨b1, w1, b2, w2, e1, e2⟩

theorem special_nil : specialAgents .min [] (some 1) (some 1) = .ok ([], []) := rfl

theorem snapshot_dual {l1 l2 : List Agent} (h : ArenaEq l1 l2) : GenDual (snapshot .max l1) (snapshot .min l2) := by
  unfold snapshot
  exact List.Forall₂.map _ _ (fun a b hab => ⟨hab.1, by simp [Agent.refine, hab.2.1]⟩) h

/-! ## the loop, for two arbitrary framework-level optimizers related step by step -/

section generic
variable {R σ1 σ2 : Type} (ar : Arith R) (cfg : StopCfg R)

/-- under a budget-only stop rule the rate does not influence the decision -/
theorem errorCheck_budget (hes : cfg.es = none) (hfe : cfg.fe = none) (b : Book R) (cur : R) :
    (errorCheck ar cfg b cur).2 = decide (b.cycle ≥ cfg.maxCycles) ∧ (errorCheck ar cfg b cur).1.cycle = b.cycle := by
  simp [errorCheck, shouldStop, hes, hfe]

variable (hes : cfg.es = none) (hfe : cfg.fe = none)
  (alg1 : Alg σ1) (alg2 : Alg σ2) (rate1 rate2 : List Agent → R) (Rs : σ1 → σ2 → Prop)
  (hstep : ∀ s1 s2, Rs s1 s2 → ExRel Rs (alg1.step s1) (alg2.step s2))
  (hpop : ∀ s1 s2, Rs s1 s2 → ArenaEq (alg1.pop s1) (alg2.pop s2))

def LoopRel (Rs : σ1 → σ2 → Prop) (x : σ1 × Book R × List (List Agent)) (y : σ2 × Book R × List (List Agent)) : Prop :=
  Rs x.1 y.1 ∧ List.Forall₂ GenDual x.2.2 y.2.2

include hes hfe hstep hpop in
theorem loop_dual (fuel : Nat) (s1 : σ1) (s2 : σ2) (hs : Rs s1 s2) (b1 b2 : Book R) (hb : b1.cycle = b2.cycle)
    (h1 h2 : List (List Agent)) (hh : List.Forall₂ GenDual h1 h2) :
    ExRel (LoopRel Rs) (loop ar cfg alg1 rate1 .max fuel s1 b1 h1) (loop ar cfg alg2 rate2 .min fuel s2 b2 h2) := by
  induction fuel generalizing s1 s2 b1 b2 h1 h2 with
  | zero => simp only [loop, ExRel]; exact ⟨hs, hh⟩
  | succ fuel ih =>
    have hst := hstep s1 s2 hs
    unfold loop
    cases e1 : alg1.step s1 <;> cases e2 : alg2.step s2 <;> simp only [e1, e2, ExRel] at hst ⊢
    · exact hst
    · rename_i s1' s2'
      have hag := hpop s1' s2' hst
      have hh' : List.Forall₂ GenDual (h1 ++ [snapshot .max (alg1.pop s1')]) (h2 ++ [snapshot .min (alg2.pop s2')]) :=
        List.Forall₂.append hh (.cons (snapshot_dual hag) .nil)
      rcases special_dual hag with ⟨n1, n2⟩ | ⟨b1', w1', b2', w2', g1, g2⟩
      · simp [n1, n2, special_nil]
      · have c1 := errorCheck_budget ar cfg hes hfe b1 (rate1 (alg1.pop s1'))
        have c2 := errorCheck_budget ar cfg hes hfe b2 (rate2 (alg2.pop s2'))
        simp only [g1, g2, c1.1, c2.1, hb]
        by_cases hd : b2.cycle ≥ cfg.maxCycles
        · simp only [hd, decide_true, ↓reduceIte]; exact ⟨hst, hh'⟩
        · simp only [hd, decide_false, Bool.false_eq_true, ↓reduceIte]
          exact ih s1' s2' hst _ _ (by simp [c1.2, c2.2, hb]) _ _ hh'

/-- relation between the two packaged results -/
def ResRel (Rs : σ1 → σ2 → Prop) (x : Result R × σ1 × Book R) (y : Result R × σ2 × Book R) : Prop :=
  List.Forall₂ GenDual x.1.evolution y.1.evolution ∧ x.1.best.position = y.1.best.position ∧
    x.1.best.cost = y.1.best.cost.neg ∧ Rs x.2.1 y.2.1

include hes hfe hstep hpop in
theorem runBody_dual (s01 : σ1) (s02 : σ2) (hinit : ExRel Rs (alg1.init s01) (alg2.init s02)) :
    ExRel (ResRel Rs) (runBody ar cfg alg1 rate1 .max s01) (runBody ar cfg alg2 rate2 .min s02) := by
  unfold runBody
  cases e1 : alg1.init s01 <;> cases e2 : alg2.init s02 <;> simp only [e1, e2, ExRel] at hinit ⊢
  · exact hinit
  · rename_i s1 s2
    have hag := hpop s1 s2 hinit
    rcases special_dual hag with ⟨n1, n2⟩ | ⟨b1', w1', b2', w2', g1, g2⟩
    · simp [n1, n2, special_nil]
    · simp only [g1, g2]
      have hl := loop_dual ar cfg hes hfe alg1 alg2 rate1 rate2 Rs hstep hpop (max cfg.maxCycles.toNat 1) s1 s2 hinit
        Book.fresh Book.fresh rfl [snapshot .max (alg1.pop s1)] [snapshot .min (alg2.pop s2)] (.cons (snapshot_dual hag) .nil)
      cases l1 : loop ar cfg alg1 rate1 .max (max cfg.maxCycles.toNat 1) s1 Book.fresh [snapshot .max (alg1.pop s1)] <;>
        cases l2 : loop ar cfg alg2 rate2 .min (max cfg.maxCycles.toNat 1) s2 Book.fresh [snapshot .min (alg2.pop s2)] <;>
        simp only [l1, l2, ExRel] at hl ⊢
      · exact hl
      · rename_i x y
        obtain ⟨t1, bk1, hist1⟩ := x
        obtain ⟨t2, bk2, hist2⟩ := y
        obtain ⟨hst, hhist⟩ := hl
        simp only at hst hhist ⊢
        have hbest := bestAgent_dual .min (hpop t1 t2 hst)
        cases q1 : bestAgent .min (alg1.pop t1) <;> cases q2 : bestAgent .min (alg2.pop t2) <;>
          simp only [q1, q2, ExRel] at hbest ⊢
        · exact hbest
        · exact ⟨hhist, hbest.1, by simp [Agent.refine, hbest.2.1], hst⟩

end generic

/-! ## the disciplined optimizer on the two tasks -/

theorem toAlg_step_dual {σ : Type} {Tmax Tmin : TaskSem} (h : Dual Tmax Tmin) (A : DAlg σ) (hA : AlgFitBlind A)
    (s1 s2 : RunState σ) (hs : StRel s1 s2) : ExRel StRel ((A.toAlg Tmax).step s1) ((A.toAlg Tmin).step s2) := by
  show ExRel StRel ((A.step s1.priv s1.arena s1.pop).exec Tmax s1.arena s1.calls)
    ((A.step s2.priv s2.arena s2.pop).exec Tmin s2.arena s2.calls)
  rw [← hs.priv, ← hs.pop, ← hs.calls, ← hA.stepArena _ _ _ _ hs.arena]
  exact exec_dual h _ (hA.step _ _ _) _ _ hs.arena _

theorem toAlg_init_dual {σ : Type} {Tmax Tmin : TaskSem} (h : Dual Tmax Tmin) (A : DAlg σ) (hA : AlgFitBlind A)
    (st : RunState σ) : ExRel StRel ((A.toAlg Tmax).init st) ((A.toAlg Tmin).init st) :=
  exec_dual h _ (hA.init _) [] [] .nil []

/-- the duality with the final run states included: besides the generations and `best_solution`, the two runs end with the
same private optimizer state, the same population references and the same log of objective-function arguments
(`StRel`: the objective was called on exactly the same positions, in the same order). -/
theorem c12_duality_states {R σ : Type} (Tmax Tmin : TaskSem) (h : Dual Tmax Tmin) (A : DAlg σ) (hA : AlgFitBlind A)
    (ar : Arith R) (cfg : StopCfg R) (hes : cfg.es = none) (hfe : cfg.fe = none)
    (rate1 rate2 : List Agent → R) (st0 : RunState σ) :
    ExRel (ResRel StRel) (runBody ar cfg (A.toAlg Tmax) rate1 .max st0) (runBody ar cfg (A.toAlg Tmin) rate2 .min st0) :=
  runBody_dual ar cfg hes hfe (A.toAlg Tmax) (A.toAlg Tmin) rate1 rate2 StRel
    (toAlg_step_dual h A hA) (fun _ _ hs => agents_dual hs) st0 st0 (toAlg_init_dual h A hA st0)

/-- **C12**: for every fitness-blind disciplined optimizer, every arithmetic, every pair of rate functions and every
budget-only stop configuration, the run maximising `f` and the run minimising `-f` from the same initial private state
either both raise the same error, or both return, with the same number of generations, position-wise equal positions in
every generation, costs that are exact negatives of each other, and `best_solution`s at the same position with negated cost. -/
theorem c12_duality {R σ : Type} (Tmax Tmin : TaskSem) (h : Dual Tmax Tmin) (A : DAlg σ) (hA : AlgFitBlind A)
    (ar : Arith R) (cfg : StopCfg R) (hes : cfg.es = none) (hfe : cfg.fe = none)
    (rate1 rate2 : List Agent → R) (s0 : σ) :
    match runBody ar cfg (A.toAlg Tmax) rate1 .max ⟨s0, [], [], []⟩,
          runBody ar cfg (A.toAlg Tmin) rate2 .min ⟨s0, [], [], []⟩ with
    | .ok (r1, _, _), .ok (r2, _, _) =>
        List.Forall₂ GenDual r1.evolution r2.evolution ∧ r1.best.position = r2.best.position ∧
          r1.best.cost = r2.best.cost.neg
    | .error e1, .error e2 => e1 = e2
    | _, _ => False := by
  have hr := c12_duality_states Tmax Tmin h A hA ar cfg hes hfe rate1 rate2 ⟨s0, [], [], []⟩
  rcases e1 : runBody ar cfg (A.toAlg Tmax) rate1 .max ⟨s0, [], [], []⟩ with e | ⟨r1, t1, b1⟩ <;>
    rcases e2 : runBody ar cfg (A.toAlg Tmin) rate2 .min ⟨s0, [], [], []⟩ with e' | ⟨r2, t2, b2⟩ <;>
    simp only [e1, e2, ExRel] at hr ⊢
  · exact hr
  · exact ⟨hr.1, hr.2.1, hr.2.2.1⟩

/-- **C12 for the readers of the two results**: whatever rank `idx` and generation `i` the caller asks the trend utilities for, the
maximisation result (read with `MAX`) and the dual minimisation result (read with `MIN`) name the same position with exactly negated
cost, or both raise `IndexError` — equal-cost agents included. -/
theorem c12_readers {R σ : Type} (Tmax Tmin : TaskSem) (h : Dual Tmax Tmin) (A : DAlg σ) (hA : AlgFitBlind A)
    (ar : Arith R) (cfg : StopCfg R) (hes : cfg.es = none) (hfe : cfg.fe = none)
    (rate1 rate2 : List Agent → R) (s0 : σ) (idx i : Nat) :
    match runBody ar cfg (A.toAlg Tmax) rate1 .max ⟨s0, [], [], []⟩,
          runBody ar cfg (A.toAlg Tmin) rate2 .min ⟨s0, [], [], []⟩ with
    | .ok (r1, _, _), .ok (r2, _, _) => ExRel AgentDual (rankedAgent .max r1.evolution idx i) (rankedAgent .min r2.evolution idx i)
    | .error e1, .error e2 => e1 = e2
    | _, _ => False := by
  have hr := c12_duality Tmax Tmin h A hA ar cfg hes hfe rate1 rate2 s0
  rcases e1 : runBody ar cfg (A.toAlg Tmax) rate1 .max ⟨s0, [], [], []⟩ with e | ⟨r1, t1, b1⟩ <;>
    rcases e2 : runBody ar cfg (A.toAlg Tmin) rate2 .min ⟨s0, [], [], []⟩ with e' | ⟨r2, t2, b2⟩ <;>
    simp only [e1, e2] at hr ⊢
  · exact hr
  · exact rankedAgent_max_min hr.1 idx i

/-! ## non-vacuity: a concrete dual pair of tasks and a concrete fitness-blind (greedy, cost-reading) optimizer -/

private def demoDecl : TaskDecl := ⟨[.cont (.fin 0) (.fin 1)]⟩
private def demoF (p : List Coord) : Num := match p with | [.num x] => x | _ => .fin 0
/-- maximise `f(x) = x` on `[0, 1]`; fitness is (for the demonstration) the user-visible cost itself -/
private def demoMax : TaskSem :=
  { decl := demoDecl, dir := .max, weights := none, F := fun p => .single (demoF p), dot := fun _ _ => .fin 0, fit := fun c => c }
/-- minimise `-f` -/
private def demoMin : TaskSem := { demoMax with dir := .min, F := fun p => .single (demoF p).neg }

theorem demo_dual : Dual demoMax demoMin := ⟨rfl, rfl, rfl, rfl, rfl, fun p => ⟨demoF p, rfl, rfl⟩⟩

/-- the greedy decision: keep the challenger iff it is strictly cheaper than the incumbent's (internal) cost -/
private def greedyK (s : Nat) (inc : Option Num) (i : Nat) (a : Agent) : Prog Nat :=
  match inc with
  | some c => if Num.lt a.cost c then .done (s + 1) [a.tag] else .done (s + 1) [i]
  | none => .fail .indexError

/-- one agent; each step evaluates one candidate (depending on the private state) and selects greedily by cost -/
private def demoA : DAlg Nat :=
  { init := fun s => .eval [.scalar (.fin (1/4))] (fun a => .done s [a.tag]),
    step := fun s arena pop =>
      match pop with
      | [i] => .eval [.scalar (.fin (if s % 2 = 0 then 3/4 else 1/8))] (greedyK s (arena[i]?.map (·.cost)) i)
      | _ => .fail .valueError }

theorem greedyK_blind (s : Nat) (inc : Option Num) (i : Nat) :
    (∀ a b, EqUpToFit a b → greedyK s inc i a = greedyK s inc i b) ∧ ∀ a, FitBlind (greedyK s inc i a) := by
  constructor
  · intro a b hab
    unfold greedyK
    rw [hab.2.1, hab.2.2]
  · intro a
    unfold greedyK
    cases inc with
    | none => exact .fail _
    | some c =>
      simp only
      split
      · exact .done _ _
      · exact .done _ _

theorem arena_cost {ar1 ar2 : List Agent} (h : ArenaEq ar1 ar2) (i : Nat) :
    ar1[i]?.map (·.cost) = ar2[i]?.map (·.cost) := by
  rcases List.Forall₂.getElem? h i with ⟨h1, h2⟩ | ⟨a, b, h1, h2, hab⟩
  · rw [h1, h2]
  · rw [h1, h2]; simp [hab.2.1]

theorem demoA_blind : AlgFitBlind demoA where
  init := fun s => .eval _ _ (fun a b hab => by rw [hab.2.2]) (fun _ => .done _ _)
  step := by
    intro s ar pop
    unfold demoA
    simp only
    split
    · exact .eval _ _ (greedyK_blind _ _ _).1 (greedyK_blind _ _ _).2
    · exact .fail _
  stepArena := by
    intro s ar1 ar2 pop h
    unfold demoA
    simp only
    split
    · rw [arena_cost h]
    · rfl

private def toyAr : Arith Unit := ⟨fun _ _ => (), fun _ => (), fun _ _ => false, fun _ _ => false, ()⟩
private def toyCfg : StopCfg Unit := { maxCycles := 3, fe := none, es := none }
/-- generations as (position, cost, fitness) -/
private def viewGens (r : Except Err (Result Unit × RunState Nat × Book Unit)) :=
  r.map (fun r => r.1.evolution.map (·.map (fun a => (a.position, a.cost, a.fitness))))
/-- `best_solution` and the objective-call log -/
private def viewBest (r : Except Err (Result Unit × RunState Nat × Book Unit)) :=
  r.map (fun r => (r.1.best.position, r.1.best.cost, r.2.1.calls))

/-- the hypotheses of `c12_duality` are satisfiable, so its instance is not vacuous … -/
example := c12_duality demoMax demoMin demo_dual demoA demoA_blind toyAr toyCfg rfl rfl (fun _ => ()) (fun _ => ()) 0

/-- … and the two runs really return: accept (3/4 beats 1/4), reject (1/8), reject (tie); costs 1/4, 3/4 against -1/4, -3/4;
fitness differs between the runs, positions and call logs do not. -/
example : viewGens (runBody toyAr toyCfg (demoA.toAlg demoMax) (fun _ => ()) .max ⟨0, [], [], []⟩) =
    .ok [[([.num (.fin (1/4))], .fin (1/4), .fin (1/4))], [([.num (.fin (3/4))], .fin (3/4), .fin (3/4))],
         [([.num (.fin (3/4))], .fin (3/4), .fin (3/4))], [([.num (.fin (3/4))], .fin (3/4), .fin (3/4))]] := by decide +kernel
example : viewGens (runBody toyAr toyCfg (demoA.toAlg demoMin) (fun _ => ()) .min ⟨0, [], [], []⟩) =
    .ok [[([.num (.fin (1/4))], .fin (-1/4), .fin (-1/4))], [([.num (.fin (3/4))], .fin (-3/4), .fin (-3/4))],
         [([.num (.fin (3/4))], .fin (-3/4), .fin (-3/4))], [([.num (.fin (3/4))], .fin (-3/4), .fin (-3/4))]] := by decide +kernel
example : viewBest (runBody toyAr toyCfg (demoA.toAlg demoMax) (fun _ => ()) .max ⟨0, [], [], []⟩) =
    .ok ([.num (.fin (3/4))], .fin (3/4), [[.num (.fin (1/4))], [.num (.fin (3/4))], [.num (.fin (1/8))], [.num (.fin (3/4))]]) := by
  decide +kernel
example : viewBest (runBody toyAr toyCfg (demoA.toAlg demoMin) (fun _ => ()) .min ⟨0, [], [], []⟩) =
    .ok ([.num (.fin (3/4))], .fin (-3/4), [[.num (.fin (1/4))], [.num (.fin (3/4))], [.num (.fin (1/8))], [.num (.fin (3/4))]]) := by
  decide +kernel

/-! ## the fitness-blindness hypothesis cannot be dropped -/

/-- evaluates two candidates and keeps the one with the *smaller fitness value*: it consults fitness -/
private def readerA : DAlg Nat :=
  { init := fun s => .eval [.scalar (.fin (1/4))] (fun a => .eval [.scalar (.fin (3/4))] (fun b =>
      if Num.lt a.fitness b.fitness then .done s [0] else .done s [1])),
    step := fun s _ pop => .done s pop }

/-- **negative witness**: on the dual pair `demoMax` / `demoMin` (whose `fit` has `fit x ≠ fit (-x)`), the optimizer
`readerA`, which selects by fitness, is not fitness-blind, both runs return, and they report *different positions*
(`1/4` when maximising `f`, `3/4` when minimising `-f`) already in generation 0 and as `best_solution`: the conclusion of
`c12_duality` fails, although every other hypothesis holds (same `DAlg`, dual tasks, budget-only stop rule). -/
theorem fitness_reader_witness :
    Dual demoMax demoMin ∧ ¬ FitBlind (readerA.init 0) ∧
    (∀ s ar1 ar2 pop, ArenaEq ar1 ar2 → readerA.step s ar1 pop = readerA.step s ar2 pop) ∧
    (runBody toyAr toyCfg (readerA.toAlg demoMax) (fun _ => ()) .max ⟨0, [], [], []⟩).map
        (fun r => (r.1.evolution.map (·.map (·.position)), r.1.best.position)) =
      .ok ([[[.num (.fin (1/4))]], [[.num (.fin (1/4))]], [[.num (.fin (1/4))]], [[.num (.fin (1/4))]]], [.num (.fin (1/4))]) ∧
    (runBody toyAr toyCfg (readerA.toAlg demoMin) (fun _ => ()) .min ⟨0, [], [], []⟩).map
        (fun r => (r.1.evolution.map (·.map (·.position)), r.1.best.position)) =
      .ok ([[[.num (.fin (3/4))]], [[.num (.fin (3/4))]], [[.num (.fin (3/4))]], [[.num (.fin (3/4))]]], [.num (.fin (3/4))]) := by
  refine ⟨demo_dual, ?_, fun _ _ _ _ _ => rfl, by decide +kernel, by decide +kernel⟩
  intro hfb
  cases hfb with
  | eval _ _ hk _ =>
    have h1 := hk ⟨[], .fin 0, .fin 0, 0⟩ ⟨[], .fin 0, .fin 1, 0⟩ ⟨rfl, rfl, rfl⟩
    injection h1 with _ hf
    have h2 := congrFun hf ⟨[], .fin 0, .fin (1/2), 0⟩
    have l1 : Num.lt (.fin 0) (.fin (1/2)) = true := by decide +kernel
    have l2 : Num.lt (.fin 1) (.fin (1/2)) = false := by decide +kernel
    simp [l1, l2] at h2

/-- the same at the level of one phase, for *every* dual pair sharing a fitness function `fit`: a program whose continuation
tests the new agent's fitness ends with different populations on the two tasks as soon as `fit x ≠ fit (-x)` for the
objective value `x` of the evaluated position. -/
theorem fitness_reader_exec (Tmax Tmin : TaskSem) (h : Dual Tmax Tmin) (hfit : Tmax.fit = Tmin.fit)
    (raw : List Raw) (pos arg : List Coord) (x : Num)
    (hpos : Tmax.decl.correctSolution raw = .ok pos) (harg : Tmax.decl.correctSolution (pos.map Coord.toRaw) = .ok arg)
    (hx : Tmax.F arg = .single x) (hne : Tmax.fit x ≠ Tmax.fit x.neg) :
    let p : Prog Unit := .eval raw (fun a => if a.fitness = Tmax.fit x then .done () [0] else .done () [])
    (p.exec Tmax [] []).map (·.pop) = .ok [0] ∧ (p.exec Tmin [] []).map (·.pop) = .ok [] := by
  intro p
  obtain ⟨x', hx1, hx2⟩ := h.obj arg
  rw [hx] at hx1
  cases hx1
  have nn : x.neg.neg = x := by cases x <;> simp [Num.neg]
  have m1 : mkAgent Tmax raw 0 = .ok (⟨pos, x.neg, Tmax.fit x, 0⟩, arg) := by
    simp [mkAgent, hpos, harg, hx, h.dmax, h.wmax, signIn, weigh, signOut, nn, bind, Except.bind]
  have m2 : mkAgent Tmin raw 0 = .ok (⟨pos, x.neg, Tmax.fit x.neg, 0⟩, arg) := by
    rw [h.decl] at hpos harg
    simp [mkAgent, hpos, harg, hx2, h.dmin, h.wmin, signIn, weigh, signOut, hfit, bind, Except.bind]
  constructor
  · simp [p, Prog.exec, m1, resolve, Except.map, bind, Except.bind]
  · simp [p, Prog.exec, m2, resolve, Except.map, Ne.symm hne]

/-- ties: two agents of equal cost keep their recorded order in both readings (rank 0 is the first of them, rank 1 the second) -/
example : ((sortByCost .max [⟨[.num (.fin 1)], .fin 5, .fin 0, 0⟩, ⟨[.num (.fin 2)], .fin 5, .fin 0, 1⟩, ⟨[.num (.fin 3)], .fin 7, .fin 0, 2⟩]).map (·.tag),
           (sortByCost .min [⟨[.num (.fin 1)], .fin (-5), .fin 0, 0⟩, ⟨[.num (.fin 2)], .fin (-5), .fin 0, 1⟩, ⟨[.num (.fin 3)], .fin (-7), .fin 0, 2⟩]).map (·.tag))
    = ([2, 0, 1], [2, 0, 1]) := by decide +kernel

end C12
