import PvModel.Utils
import PvModel.Props.C03
/-!
# C15 — the recorded history is faithful and the trend utilities agree with it

* `history_prefix_stable` : generation `k` of `evolution` is the population as it stood after cycle `k`, whatever happens later:
  it is a function of the optimizer's trajectory up to `k` only (the history grows by append and agents are values).
* `rankedAgent_spec`      : the utilities return, for each requested iteration, an agent of that generation such that exactly `idx`
  agents precede it in the direction-sorted generation and none of the following ones is strictly better.
* `bestTrend_last`        : the last entry of `best_agent_trend` equals `best_solution.cost`.

What a functional model cannot see is aliasing (on min tasks the live population and the history share `Agent` objects); that half
rests on the table obligation `T01` (no store into an agent's `position/cost/fitness`, no `model_copy(update=…)` of them) and on the
independent deep snapshot the S-trace suite takes after every cycle.
-/

namespace C15

/-- later cycles never alter an already recorded generation: two runs of the same optimizer from the same initial state under
*different* stop configurations record the same generation `k`, for every `k` both reach. -/
theorem history_prefix_stable {R σ : Type} (ar : Arith R) (cfg1 cfg2 : StopCfg R) (alg : Alg σ) (rate : List Agent → R) (dir : Dir)
    (stepT : σ → σ) (tot : C04.Total alg stepT) (s0 s1 : σ) (hinit : alg.init s0 = .ok s1) :
    ∃ r1 r2 x1 x2, runBody ar cfg1 alg rate dir s0 = .ok (r1, x1) ∧ runBody ar cfg2 alg rate dir s0 = .ok (r2, x2) ∧
      ∀ k, k < r1.evolution.length → k < r2.evolution.length → r1.evolution[k]? = r2.evolution[k]? := by
  obtain ⟨N1, r1, sN1, bN1, _, _, _, _, h1, e1, _⟩ := C04.c04_first ar cfg1 alg rate dir stepT tot s0 s1 hinit
  obtain ⟨N2, r2, sN2, bN2, _, _, _, _, h2, e2, _⟩ := C04.c04_first ar cfg2 alg rate dir stepT tot s0 s1 hinit
  refine ⟨r1, r2, _, _, h1, h2, ?_⟩
  intro k hk1 hk2
  rw [e1] at hk1 ⊢
  rw [e2] at hk2 ⊢
  simp at hk1 hk2
  simp [hk1, hk2]

/-- and each recorded generation is exactly the (sign-restored) population after that many cycles. -/
theorem history_is_population {R σ : Type} (ar : Arith R) (cfg : StopCfg R) (alg : Alg σ) (rate : List Agent → R) (dir : Dir)
    (stepT : σ → σ) (tot : C04.Total alg stepT) (s0 s1 : σ) (hinit : alg.init s0 = .ok s1) :
    ∃ r x, runBody ar cfg alg rate dir s0 = .ok (r, x) ∧
      ∀ k, k < r.evolution.length → r.evolution[k]? = some (snapshot dir (alg.pop (C04.iter stepT k s1))) := by
  obtain ⟨N, r, sN, bN, _, _, _, _, h1, e1, _⟩ := C04.c04_first ar cfg alg rate dir stepT tot s0 s1 hinit
  refine ⟨r, _, h1, ?_⟩
  intro k hk
  rw [e1] at hk ⊢
  simp at hk
  simp [hk, C04.genAt]

/-- the agent the utilities designate is the `idx`-th of the generation sorted in the task's direction: a member of that
generation, preceded by `idx` agents none of which it beats, followed only by agents that do not beat it. -/
theorem rankedAgent_spec (dir : Dir) (evolution : List (List Agent)) (idx i : Nat) (a : Agent)
    (h : rankedAgent dir evolution idx i = .ok a) :
    ∃ g, evolution[i]? = some g ∧ a ∈ g ∧ (sortByCost dir g)[idx]? = some a ∧
      (NoNaN g → (∀ b ∈ (sortByCost dir g).take idx, better dir a.cost b.cost = false) ∧
                  (∀ b ∈ (sortByCost dir g).drop (idx + 1), better dir b.cost a.cost = false)) := by
  unfold rankedAgent at h
  cases hg : evolution[i]? with
  | none => simp [hg] at h
  | some g =>
    simp only [hg] at h
    cases ha : (sortByCost dir g)[idx]? with
    | none => simp [ha] at h
    | some a' =>
      simp [ha] at h; subst h
      have hmem : a' ∈ sortByCost dir g := List.mem_of_getElem? ha
      refine ⟨g, rfl, mem_sortByCost.mp hmem, ha, ?_⟩
      intro hn
      have hs := sortByCost_sorted dir g hn
      have hlt : idx < (sortByCost dir g).length := (List.getElem?_eq_some_iff.mp ha).1
      have hsplit : sortByCost dir g = (sortByCost dir g).take idx ++ a' :: (sortByCost dir g).drop (idx + 1) := by
        have := List.getElem_cons_drop (h := hlt)
        rw [(List.getElem?_eq_some_iff.mp ha).2] at this
        rw [this, List.take_append_drop]
      rw [hsplit] at hs
      have h1 := List.pairwise_append.mp hs
      constructor
      · intro b hb
        exact not_better_of_costLe dir b a' (h1.2.2 b hb a' List.mem_cons_self)
      · intro b hb
        have h2 := List.pairwise_cons.mp h1.2.1
        exact not_better_of_costLe dir a' b (h2.1 b hb)

/-- out-of-range iteration or rank raises `IndexError` (as list indexing does) -/
theorem rankedAgent_indexError (dir : Dir) (evolution : List (List Agent)) (idx i : Nat) (h : evolution.length ≤ i) :
    rankedAgent dir evolution idx i = .error .indexError := by
  simp [rankedAgent, List.getElem?_eq_none h]

/-- two agents that are both optimal in a generation have the same cost -/
theorem optimal_costs_eq (dir : Dir) (a b : Agent) (ha : a.cost.isNaN = false) (hb : b.cost.isNaN = false)
    (h1 : better dir a.cost b.cost = false) (h2 : better dir b.cost a.cost = false) : a.cost = b.cost := by
  cases dir <;> simp only [better] at h1 h2
  · exact Num.le_antisymm _ _ (Num.ge_of_not_lt _ _ hb ha h2) (Num.ge_of_not_lt _ _ ha hb h1)
  · exact Num.le_antisymm _ _ (Num.ge_of_not_lt _ _ hb ha h1) (Num.ge_of_not_lt _ _ ha hb h2)

/-- **the last entry of `best_agent_trend` equals `best_solution.cost`**: the head of the direction-sorted last generation and the
reported best agent are both optimal there, hence have the same cost (ties included). -/
theorem bestTrend_last (dir : Dir) (pop : List Agent) (hne : pop ≠ []) (hn : NoNaN pop) :
    ∃ b a, bestAgent .min pop = .ok b ∧ rankedAgent dir [snapshot dir pop] 0 0 = .ok a ∧ a.cost = (b.refine dir).cost := by
  obtain ⟨b, hb, hbmem, hopt⟩ := C03.best_internal pop hne hn
  have hsn : NoNaN (snapshot dir pop) := by
    intro x hx
    simp only [snapshot, List.mem_map] at hx
    obtain ⟨x0, hx0, rfl⟩ := hx
    cases dir <;> simp [Agent.refine, Num.isNaN_neg, hn x0 hx0]
  have hne' : snapshot dir pop ≠ [] := by simpa [snapshot] using hne
  obtain ⟨a, ha, ha1⟩ := C16.bestAgent_ok dir (snapshot dir pop) hne'
  have hr : rankedAgent dir [snapshot dir pop] 0 0 = .ok a := by
    have : (sortByCost dir (snapshot dir pop))[0]? = some a := by
      have : (bestAgents dir (snapshot dir pop) 1)[0]? = some a := by rw [ha1]; rfl
      simpa [bestAgents, List.getElem?_take] using this
    simp [rankedAgent, this]
  refine ⟨b, a, hb, hr, ?_⟩
  have hamem : a ∈ bestAgents dir (snapshot dir pop) 1 := by rw [ha1]; simp
  have hainpop : a ∈ snapshot dir pop := C16.bestAgents_mem dir _ 1 a hamem
  have hbin : b.refine dir ∈ snapshot dir pop := List.mem_map.mpr ⟨b, hbmem, rfl⟩
  -- nobody in the generation beats `refine b` (C03) …
  have h1 : better dir a.cost (b.refine dir).cost = false := C03.refine_keeps_optimum dir pop b hopt a hainpop
  -- … and nobody beats the head of the sorted generation
  have h2 : better dir (b.refine dir).cost a.cost = false := by
    have hpart := (C16.bestAgents_partition dir (snapshot dir pop) 1).mem_iff.mpr hbin
    rw [ha1] at hpart
    rcases List.mem_append.mp hpart with h | h
    · simp at h; rw [h]; cases dir <;> simp [better, Num.lt]
    · exact C16.bestAgents_separated dir _ 1 hsn a hamem _ h
  exact optimal_costs_eq dir a (b.refine dir) (hsn a hainpop) (hsn _ hbin) h1 h2

/-! ## non-vacuity -/
private def ag (c : Int) (t : Nat) : Agent := { position := [], cost := .fin c, fitness := .fin 0, tag := t }
example : agentTrend .max [[ag 1 0, ag 5 1], [ag 7 2, ag 2 3]] 0 [0, 1] = .ok [.fin 5, .fin 7] := by decide +kernel
example : agentTrend .min [[ag 1 0, ag 5 1], [ag 7 2, ag 2 3]] 1 [1] = .ok [.fin 7] := by decide +kernel
example : agentTrend .min [[ag 1 0]] 0 [3] = .error .indexError := by decide +kernel

end C15
