import PvModel.Props.C04
/-!
# C03 — `best_solution` is the optimum of the final generation in the task's direction

`best_solution` is (value-equal to) an agent of the last recorded generation and no agent of that generation has a strictly
better cost — lowest for a minimisation, highest for a maximisation — for every final population with NaN-free costs, in any
order (so also for a generation permuted by a parallel pool), ties included.
-/

namespace C03

/-- the internal selection: `special_agents(population, n_best=1)` returns a member that no member beats. -/
theorem best_internal (pop : List Agent) (hne : pop ≠ []) (h : NoNaN pop) :
    ∃ b, bestAgent .min pop = .ok b ∧ b ∈ pop ∧ ∀ a ∈ pop, Num.lt a.cost b.cost = false := by
  obtain ⟨b, hb, hb1⟩ := C16.bestAgent_ok .min pop hne
  have hmem : b ∈ bestAgents .min pop 1 := by rw [hb1]; simp
  refine ⟨b, hb, C16.bestAgents_mem .min pop 1 b hmem, ?_⟩
  intro a ha
  -- `a` is either the returned agent or one of the omitted ones
  have hpart := (C16.bestAgents_partition .min pop 1).mem_iff.mpr ha
  rw [hb1] at hpart
  rcases List.mem_append.mp hpart with h1 | h1
  · simp at h1; subst h1
    simp [Num.lt]
  · have := C16.bestAgents_separated .min pop 1 h b hmem a h1
    simpa [better] using this

/-- the sign restoration keeps "nobody is strictly better": for max tasks internal costs are negated on the way out and
negation reverses the order. -/
theorem refine_keeps_optimum (dir : Dir) (pop : List Agent) (b : Agent)
    (hopt : ∀ a ∈ pop, Num.lt a.cost b.cost = false) :
    ∀ a ∈ snapshot dir pop, better dir a.cost (b.refine dir).cost = false := by
  intro a ha
  simp only [snapshot, List.mem_map] at ha
  obtain ⟨a0, ha0, rfl⟩ := ha
  cases dir
  · simpa [better, Agent.refine] using hopt a0 ha0
  · simp only [better, Agent.refine, Num.lt_neg_neg]
    exact hopt a0 ha0

/-- **C03** on the result of `optimize`: for every optimizer whose step returns, every configuration and direction —
`best_solution` is an agent of the last recorded generation (same position and cost) and no agent of that generation is
strictly better in the task's direction. -/
theorem c03_result {R σ : Type} (ar : Arith R) (cfg : StopCfg R) (alg : Alg σ) (rate : List Agent → R) (dir : Dir)
    (stepT : σ → σ) (tot : C04.Total alg stepT) (s0 s1 : σ) (hinit : alg.init s0 = .ok s1)
    (hnan : ∀ s, NoNaN (alg.pop s)) :
    ∃ res sN bN last, runBody ar cfg alg rate dir s0 = .ok (res, sN, bN) ∧
      res.evolution.getLast? = some last ∧ res.best ∈ last ∧
      ∀ a ∈ last, better dir a.cost res.best.cost = false := by
  obtain ⟨N, res, sN, bN, _, _, _, _, hrun, hev, _, hsN, b, hb, hbest⟩ := C04.c04_first ar cfg alg rate dir stepT tot s0 s1 hinit
  obtain ⟨b', hb', hmem, hopt⟩ := best_internal (alg.pop sN) (tot.pop_ne _) (hnan _)
  have : b' = b := by rw [hb] at hb'; cases hb'; rfl
  subst this
  refine ⟨res, sN, bN, snapshot dir (alg.pop sN), hrun, ?_, ?_, ?_⟩
  · rw [hev, List.range_succ, List.map_append]; simp [C04.genAt, hsN]
  · rw [hbest]; exact List.mem_map.mpr ⟨b', hmem, rfl⟩
  · rw [hbest]; exact refine_keeps_optimum dir _ b' hopt

/-! ## non-vacuity -/
private def ag (c : Int) (t : Nat) : Agent := { position := [], cost := .fin c, fitness := .fin 0, tag := t }
example : bestAgent .min [ag 3 0, ag (-1) 1, ag 2 2, ag (-1) 3] = .ok (ag (-1) 1) := by decide +kernel
example : (snapshot .max [ag 3 0, ag (-1) 1]).map (·.cost) = [.fin (-3), .fin 1] := by decide +kernel

end C03
