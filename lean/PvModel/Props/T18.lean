import PvModel.Props.Tables
/-! Table obligation (regenerated facts, decided by kernel evaluation over the whole table): no optimizer dereferences its configuration in __init__, and set_config_parameters is exactly Config(**parameters). -/
namespace T18
open Generated Tables
theorem table_uniform_api : ∀ a ∈ algos, uniformApi a = true := by decide
end T18
