import PvModel.Lemmas.FieldLemmas
/-!
# C08 — a run does not depend on the optimizer instance's history
# (and the shared noninterference theorem behind C07 and C18)

An optimizer class is a pair of programs over the instance's fields: the per-run initialisation path (`optimize`'s prologue
resets, `before_initialization`, `_init_population`, `after_initialization`) and `optimization_step`.
`C` is the set of fields that are the *same* for a used and a fresh instance by construction: the configuration, the task
passed to the call, the constructor constants.  The per-run initialisation is a sequence of unconditional assignments, each
reading only `C` or fields assigned earlier in the same sequence (`WellScoped`); the step reads only `C` and those fields
(`L`).  This is exactly the obligation the translator checks class by class (`Props/T08`: every field read at step entry or
during initialisation before being written is (re)initialised per run or is a constructor constant).

`fresh_equiv`: then for ANY two instance states that agree on `C` — e.g. an instance left behind by any sequence of earlier
`optimize` calls on any tasks, completed or interrupted by an exception at any statement, versus a freshly constructed one —
the states after initialisation and after every number of cycles agree on everything the run can observe (`L`), and the two
runs raise (or not) at the same point.
-/

namespace C08
open Stmt
variable {F V : Type} [DecidableEq F]

/-- an unconditional assignment: target, fields read, expression -/
abbrev Asg (F V : Type) := F × List F × (List V → V)

/-- the per-run initialisation path as a sequence of unconditional assignments -/
def assigns : List (Asg F V) → Stmt F V
  | [] => .skip
  | (f, rs, e) :: rest => .seq (.assign f rs e) (assigns rest)

/-- every assignment reads only `C` or targets of earlier assignments of the sequence -/
def WellScoped (C : F → Prop) : List (Asg F V) → Prop
  | [] => True
  | (f, rs, _) :: rest => (∀ r ∈ rs, C r) ∧ WellScoped (fun g => C g ∨ g = f) rest

/-- the fields a run can observe: `C` plus everything the initialisation (re)assigns -/
def Obs (C : F → Prop) (as : List (Asg F V)) : F → Prop := fun g => C g ∨ g ∈ as.map (·.1)

theorem assigns_no_raise (as : List (Asg F V)) (st : Store F V) : ((assigns as).run st).2 = false := by
  induction as generalizing st with
  | nil => simp [assigns, run]
  | cons a as ih =>
    obtain ⟨f, rs, e⟩ := a
    simp [assigns, run, ih]

/-- the initialisation makes two arbitrary instance states that agree on `C` agree on every observable field. -/
theorem assigns_establish (C : F → Prop) (as : List (Asg F V)) (hw : WellScoped C as) (a b : Store F V) (h : AgreeOn C a b) :
    AgreeOn (Obs C as) ((assigns as).run a).1 ((assigns as).run b).1 := by
  induction as generalizing C a b with
  | nil => intro f hf; simp [Obs] at hf; simpa [assigns, run] using h f hf
  | cons x as ih =>
    obtain ⟨f, rs, e⟩ := x
    obtain ⟨hr, hrest⟩ := hw
    -- after the first assignment the stores agree on `C ∪ {f}`
    have h1 : AgreeOn (fun g => C g ∨ g = f) ((Stmt.assign f rs e).run a).1 ((Stmt.assign f rs e).run b).1 := by
      intro g hg
      rcases hg with hg | rfl
      · exact (noninterference (.assign f rs e) C (by simpa [reads] using hr) a b h).1 g hg
      · exact assign_establishes g rs e C hr a b h
    have h2 := ih (fun g => C g ∨ g = f) hrest _ _ h1
    intro g hg
    have hg' : Obs (fun g => C g ∨ g = f) as g := by
      simp only [Obs, List.map_cons, List.mem_cons] at hg ⊢
      rcases hg with hg | hg | hg
      · exact Or.inl (Or.inl hg)
      · exact Or.inl (Or.inr hg)
      · exact Or.inr hg
    simpa [assigns, run] using h2 g hg'

/-- `k` cycles -/
def cycles (step : Stmt F V) (k : Nat) : Stmt F V := .repeat k step

/-- one whole run up to cycle `k`: initialise, then `k` steps -/
def runTo (init : List (Asg F V)) (step : Stmt F V) (k : Nat) : Stmt F V := .seq (assigns init) (cycles step k)

/-- **C08**: a used instance and a fresh one (any two states agreeing on `C`) are indistinguishable to the run — after the
initialisation and after every number of cycles they agree on every observable field, and they raise at the same point. -/
theorem fresh_equiv (C : F → Prop) (init : List (Asg F V)) (step : Stmt F V)
    (hinit : WellScoped C init) (hstep : ∀ f ∈ step.reads, Obs C init f)
    (used fresh : Store F V) (h : AgreeOn C used fresh) (k : Nat) :
    AgreeOn (Obs C init) ((runTo init step k).run used).1 ((runTo init step k).run fresh).1 ∧
      ((runTo init step k).run used).2 = ((runTo init step k).run fresh).2 := by
  have h0 := assigns_establish C init hinit used fresh h
  have hn := noninterference (cycles step k) (Obs C init) (by simpa [cycles, reads] using hstep) _ _ h0
  simp only [runTo, run, assigns_no_raise]
  simpa using hn

/-- the form in which the table obligation `T08` feeds the theorem: `readsList` over-approximates the step's reads and every field of it
is in `C` (configuration, task, constructor constants) or (re)assigned by the initialisation — exactly `Tables.noLeak`. -/
theorem fresh_equiv_of_sets (C : F → Prop) (init : List (Asg F V)) (step : Stmt F V) (readsList : List F)
    (hinit : WellScoped C init) (hdecl : ∀ f ∈ step.reads, f ∈ readsList)
    (hsub : ∀ f ∈ readsList, C f ∨ f ∈ init.map (·.1))
    (used fresh : Store F V) (h : AgreeOn C used fresh) (k : Nat) :
    AgreeOn (Obs C init) ((runTo init step k).run used).1 ((runTo init step k).run fresh).1 ∧
      ((runTo init step k).run used).2 = ((runTo init step k).run fresh).2 :=
  fresh_equiv C init step hinit (fun f hf => hsub f (hdecl f hf)) used fresh h k

/-- the negation on the pinned tree, kept visible: when the cycle counter is *not* re-initialised per run (it was only set in
`__init__`), a used and a fresh instance differ on an observable field — the model of the defect repaired by the `fix:` commit
that resets `_current_cycle/_errors/_error_diffs` in the prologue. -/
theorem pinned_tree_counter_leaks :
    let step : Stmt Nat Nat := .assign 0 [0] (fun vs => vs.headD 0 + 1)       -- `self._current_cycle += 1`
    let used : Store Nat Nat := ⟨fun _ => 7⟩                                    -- left at cycle 7 by an earlier run
    let fresh : Store Nat Nat := ⟨fun _ => 1⟩
    ((runTo [] step 1).run used).1.get 0 ≠ ((runTo [] step 1).run fresh).1.get 0 := by
  simp [runTo, assigns, cycles, run, Store.set]

/-! ## non-vacuity: a class with a private adaptive field that is re-initialised per run -/
example :
    let init : List (Asg Nat Nat) := [(2, [0], fun vs => vs.headD 0), (3, [2, 1], fun vs => vs.sum)]
    WellScoped (fun g => g = 0 ∨ g = 1) init := by
  refine ⟨by simp, ?_, trivial⟩
  intro r hr; simp at hr; rcases hr with rfl | rfl <;> simp

end C08
