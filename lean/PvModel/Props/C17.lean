import PvModel.Lemmas.PopExpLemmas
import PvModel.Lemmas.CountLemmas
import PvModel.Props.C03
import PvModel.Props.C10
/-!
# C17 — elitist optimizers never lose their best

"For every optimizer whose replacement scheme is purely greedy or elitist (an agent is only ever replaced by a candidate that is
not worse, or the merged population is sorted and trimmed), the best cost of generation k+1 is never worse than the best cost of
generation k, for minimisation and maximisation tasks alike; hence `best_solution` is the best solution ever recorded."
(for all optimizers classified as structurally elitist from their source.)

* per combinator, for every challenger / new population (NaN-free costs): the best internal cost never increases —
  `greedy_cost_le_both`, `mapGreedy_best_le`, `greedyPopulation_best_le`, `extendTrim_best_le`, `sortTrim_best_le`, `sortBy_best_eq`;
* closure under sequencing, loops and branches: `monotone_sound` — a step all of whose writes are greedy / elitist never increases the
  best internal cost, for every interpretation of its function symbols;
* the optimise loop: `c17_optimize` — the *reported* best cost of consecutive generations is never worse in the task's direction
  (for max tasks reported costs are the negated internal ones and negation reverses the order), and no agent of any recorded
  generation beats `best_solution`;
* the tie: `c17_skeleton`.  Which classes have a monotone skeleton is the regenerated table `Generated.steps` (`Props/T17`).

Hypothesis throughout: costs are numbers (`NoNaN`) — with a NaN cost "best" is not defined (every comparison is false).
The theorems are about agents as values: that no optimizer alters the cost of an agent in place is the table obligation `T01`.
-/

namespace C17

/-- the survivor of `_greedy_select_agent` is not costlier than either contender. -/
theorem greedy_cost_le_both (a b : Agent) (ha : a.cost.isNaN = false) (hb : b.cost.isNaN = false) :
    Num.le (greedyAgent a b).cost a.cost = true ∧ Num.le (greedyAgent a b).cost b.cost = true :=
  C16.greedyAgent_cost_le a b ha hb

/-- every challenger the environment supplies has a cost that is a number. -/
def EnvNoNaN (env : Env) : Prop :=
  (∀ k j pop i, ∀ c ∈ env.chain k j pop i, c.1.cost.isNaN = false) ∧ (∀ k j pop, NoNaN (env.news k j pop))

/-! ## per combinator -/

/-- `[greedy-chain(x) for x in pop]`: element-wise not costlier, hence the best cost does not increase. -/
theorem mapGreedy_best_le (env : Env) (k j : Nat) (pop : List Agent) (hp : NoNaN pop)
    (hc : ∀ i, ∀ c ∈ env.chain k j pop i, c.1.cost.isNaN = false) :
    let out := imap (fun i x => retag (chase x (env.chain k j pop i)) (env.extras k j i (chase x (env.chain k j pop i)))) 0 pop
    Num.le (bestCost out) (bestCost pop) = true ∧ NoNaN out ∧ out.length = pop.length := by
  intro out
  have hno : NoNaN out := by
    intro b hb
    obtain ⟨i, a, ha, rfl⟩ := mem_imap _ _ _ _ hb
    simpa using (chase_cost_le a _ (hp a ha) (hc i)).2
  refine ⟨bestCost_le_of_dominates _ _ hno hp ?_, hno, imap_length _ _ _⟩
  intro a ha
  obtain ⟨i, hi⟩ := mem_imap_of_mem
    (fun i x => retag (chase x (env.chain k j pop i)) (env.extras k j i (chase x (env.chain k j pop i)))) 0 pop a ha
  exact ⟨_, hi, by simpa using (chase_cost_le a _ (hp a ha) (hc i)).1⟩

theorem greedyPopulation_best_le (pop new out : List Agent) (h : greedyPopulation pop new = .ok out) (hp : NoNaN pop)
    (hn : NoNaN new) : Num.le (bestCost out) (bestCost pop) = true ∧ NoNaN out := by
  obtain ⟨hd, hno⟩ := greedyPopulation_dominates pop new out h hp hn
  exact ⟨bestCost_le_of_dominates _ _ hno hp hd, hno⟩

/-- `_extend_and_trim_population` keeps the cheapest of old ∪ new as long as at least one agent is kept. -/
theorem extendTrim_best_le (pop new : List Agent) (ps : Nat) (hps : 1 ≤ ps) (hp : NoNaN pop) (hn : NoNaN new) :
    Num.le (bestCost (extendTrim pop new ps)) (bestCost pop) = true ∧ NoNaN (extendTrim pop new ps) := by
  obtain ⟨hd, hno⟩ := extendTrim_dominates pop new ps hps hp hn
  exact ⟨bestCost_le_of_dominates _ _ hno hp hd, hno⟩

theorem sortTrim_best_le (pop : List Agent) (ps : Nat) (hps : 1 ≤ ps) (hp : NoNaN pop) :
    Num.le (bestCost (sortAndTrim pop ps)) (bestCost pop) = true ∧ NoNaN (sortAndTrim pop ps) := by
  obtain ⟨hd, hno⟩ := sortAndTrim_dominates pop ps hps hp
  exact ⟨bestCost_le_of_dominates _ _ hno hp hd, hno⟩

/-- sorting rearranges: the best cost is the same. -/
theorem sortBy_best_eq (d : Dir) (pop : List Agent) (hp : NoNaN pop) : bestCost (sortByCost d pop) = bestCost pop := by
  have hs : NoNaN (sortByCost d pop) := noNaN_of_perm (sortByCost_perm d pop) hp
  apply Num.le_antisymm
  · exact bestCost_le_of_dominates _ _ hs hp (fun a ha => ⟨a, mem_sortByCost.mpr ha, Num.le_refl_of_not_nan _ (hp a ha)⟩)
  · exact bestCost_le_of_dominates _ _ hp hs (fun a ha => ⟨a, mem_sortByCost.mp ha, Num.le_refl_of_not_nan _ (hs a ha)⟩)

/-! ## soundness of `monotone`, for every environment -/

theorem prim_best_le (env : Env) (henv : EnvNoNaN env) (ps k j : Nat) (hps : 1 ≤ ps) (p : Prim) (hp : p.monoOK = true)
    (pop out : List Agent) (hn : NoNaN pop) (h : p.eval env ps k j pop = .ok out) :
    Num.le (bestCost out) (bestCost pop) = true ∧ NoNaN out := by
  cases p <;> simp only [Prim.monoOK] at hp <;> simp only [Prim.eval] at h
  · cases h
    rw [sortBy_best_eq .min pop hn]
    exact ⟨Num.le_refl_of_not_nan _ (bestCost_notNaN pop hn), noNaN_of_perm (sortByCost_perm _ _) hn⟩
  · cases h; exact sortTrim_best_le pop ps hps hn
  · cases h
    have := mapGreedy_best_le env k j pop hn (fun i => henv.1 k j pop i)
    exact ⟨this.1, this.2.1⟩
  · cases hp
  · exact greedyPopulation_best_le pop _ out h hn (henv.2 k j pop)
  · cases h; exact extendTrim_best_le pop _ ps hps hn (henv.2 k j pop)
  · cases hp
  · cases hp
  · cases hp

theorem runSched_best_le (env : Env) (henv : EnvNoNaN env) (ps k : Nat) (hps : 1 ≤ ps) (prims : List Prim)
    (hall : prims.all Prim.monoOK = true) (sched : List Nat) (j : Nat) (pop out : List Agent) (hn : NoNaN pop)
    (h : runSched env ps k prims sched j pop = .ok out) :
    Num.le (bestCost out) (bestCost pop) = true ∧ NoNaN out := by
  induction sched generalizing j pop with
  | nil => simp [runSched] at h; subst h; exact ⟨Num.le_refl_of_not_nan _ (bestCost_notNaN pop hn), hn⟩
  | cons s rest ih =>
    simp only [runSched] at h
    split at h
    · exact ih _ _ hn h
    · rename_i p hp
      have hpOK : p.monoOK = true := List.all_eq_true.mp hall p (List.mem_of_getElem? hp)
      split at h
      · cases h
      · rename_i pop' hev
        obtain ⟨h1, hn'⟩ := prim_best_le env henv ps k j hps p hpOK pop pop' hn hev
        obtain ⟨h2, hn''⟩ := ih _ _ hn' h
        exact ⟨Num.le_trans _ _ _ h2 h1, hn''⟩

theorem popOp_best_le (env : Env) (henv : EnvNoNaN env) (ps k : Nat) (hps : 1 ≤ ps) (op : PopOp) (hop : op.monoOK = true)
    (pop out : List Agent) (hn : NoNaN pop) (h : op.eval env ps k pop = .ok out) :
    Num.le (bestCost out) (bestCost pop) = true ∧ NoNaN out := by
  cases op with
  | one p => exact prim_best_le env henv ps k 0 hps p hop pop out hn h
  | ctl prims => exact runSched_best_le env henv ps k hps prims hop _ 0 pop out hn h

/-- **soundness of the syntactic elitism predicate**: a step all of whose writes are greedy or elitist never increases the best
internal cost — for every interpretation of challengers, new populations, extras and control flow (with NaN-free costs and
`population_size ≥ 1`, which a run that records any generation has: `C10.c10_optimize`). -/
theorem monotone_sound (ops : List PopOp) (hm : monotone ops = true) (env : Env) (henv : EnvNoNaN env) (ps k : Nat) (hps : 1 ≤ ps)
    (pop out : List Agent) (hn : NoNaN pop) (h : evalAll env ps k ops pop = .ok out) :
    Num.le (bestCost out) (bestCost pop) = true ∧ NoNaN out := by
  induction ops generalizing k pop with
  | nil => simp [evalAll] at h; subst h; exact ⟨Num.le_refl_of_not_nan _ (bestCost_notNaN pop hn), hn⟩
  | cons op ops ih =>
    simp only [monotone, List.all_cons, Bool.and_eq_true] at hm
    simp only [evalAll] at h
    split at h
    · cases h
    · rename_i pop' hev
      obtain ⟨h1, hn'⟩ := popOp_best_le env henv ps k hps op hm.1 pop pop' hn hev
      obtain ⟨h2, hn''⟩ := ih hm.2 _ _ hn' h
      exact ⟨Num.le_trans _ _ _ h2 h1, hn''⟩

/-! ## the whole sorted cost vector: rank-wise domination

Stronger than "the best is kept": after a step made only of greedy / elitist writes, **every rank** of the sorted cost vector is not
above what it was (`monotone_rank_sound` + `rank_le_of_countDom`).  The harness's skeleton-conformance suite compares consecutive
recorded generations of every class with a monotone skeleton rank by rank; this is the theorem that makes that comparison a
consequence of the generated classification rather than a heuristic. -/

theorem prim_rank_le (env : Env) (henv : EnvNoNaN env) (ps k j : Nat) (p : Prim) (hp : p.monoOK = true)
    (pop out : List Agent) (hn : NoNaN pop) (hl : pop.length ≤ ps) (h : p.eval env ps k j pop = .ok out) :
    CountDom out pop ∧ NoNaN out ∧ out.length ≤ ps := by
  cases p <;> simp only [Prim.monoOK] at hp <;> simp only [Prim.eval] at h
  · cases h
    exact ⟨countDom_of_perm (sortByCost_perm _ _), noNaN_of_perm (sortByCost_perm _ _) hn, by rw [sortByCost_length]; exact hl⟩
  · cases h
    refine ⟨countDom_sortAndTrim pop pop ps hn hl (fun _ => Nat.le_refl _), ?_, ?_⟩
    · intro a ha; exact hn a (mem_sortByCost.mp (List.mem_of_mem_take ha))
    · simp [sortAndTrim, List.length_take]; omega
  · cases h
    have hm := mapGreedy_best_le env k j pop hn (fun i => henv.1 k j pop i)
    refine ⟨fun t => countLE_imap_le _ 0 pop (fun i a ha => ?_) t, hm.2.1, by rw [hm.2.2]; exact hl⟩
    simpa using (chase_cost_le a _ (hn a ha) (henv.1 k j pop i)).1
  · cases hp
  · obtain ⟨h1, h2⟩ := countDom_greedyPopulation pop _ out h hn (henv.2 k j pop)
    exact ⟨h1, (greedyPopulation_best_le pop _ out h hn (henv.2 k j pop)).2, by rw [h2]; exact hl⟩
  · cases h
    refine ⟨countDom_extendTrim pop _ ps hn (henv.2 k j pop) hl, noNaN_extendTrim pop _ ps hn (henv.2 k j pop), ?_⟩
    unfold extendTrim
    split
    · exact hl
    · simp [sortAndTrim, List.length_take]; omega
  · cases hp
  · cases hp
  · cases hp

theorem runSched_rank_le (env : Env) (henv : EnvNoNaN env) (ps k : Nat) (prims : List Prim)
    (hall : prims.all Prim.monoOK = true) (sched : List Nat) (j : Nat) (pop out : List Agent) (hn : NoNaN pop) (hl : pop.length ≤ ps)
    (h : runSched env ps k prims sched j pop = .ok out) :
    CountDom out pop ∧ NoNaN out ∧ out.length ≤ ps := by
  induction sched generalizing j pop with
  | nil => simp [runSched] at h; subst h; exact ⟨countDom_refl _, hn, hl⟩
  | cons s rest ih =>
    simp only [runSched] at h
    split at h
    · exact ih _ _ hn hl h
    · rename_i p hp
      have hpOK : p.monoOK = true := List.all_eq_true.mp hall p (List.mem_of_getElem? hp)
      split at h
      · cases h
      · rename_i pop' hev
        obtain ⟨h1, hn', hl'⟩ := prim_rank_le env henv ps k j p hpOK pop pop' hn hl hev
        obtain ⟨h2, hn'', hl''⟩ := ih _ _ hn' hl' h
        exact ⟨countDom_trans h2 h1, hn'', hl''⟩

theorem popOp_rank_le (env : Env) (henv : EnvNoNaN env) (ps k : Nat) (op : PopOp) (hop : op.monoOK = true)
    (pop out : List Agent) (hn : NoNaN pop) (hl : pop.length ≤ ps) (h : op.eval env ps k pop = .ok out) :
    CountDom out pop ∧ NoNaN out ∧ out.length ≤ ps := by
  cases op with
  | one p => exact prim_rank_le env henv ps k 0 p hop pop out hn hl h
  | ctl prims => exact runSched_rank_le env henv ps k prims hop _ 0 pop out hn hl h

/-- **rank-wise soundness of the syntactic elitism predicate**: a step all of whose writes are greedy or elitist, applied to at
most `population_size` agents, yields a population that has, for every threshold, at least as many agents not costlier than the
threshold — for every interpretation of challengers, new populations, extras and control flow. -/
theorem monotone_rank_sound (ops : List PopOp) (hm : monotone ops = true) (env : Env) (henv : EnvNoNaN env) (ps k : Nat)
    (pop out : List Agent) (hn : NoNaN pop) (hl : pop.length ≤ ps) (h : evalAll env ps k ops pop = .ok out) :
    CountDom out pop ∧ NoNaN out ∧ out.length ≤ ps := by
  induction ops generalizing k pop with
  | nil => simp [evalAll] at h; subst h; exact ⟨countDom_refl _, hn, hl⟩
  | cons op ops ih =>
    simp only [monotone, List.all_cons, Bool.and_eq_true] at hm
    simp only [evalAll] at h
    split at h
    · cases h
    · rename_i pop' hev
      obtain ⟨h1, hn', hl'⟩ := popOp_rank_le env henv ps k op hm.1 pop pop' hn hl hev
      obtain ⟨h2, hn'', hl''⟩ := ih hm.2 _ _ hn' hl' h
      exact ⟨countDom_trans h2 h1, hn'', hl''⟩

/-- … stated on ranks: the `i`-th cheapest agent after the step is not costlier than the `i`-th cheapest before it (a monotone
skeleton is size-preserving, so both vectors have `population_size` entries: `C10.size_sound`). -/
theorem monotone_ranks (ops : List PopOp) (hm : monotone ops = true) (env : Env) (henv : EnvNoNaN env) (ps k : Nat)
    (pop out : List Agent) (hn : NoNaN pop) (hl : pop.length ≤ ps) (h : evalAll env ps k ops pop = .ok out) (i : Nat)
    (hip : i < (sortByCost .min pop).length) (hiq : i < (sortByCost .min out).length) :
    Num.le ((sortByCost .min out)[i]).cost ((sortByCost .min pop)[i]).cost = true := by
  obtain ⟨h1, h2, _⟩ := monotone_rank_sound ops hm env henv ps k pop out hn hl h
  exact rank_le_of_countDom out pop h2 hn h1 i hip hiq

/-- every monotone skeleton is size-preserving (the primitives allowed by `monoOK` are among those allowed by `sizeOK`). -/
theorem monotone_sizePreserving (ops : List PopOp) (hm : monotone ops = true) : sizePreserving ops = true := by
  simp only [monotone, sizePreserving, List.all_eq_true] at *
  intro op hop
  have := hm op hop
  cases op with
  | one p => cases p <;> simp_all [PopOp.monoOK, PopOp.sizeOK, Prim.monoOK, Prim.sizeOK]
  | ctl ps =>
    simp only [PopOp.monoOK, PopOp.sizeOK, List.all_eq_true] at *
    intro p hp
    have := this p hp
    cases p <;> simp_all [Prim.monoOK, Prim.sizeOK]

/-! ## the optimise loop: reported costs, both directions -/

/-- the best cost of a recorded generation as the user sees it: lowest for a minimisation, highest for a maximisation. -/
def reportedBest (dir : Dir) (g : List Agent) : Num :=
  match dir with
  | .min => bestCost g
  | .max => maxCost g

/-- `later` is not worse than `earlier` in the task's direction. -/
def notWorse (dir : Dir) (earlier later : Num) : Bool :=
  match dir with
  | .min => Num.le later earlier
  | .max => Num.le earlier later

/-- on recorded generations "not worse in the task's direction" is "internal best cost not higher". -/
theorem notWorse_snapshot (dir : Dir) (p q : List Agent) :
    notWorse dir (reportedBest dir (snapshot dir p)) (reportedBest dir (snapshot dir q)) = Num.le (bestCost q) (bestCost p) := by
  cases dir
  · simp [notWorse, reportedBest, snapshot_min]
  · simp [notWorse, reportedBest, maxCost_snapshot_max, Num.le_neg_neg]

section
variable {R σ : Type} (ar : Arith R) (cfg : StopCfg R) (alg : Alg σ) (rate : List Agent → R) (dir : Dir)

/-- **C17 on the result of `optimize`**: if the step never increases the best internal cost (and costs are numbers), then
(1) the reported best cost of generation `k+1` is never worse than that of generation `k`, for min and max tasks alike, and
(2) no agent of any recorded generation is strictly better than `best_solution`: it is the best solution ever recorded. -/
theorem c17_optimize (Inv : σ → Prop)
    (hinit : ∀ s s', alg.init s = .ok s' → Inv s')
    (hstep : ∀ s s', Inv s → alg.step s = .ok s' → Inv s' ∧ Num.le (bestCost (alg.pop s')) (bestCost (alg.pop s)) = true)
    (hnan : ∀ s, Inv s → NoNaN (alg.pop s))
    (s0 : σ) (res : Result R) (sN : σ) (bN : Book R)
    (h : runBody ar cfg alg rate dir s0 = .ok (res, sN, bN)) :
    Chain (fun g g' => notWorse dir (reportedBest dir g) (reportedBest dir g') = true) res.evolution ∧
    (∀ g ∈ res.evolution, ∀ a ∈ g, better dir a.cost res.best.cost = false) := by
  -- (1) the chain
  have hchain := runBody_chain ar cfg alg rate dir Inv
    (fun g g' => notWorse dir (reportedBest dir g) (reportedBest dir g') = true) hinit
    (fun s s' hs hst => by
      obtain ⟨hi, hle⟩ := hstep s s' hs hst
      exact ⟨hi, by rw [notWorse_snapshot]; exact hle⟩) s0 res sN bN h
  refine ⟨hchain, ?_⟩
  -- every generation is the snapshot of a NaN-free population; the last one is that of the final state
  obtain ⟨hsN, hgen, b, hb, hbest⟩ := runBody_inv ar cfg alg rate dir Inv
    (fun g => ∃ p, NoNaN p ∧ g = snapshot dir p) hinit (fun s s' hs hst => (hstep s s' hs hst).1)
    (fun s hs => ⟨alg.pop s, hnan s hs, rfl⟩) s0 res sN bN h
  have hlast := runBody_last ar cfg alg rate dir s0 res sN bN h
  have hnN := hnan sN hsN
  -- every generation is related to the last one
  have hall := chain_to_last (fun g g' => notWorse dir (reportedBest dir g) (reportedBest dir g') = true)
    (fun a b c h1 h2 => by
      cases dir <;> simp only [notWorse] at *
      · exact Num.le_trans _ _ _ h2 h1
      · exact Num.le_trans _ _ _ h1 h2)
    res.evolution _ hchain hlast
    (by rw [notWorse_snapshot]; exact Num.le_refl_of_not_nan _ (bestCost_notNaN _ hnN))
  -- the final best is the cheapest agent of the final population
  have hneN : alg.pop sN ≠ [] := by
    intro e; rw [e] at hb; simp [bestAgent, bestAgents, sortByCost, isort] at hb
  obtain ⟨b', hb', hbmem, hbopt⟩ := C03.best_internal (alg.pop sN) hneN hnN
  have : b' = b := by rw [hb] at hb'; cases hb'; rfl
  subst this
  obtain ⟨m, hm, hmc⟩ := bestCost_attained (alg.pop sN) hneN hnN
  have hb_le : Num.le b'.cost (bestCost (alg.pop sN)) = true := by
    rw [← hmc]; exact Num.le_of_not_lt _ _ (hnN m hm) (hnN b' hbmem) (hbopt m hm)
  intro g hg
  obtain ⟨p, hp, rfl⟩ := hgen g hg
  have hrel := hall _ hg
  rw [notWorse_snapshot] at hrel
  rw [hbest]
  apply C03.refine_keeps_optimum dir p b'
  intro a ha
  apply Num.not_lt_of_le
  exact Num.le_trans _ _ _ hb_le (Num.le_trans _ _ _ hrel (bestCost_le p hp a ha))

/-- **C17 for a classified optimizer**: monotone skeleton (with NaN-free challengers), `population_size ≥ 1` initial NaN-free
agents ⇒ the conclusions of `c17_optimize`. -/
theorem c17_skeleton (ps : Nat) (hps : 1 ≤ ps) (ops : List PopOp) (hm : monotone ops = true)
    (hdesc : C10.Describes alg ps ops EnvNoNaN)
    (hinit : ∀ s s', alg.init s = .ok s' → NoNaN (alg.pop s'))
    (s0 : σ) (res : Result R) (sN : σ) (bN : Book R)
    (h : runBody ar cfg alg rate dir s0 = .ok (res, sN, bN)) :
    Chain (fun g g' => notWorse dir (reportedBest dir g) (reportedBest dir g') = true) res.evolution ∧
    (∀ g ∈ res.evolution, ∀ a ∈ g, better dir a.cost res.best.cost = false) :=
  c17_optimize ar cfg alg rate dir (fun s => NoNaN (alg.pop s)) hinit
    (fun s s' hn hs => by
      obtain ⟨env, henv, hev⟩ := hdesc s s' hs
      obtain ⟨h1, h2⟩ := monotone_sound ops hm env henv ps 0 hps _ _ hn hev
      exact ⟨h2, h1⟩)
    (fun _ hs => hs) s0 res sN bN h

/-- **C17, every rank, on the result of `optimize`** for a classified optimizer: consecutive recorded generations are snapshots of
populations `p`, `p'` of exactly `population_size` agents with `p'` rank-wise not costlier than `p`. -/
theorem c17_skeleton_ranks (ps : Nat) (ops : List PopOp) (hm : monotone ops = true)
    (hdesc : C10.Describes alg ps ops EnvNoNaN)
    (hinit : ∀ s s', alg.init s = .ok s' → NoNaN (alg.pop s') ∧ (alg.pop s').length = ps)
    (s0 : σ) (res : Result R) (sN : σ) (bN : Book R)
    (h : runBody ar cfg alg rate dir s0 = .ok (res, sN, bN)) :
    Chain (fun g g' => ∃ p p', g = snapshot dir p ∧ g' = snapshot dir p' ∧ p.length = ps ∧ p'.length = ps ∧ CountDom p' p ∧
      ∀ i (hi : i < (sortByCost .min p).length) (hi' : i < (sortByCost .min p').length),
        Num.le ((sortByCost .min p')[i]).cost ((sortByCost .min p)[i]).cost = true) res.evolution :=
  runBody_chain ar cfg alg rate dir (fun s => NoNaN (alg.pop s) ∧ (alg.pop s).length = ps) _ hinit
    (fun s s' hs hst => by
      obtain ⟨env, henv, hev⟩ := hdesc s s' hst
      obtain ⟨h1, h2, _⟩ := monotone_rank_sound ops hm env henv ps 0 _ _ hs.1 (Nat.le_of_eq hs.2) hev
      have hlen := C10.size_sound ops (monotone_sizePreserving ops hm) env ps 0 _ _ hs.2 hev
      exact ⟨⟨h2, hlen⟩, _, _, rfl, rfl, hs.2, hlen, h1, fun i hi hi' => rank_le_of_countDom _ _ h2 hs.1 h1 i hi hi'⟩)
    s0 res sN bN h

end

/-! ## non-vacuity -/
private def ag (c : Int) (t : Nat) : Agent := { position := [], cost := .fin c, fitness := .fin 0, tag := t }

private def env0 : Env where
  chain := fun _ _ _ i => [(ag 1 (100 + i), false), (ag 3 (150 + i), true)]
  fresh := fun _ _ _ i => ag 7 (200 + i)
  news := fun _ _ _ => [ag 4 300, ag (-2) 301]
  idx := fun _ _ _ => 1
  extras := fun _ _ _ a => a.tag + 1
  sched := fun _ => [0, 1, 1]
  any := fun _ _ _ => []

example : EnvNoNaN env0 := by
  constructor
  · intro k j pop i c hc; simp [env0] at hc; rcases hc with rfl | rfl <;> rfl
  · intro k j pop a ha; simp [env0] at ha; rcases ha with rfl | rfl <;> rfl

private def skel : List PopOp := [.one .mapGreedy, .ctl [.extendTrim, .sortBy], .one .greedyPop]

example : monotone skel = true := by decide
example : monotone [.one .mapGreedy, .one .mapFresh] = false := by decide
example : monotone [.ctl [.mapGreedy, .setAt]] = false := by decide
example : monotone [.one .replaceTrim] = false := by decide
/-- 5,0,2 → (greedy) 1,0,1 → (extend with 4,-2 and trim to 3) -2,0,1 → … → best −2 ≤ 0 -/
example : (evalAll env0 3 0 [.one .mapGreedy, .ctl [.extendTrim, .sortBy]] [ag 5 0, ag 0 1, ag 2 2]).map bestCost = .ok (.fin (-2)) := by
  decide +kernel
/-- every rank: 5,0,2 (sorted 0,2,5) → -2,0,1: not above at any rank -/
example : (evalAll env0 3 0 [.one .mapGreedy, .ctl [.extendTrim, .sortBy]] [ag 5 0, ag 0 1, ag 2 2]).map (fun l => (sortByCost .min l).map (·.cost))
    = .ok [.fin (-2), .fin 0, .fin 1] := by decide +kernel
/-- `setAt` keeps the best when it hits another index, yet loses a rank: it is not `monoOK`. -/
example : Prim.monoOK .setAt = false := rfl
/-- `mapFresh` really can lose the best: 0 → 7. -/
example : (evalAll env0 3 0 [.one .mapFresh] [ag 5 0, ag 0 1, ag 2 2]).map bestCost = .ok (.fin 7) := by decide +kernel
/-- a challenger passed first wins ties and the chain still never gets costlier. -/
example : (chase (ag 3 0) [(ag 3 1, true), (ag 5 2, false)]).tag = 1 := by decide +kernel
/-- max task: recorded costs are negated, the reported best is the highest. -/
example : reportedBest .max (snapshot .max [ag 5 0, ag (-1) 1]) = .fin 1 := by decide +kernel
example : notWorse .max (.fin 1) (.fin 2) = true ∧ notWorse .min (.fin 1) (.fin 2) = false := by decide +kernel

end C17
