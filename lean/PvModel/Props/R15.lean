import PvModel.Generated.Src
import PvModel.Lemmas.PyLemmas
import PvModel.Utils
import PvModel.Props.R16
/-!
# R15 — refinement: the trend utilities of `utils.py` *as the source reads now* are the model's `agentTrend` / `agentPosition`
(for the non-negative ranks and generation indices the property quantifies over; `iters=None` = every generation).
-/

namespace R15
open Py

theorem ranked_step (d : Dir) (evo : List (List Agent)) (idx i : Nat) (f : Agent → β) :
    (do return f (← Py.getItem (Src.sort_by_cost (← Py.getItem evo (i : Int)) d) (idx : Int)) : Except Err β)
      = (rankedAgent d evo idx i).map f := by
  simp only [getItem_nat, R16.sort_by_cost_eq, rankedAgent]
  cases evo[i]? with
  | none => rfl
  | some g =>
    simp only [bind, Except.bind]
    cases (sortByCost d g)[idx]? <;> rfl

theorem mapM_nat_cast (l : List Nat) (f : Int → Except Err β) :
    (l.map (fun (k : Nat) => (k : Int))).mapM f = l.mapM (fun (k : Nat) => f (k : Int)) := by
  induction l with
  | nil => rfl
  | cons a l ih => simp [List.mapM_cons, ih]

theorem agent_trend_eq (d : Dir) (evo : List (List Agent)) (idx : Nat) (iters : List Nat) :
    Src.agent_trend evo d (idx : Int) (some (iters.map (fun (k : Nat) => (k : Int)))) = agentTrend d evo idx iters := by
  unfold Src.agent_trend agentTrend
  simp only [mapM_nat_cast, bind_pure]
  congr 1
  funext i
  exact ranked_step d evo idx i (·.cost)

theorem agent_trend_all (d : Dir) (evo : List (List Agent)) (idx : Nat) :
    Src.agent_trend evo d (idx : Int) none = agentTrend d evo idx (allIters evo) := by
  rw [← agent_trend_eq]
  unfold Src.agent_trend allIters
  simp only [len_eq, range_zero_nat]

theorem agent_position_eq (d : Dir) (evo : List (List Agent)) (idx : Nat) (iters : List Nat) :
    Src.agent_position evo d (idx : Int) (some (iters.map (fun (k : Nat) => (k : Int)))) = agentPosition d evo idx iters := by
  unfold Src.agent_position agentPosition
  simp only [mapM_nat_cast, bind_pure]
  congr 1
  funext i
  exact ranked_step d evo idx i (·.position)

theorem agent_position_all (d : Dir) (evo : List (List Agent)) (idx : Nat) :
    Src.agent_position evo d (idx : Int) none = agentPosition d evo idx (allIters evo) := by
  rw [← agent_position_eq]
  unfold Src.agent_position allIters
  simp only [len_eq, range_zero_nat]

/-- `best_agent_trend(result)` is rank 0 of every generation -/
theorem best_agent_trend_eq (d : Dir) (evo : List (List Agent)) :
    Src.best_agent_trend evo d none = bestAgentTrend d evo := by
  unfold Src.best_agent_trend bestAgentTrend
  have := agent_trend_all d evo 0
  simp only [Int.natCast_zero] at this
  simp only [this, bind_pure]

theorem best_agent_position_eq (d : Dir) (evo : List (List Agent)) (iters : List Nat) :
    Src.best_agent_position evo d (some (iters.map (fun (k : Nat) => (k : Int)))) = agentPosition d evo 0 iters := by
  unfold Src.best_agent_position
  have := agent_position_eq d evo 0 iters
  simp only [Int.natCast_zero] at this
  simp only [this, bind_pure]

end R15
