import PvModel.Props.Tables
/-! Table obligation (regenerated facts, decided by kernel evaluation over the whole table): no optimizer outside the two named ones reads Agent.fitness or the task direction. -/
namespace T12
open Generated Tables
theorem table_direction_blind : ∀ a ∈ algos, a.id ∈ directionExempt ∨ directionBlind a = true := by decide
end T12
