import PvModel.Props.Tables
/-! Table obligation (regenerated facts, decided by kernel evaluation over the whole table): the agent discipline behind C01, C02, C05, C15 — every class outside the recorded finding. -/
namespace T01
open Generated Tables
theorem table_agent_discipline : ∀ a ∈ algos, a.id ∈ disciplineExempt ∨ disciplined a = true := by decide
end T01
