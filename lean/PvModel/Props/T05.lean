import PvModel.Props.Tables
/-! Table obligation: the framework's call graph around the objective (C05) and the shape of `_init_agent` (C01/C02). -/
namespace T05
open Generated
/-- `objective_function` is referenced only by `Task.solve`, `solve` only by `_fcn`, `_fcn` only by `_init_agent`;
`solve` corrects then evaluates; `initial_solution` ends in `correct_solution`; `_init_agent` has the modelled shape. -/
theorem core_objective_call_graph :
    core.objectiveFunctionCallers = ["models.py:Task.solve"] ∧
    core.solveCallers = ["abstract.py:OptimizationAbstract._fcn"] ∧
    core.fcnCallers = ["abstract.py:OptimizationAbstract._init_agent"] ∧
    core.solveShape = true ∧ core.initialSolutionShape = true ∧ core.initAgentShape = true := by decide
end T05
