import PvModel.Props.C01
/-!
# C02 — reported cost and fitness are the true objective of the reported position
-/

namespace C02

theorem signOut_signIn_single (d : Dir) (x : Num) (w : List Num → List Num → Num) (c : Num)
    (h : weigh w none (signIn d (.single x)) = .ok c) : signOut d c = x := by
  cases d <;> simp [signIn, weigh] at h <;> subst h <;> simp [signOut, Num.neg_neg]

/-- **C02**, single objective: the reported cost of a valid agent is the objective function evaluated at its own position,
in the user's sign for min and max alike. -/
theorem c02_cost_single (T : TaskSem) (a : Agent) (hv : Valid T a) (hw : T.weights = none) (x : Num)
    (hF : T.F a.position = .single x) : (a.refine T.dir).cost = x := by
  have h := hv.cost
  rw [hF, hw] at h
  have := signOut_signIn_single T.dir x T.dot a.cost h
  cases hd : T.dir <;> simp [Agent.refine, hd, signOut] at * <;> exact this

/-- **C02**, weighted multi-objective: the reported cost is the dot product of the objectives at the position with the weights,
given that `np.dot` commutes with negating one argument (true in IEEE arithmetic: negation is exact and rounding symmetric). -/
theorem c02_cost_multi (T : TaskSem) (a : Agent) (hv : Valid T a) (w : List Num) (hw : T.weights = some w) (xs : List Num)
    (hF : T.F a.position = .multi xs)
    (hdot : ∀ ys ws, T.dot (ys.map Num.neg) ws = (T.dot ys ws).neg) :
    (a.refine T.dir).cost = T.dot xs w ∧ w.length = xs.length := by
  have h := hv.cost
  rw [hF, hw] at h
  cases hd : T.dir
  · rw [hd] at h
    simp only [signIn, weigh] at h
    split at h
    · rename_i hl; injection h with h; exact ⟨by simp [Agent.refine, ← h], hl⟩
    · cases h
  · rw [hd] at h
    simp only [signIn, weigh, List.length_map] at h
    split at h
    · rename_i hl; injection h with h; exact ⟨by simp [Agent.refine, ← h, hdot, Num.neg_neg], hl⟩
    · cases h

/-- **C02**, fitness: the reported fitness is the documented function of the reported cost. -/
theorem c02_fitness (T : TaskSem) (a : Agent) (hv : Valid T a) : (a.refine T.dir).fitness = T.fit (a.refine T.dir).cost := by
  have := hv.fit
  cases hd : T.dir <;> simp [Agent.refine, hd, signOut] at * <;> exact this

/-- **C02** on a whole run: every agent of every generation, and `best_solution`, is the user-sign view of a valid agent —
so `c02_cost_single` / `c02_cost_multi` / `c02_fitness` apply to each of them. -/
theorem c02_optimize {R σ : Type} (T : TaskSem) (hT : T.WF) (A : DAlg σ) (hA : A.RawsOK T)
    (ar : Arith R) (cfg : StopCfg R) (rate : List Agent → R)
    (s0 : RunState σ) (res : Result R) (sN : RunState σ) (bN : Book R)
    (h : runBody ar cfg (A.toAlg T) rate T.dir s0 = .ok (res, sN, bN)) :
    (∀ g ∈ res.evolution, ∀ r ∈ g, ∃ a, Valid T a ∧ r = a.refine T.dir) ∧ (∃ a, Valid T a ∧ res.best = a.refine T.dir) :=
  let ⟨h1, h2, _⟩ := C01.run_valid T hT A hA ar cfg rate s0 res sN bN h
  ⟨h1, h2⟩

/-- decoding: `transform_solution` of a reported position decodes exactly the argument the objective received, because a
member of the search space is a fixed point of `correct_solution`. -/
theorem c02_decode_agrees (T : TaskSem) (a : Agent) (hv : Valid T a) :
    T.decl.correctSolution (a.position.map Coord.toRaw) = .ok a.position :=
  correctList_fix _ _ hv.pos

/-- a weight/objective count mismatch is rejected by the first `_init_agent`, before any agent exists. -/
theorem weights_mismatch_rejected (dot : List Num → List Num → Num) (w xs : List Num) (h : w.length ≠ xs.length) (d : Dir) :
    weigh dot (some w) (signIn d (.multi xs)) = .error .valueError := by
  cases d <;> simp [signIn, weigh, h]

end C02
