import PvModel.Generated.Src
import PvModel.Lemmas.PyLemmas
import PvModel.Lemmas.SelectLemmas
/-!
# R16 — refinement: the selection helpers of `helpers.py` *as the source reads now* are the model's `Select`

`Generated/Src.lean` is rewritten from `/repo`'s working tree on every run by `tools/py2lean.py` (Python `ast` → Lean `do`
blocks over `PvModel/Py.lean`).  Each theorem below states that the hand-written model function — the one the property
theorems C03 / C16 / C17 / C10 are about — is equal to the translated source on every population, every direction and every
count `n : Nat` (for the `worst_*` helpers: `n ≤ len`, the range the property quantifies over; beyond it Python's negative
slice index wraps around and the translated source says so, see `worst_agents_wraps`).

A change of `helpers.py` changes `Src.*` and breaks the corresponding equation, whatever the inputs needed to see the difference.
-/

namespace R16
open Py

theorem sort_by_cost_eq (pop : List Agent) (d : Dir) : Src.sort_by_cost pop d = sortByCost d pop := by
  unfold Src.sort_by_cost sortByCost Py.sortKey
  cases d <;> simp [Id.run] <;> rfl

theorem sort_by_cost_indexes_eq (pop : List Agent) (d : Dir) : Src.sort_by_cost_indexes pop d = sortByCostIndexes d pop := by
  unfold Src.sort_by_cost_indexes sortByCostIndexes Py.npArgsort
  cases d <;> simp [Id.run]

theorem sort_and_trim_eq (pop : List Agent) (n : Nat) : Src.sort_and_trim pop n = sortAndTrim pop n := by
  simp [Src.sort_and_trim, sortAndTrim, sort_by_cost_eq, Id.run]

theorem best_agents_eq (pop : List Agent) (n : Nat) (d : Dir) : Src.best_agents pop n d = bestAgents d pop n := by
  simp [Src.best_agents, bestAgents, sort_by_cost_eq, Id.run]

theorem worst_agents_eq (pop : List Agent) (n : Nat) (d : Dir) (h : n ≤ pop.length) :
    Src.worst_agents pop n d = worstAgents d pop n := by
  simp [Src.worst_agents, worstAgents, sort_by_cost_eq, Id.run, sliceFrom_sub _ _ _ h]

theorem best_agents_indexes_eq (pop : List Agent) (n : Nat) (d : Dir) :
    Src.best_agents_indexes pop n d = bestAgentsIndexes d pop n := by
  simp [Src.best_agents_indexes, bestAgentsIndexes, sort_by_cost_indexes_eq, Id.run]

theorem worst_agents_indexes_eq (pop : List Agent) (n : Nat) (d : Dir) (h : n ≤ pop.length) :
    Src.worst_agents_indexes pop n d = worstAgentsIndexes d pop n := by
  simp [Src.worst_agents_indexes, worstAgentsIndexes, sort_by_cost_indexes_eq, Id.run, sliceFrom_sub _ _ _ h]

/-- outside the property's range the source wraps around: `worst_agents(pop, len+1)` is the sorted population minus its
*first* element, not the whole population (Python's `l[-1:]`); the model's `worstAgents` is only claimed for `n ≤ len`. -/
theorem worst_agents_wraps (a b : Agent) (d : Dir) :
    Src.worst_agents [a, b] 3 d = (sortByCost d [a, b]).drop 1 := by
  simp [Src.worst_agents, sort_by_cost_eq, Id.run, Py.sliceFrom]
  have : (sortByCost d [a, b]).length = 2 := by simp [sortByCost_length]
  simp [this]

theorem best_agent_eq (pop : List Agent) (d : Dir) : Src.best_agent pop d = bestAgent d pop := by
  have h : Src.best_agents pop 1 d = bestAgents d pop 1 := best_agents_eq pop 1 d
  unfold Src.best_agent bestAgent
  simp only [h, Py.unpack1]
  rcases bestAgents d pop 1 with _ | ⟨a, _ | ⟨b, l⟩⟩ <;> rfl

theorem worst_agent_eq (pop : List Agent) (d : Dir) (h : 1 ≤ pop.length) : Src.worst_agent pop d = worstAgent d pop := by
  have hw : Src.worst_agents pop 1 d = worstAgents d pop 1 := worst_agents_eq pop 1 d h
  unfold Src.worst_agent worstAgent
  simp only [hw, Py.unpack1]
  rcases worstAgents d pop 1 with _ | ⟨a, _ | ⟨b, l⟩⟩ <;> rfl

/-- on an empty population `worst_agent` raises `ValueError` like the model (`[][0-1:]` is `[]`) -/
theorem worst_agent_empty (d : Dir) : Src.worst_agent [] d = .error .valueError := by
  cases d <;> rfl

theorem best_agent_index_eq (pop : List Agent) (d : Dir) :
    Src.best_agent_index pop d = match (bestAgentsIndexes d pop 1)[0]? with | some i => .ok i | none => .error .indexError := by
  have h : Src.best_agents_indexes pop 1 d = bestAgentsIndexes d pop 1 := best_agents_indexes_eq pop 1 d
  unfold Src.best_agent_index
  simp only [h]
  have : Py.getItem (bestAgentsIndexes d pop 1) 0 = _ := getItem_nat (bestAgentsIndexes d pop 1) 0
  rw [this]
  cases (bestAgentsIndexes d pop 1)[0]? <;> rfl

theorem worst_agent_index_eq (pop : List Agent) (d : Dir) (h : 1 ≤ pop.length) :
    Src.worst_agent_index pop d = match (worstAgentsIndexes d pop 1)[0]? with | some i => .ok i | none => .error .indexError := by
  have hw : Src.worst_agents_indexes pop 1 d = worstAgentsIndexes d pop 1 := worst_agents_indexes_eq pop 1 d h
  unfold Src.worst_agent_index
  simp only [hw]
  have : Py.getItem (worstAgentsIndexes d pop 1) 0 = _ := getItem_nat (worstAgentsIndexes d pop 1) 0
  rw [this]
  cases (worstAgentsIndexes d pop 1)[0]? <;> rfl

theorem special_agents_eq (pop : List Agent) (nb nw : Option Nat) (d : Dir) (h : ∀ n, nw = some n → n ≤ pop.length) :
    Src.special_agents pop (nb.map (fun (n : Nat) => (n : Int))) (nw.map (fun (n : Nat) => (n : Int))) d = specialAgents d pop nb nw := by
  unfold Src.special_agents specialAgents
  rcases nb with _ | nb <;> rcases nw with _ | nw <;>
    simp [best_agents_eq, worst_agents_eq, h] <;> rfl

theorem greedy_select_agent_eq (a new : Agent) : Src.greedy_select_agent a new = greedyAgent a new := by
  simp [Src.greedy_select_agent, greedyAgent, Id.run]

end R16
