import PvModel.Labels
/-!
# C13 (labels) — the label encoder behind `PermutationVariable.decode`

`decode(v) = encoder.inverse_transform(correct(v))`.  With `correct(v)` a permutation of `0..n-1` (`C13.perm_correct_mem`) and the
encoder fitted on `n` distinct items, the decoded list is a rearrangement of the declared items, entry `k` being the label with
index `correct(v)[k]` — "consistently with the corrected index order".
-/

namespace C13L
variable {α : Type} [DecidableEq α]

theorem indexOf?_lt (x : α) (l : List α) (i : Nat) (h : indexOf? x l = some i) : i < l.length ∧ l[i]? = some x := by
  induction l generalizing i with
  | nil => simp [indexOf?] at h
  | cons a l ih =>
    simp only [indexOf?] at h
    split at h
    · rename_i hax; cases h; exact ⟨by simp, by simp [hax]⟩
    · cases hr : indexOf? x l with
      | none => simp [hr] at h
      | some j =>
        simp [hr] at h; subst h
        obtain ⟨h1, h2⟩ := ih j hr
        exact ⟨by simp; omega, by simpa using h2⟩

theorem indexOf?_getElem (l : List α) (hn : l.Nodup) (i : Nat) (hi : i < l.length) : indexOf? l[i] l = some i := by
  induction l generalizing i with
  | nil => simp at hi
  | cons a l ih =>
    have hn' := List.nodup_cons.mp hn
    cases i with
    | zero => simp [indexOf?]
    | succ i =>
      have hi' : i < l.length := by simpa using hi
      have hne : a ≠ l[i] := fun h => hn'.1 (h ▸ List.getElem_mem hi')
      simp [indexOf?, hne, ih hn'.2 i hi']

/-- `inverse_transform(transform(y)) = y` for labels the encoder was fitted on -/
theorem inverse_transform_transform (e : Encoder α) (y : List α) (is : List Nat) (h : e.transform y = some is) :
    e.inverseTransform is = y.map some := by
  induction y generalizing is with
  | nil => simp [Encoder.transform] at h; subst h; rfl
  | cons x y ih =>
    simp only [Encoder.transform, List.mapM_cons, bind, Option.bind] at h
    cases hx : indexOf? x e.labels with
    | none => simp [hx] at h
    | some i =>
      cases hy : y.mapM (fun x => indexOf? x e.labels) with
      | none => simp [hx, hy] at h
      | some js =>
        simp [hx, hy] at h; subst h
        simp [Encoder.inverseTransform, (indexOf?_lt x e.labels i hx).2]
        exact ih js hy

/-- `transform(inverse_transform(is)) = is` for valid indices of an encoder with distinct labels -/
theorem transform_inverse_transform (e : Encoder α) (hn : e.labels.Nodup) (is : List Nat) (h : ∀ i ∈ is, i < e.labels.length) :
    ∃ y : List α, e.inverseTransform is = y.map some ∧ e.transform y = some is := by
  induction is with
  | nil => exact ⟨[], rfl, rfl⟩
  | cons i is ih =>
    obtain ⟨y, h1, h2⟩ := ih (fun j hj => h j (List.mem_cons_of_mem _ hj))
    have hi := h i List.mem_cons_self
    refine ⟨e.labels[i] :: y, ?_, ?_⟩
    · simp [Encoder.inverseTransform, List.getElem?_eq_getElem hi] at h1 ⊢; exact h1
    · simp only [Encoder.transform, List.mapM_cons, bind, Option.bind, indexOf?_getElem e.labels hn i hi]
      simp only [Encoder.transform] at h2
      simp [h2]

theorem map_getElem?_valid (l : List α) (p : List Nat) (h : ∀ i ∈ p, i < l.length) :
    p.map (fun i => l[i]?) = (p.filterMap (fun i => l[i]?)).map some := by
  induction p with
  | nil => rfl
  | cons i p ih =>
    have hi := h i List.mem_cons_self
    simp [List.getElem?_eq_getElem hi]
    simpa using ih (fun j hj => h j (List.mem_cons_of_mem _ hj))

/-- decoding a permutation of the label indices yields a rearrangement of the labels: every label exactly once, never "unknown" -/
theorem decode_is_rearrangement (e : Encoder α) (p : List Nat) (hp : p.Perm (List.range e.labels.length)) :
    ∃ y : List α, e.inverseTransform p = y.map some ∧ y.Perm e.labels := by
  have hall : ∀ i ∈ p, i < e.labels.length := fun i hi => List.mem_range.mp (hp.mem_iff.mp hi)
  refine ⟨p.filterMap (fun i => e.labels[i]?), ?_, ?_⟩
  · simp only [Encoder.inverseTransform]
    exact map_getElem?_valid e.labels p hall
  · have h1 : (p.filterMap (fun i => e.labels[i]?)).Perm ((List.range e.labels.length).filterMap (fun i => e.labels[i]?)) := hp.filterMap _
    have h2 : (List.range e.labels.length).filterMap (fun i => e.labels[i]?) = e.labels := by
      generalize e.labels = l
      induction l with
      | nil => rfl
      | cons a l ih =>
        rw [List.length_cons, List.range_succ_eq_map, List.filterMap_cons_some (b := a) (by simp), List.filterMap_map]
        congr 1
    rw [h2] at h1
    exact h1

example : (⟨["a", "b", "c"]⟩ : Encoder String).inverseTransform [2, 0, 1] = [some "c", some "a", some "b"] := by decide
example : (⟨["a", "b", "c"]⟩ : Encoder String).transform ["c", "a"] = some [2, 0] := by decide
example : (⟨["a", "b"]⟩ : Encoder String).inverseTransform [5] = [none] := by decide

end C13L
