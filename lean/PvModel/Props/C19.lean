import PvModel.Grid
import PvModel.Lemmas.GridLemmas
import PvModel.Lemmas.TunerLemmas
/-!
# C19 — `HyperTuner` evaluates the whole grid and selects the best

`ParameterGrid` (all grids, all value types):
* `grid_iter_eq_flatMap_product` : `list(grid)` is the concatenation, sub-grid by sub-grid, of the Cartesian product of the
  key-sorted items (an empty dict contributes the one empty point);
  `sortItems_perm`, `sortItems_sorted`, `mem_cartesian`, `cartesian_keys`, `cartesian_nodup` : a point of a product carries exactly the sub-grid's keys, each with a
  value of that key's list; distinct values give distinct points.
* `grid_len_eq_iter_length`    : `len(grid) = len(list(grid))`.
* `grid_getitem_eq_iter_get`   : for every natural index, `grid[i]` is the `i`-th point of the iteration (built with the keys in
  reverse order, i.e. the same dict) and `IndexError` exactly when `i ≥ len(grid)`; `grid_getitem_indexError`.

`HyperTuner.execute` / `resolve` (all point lists, trial counts, run functions, directions, std columns):
* `execute_log`, `execute_table`, `execute_visits`, `execute_visits_exactly_once` : the optimizer is configured with a point,
  then run `n_trials` times under that configuration, point after point; row `i` of the table holds the costs of point `i`.
* `rank2_strictMono_asc/desc`, `rankAvg_strictMono` : pandas' average rank is strictly monotone in the ranking's direction;
  `rankDense_mono` : the dense ranks start at 1 and never decrease along the sorted tuples.
* `selectBest_optimal`         : the reported row has the lowest (min) / highest (max) mean of all rows — for every table,
  ties, any spread column, NaN spreads (`n_trials = 1`) included.
* `execute_selects_optimal`    : `best_parameters` is a grid point, `best_score` is its mean and is optimal.
* `resolve_uses_best`.
* `tuner_max_witness`          : the selection as written in the pinned tree returns the *worst* of two rows on a max task.
-/

namespace C19
open Grid

/-! ## ParameterGrid -/

/-- `sorted(p.items())` is a rearrangement of the dict's items. -/
theorem sortItems_perm (sg : SubGrid V) : (sortItems sg).Perm sg := isort_perm _ _

/-- … ordered by key: no later item has a strictly smaller key. -/
theorem sortItems_sorted (sg : SubGrid V) : (sortItems sg).Pairwise (fun a b => ¬ b.1 < a.1) := by
  have h := isort_pairwise (keyLe (α := List V))
    (by
      intro a b c h1 h2
      simp only [keyLe, Bool.not_eq_true', decide_eq_false_iff_not, String.not_lt] at *
      exact String.le_trans h1 h2)
    (by
      intro a b
      simp only [keyLe, Bool.or_eq_true, Bool.not_eq_true', decide_eq_false_iff_not, String.not_lt]
      exact String.le_total a.1 b.1) sg
  refine h.imp ?_
  intro a b hab
  simpa [keyLe] using hab

theorem subIter_eq_cartesian (sg : SubGrid V) : subIter sg = cartesian (sortItems sg) := by
  unfold subIter
  cases h : sortItems sg with
  | nil => simp [cartesian]
  | cons a l => simp

/-- iteration is the union (concatenation in grid order) of the Cartesian products of the sub-grids, keys sorted. -/
theorem grid_iter_eq_flatMap_product (g : PGrid V) : iter g = g.flatMap (fun sg => cartesian (sortItems sg)) := by
  unfold iter
  congr 1
  funext sg
  exact subIter_eq_cartesian sg

/-- `p` assigns to exactly the keys of `items`, in their order, one value out of each key's list. -/
def IsPointOf : Point V → List (String × List V) → Prop
  | [], [] => True
  | (k, v) :: p, (k', vs) :: items => k = k' ∧ v ∈ vs ∧ IsPointOf p items
  | [], _ :: _ => False
  | _ :: _, [] => False

/-- the points of a product are exactly the assignments of one listed value to every key. -/
theorem mem_cartesian (items : List (String × List V)) (p : Point V) : p ∈ cartesian items ↔ IsPointOf p items := by
  induction items generalizing p with
  | nil => cases p <;> simp [cartesian, IsPointOf]
  | cons it rest ih =>
    obtain ⟨k', vs⟩ := it
    simp only [cartesian, List.mem_flatMap, List.mem_map]
    constructor
    · rintro ⟨v, hv, q, hq, rfl⟩
      exact ⟨rfl, hv, (ih q).mp hq⟩
    · intro h
      cases p with
      | nil => simp [IsPointOf] at h
      | cons kv q =>
        obtain ⟨k, v⟩ := kv
        obtain ⟨rfl, hv, hq⟩ := h
        exact ⟨v, hv, q, (ih q).mpr hq, rfl⟩

theorem isPointOf_keys (p : Point V) (items : List (String × List V)) (h : IsPointOf p items) :
    p.map (·.1) = items.map (·.1) := by
  induction items generalizing p with
  | nil => cases p <;> simp_all [IsPointOf]
  | cons it rest ih =>
    cases p with
    | nil => simp [IsPointOf] at h
    | cons kv q =>
      obtain ⟨k, v⟩ := kv
      obtain ⟨k', vs⟩ := it
      obtain ⟨rfl, _, hq⟩ := h
      simp [ih q hq]

/-- every point of a sub-grid has exactly that sub-grid's keys (sorted). -/
theorem cartesian_keys (sg : SubGrid V) (p : Point V) (h : p ∈ subIter sg) : p.map (·.1) = (sortItems sg).map (·.1) := by
  rw [subIter_eq_cartesian] at h
  exact isPointOf_keys p _ ((mem_cartesian _ p).mp h)

/-- distinct values give distinct points: no point of a sub-grid is produced twice. -/
theorem cartesian_nodup (items : List (String × List V)) (h : ∀ it ∈ items, it.2.Nodup) : (cartesian items).Nodup := by
  induction items with
  | nil => simp [cartesian]
  | cons it rest ih =>
    obtain ⟨k, vs⟩ := it
    have hvs : vs.Nodup := h (k, vs) List.mem_cons_self
    have hrest := ih (fun it hit => h it (List.mem_cons_of_mem _ hit))
    simp only [cartesian]
    rw [List.nodup_iff_pairwise_ne, List.pairwise_flatMap]
    constructor
    · intro v _
      rw [List.pairwise_map]
      exact (List.nodup_iff_pairwise_ne.mp hrest).imp (fun hne heq => hne (List.cons.inj heq).2)
    · refine (List.nodup_iff_pairwise_ne.mp hvs).imp ?_
      intro v w hvw x hx y hy hxy
      simp only [List.mem_map] at hx hy
      obtain ⟨_, _, rfl⟩ := hx
      obtain ⟨_, _, rfl⟩ := hy
      have := (List.cons.inj hxy).1
      exact hvw (Prod.mk.inj this).2

/-- non-vacuity of `cartesian_nodup`: distinct values per key, 6 distinct points. -/
example : (∀ it ∈ [("a", [10, 20, 30]), ("b", [1, 2])], it.2.Nodup) ∧ (cartesian [("a", [10, 20, 30]), ("b", [1, 2])]).length = 6 := by
  decide

theorem subIter_length (sg : SubGrid V) : (subIter sg).length = subLen sg := by
  rw [subIter_eq_cartesian, cartesian_length, subLen_eq, sizeProd_perm (sortItems_perm sg)]

/-- `len(grid)` (a product over the unsorted values) is the number of points the iteration yields. -/
theorem grid_len_eq_iter_length (g : PGrid V) : len g = (iter g).length := by
  unfold len iter
  induction g with
  | nil => rfl
  | cons sg g ih => rw [List.map_cons, List.sum_cons, List.flatMap_cons, List.length_append, subIter_length, ih]

/-- `grid[i]` is the `i`-th point of the iteration — written into the dict in reverse key order — and raises `IndexError`
exactly beyond the end. -/
theorem grid_getitem_eq_iter_get (g : PGrid V) (hv : valid g = true) (i : Nat) :
    getitem g (i : Int) = match (iter g)[i]? with
      | some p => .ok p.reverse
      | none => .error .indexError := by
  induction g generalizing i with
  | nil => simp [getitem, iter]
  | cons sg g ih =>
    simp only [valid, List.all_cons, Bool.and_eq_true] at hv
    have ihg := ih (by unfold valid; exact hv.2)
    simp only [iter, List.flatMap_cons] at ihg ⊢
    rw [List.getElem?_append, subIter_length]
    unfold getitem
    cases sg with
    | nil =>
      simp only [List.isEmpty_nil, if_true, subLen]
      by_cases hi : i = 0
      · subst hi; simp [subIter, sortItems, isort]
      · have h0 : ¬ ((i : Int) = 0) := by omega
        have h1 : ¬ i < 1 := by omega
        simp only [h0, h1, if_false]
        have : (i : Int) - 1 = ((i - 1 : Nat) : Int) := by omega
        rw [this, ihg (i - 1)]
    | cons kv sg' =>
      simp only [List.isEmpty_cons, Bool.false_eq_true, if_false]
      have hperm : ((sortItems (kv :: sg')).reverse).Perm (kv :: sg') := (List.reverse_perm _).trans (sortItems_perm _)
      have htot : total (sortItems (kv :: sg')).reverse = ((subLen (kv :: sg') : Nat) : Int) := by
        rw [total_eq, subLen_eq, sizeProd_perm hperm]
      have hval : ((sortItems (kv :: sg')).reverse).all (fun kv => !kv.2.isEmpty) = true := by
        rw [List.all_eq_true] at *
        intro x hx
        exact hv.1 x (hperm.mem_iff.mp hx)
      rw [htot]
      by_cases hi : i < subLen (kv :: sg')
      · have hi' : (i : Int) < ((subLen (kv :: sg') : Nat) : Int) := by omega
        simp only [hi, hi', if_true]
        obtain ⟨p, hp, hd⟩ := decode_spec _ hval i
        rw [List.reverse_reverse, sizeProd_perm hperm, ← subLen_eq, Nat.mod_eq_of_lt hi] at hp
        rw [subIter_eq_cartesian, hp, hd]
      · have hi' : ¬ (i : Int) < ((subLen (kv :: sg') : Nat) : Int) := by omega
        simp only [hi, hi', if_false]
        have : (i : Int) - ((subLen (kv :: sg') : Nat) : Int) = ((i - subLen (kv :: sg') : Nat) : Int) := by omega
        rw [this, ihg]

/-- beyond the last point `__getitem__` raises `IndexError`. -/
theorem grid_getitem_indexError (g : PGrid V) (hv : valid g = true) (i : Nat) (hi : len g ≤ i) :
    getitem g (i : Int) = .error .indexError := by
  rw [grid_getitem_eq_iter_get g hv i, grid_len_eq_iter_length] at *
  rw [List.getElem?_eq_none hi]

/-- within range it returns a point. -/
theorem grid_getitem_in_range (g : PGrid V) (hv : valid g = true) (i : Nat) (hi : i < len g) :
    ∃ p, (iter g)[i]? = some p ∧ getitem g (i : Int) = .ok p.reverse := by
  rw [grid_len_eq_iter_length] at hi
  refine ⟨(iter g)[i], List.getElem?_eq_getElem hi, ?_⟩
  rw [grid_getitem_eq_iter_get g hv i, List.getElem?_eq_getElem hi]

/-- non-vacuity: a valid two-sub-grid grid with an empty dict in the middle; index 7 is the last point, 8 is out of range. -/
example : valid ([[("b", [1, 2]), ("a", [10, 20, 30])], [], [("c", [7])]] : PGrid Int) = true := by decide
example : getitem ([[("b", [1, 2]), ("a", [10, 20, 30])], [], [("c", [7])]] : PGrid Int) 3 = .ok [("b", 2), ("a", 20)] := by rfl
example : iter ([[("b", [1, 2]), ("a", [10, 20, 30])], [], [("c", [7])]] : PGrid Int)
    = [[("a", 10), ("b", 1)], [("a", 10), ("b", 2)], [("a", 20), ("b", 1)], [("a", 20), ("b", 2)], [("a", 30), ("b", 1)],
       [("a", 30), ("b", 2)], [], [("c", 7)]] := by decide
example : getitem ([[("b", [1, 2]), ("a", [10, 20, 30])], [], [("c", [7])]] : PGrid Int) 8 = .error .indexError := by rfl

/-- outside the property (indices are positions `0 ≤ i`): a negative index never raises; it is reduced modulo the size of the
FIRST non-empty sub-grid the loop meets, so with several sub-grids `grid[-1]` is not `list(grid)[-1]` (here `{"b": 3}`). -/
example : getitem ([[("a", [1, 2])], [("b", [3])]] : PGrid Int) (-1) = .ok [("a", 2)] := by rfl

/-! ## execute: visits -/

/-- the events of one grid point: configure, then `n` runs under that configuration. -/
def block (n : Nat) (p : P) : List (Event P) :=
  Event.setConfig p :: (List.range n).map (fun t => Event.optimize (some p) t)

theorem executeLoop_spec (run : Option P → Nat → Rat) (n : Nat) (points : List P) (s : TunerState P) :
    (executeLoop run n points s).log = s.log ++ points.flatMap (block n) ∧
    (executeLoop run n points s).table = s.table ++ points.map (fun p => (p, (List.range n).map (fun t => run (some p) t))) := by
  induction points generalizing s with
  | nil => simp [executeLoop]
  | cons p ps ih =>
    have := ih (executeStep run n s p)
    simp only [executeLoop, List.foldl_cons] at this ⊢
    rw [this.1, this.2]
    simp [executeStep, runTrials, block]

/-- the event log of `execute`: for each grid point in iteration order, `set_config_parameters(point)` followed by the
`n_trials` runs, each under exactly that configuration. -/
theorem execute_log (run : Option P → Nat → Rat) (n : Nat) (points : List P) :
    (executeLoop run n points {}).log = points.flatMap (block n) := by
  simpa using (executeLoop_spec run n points {}).1

/-- row `i` of `best_fit_results` belongs to grid point `i` and holds its `n_trials` costs, trial by trial. -/
theorem execute_table (run : Option P → Nat → Rat) (n : Nat) (points : List P) :
    (executeLoop run n points {}).table = points.map (fun p => (p, (List.range n).map (fun t => run (some p) t))) := by
  simpa using (executeLoop_spec run n points {}).2

/-- the optimizer runs of a log: (configuration in force, trial). -/
def visits (log : List (Event P)) : List (Option P × Nat) :=
  log.filterMap (fun e => match e with
    | .optimize c t => some (c, t)
    | .setConfig _ => none)

theorem visits_block (n : Nat) (p : P) : visits (block n p) = (List.range n).map (fun t => (some p, t)) := by
  simp [visits, block, List.filterMap_map, Function.comp_def]

/-- the runs `execute` performs are, in order, grid × trials, each under its own point's parameters. -/
theorem execute_visits (run : Option P → Nat → Rat) (n : Nat) (points : List P) :
    visits (executeLoop run n points {}).log = points.flatMap (fun p => (List.range n).map (fun t => (some p, t))) := by
  rw [execute_log]
  induction points with
  | nil => rfl
  | cons p ps ih =>
    simp only [List.flatMap_cons, visits, List.filterMap_append] at ih ⊢
    rw [ih]
    congr 1
    exact visits_block n p

/-- each (grid point, trial) pair is run exactly once, and nothing else is run (grid points pairwise distinct, which
`cartesian_nodup` gives for a single dict with distinct values). -/
theorem execute_visits_exactly_once (run : Option P → Nat → Rat) (n : Nat) (points : List P) (hnd : points.Nodup) :
    (visits (executeLoop run n points {}).log).Nodup ∧
    ∀ c t, (c, t) ∈ visits (executeLoop run n points {}).log ↔ ∃ p ∈ points, c = some p ∧ t < n := by
  rw [execute_visits]
  constructor
  · rw [List.nodup_iff_pairwise_ne, List.pairwise_flatMap]
    constructor
    · intro p _
      rw [List.pairwise_map]
      exact (List.nodup_iff_pairwise_ne.mp List.nodup_range).imp (fun hne heq => hne (Prod.mk.inj heq).2)
    · refine (List.nodup_iff_pairwise_ne.mp hnd).imp ?_
      intro p q hpq x hx y hy hxy
      simp only [List.mem_map] at hx hy
      obtain ⟨_, _, rfl⟩ := hx
      obtain ⟨_, _, rfl⟩ := hy
      exact hpq (Option.some.inj (Prod.mk.inj hxy).1)
  · intro c t
    simp only [List.mem_flatMap, List.mem_map, List.mem_range]
    constructor
    · rintro ⟨p, hp, t', ht', heq⟩
      obtain ⟨rfl, rfl⟩ := Prod.mk.inj heq
      exact ⟨p, hp, rfl, ht'⟩
    · rintro ⟨p, hp, rfl, ht⟩
      exact ⟨p, hp, t, ht, rfl⟩

example : (["p", "q"] : List String).Nodup := by decide

/-- non-vacuity: two points, two trials: configure-run-run, configure-run-run. -/
example : (executeLoop (fun _ _ => (0 : Rat)) 2 ["p", "q"] {}).log
    = [.setConfig "p", .optimize (some "p") 0, .optimize (some "p") 1, .setConfig "q", .optimize (some "q") 0, .optimize (some "q") 1] := by
  decide

/-! ## the ranking -/

/-- pandas' average rank, ascending, is strictly monotone (`rankAvg_strictMono`). -/
theorem rank2_strictMono_asc (xs : List Rat) (a b : Rat) (ha : a ∈ xs) (h : a < b) : rank2 true xs a < rank2 true xs b := by
  have h1 := countP_lt_add_eq_le xs a b h
  have h2 := countP_eq_pos xs a ha
  simp only [rank2, if_true]
  omega

/-- descending: the larger value gets the strictly smaller rank. -/
theorem rank2_strictMono_desc (xs : List Rat) (a b : Rat) (ha : a ∈ xs) (h : b < a) : rank2 false xs a < rank2 false xs b := by
  have h1 := countP_gt_add_eq_le xs a b h
  have h2 := countP_eq_pos xs a ha
  simp only [rank2, Bool.false_eq_true, if_false]
  omega

/-- non-vacuity: in `[1, 0, 0, 2]` the tied zeros share rank 1.5, 1 has rank 3, 2 has rank 4 (doubled: 3, 6, 8); descending: 3.5, 2, 1 (doubled 7, 4, 2). -/
example : [0, 1, 2].map (rank2 true [1, 0, 0, 2]) = [3, 6, 8] ∧ [0, 1, 2].map (rank2 false [1, 0, 0, 2]) = [7, 4, 2] := by
  decide +kernel

/-- `rankAvg_strictMono`: in the ranking's direction a strictly better value has a strictly smaller average rank. -/
theorem rankAvg_strictMono (dir : Dir) (xs : List Rat) (a b : Rat) (ha : a ∈ xs)
    (h : match dir with
      | .min => a < b
      | .max => b < a) : rank2 dir.ascending xs a < rank2 dir.ascending xs b := by
  cases dir with
  | min => exact rank2_strictMono_asc xs a b ha h
  | max => exact rank2_strictMono_desc xs a b ha h

/-- `rankDense_mono`: along the sorted values the dense ranks start at 1 and never decrease. -/
theorem rankDense_mono (ne : α → α → Bool) (xs : List α) :
    ((denseSorted ne xs).map (·.2)).Pairwise (· ≤ ·) ∧ ∀ q ∈ denseSorted ne xs, 1 ≤ q.2 := by
  have hscan : ∀ (ys : List α) (r : Nat) (p : α), ((denseScan ne r p ys).map (·.2)).Pairwise (· ≤ ·) := by
    intro ys
    induction ys with
    | nil => intro r p; simp [denseScan]
    | cons y ys ih =>
      intro r p
      simp only [denseScan, List.map_cons, List.pairwise_cons]
      refine ⟨?_, ih _ _⟩
      intro d hd
      obtain ⟨q, hq, rfl⟩ := List.mem_map.mp hd
      exact denseScan_ge ne _ _ _ q hq
  cases xs with
  | nil => simp [denseSorted]
  | cons x xs =>
    simp only [denseSorted, List.map_cons, List.pairwise_cons, List.mem_cons]
    refine ⟨⟨?_, hscan xs 1 x⟩, ?_⟩
    · intro d hd
      obtain ⟨q, hq, rfl⟩ := List.mem_map.mp hd
      exact denseScan_ge ne _ _ _ q hq
    · rintro q (rfl | hq)
      · exact Nat.le_refl _
      · exact denseScan_ge ne _ _ _ q hq

/-- `a` is at least as good a score as `b` in the task's direction: not higher for minimisation, not lower for maximisation. -/
def atLeastAsGood (dir : Dir) (a b : Rat) : Prop :=
  match dir with
  | .min => a ≤ b
  | .max => b ≤ a

/-- a member with the least average rank is optimal in the ranking's direction. -/
theorem rank2_min_optimal (dir : Dir) (xs : List Rat) (a : Rat) (_ha : a ∈ xs)
    (hmin : ∀ b ∈ xs, rank2 dir.ascending xs a ≤ rank2 dir.ascending xs b) :
    ∀ b ∈ xs, atLeastAsGood dir a b := by
  intro b hb
  cases dir with
  | min =>
    simp only [atLeastAsGood]
    by_cases hlt : b < a
    · have := rank2_strictMono_asc xs b a hb hlt
      have := hmin b hb
      simp only [Dir.ascending] at this
      omega
    · grind
  | max =>
    simp only [atLeastAsGood]
    by_cases hlt : a < b
    · have := rank2_strictMono_desc xs b a hb hlt
      have := hmin b hb
      simp only [Dir.ascending] at this
      omega
    · grind

/-- equal values get equal ranks, so the order of the rows' `rank_mean` is the order of their means (`rankDense_mono` is
the scan lemma `denseScan_ge`/`denseScan_eq` in `Lemmas/TunerLemmas`). -/
theorem tupNe_false_fst (a b : Nat × Key) (h : tupNe a.2 b.2 = false) : a.2.1 = b.2.1 := by
  unfold tupNe at h
  simp only [Bool.or_eq_false_iff, bne_eq_false_iff_eq] at h
  exact h.1

/-- the rows pandas gives the least dense rank (tuples ranked upwards) all carry the least `rank_mean` of the column,
whatever the `rank_std` entries are (NaN included); there is at least one. -/
theorem bestRows_spec (keys : List Key) (hne : keys ≠ []) :
    bestRows true keys ≠ [] ∧ ∀ i ∈ bestRows true keys, ∃ k, keys[i]? = some k ∧ ∀ k' ∈ keys, k.1 ≤ k'.1 := by
  have hL : keys.zipIdx.map (fun p => (p.2, p.1)) ≠ [] := by
    cases keys with
    | nil => exact absurd rfl hne
    | cons k ks => simp [List.zipIdx_cons]
  have h1 : ∀ a b : Nat × Key, (!tupLt b.2 a.2) = true → a.2.1 ≤ b.2.1 := by
    intro a b h
    simp only [tupLt, Bool.not_eq_true', Bool.or_eq_false_iff, decide_eq_false_iff_not] at h
    omega
  have h2 : ∀ a b : Nat × Key, (!tupLt b.2 a.2) = false → b.2.1 ≤ a.2.1 := by
    intro a b h
    simp only [tupLt, Bool.not_eq_false', Bool.or_eq_true, decide_eq_true_eq, Bool.and_eq_true, beq_iff_eq] at h
    omega
  obtain ⟨h, t, e, hmin⟩ := isort_head_min (fun a b : Nat × Key => !tupLt b.2 a.2) (fun a => a.2.1) h1 h2 _ hL
  have hs : sortedKeys true keys = h :: t := by simp [sortedKeys, e]
  have hd : denseRanks true keys = (h.1, 1) :: (denseScan (fun a b : Nat × Key => tupNe a.2 b.2) 1 h t).map (fun p => (p.1.1, p.2)) := by
    simp [denseRanks, hs, denseSorted]
  have hmem : ∀ x ∈ h :: t, keys[x.1]? = some x.2 ∧ ∀ k' ∈ keys, h.2.1 ≤ k'.1 := by
    intro x hx
    have hx' : x ∈ keys.zipIdx.map (fun p => (p.2, p.1)) := by rw [← e] at hx; exact mem_isort.mp hx
    constructor
    · simp only [List.mem_map] at hx'
      obtain ⟨p, hp, rfl⟩ := hx'
      exact List.mem_zipIdx_iff_getElem?.mp hp
    · intro k' hk'
      obtain ⟨j, hj⟩ := List.mem_iff_getElem?.mp hk'
      have : (j, k') ∈ keys.zipIdx.map (fun p => (p.2, p.1)) := by
        simp only [List.mem_map]
        exact ⟨(k', j), List.mem_zipIdx_iff_getElem?.mpr hj, rfl⟩
      exact hmin (j, k') this
  have hmin1 : minNat ((denseRanks true keys).map (·.2)) = some 1 := by
    apply minNat_eq_of
    · simp [hd]
    · intro x hx
      simp only [hd, List.map_cons, List.map_map, List.mem_cons, List.mem_map] at hx
      rcases hx with rfl | ⟨q, hq, rfl⟩
      · exact Nat.le_refl _
      · exact denseScan_ge _ _ _ _ q hq
  have hb : bestRows true keys = ((denseRanks true keys).filter (fun p => p.2 == 1)).map (·.1) := by
    simp [bestRows, hmin1]
  constructor
  · rw [hb, hd]
    simp
  · intro i hi
    rw [hb, hd] at hi
    simp only [List.mem_map, List.mem_filter, List.mem_cons, beq_iff_eq] at hi
    obtain ⟨q, ⟨hq | ⟨p, hp, rfl⟩, hq1⟩, rfl⟩ := hi
    · subst hq
      obtain ⟨hk, hle⟩ := hmem h List.mem_cons_self
      exact ⟨h.2, hk, hle⟩
    · have hpt : p.1 ∈ t := by
        have : p.1 ∈ (denseScan (fun a b : Nat × Key => tupNe a.2 b.2) 1 h t).map (·.1) := List.mem_map.mpr ⟨p, hp, rfl⟩
        rwa [denseScan_fst] at this
      obtain ⟨hk, hle⟩ := hmem p.1 (List.mem_cons_of_mem _ hpt)
      have heq : p.1.2.1 = h.2.1 :=
        denseScan_eq (fun a b : Nat × Key => tupNe a.2 b.2) (fun a => a.2.1) tupNe_false_fst 1 h t p hp hq1
      exact ⟨p.1.2, hk, fun k' hk' => heq ▸ hle k' hk'⟩

theorem rankCol_some (asc : Bool) (means : List Rat) :
    rankCol asc (means.map some) = means.map (fun m => some (rank2 asc means m)) := by
  have : (means.map some).filterMap id = means := by
    induction means with
    | nil => rfl
    | cons m ms ih => simp [ih]
  simp [rankCol, this]

theorem keysOf_get (asc : Bool) (means : List Rat) (stds : List (Option Rat)) (hlen : stds.length = means.length)
    (i : Nat) : (keysOf asc means stds)[i]? = (means[i]?).map (fun m => (rank2 asc means m, ((rankCol asc stds)[i]?).join)) := by
  unfold keysOf
  rw [rankCol_some, List.getElem?_zipWith, List.getElem?_map]
  cases hm : means[i]? with
  | none => simp
  | some m =>
    have hi : i < means.length := by
      by_cases h : i < means.length
      · exact h
      · rw [List.getElem?_eq_none (by omega)] at hm; cases hm
    have hr : i < (rankCol asc stds).length := by simp [rankCol]; omega
    rw [List.getElem?_eq_getElem hr]
    simp

/-- **the selection is optimal.**  For every non-empty table of means and every column of observed standard deviations (NaN
allowed), the row `execute` reports exists and its mean is the lowest of all rows on a minimisation task, the highest on a
maximisation task. -/
theorem selectBest_optimal (dir : Dir) (means : List Rat) (stds : List (Option Rat)) (hne : means ≠ [])
    (hlen : stds.length = means.length) :
    ∃ i m, selectBest dir means stds = some i ∧ means[i]? = some m ∧
      ∀ m' ∈ means, atLeastAsGood dir m m' := by
  have hk : keysOf dir.ascending means stds ≠ [] := by
    cases means with
    | nil => exact absurd rfl hne
    | cons m ms =>
      intro h
      have := keysOf_get dir.ascending (m :: ms) stds hlen 0
      rw [h] at this
      simp at this
  obtain ⟨hnil, hall⟩ := bestRows_spec _ hk
  obtain ⟨i, hi⟩ := minNat_isSome _ hnil
  obtain ⟨k, hki, hkmin⟩ := hall i (minNat_spec _ _ hi).1
  rw [keysOf_get _ _ _ hlen] at hki
  cases hm : means[i]? with
  | none => rw [hm] at hki; cases hki
  | some m =>
    rw [hm] at hki
    simp only [Option.map_some, Option.some.injEq] at hki
    refine ⟨i, m, hi, hm, ?_⟩
    apply rank2_min_optimal dir means m (List.mem_of_getElem? hm)
    intro b hb
    obtain ⟨j, hj⟩ := List.mem_iff_getElem?.mp hb
    have hkj := keysOf_get dir.ascending means stds hlen j
    rw [hj] at hkj
    have := hkmin _ (List.mem_of_getElem? hkj)
    rw [← hki] at this
    exact this

/-- non-vacuity, ties and spreads: rows 1 and 2 tie on the best mean, the smaller spread wins; with NaN spreads (one trial)
a row of optimal mean is reported. -/
example : selectBest .min [1, 0, 0] [some 1, some 3, some 2] = some 2 := by decide +kernel
example : selectBest .max [1, 0, 1, 1/2] [none, none, none, none] = some 0 := by decide +kernel
example : selectBest .max [1, 3, 2] [some 1, some 3, some 2] = some 1 := by decide +kernel

/-- **negation on the pinned tree**: with `ascending=False` passed to all three `rank` calls and `.min()` taken afterwards, a
maximisation task with two grid points of mean 1 and 2 reports the row of mean 1 — the worst one. -/
theorem tuner_max_witness :
    selectBestPinned .max [1, 2] [some 0, some 0] = some 0 ∧ ¬ ((2 : Rat) ≤ 1) := by
  constructor
  · decide +kernel
  · decide +kernel

/-- and it is not an artefact of ties or NaN: the repaired selection reports the row of mean 2 on the same table. -/
theorem tuner_max_witness_repaired : selectBest .max [1, 2] [some 0, some 0] = some 1 := by decide +kernel

/-! ## execute and resolve -/

/-- **`execute` reports an optimal grid point.**  For every non-empty list of grid points, every run function, trial count,
direction and std column: `execute` succeeds, `best_parameters` is the grid point of some row `i`, `best_score` is the mean
of that point's `n_trials` costs, and no grid point has a better mean. -/
theorem execute_selects_optimal (run : Option P → Nat → Rat) (dir : Dir) (n : Nat) (points : List P)
    (stds : List (Option Rat)) (hne : points ≠ []) (hlen : stds.length = points.length) :
    ∃ (o : Outcome P) (i : Nat), execute run dir n points stds {} = .ok o ∧ points[i]? = some o.bestParams ∧
      o.bestScore = mean ((List.range n).map (fun t => run (some o.bestParams) t)) ∧
      ∀ p ∈ points, atLeastAsGood dir o.bestScore (mean ((List.range n).map (fun t => run (some p) t))) := by
  let row := fun p => (List.range n).map (fun t => run (some p) t)
  have htab := execute_table run n points
  have h1 : points.map (fun p => mean (row p)) ≠ [] := by simpa using hne
  have h2 : stds.length = (points.map (fun p => mean (row p))).length := by simpa using hlen
  obtain ⟨i, m, hsel, hmi, hopt⟩ := selectBest_optimal dir (points.map (fun p => mean (row p))) stds h1 h2
  rw [List.getElem?_map] at hmi
  cases hp : points[i]? with
  | none => rw [hp] at hmi; cases hmi
  | some p =>
    rw [hp] at hmi
    simp only [Option.map_some, Option.some.injEq] at hmi
    refine ⟨{ state := executeLoop run n points {}, bestParams := p, bestScore := mean (row p) }, i, ?_, hp, rfl, ?_⟩
    · unfold execute
      have hmeans2 : List.map (fun r : P × List Rat => mean r.snd)
          (List.map (fun p => (p, List.map (fun t => run (some p) t) (List.range n))) points)
          = points.map (fun p => mean (row p)) := by simp [row]
      simp only [htab, hmeans2, hsel, List.getElem?_map, hp, Option.map_some]
      rfl
    · intro q hq
      have := hopt (mean (row q)) (List.mem_map.mpr ⟨q, hq, rfl⟩)
      rw [← hmi] at this
      exact this

/-- `resolve()` configures the optimizer with `best_parameters` and then runs it under exactly that configuration. -/
theorem resolve_uses_best (o : Outcome P) :
    resolve o = [Event.setConfig o.bestParams, Event.optimize (some o.bestParams) 0] := rfl

/-- non-vacuity: a max task whose second point scores higher in both trials is selected with its mean as score. -/
example : (execute (fun c t => if c = some "q" then 3 + (t : Rat) else 1) .max 2 ["p", "q"] [some 0, some 1] {}).toOption.map
    (fun o => (o.bestParams, o.bestScore)) = some ("q", 7 / 2) := by decide +kernel

end C19
