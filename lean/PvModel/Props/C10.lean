import PvModel.Lemmas.PopExpLemmas
/-!
# C10 — population size is conserved

"Every recorded generation is non-empty and never larger than `population_size`; for every optimizer other than the three whose
population is variable by design (Bee Colony keeps half as employed bees, Forest and Imperialist Competitive may shrink) every
generation has exactly `population_size` agents, in every solver mode."

Three layers:

* the framework (`Loop.lean`), for **every** optimizer: a recorded generation is never empty (`c10_nonempty` — an empty population
  makes `optimize` raise at `(best,), (worst,) = special_agents(...)`), and whatever size discipline the step obeys is inherited
  by every recorded generation (`c10_optimize`, `c10_optimize_bounded`);
* the population algebra (`PopExp.lean`), for **every** interpretation of its function symbols: a step made only of size-preserving
  writes keeps exactly `population_size` agents (`size_sound`), with a length lemma per combinator;
* the tie (`c10_skeleton`): an optimizer whose step is described by a size-preserving skeleton records only generations of exactly
  `population_size` agents.  Which classes have such a skeleton is the regenerated table `Generated.steps`, decided in `Props/T10`.

Modes: the thread / process variants of `_generate_agents` and `_greedy_select_population` collect one result per submitted future
(`get_pool_results`), i.e. a permutation of the serial outcome — lengths are those of the serial model.
-/

namespace C10

/-! ## a length lemma per combinator -/

/-- `[f(x) for x in self._population]` — one element per element, whatever `f` is. -/
theorem map_length (g : Nat → Agent → Agent) (n : Nat) (pop : List Agent) : (imap g n pop).length = pop.length :=
  imap_length g n pop

/-- `sort_by_cost` is a rearrangement. -/
theorem sortBy_length (pop : List Agent) : (sortByCost .min pop).length = pop.length := sortByCost_length _ _

/-- `sort_and_trim(self._population, population_size)` on a full population. -/
theorem sortTrim_length (pop : List Agent) (ps : Nat) (h : pop.length = ps) : (sortAndTrim pop ps).length = ps := by
  rw [C16.sortAndTrim_length, h]; omega

/-- `_greedy_select_population`: when it returns (the new population is at least as long, otherwise `IndexError`:
`C16.greedyZip_ok_iff`) the result is as long as the old population. -/
theorem greedyPop_length (pop new out : List Agent) (h : greedyPopulation pop new = .ok out) : out.length = pop.length :=
  C16.greedyPopulation_length pop new out h

/-- `_extend_and_trim_population` on a full population: still full, whatever is appended (nothing, few, many). -/
theorem extendTrim_full (pop new : List Agent) (ps : Nat) (h : pop.length = ps) : (extendTrim pop new ps).length = ps := by
  by_cases hne : new = []
  · subst hne; simp [extendTrim, h]
  · rw [C16.extendTrim_length pop new ps hne, h]; omega

/-- `_extend_and_trim_population` in general: never above `max(len, population_size)`, never empty if it was not. -/
theorem extendTrim_bounds (pop new : List Agent) (ps : Nat) :
    (extendTrim pop new ps).length ≤ max pop.length ps ∧ (pop ≠ [] → 1 ≤ ps → extendTrim pop new ps ≠ []) := by
  by_cases hne : new = []
  · subst hne
    simp only [extendTrim, List.isEmpty_nil, if_true]
    exact ⟨by omega, fun h _ => h⟩
  · have hl := C16.extendTrim_length pop new ps hne
    refine ⟨by rw [hl]; omega, fun hp hps => ?_⟩
    intro e
    rw [e] at hl
    have : 1 ≤ pop.length := Nat.pos_of_ne_zero (fun h => hp (List.length_eq_zero_iff.mp h))
    simp at hl; omega

/-- `_replace_and_trim_population`: at most `population_size`, fewer when the replacement is short (why it is *not* size preserving). -/
theorem replaceTrim_le (new : List Agent) (ps : Nat) : (replaceTrim new ps).length ≤ ps := by
  rw [C16.replaceTrim_length]; omega

/-- `self._population[i] = a` -/
theorem setAt_length (pop : List Agent) (i : Nat) (a : Agent) : (pop.set i a).length = pop.length := List.length_set

/-! ## `_generate_group_population`: what the groups cover -/

/-- the `g` slices of `n` agents are, put end to end, the first `g * n` agents. -/
theorem slices_flatten (pop : List Agent) (n g : Nat) :
    ((List.range g).map (fun i => (pop.drop (i * n)).take n)).flatten = pop.take (g * n) := by
  induction g with
  | zero => simp
  | succ g ih =>
    rw [List.range_succ, List.map_append, List.flatten_append, ih]
    simp only [List.map_cons, List.map_nil, List.flatten_cons, List.flatten_nil, List.append_nil]
    rw [Nat.succ_mul, List.take_add]

/-- **with** the residual group and the usual `n_agents = population_size // n_groups`: the groups partition the population —
every agent in exactly one group, in order, none duplicated, none lost (Coyotes, Elephant Herd). -/
theorem group_with_residual (pop : List Agent) (ps g : Nat) (hlen : pop.length = ps) (hg : 0 < g) :
    ∃ gs, groupPopulation pop ps g (ps / g) true = some gs ∧ gs.flatten = pop := by
  have hg0 : g ≠ 0 := by omega
  have hdm : g * (ps / g) + ps % g = ps := Nat.div_add_mod ps g
  by_cases hr : ps % g = 0
  · refine ⟨(List.range g).map (fun i => (pop.drop (i * (ps / g))).take (ps / g)), by simp [groupPopulation, hg0, hr], ?_⟩
    rw [slices_flatten]
    have : g * (ps / g) = ps := by omega
    rw [this, ← hlen, List.take_length]
  · refine ⟨(List.range g).map (fun i => (pop.drop (i * (ps / g))).take (ps / g)) ++ [pop.drop (pop.length - ps % g)],
      by simp [groupPopulation, hg0, hr], ?_⟩
    rw [List.flatten_append, slices_flatten]
    simp only [List.flatten_cons, List.flatten_nil, List.append_nil]
    have : pop.length - ps % g = g * (ps / g) := by omega
    rw [this, List.take_append_drop]

/-- **without** the residual group: the groups are the first `n_groups * (population_size // n_groups)` agents — the last
`population_size % n_groups` agents are in no group (Brain Storm, Henry Gas Solubility). -/
theorem group_without_residual (pop : List Agent) (ps g : Nat) (hlen : pop.length = ps) :
    ∃ gs, groupPopulation pop ps g (ps / g) false = some gs ∧ gs.flatten = pop.take (g * (ps / g)) ∧
      gs.flatten.length = ps - ps % g := by
  refine ⟨(List.range g).map (fun i => (pop.drop (i * (ps / g))).take (ps / g)), by simp [groupPopulation],
    slices_flatten pop (ps / g) g, ?_⟩
  rw [slices_flatten, List.length_take, hlen]
  have hdm : g * (ps / g) + ps % g = ps := Nat.div_add_mod ps g
  omega

/-- hence a step that rebuilds the population from residual-less groups keeps `population_size` agents only when
`n_groups` divides `population_size` (the Henry Gas Solubility finding: 11 agents, 2 clusters ⇒ 10 from generation 1 on). -/
theorem group_without_residual_shrinks (pop : List Agent) (ps g : Nat) (hlen : pop.length = ps) (hg : 0 < g) (hr : ps % g ≠ 0) :
    ∃ gs, groupPopulation pop ps g (ps / g) false = some gs ∧ gs.flatten.length < ps := by
  obtain ⟨gs, h1, _, h3⟩ := group_without_residual pop ps g hlen
  refine ⟨gs, h1, ?_⟩
  have : ps % g < g := Nat.mod_lt _ hg
  have hdm : g * (ps / g) + ps % g = ps := Nat.div_add_mod ps g
  omega

/-! ## soundness of `sizePreserving`, for every environment -/

theorem prim_length (env : Env) (ps k j : Nat) (p : Prim) (hp : p.sizeOK = true) (pop out : List Agent)
    (hlen : pop.length = ps) (h : p.eval env ps k j pop = .ok out) : out.length = ps := by
  cases p <;> simp only [Prim.sizeOK] at hp <;> simp only [Prim.eval] at h
  · cases h; rw [sortBy_length, hlen]
  · cases h; exact sortTrim_length pop ps hlen
  · cases h; rw [imap_length, hlen]
  · cases h; rw [imap_length, hlen]
  · rw [greedyPop_length _ _ _ h, hlen]
  · cases h; exact extendTrim_full _ _ _ hlen
  · cases hp
  · split at h
    · cases h; rw [setAt_length, hlen]
    · cases h
  · cases hp

theorem runSched_length (env : Env) (ps k : Nat) (prims : List Prim) (hall : prims.all Prim.sizeOK = true)
    (sched : List Nat) (j : Nat) (pop out : List Agent) (hlen : pop.length = ps)
    (h : runSched env ps k prims sched j pop = .ok out) : out.length = ps := by
  induction sched generalizing j pop with
  | nil => simp [runSched] at h; subst h; exact hlen
  | cons s rest ih =>
    simp only [runSched] at h
    split at h
    · exact ih _ _ hlen h
    · rename_i p hp
      have hpOK : p.sizeOK = true := List.all_eq_true.mp hall p (List.mem_of_getElem? hp)
      split at h
      · cases h
      · rename_i pop' hev
        exact ih _ _ (prim_length env ps k j p hpOK pop pop' hlen hev) h

theorem popOp_length (env : Env) (ps k : Nat) (op : PopOp) (hop : op.sizeOK = true) (pop out : List Agent)
    (hlen : pop.length = ps) (h : op.eval env ps k pop = .ok out) : out.length = ps := by
  cases op with
  | one p => exact prim_length env ps k 0 p hop pop out hlen h
  | ctl prims => exact runSched_length env ps k prims hop _ 0 pop out hlen h

/-- **soundness of the syntactic size predicate**: a step all of whose writes are size preserving maps a population of
`population_size` agents to a population of `population_size` agents — for every interpretation of challengers, new populations,
indices, extras and control flow. -/
theorem size_sound (ops : List PopOp) (hsz : sizePreserving ops = true) (env : Env) (ps k : Nat) (pop out : List Agent)
    (hlen : pop.length = ps) (h : evalAll env ps k ops pop = .ok out) : out.length = ps := by
  induction ops generalizing k pop with
  | nil => simp [evalAll] at h; subst h; exact hlen
  | cons op ops ih =>
    simp only [sizePreserving, List.all_cons, Bool.and_eq_true] at hsz
    simp only [evalAll] at h
    split at h
    · cases h
    · rename_i pop' hev
      exact ih hsz.2 _ _ (popOp_length env ps k op hsz.1 pop pop' hlen hev) h

/-! ## the optimise loop -/

section
variable {R σ : Type} (ar : Arith R) (cfg : StopCfg R) (alg : Alg σ) (rate : List Agent → R) (dir : Dir)

/-- **every optimizer, every mode**: a generation that `optimize` records is never empty. -/
theorem c10_nonempty (s0 : σ) (res : Result R) (sN : σ) (bN : Book R)
    (h : runBody ar cfg alg rate dir s0 = .ok (res, sN, bN)) : ∀ g ∈ res.evolution, g ≠ [] :=
  runBody_nonempty ar cfg alg rate dir s0 res sN bN h

/-- **size-conserving optimizers**: initialisation yields `ps` agents (`_init_population` = `_generate_agents(population_size)`)
and the step keeps the length ⇒ every recorded generation has exactly `ps` agents, and `ps ≥ 1`. -/
theorem c10_optimize (ps : Nat)
    (hinit : ∀ s s', alg.init s = .ok s' → (alg.pop s').length = ps)
    (hstep : ∀ s s', (alg.pop s).length = ps → alg.step s = .ok s' → (alg.pop s').length = ps)
    (s0 : σ) (res : Result R) (sN : σ) (bN : Book R)
    (h : runBody ar cfg alg rate dir s0 = .ok (res, sN, bN)) :
    (∀ g ∈ res.evolution, g.length = ps) ∧ res.evolution ≠ [] ∧ 1 ≤ ps := by
  have h1 := (runBody_inv ar cfg alg rate dir (fun s => (alg.pop s).length = ps) (fun g => g.length = ps)
    hinit hstep (fun s hs => by rw [snapshot_length]; exact hs) s0 res sN bN h).2.1
  have h2 := runBody_last ar cfg alg rate dir s0 res sN bN h
  have hne : res.evolution ≠ [] := by intro e; rw [e] at h2; simp at h2
  refine ⟨h1, hne, ?_⟩
  have hmem := List.mem_of_getLast? h2
  have hl := h1 _ hmem
  have hn := c10_nonempty ar cfg alg rate dir s0 res sN bN h _ hmem
  rw [← hl]
  exact Nat.pos_of_ne_zero (fun e => hn (List.length_eq_zero_iff.mp e))

/-- **variable-size optimizers** (Bee Colony, Forest, Imperialist Competitive): a step that keeps the population within
`1 … ps` ⇒ every recorded generation is non-empty and has at most `ps` agents. -/
theorem c10_optimize_bounded (ps : Nat)
    (hinit : ∀ s s', alg.init s = .ok s' → (alg.pop s').length ≤ ps)
    (hstep : ∀ s s', (alg.pop s).length ≤ ps → alg.step s = .ok s' → (alg.pop s').length ≤ ps)
    (s0 : σ) (res : Result R) (sN : σ) (bN : Book R)
    (h : runBody ar cfg alg rate dir s0 = .ok (res, sN, bN)) :
    ∀ g ∈ res.evolution, g ≠ [] ∧ g.length ≤ ps := by
  have h1 := (runBody_inv ar cfg alg rate dir (fun s => (alg.pop s).length ≤ ps) (fun g => g.length ≤ ps)
    hinit hstep (fun s hs => by rw [snapshot_length]; exact hs) s0 res sN bN h).2.1
  exact fun g hg => ⟨c10_nonempty ar cfg alg rate dir s0 res sN bN h g hg, h1 g hg⟩

/-- the step of `alg` is an instance of the skeleton `ops`: whenever it returns, the new population is what the skeleton yields
under *some* interpretation (satisfying `good`) of its function symbols.  This is what `Generated.steps` claims about a class;
the claim itself is the translator's (checked by trace conformance), everything after it is proved. -/
def Describes (alg : Alg σ) (ps : Nat) (ops : List PopOp) (good : Env → Prop) : Prop :=
  ∀ s s', alg.step s = .ok s' → ∃ env, good env ∧ evalAll env ps 0 ops (alg.pop s) = .ok (alg.pop s')

/-- **C10 for a classified optimizer**: size-preserving skeleton + `population_size` initial agents ⇒ every generation has
exactly `population_size` agents. -/
theorem c10_skeleton (ps : Nat) (ops : List PopOp) (hsz : sizePreserving ops = true)
    (hdesc : Describes alg ps ops (fun _ => True))
    (hinit : ∀ s s', alg.init s = .ok s' → (alg.pop s').length = ps)
    (s0 : σ) (res : Result R) (sN : σ) (bN : Book R)
    (h : runBody ar cfg alg rate dir s0 = .ok (res, sN, bN)) :
    ∀ g ∈ res.evolution, g.length = ps :=
  (c10_optimize ar cfg alg rate dir ps hinit
    (fun s s' hl hs => by
      obtain ⟨env, _, hev⟩ := hdesc s s' hs
      exact size_sound ops hsz env ps 0 _ _ hl hev) s0 res sN bN h).1

end

/-! ## non-vacuity -/
private def ag (c : Int) (t : Nat) : Agent := { position := [], cost := .fin c, fitness := .fin 0, tag := t }

/-- an environment: every element meets one challenger of cost 1 (incumbent first), new populations have one agent of cost 0. -/
private def env0 : Env where
  chain := fun _ _ _ i => [(ag 1 (100 + i), false)]
  fresh := fun _ _ _ i => ag 7 (200 + i)
  news := fun _ _ _ => [ag 0 300]
  idx := fun _ _ _ => 1
  extras := fun _ _ _ a => a.tag
  sched := fun _ => [1, 0, 1]
  any := fun _ _ _ => []

private def skel : List PopOp := [.one .mapGreedy, .ctl [.setAt, .extendTrim], .one .sortBy]

example : sizePreserving skel = true := by decide
example : sizePreserving [.one .mapGreedy, .one .replaceTrim] = false := by decide
example : sizePreserving [.ctl [.mapFresh, .opaque]] = false := by decide
example : (evalAll env0 3 0 skel [ag 5 0, ag 0 1, ag 2 2]).map (·.map (·.cost)) = .ok [.fin 0, .fin 0, .fin 1] := by decide +kernel
example : (evalAll env0 3 0 skel [ag 5 0, ag 0 1, ag 2 2]).map List.length = .ok 3 := by decide +kernel
/-- `replaceTrim` really shrinks: the size predicate rejects it for a reason. -/
example : (evalAll env0 3 0 [.one .replaceTrim] [ag 5 0, ag 0 1, ag 2 2]).map List.length = .ok 1 := by decide +kernel
/-- a short new population makes `_greedy_select_population` raise, as in the code. -/
example : evalAll env0 3 0 [.one .greedyPop] [ag 5 0, ag 0 1, ag 2 2] = .error .indexError := by decide +kernel

/-- 5 agents in 2 groups of 2: with residual the fifth agent forms a third group, without it is in no group. -/
example : (groupPopulation [ag 0 0, ag 1 1, ag 2 2, ag 3 3, ag 4 4] 5 2 2 true).map (·.map (·.map (·.tag))) = some [[0, 1], [2, 3], [4]] := by
  decide +kernel
example : (groupPopulation [ag 0 0, ag 1 1, ag 2 2, ag 3 3, ag 4 4] 5 2 2 false).map (·.map (·.map (·.tag))) = some [[0, 1], [2, 3]] := by
  decide +kernel

end C10
