import PvModel.Generated.Src
import PvModel.Lemmas.PyLemmas
/-!
# R02 — refinement: agent construction (`Task.solve`, `Task.initial_solution`, `_fcn`, `_init_agent`) *as the source reads now*
is the model's `mkAgent` (the function C01 / C02 / C05 / C06 are about): correct the candidate, correct again inside `solve`,
evaluate, sign in (element-wise for a list), check the weight count, scalarise, fitness of the user-visible cost.
`calculate_fitness` and the random draw of `empty_solution()` are parameters.
-/

namespace R02
open Py

/-- `calculate_fitness(cost, minmax)` as the model sees it: the documented function of the user-visible cost -/
def fitOf (T : TaskSem) : Num → Dir → Num := fun c d => T.fit (signOut d c)

theorem fcn_eq (T : TaskSem) (position : List Coord) :
    Src.fcn T position = (T.decl.correctSolution (position.map Coord.toRaw)).map (fun arg => signIn T.dir (T.F arg)) := by
  unfold Src.fcn Src.task_solve
  cases T.decl.correctSolution (position.map Coord.toRaw) with
  | error e => rfl
  | ok arg =>
    simp only [except_ok_bind, Except.map]
    cases hd : T.dir <;> cases hv : T.F arg <;> simp [signIn] <;> rfl

theorem init_agent_eq (T : TaskSem) (empty raw : List Raw) :
    Src.init_agent empty (fitOf T) T (some raw) = (mkAgent T raw 0).map (fun r => r.1) := by
  unfold Src.init_agent Src.task_initial_solution mkAgent
  simp only [Bool.false_eq_true, ↓reduceIte, fcn_eq]
  cases T.decl.correctSolution raw with
  | error e => rfl
  | ok position =>
    simp only [except_ok_bind]
    cases T.decl.correctSolution (position.map Coord.toRaw) with
    | error e => rfl
    | ok arg =>
      simp only [Except.map, except_ok_bind]
      generalize signIn T.dir (T.F arg) = v
      rcases hw : T.weights with _ | w <;> rcases v with x | xs
      · -- no weights, scalar objective
        simp [weigh, asFloat, asFloatT, fitOf, bind, Except.bind, pure, Except.pure]
      · -- no weights, a list: exactly one element or ValueError
        rcases xs with _ | ⟨x, _ | ⟨x2, rest⟩⟩
        · simp [weigh, bind, Except.bind, throw, throwThe, MonadExceptOf.throw]
        · simp [weigh, unpack1, asFloat, asFloatT, fitOf, bind, Except.bind, pure, Except.pure]
        · have : ¬ ((1 : Int) = ((rest.length : Int) + 1 + 1)) := by omega
          simp [weigh, bind, Except.bind, throw, throwThe, MonadExceptOf.throw, this]
      · -- weights, scalar objective
        by_cases h : w.length = 1
        · simp [weigh, h, ObjVal.toList, asFloat, asFloatT, fitOf, bind, Except.bind, pure, Except.pure]
        · have : ¬ ((w.length : Int) = 1) := by omega
          simp [weigh, h, this, bind, Except.bind, throw, throwThe, MonadExceptOf.throw]
      · -- weights, a list of objectives
        by_cases h : w.length = xs.length
        · simp [weigh, h, ObjVal.toList, asFloat, asFloatT, fitOf, bind, Except.bind, pure, Except.pure]
        · have : ¬ ((w.length : Int) = (xs.length : Int)) := by omega
          simp [weigh, h, this, bind, Except.bind, throw, throwThe, MonadExceptOf.throw]


/-- without a candidate, `_init_agent()` builds the agent from the random draw of `empty_solution()` -/
theorem init_agent_random (T : TaskSem) (empty : List Raw) :
    Src.init_agent empty (fitOf T) T none = Src.init_agent empty (fitOf T) T (some empty) := by
  unfold Src.init_agent Src.task_initial_solution
  rfl

/-- `Task.solve(x)`: correct, then evaluate — the objective only ever sees a corrected solution -/
theorem task_solve_eq (T : TaskSem) (x : List Raw) : Src.task_solve T x = (T.decl.correctSolution x).map T.F := by
  unfold Src.task_solve
  cases T.decl.correctSolution x <;> rfl

/-- the documented fitness of a user-visible cost: `1 / (c + 1)` for `c ≥ 0`, `1 + |c|` otherwise (a NaN cost is not `≥ 0`: second branch); the rounding of
`+`, `/`, `abs` is a parameter -/
def fitFormula (fl : Py.FloatOps) (c : Num) : Num :=
  if Num.le (intNum 0) c then fl.div (intNum 1) (fl.add c (intNum 1)) else fl.add (intNum 1) (fl.abs c)

/-- **`calculate_fitness(cost, minmax)`** as the source reads now: the documented formula of the *user-visible* cost — the internal cost for a
minimisation task, its negation for a maximisation task -/
theorem calculate_fitness_eq (fl : Py.FloatOps) (c : Num) (d : Dir) : Src.calculate_fitness fl c d = .ok (fitFormula fl (signOut d c)) := by
  unfold Src.calculate_fitness fitFormula
  cases d <;> rfl

/-- hence, for a task whose fitness function is the documented formula, the `calculate_fitness` the model's `mkAgent` is stated with (`fitOf`) is the source's -/
theorem fitOf_is_source (T : TaskSem) (fl : Py.FloatOps) (h : T.fit = fitFormula fl) (c : Num) (d : Dir) :
    Src.calculate_fitness fl c d = .ok (fitOf T c d) := by
  rw [calculate_fitness_eq, fitOf, h]

end R02
