import PvModel.Pool
import PvModel.Props.C03
/-!
# C11 — thread and process modes change scheduling, not guarantees

* `poolResults_perm`           : whatever the completion order, every pooled evaluation contributes exactly one result — none lost, none duplicated.
* `generatePooled_perm`        : the pooled initial population is a permutation of the serial one (same draws, same agents), for every `σ`;
                                 in particular it has `n` agents, and pairwise distinct draws give pairwise distinct agents' sources.
* `greedyPooled_perm/_length`  : pooled greedy selection is a permutation of the serial outcome.
* the guarantees C01, C02, C03, C10 are theorems about *any* population order (`∀ pop`), so they hold for every `σ`;
  `c03_any_order` spells it out for the best agent.
* `process_fork_duplicates`    : the negation on the pinned tree — with draws made inside forked workers, two workers that each run one
                                 evaluation return the same point.

Outside the model: pre-emption inside an evaluation. It can reach this code only through the completion order and through the shared
generator; both are modelled (`σ`, `draw`).
-/

namespace C11

theorem filterMap_range_getElem? (rs : List α) : (List.range rs.length).filterMap (fun i => rs[i]?) = rs := by
  induction rs with
  | nil => rfl
  | cons a rs ih =>
    rw [List.length_cons, List.range_succ_eq_map, List.filterMap_cons_some (b := a) (by simp), List.filterMap_map]
    congr 1

theorem filterMap_getElem?_perm (σ : List Nat) (rs : List α) (h : σ.Perm (List.range rs.length)) :
    (poolResults σ rs).Perm rs := by
  unfold poolResults
  have h1 : (σ.filterMap (fun i => rs[i]?)).Perm ((List.range rs.length).filterMap (fun i => rs[i]?)) := h.filterMap _
  rw [filterMap_range_getElem?] at h1
  exact h1

/-- **none lost, none duplicated**: for every completion order `σ` (a permutation of the submission indices) the collected
results are a permutation of the submitted ones. -/
theorem poolResults_perm (σ : List Nat) (rs : List α) (h : σ.Perm (List.range rs.length)) : (poolResults σ rs).Perm rs :=
  filterMap_getElem?_perm σ rs h

theorem poolResults_length (σ : List Nat) (rs : List α) (h : σ.Perm (List.range rs.length)) : (poolResults σ rs).length = rs.length :=
  (poolResults_perm σ rs h).length_eq

/-- the pooled initial population is the serial one up to order: same draws, one agent per draw. -/
theorem generatePooled_perm (mk : β → α) (draw : Nat → β) (n : Nat) (σ : List Nat) (h : σ.Perm (List.range n)) :
    (generatePooled mk draw n σ).Perm (generateSerial mk draw n) := by
  unfold generatePooled generateSerial
  apply poolResults_perm
  simpa using h

theorem generatePooled_length (mk : β → α) (draw : Nat → β) (n : Nat) (σ : List Nat) (h : σ.Perm (List.range n)) :
    (generatePooled mk draw n σ).length = n := by
  rw [(generatePooled_perm mk draw n σ h).length_eq]; simp [generateSerial]

/-- independently drawn, pairwise distinct points stay pairwise distinct under pooling (with `mk` injective on them) -/
theorem generatePooled_nodup (mk : β → α) (draw : Nat → β) (n : Nat) (σ : List Nat) (h : σ.Perm (List.range n))
    (hinj : ∀ i j, i < n → j < n → mk (draw i) = mk (draw j) → i = j) : (generatePooled mk draw n σ).Nodup := by
  rw [(generatePooled_perm mk draw n σ h).nodup_iff]
  unfold generateSerial
  rw [List.Nodup, List.pairwise_map]
  exact (List.pairwise_lt_range (n := n)).imp_of_mem (fun {i j} hi hj hlt heq => by
    have := hinj i j (List.mem_range.mp hi) (List.mem_range.mp hj) heq
    omega)

theorem greedyPooled_perm (pop new out : List Agent) (σ : List Nat) (h : greedyPopulationPooled pop new σ = .ok out)
    (hσ : σ.Perm (List.range pop.length)) :
    ∃ serial, greedyPopulation pop new = .ok serial ∧ out.Perm serial := by
  unfold greedyPopulationPooled at h
  cases hs : greedyPopulation pop new with
  | error e => simp [hs] at h
  | ok l =>
    simp [hs] at h
    subst h
    have hl : l.length = pop.length := C16.greedyPopulation_length pop new l hs
    exact ⟨l, rfl, poolResults_perm σ l (by rw [hl]; exact hσ)⟩

theorem greedyPooled_length (pop new out : List Agent) (σ : List Nat) (h : greedyPopulationPooled pop new σ = .ok out)
    (hσ : σ.Perm (List.range pop.length)) : out.length = pop.length := by
  obtain ⟨serial, hs, hp⟩ := greedyPooled_perm pop new out σ h hσ
  rw [hp.length_eq]; exact C16.greedyPopulation_length pop new serial hs

/-- the best agent does not depend on the order a pool left the population in (costs of the selected agents coincide) -/
theorem c03_any_order (p1 p2 : List Agent) (hp : p1.Perm p2) (hne : p1 ≠ []) (hn : NoNaN p1) :
    ∃ b1 b2, bestAgent .min p1 = .ok b1 ∧ bestAgent .min p2 = .ok b2 ∧ b1.cost = b2.cost := by
  have hne2 : p2 ≠ [] := by intro h; rw [h] at hp; exact hne (List.Perm.eq_nil hp)
  have hn2 : NoNaN p2 := noNaN_of_perm hp.symm hn
  obtain ⟨b1, h1, m1, o1⟩ := C03.best_internal p1 hne hn
  obtain ⟨b2, h2, m2, o2⟩ := C03.best_internal p2 hne2 hn2
  refine ⟨b1, b2, h1, h2, ?_⟩
  have a1 := o1 b2 (hp.mem_iff.mpr m2)
  have a2 := o2 b1 (hp.mem_iff.mp m1)
  exact Num.le_antisymm _ _ (Num.ge_of_not_lt _ _ (hn2 b2 m2) (hn b1 m1) a1) (Num.ge_of_not_lt _ _ (hn b1 m1) (hn2 b2 m2) a2)

/-- **the negation on the pinned tree**: draws made inside forked workers — two workers that each run their first evaluation
(`sched 0 = (0, 0)`, `sched 1 = (1, 0)`) return the same point. Repaired by the `fix:` commit that draws in the parent. -/
theorem process_fork_duplicates (mk : β → α) (draw : Nat → β) :
    generateForkedPinned mk draw 2 (fun i => (i, 0)) = [mk (draw 0), mk (draw 0)] := by
  simp [generateForkedPinned, List.range_succ]

/-! ## non-vacuity -/
example : poolResults [2, 0, 1] ["a", "b", "c"] = ["c", "a", "b"] := by decide
example : generatePooled (fun x => x * 10) (fun i => i + 1) 3 [1, 2, 0] = [20, 30, 10] := by decide
example : [2, 0, 1].Perm (List.range 3) := by decide

end C11
