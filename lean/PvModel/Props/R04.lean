import PvModel.Generated.Src
import PvModel.Lemmas.PyLemmas
/-!
# R04 — refinement: `__should_stop__` / `__error_check__` of `abstract.py` *as the source reads now* are the model's
`shouldStop` / `errorCheck` (the functions `c04_first`, `c04_reported`, `es_needs_patience_plus_one` are about)

The hypothesis `1 ≤ patience` is the `EarlyStopping` validator's guarantee (models.py: `patience >= 1`; C13/C18 suites):
for `patience = 0` Python's `diffs[-0:]` is the whole list while the model's window is empty (`es_window_zero`).
The rate is pinned to `|1 − average_fitness(population)|` with `average_fitness`, `abs`, `−` arbitrary (`Arith R`).
-/

namespace R04
open Py

theorem all_id_drop_map {α : Type} (f : α → Bool) (l : List α) (k : Nat) :
    ((l.map f).drop k).all id = (l.drop k).all f := by
  rw [← List.map_drop, List.all_map]; rfl

theorem should_stop_eq {R : Type} (ar : Arith R) (cfg : StopCfg R) (cycle : Int) (diffs : List R) (cur : R)
    (hp : ∀ es, cfg.es = some es → 1 ≤ es.patience) :
    Src.should_stop ar cfg cycle diffs cur = shouldStop ar cfg cycle diffs cur := by
  unfold Src.should_stop shouldStop
  rcases h : cfg.es with _ | es <;> rcases h2 : cfg.fe with _ | fe
  · simp [Id.run]
  · simp [Id.run]
  · simp [Id.run, esFires, lastN, sliceFrom_neg _ _ (hp _ h), all_id_drop_map]
  · simp [Id.run, esFires, lastN, sliceFrom_neg _ _ (hp _ h), all_id_drop_map]

/-- what the hypothesis excludes: with `patience = 0` the source looks at the whole history, the model at nothing -/
theorem es_window_zero {R : Type} (diffs : List R) : Py.sliceFrom diffs (-((0 : Nat) : Int)) = diffs ∧ lastN 0 diffs = [] := by
  simp [Py.sliceFrom, lastN]

/-- `__error_check__`: the new rate is `|1 − average_fitness(population)|`, the previous one is the last recorded rate or `0`,
both histories grow by one entry, and the verdict is `__should_stop__` on the *extended* difference list. -/
theorem error_check_eq {R : Type} (ar : Arith R) (avg : List Agent → R) (one : R) (cfg : StopCfg R) (b : Book R) (pop : List Agent)
    (hp : ∀ es, cfg.es = some es → 1 ≤ es.patience) :
    Src.error_check ar avg one cfg b.cycle pop b.errors b.diffs =
      let cur := ar.abs (ar.sub one (avg pop))
      let r := errorCheck ar cfg b cur
      .ok ((cur, avg pop, r.2), r.1.errors, r.1.diffs) := by
  unfold Src.error_check errorCheck
  simp only [should_stop_eq ar cfg _ _ _ hp]
  rcases hE : b.errors.getLast? with _ | e
  · have : b.errors = [] := by simpa using hE
    simp [this]
    rfl
  · have hne : b.errors ≠ [] := by intro h0; simp [h0] at hE
    have hlen : 0 < b.errors.length := List.length_pos_iff.mpr hne
    have hlast : b.errors[b.errors.length - 1]? = some e := by
      rw [List.getLast?_eq_getElem?] at hE; exact hE
    have hg : Py.getItem b.errors (-1) = .ok e := by
      unfold Py.getItem
      have h1 : ((-1 : Int) < 0) := by omega
      have h2 : ¬ (Py.len b.errors + -1 < 0) := by simp; omega
      have h3 : (Py.len b.errors + -1).toNat = b.errors.length - 1 := by simp; omega
      simp only [h1, ↓reduceIte, h2, h3, hlast]
    have hpos : (decide (Py.len b.errors > 0)) = true := by simp; omega
    simp [hpos, hg, hE, hlen]
    rfl

end R04
