import PvModel.Generated.Src
import PvModel.Lemmas.PyLemmas
import PvModel.Props.R02
import PvModel.Props.R10
import PvModel.Props.C11
/-!
# R11 — refinement: building the initial population (`_generate_agents`, `_init_population`) *as the source reads now*

The random stream is an indexed sequence of draws (`draw i` = the `i`-th position `Task.empty_solution()` returns); the state
threaded through the translated functions is the number of draws made so far.  The theorems: in every solver mode
`_generate_agents(n)` consumes exactly the next `n` draws, in order, and builds agent `i` from draw `k + i` with the model's
`mkAgent`; the serial mode returns them in that order (`generateSerial`), a pooled mode in completion order
(`generatePooled`) — a permutation of the serial answer.
-/

namespace R11
open Py

variable {α β γ : Type}

/-- the agents built from draws `k, k+1, …, k+n-1`, in order; the first failure propagates -/
def fromDraws (g : β → Except Err α) (draw : Nat → β) : Nat → Nat → Except Err (List α)
  | _, 0 => .ok []
  | k, n + 1 => do
    let a ← g (draw k)
    let rest ← fromDraws g draw (k + 1) n
    .ok (a :: rest)

theorem fromDraws_ok (g : β → Except Err α) (f : β → α) (hg : ∀ b, g b = .ok (f b)) (draw : Nat → β) (k n : Nat) :
    fromDraws g draw k n = .ok ((List.range n).map (fun i => f (draw (k + i)))) := by
  induction n generalizing k with
  | zero => rfl
  | succ n ih =>
    simp only [fromDraws, hg, ih, except_ok_bind]
    rw [List.range_succ_eq_map]
    simp only [List.map_cons, List.map_map, Nat.add_zero]
    congr 2
    apply List.map_congr_left
    intro i _
    simp only [Function.comp]
    congr 2
    omega

@[simp] theorem run_nextDraw (draw : Nat → β) (k : Nat) : (nextDraw draw).run k = .ok (draw k, k + 1) := rfl
@[simp] theorem run_peekDraw (draw : Nat → β) (k : Nat) : (peekDraw draw).run k = .ok (draw k, k) := rfl


/-- the serial comprehension `[self._init_agent() for _ in range(0, n)]`: one draw per element, in order -/
theorem mapM_draw (g : β → Except Err α) (draw : Nat → β) (l : List γ) (k : Nat) :
    (l.mapM (fun _ => (do return (← g (← nextDraw draw)) : StateT Nat (Except Err) α))).run k
      = (fromDraws g draw k l.length).map (fun r => (r, k + l.length)) := by
  induction l generalizing k with
  | nil => rfl
  | cons x xs ih =>
    simp only [List.mapM_cons, StateT.run_bind, run_nextDraw, List.length_cons, fromDraws]
    cases hg : g (draw k) with
    | error e => simp [hg, liftM, monadLift, MonadLift.monadLift, StateT.lift, bind, Except.bind, Except.map, StateT.run]
    | ok a =>
      simp only [except_ok_bind, liftM, monadLift, MonadLift.monadLift, StateT.lift, StateT.run, hg]
      have := ih (k + 1)
      simp only [liftM, monadLift, MonadLift.monadLift, StateT.lift, StateT.run] at this
      simp only [pure_bind, this]
      cases fromDraws g draw (k + 1) xs.length with
      | error e => rfl
      | ok rest =>
        simp only [Except.map, except_ok_bind]
        show Except.ok _ = Except.ok _
        congr 2
        omega


/-- the parent's comprehension `[self._task.empty_solution() for _ in range(0, n)]` -/
theorem mapM_positions (draw : Nat → β) (l : List γ) (k : Nat) :
    (l.mapM (fun _ => (do return (← nextDraw draw) : StateT Nat (Except Err) β))).run k
      = .ok ((List.range l.length).map (fun i => draw (k + i)), k + l.length) := by
  induction l generalizing k with
  | nil => rfl
  | cons x xs ih =>
    simp only [List.mapM_cons, StateT.run_bind, run_nextDraw, List.length_cons, except_ok_bind, ih]
    have h1 : List.map (fun i => draw (k + 1 + i)) (List.range xs.length) = List.map ((fun i => draw (k + i)) ∘ Nat.succ) (List.range xs.length) := by
      apply List.map_congr_left
      intro i _
      simp only [Function.comp]
      congr 1
      omega
    have h2 : k + 1 + xs.length = k + (xs.length + 1) := by omega
    rw [List.range_succ_eq_map]
    simp only [List.map_cons, List.map_map, Nat.add_zero, h1, h2]
    rfl

/-- the model's agent constructor on a raw position, as a function that can raise -/
def mk (T : TaskSem) (raw : List Raw) : Except Err Agent := (mkAgent T raw 0).map (fun r => r.1)

theorem generate_agents_serial (σ : List Nat) (T : TaskSem) (draw : Nat → List Raw) (w : Int) (n k : Nat) :
    (Src.generate_agents σ (R02.fitOf T) draw Mode.serial w T (n : Int)).run k
      = (fromDraws (mk T) draw k n).map (fun r => (r, k + n)) := by
  unfold Src.generate_agents
  simp only [decide_true, ↓reduceIte]
  have hg : (fun d => Src.init_agent d (R02.fitOf T) T none) = mk T := by
    funext d
    rw [R02.init_agent_random, R02.init_agent_eq]; rfl
  have := mapM_draw (fun d => Src.init_agent d (R02.fitOf T) T none) draw (range 0 (n : Int)) k
  simp only [range_zero_nat, List.length_map, List.length_range, hg] at this ⊢
  exact this


/-- a comprehension whose element only *looks at* the next draw: the stream does not advance -/
theorem mapM_peek {δ : Type} (g : β → δ → Except Err α) (draw : Nat → β) (ps : List δ) (k : Nat) :
    (ps.mapM (fun p => (do return (← g (← peekDraw draw) p) : StateT Nat (Except Err) α))).run k
      = (ps.mapM (fun p => g (draw k) p)).map (fun r => (r, k)) := by
  induction ps with
  | nil => rfl
  | cons p ps ih =>
    simp only [List.mapM_cons, StateT.run_bind, run_peekDraw, except_ok_bind]
    cases hg : g (draw k) p with
    | error e => simp [liftM, monadLift, MonadLift.monadLift, StateT.lift, bind, Except.bind, Except.map, StateT.run, hg]
    | ok a =>
      simp only [liftM, monadLift, MonadLift.monadLift, StateT.lift, StateT.run, hg] at ih ⊢
      simp only [pure_bind, ih, except_ok_bind]
      cases List.mapM (fun p => g (draw k) p) ps with
      | error e => rfl
      | ok rest => rfl

theorem fromDraws_eq_mapM (g : β → Except Err α) (draw : Nat → β) (k n : Nat) :
    fromDraws g draw k n = ((List.range n).map (fun i => draw (k + i))).mapM g := by
  induction n generalizing k with
  | zero => rfl
  | succ n ih =>
    have h1 : List.map (fun i => draw (k + 1 + i)) (List.range n) = List.map ((fun i => draw (k + i)) ∘ Nat.succ) (List.range n) := by
      apply List.map_congr_left
      intro i _
      simp only [Function.comp]
      congr 1
      omega
    rw [List.range_succ_eq_map]
    simp only [fromDraws, ih, List.map_cons, List.map_map, List.mapM_cons, Nat.add_zero, h1]
    rfl

theorem generate_agents_pooled (σ : List Nat) (T : TaskSem) (draw : Nat → List Raw) (m : Mode) (hm : m ≠ Mode.serial) (w : Int) (n k : Nat) :
    (Src.generate_agents σ (R02.fitOf T) draw m w T (n : Int)).run k
      = (fromDraws (mk T) draw k n).map (fun r => (poolResults σ r, k + n)) := by
  unfold Src.generate_agents
  simp only [hm, decide_false, Bool.false_eq_true, ↓reduceIte]
  have hp := mapM_positions draw (range 0 (n : Int)) k
  have hs := fun ps => mapM_peek (fun d p => Src.init_agent d (R02.fitOf T) T (some p)) draw ps (k + n)
  simp only [range_zero_nat, List.length_map, List.length_range] at hp hs
  have hmk : (fun p => Src.init_agent (draw (k + n)) (R02.fitOf T) T (some p)) = mk T := by
    funext p
    rw [R02.init_agent_eq]; rfl
  simp only [StateT.run_bind, range_zero_nat, hp, except_ok_bind, hs, hmk, fromDraws_eq_mapM, R10.get_pool_results_eq]
  cases List.mapM (mk T) (List.map (fun i => draw (k + i)) (List.range n)) with
  | error e => rfl
  | ok r => rfl


/-- `_init_population()`: the previous population is discarded, `population_size` fresh agents replace it -/
theorem init_population_eq (σ : List Nat) (T : TaskSem) (draw : Nat → List Raw) (m : Mode) (w ps : Int) (old : List Agent) (k : Nat) :
    (Src.init_population σ (R02.fitOf T) draw m w T ps old).run k = (Src.generate_agents σ (R02.fitOf T) draw m w T ps).run k := by
  unfold Src.init_population
  simp

theorem fromDraws_length (g : β → Except Err α) (draw : Nat → β) (k n : Nat) (l : List α) (h : fromDraws g draw k n = .ok l) : l.length = n := by
  induction n generalizing k l with
  | zero => simp [fromDraws] at h; subst h; rfl
  | succ n ih =>
    simp only [fromDraws] at h
    cases hg : g (draw k) with
    | error e => rw [hg] at h; cases h
    | ok a =>
      rw [hg] at h
      simp only [except_ok_bind] at h
      cases hr : fromDraws g draw (k + 1) n with
      | error e => rw [hr] at h; cases h
      | ok rest =>
        rw [hr] at h
        simp only [except_ok_bind] at h
        cases h
        simp [ih (k + 1) rest hr]

/-- **both modes consume the same draws and build the same agents**: whenever the `n` evaluations succeed, a pooled
`_generate_agents(n)` returns a permutation of what the serial one returns (for every completion order `σ` that completes each
future once), and both leave the random stream at draw `k + n`. -/
theorem pooled_perm_serial (σ : List Nat) (T : TaskSem) (draw : Nat → List Raw) (m : Mode) (hm : m ≠ Mode.serial) (w : Int) (n k : Nat)
    (hσ : σ.Perm (List.range n)) (ser : List Agent) (k' : Nat)
    (hs : (Src.generate_agents σ (R02.fitOf T) draw Mode.serial w T (n : Int)).run k = .ok (ser, k')) :
    ∃ pooled, (Src.generate_agents σ (R02.fitOf T) draw m w T (n : Int)).run k = .ok (pooled, k') ∧ pooled.Perm ser ∧ k' = k + n ∧ ser.length = n := by
  rw [generate_agents_serial] at hs
  rw [generate_agents_pooled σ T draw m hm]
  cases hf : fromDraws (mk T) draw k n with
  | error e => rw [hf] at hs; cases hs
  | ok l =>
    rw [hf] at hs
    simp only [Except.map, Except.ok.injEq, Prod.mk.injEq] at hs
    obtain ⟨h1, h2⟩ := hs
    subst h1
    have hl := fromDraws_length _ _ _ _ _ hf
    refine ⟨poolResults σ l, ?_, ?_, h2.symm, hl⟩
    · simp [Except.map, h2]
    · exact C11.poolResults_perm σ l (by rw [hl]; exact hσ)

/-- an evaluation that raises makes both modes raise (which of several failing evaluations is reported first by a real pool is not modelled) -/
theorem pooled_raises_iff_serial (σ : List Nat) (T : TaskSem) (draw : Nat → List Raw) (m : Mode) (hm : m ≠ Mode.serial) (w : Int) (n k : Nat) (e : Err) :
    (Src.generate_agents σ (R02.fitOf T) draw Mode.serial w T (n : Int)).run k = .error e ↔
    (Src.generate_agents σ (R02.fitOf T) draw m w T (n : Int)).run k = .error e := by
  rw [generate_agents_serial, generate_agents_pooled σ T draw m hm]
  cases fromDraws (mk T) draw k n <;> simp [Except.map]

/-- when every draw evaluates (`f` = the agent of a draw), the two modes are the model's `generateSerial` / `generatePooled` on the stream from `k` on -/
theorem generate_agents_model (σ : List Nat) (T : TaskSem) (draw : Nat → List Raw) (f : List Raw → Agent) (hf : ∀ r, mk T r = .ok (f r)) (m : Mode) (w : Int) (n k : Nat) :
    (Src.generate_agents σ (R02.fitOf T) draw m w T (n : Int)).run k
      = .ok (if m = Mode.serial then generateSerial f (fun i => draw (k + i)) n else generatePooled f (fun i => draw (k + i)) n σ, k + n) := by
  by_cases hm : m = Mode.serial
  · subst hm
    rw [generate_agents_serial, fromDraws_ok (mk T) f hf]
    simp [Except.map, generateSerial]
  · rw [generate_agents_pooled σ T draw m hm, fromDraws_ok (mk T) f hf]
    simp [Except.map, generatePooled, hm]

example : fromDraws (fun (b : Nat) => (Except.ok (b * 10) : Except Err Nat)) (fun i => i + 1) 2 3 = .ok [30, 40, 50] := by decide

end R11
