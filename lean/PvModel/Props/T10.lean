import PvModel.Generated.Steps
import PvModel.PopExp
/-! Table obligation for C10 (regenerated skeletons, decided by kernel evaluation over the whole table): every exported optimizer
outside the three variable-size classes and outside the listed classes whose step the classifier cannot size-classify has a
size-preserving skeleton (`C10.size_sound` / `C10.c10_skeleton` then give: every generation has exactly `population_size` agents).
A source edit that turns a map over the population into a filter, a slice or a plain assignment flips the Bool and breaks the `decide`. -/
namespace T10
open Generated

/-- variable by design (excluded by the statement of C10): Bee Colony keeps `population_size / 2` employed bees, Forest and
Imperialist Competitive may shrink. -/
def variableSize : List AlgoId := [.BeeColonyOptimization, .ForestOptimizationAlgorithm, .ImperialistCompetitiveOptimization]

/-- classes whose step writes the population in a way the algebra does not size-classify (covered by observation only):
* BacterialForaging: `append` / `pop` inside the loop, re-balanced to `population_size` by `__balance_population__` at the end;
* BrainStorm, ImprovedBrainStorm, HenryGasSolubility: `list(chain.from_iterable(self.__clusters / self.__groups))` — the flattened private groups
  (HenryGasSolubility drops `population_size % n_clusters` agents after generation 0: recorded finding);
* CoralReef: stores through helper methods driven by the private occupancy list;
* Coyotes, ElephantHerd: the packs / clans of `_generate_group_population`, flattened;
* CuckooSearch: `pop[:population_size - n_cut] + [fresh × n_cut]`; Earthworms: `self._population[:keep] + [… for _ in range(keep, population_size)]`;
* FireHawk: `_replace_and_trim_population` (at most `population_size`, fewer if the replacement is short);
* GeneticAlgorithm: rebuilt from the private bit genes; MonarchButterfly: `sort_and_trim(pop1 + pop2, population_size - keep)` then `extend(elite)`;
* WaterCycle: `self.__pop_best.copy() + flattened streams`. -/
def sizeUnclassified : List AlgoId :=
  [.BacterialForagingOptimization, .BrainStormOptimization, .ImprovedBrainStormOptimization, .CoralReefOptimization, .CoyotesOptimization,
   .CuckooSearchOptimization, .EarthwormsOptimization, .ElephantHerdOptimization, .FireHawkOptimization, .GeneticAlgorithmOptimization,
   .HenryGasSolubilityOptimization, .MonarchButterflyOptimization, .WaterCycleOptimization]

/-- every exported class has a row. -/
theorem table_steps_complete : steps.map (·.1) = algos.map (·.id) := by decide

theorem table_size_preserving :
    ∀ r ∈ steps, r.1 ∈ variableSize ∨ r.1 ∈ sizeUnclassified ∨ sizePreserving r.2 = true := by decide

/-- the exemption list is tight: none of the listed classes is size-classified today (so a class that becomes classifiable must be
taken off the list, and the number proved is exactly `84 − 3 − 13`). -/
theorem table_size_unclassified_tight :
    ∀ r ∈ steps, r.1 ∈ sizeUnclassified → sizePreserving r.2 = false := by decide

end T10
