import PvModel.Props.C08
/-!
# C09 — `optimize()` does not modify the caller's configuration or task

In the field machine the configuration and the task are fields like any other.  If no statement of the class's programs
writes them (the table obligation `Props/T09`: no store, augmented store or mutating method call rooted at `self._config` /
`self._task` or at an alias of one of their mutable fields), then after any run — normal exit or exception at any statement —
both hold the values they held before.  (Aliasing of a *mutable field* through a local name is what the functional model
cannot see; the translator tracks such aliases, and the S-trace suite compares deep dumps before/after every run.)
-/

namespace C09
open Stmt C08
variable {F V : Type} [DecidableEq F]

/-- **C09**: a field that neither the initialisation path nor the step writes has, after initialisation plus any number of
cycles — completed or cut short by an exception anywhere — exactly the value it had before the call. -/
theorem c09_frame (init : List (Asg F V)) (step : Stmt F V) (f : F)
    (hi : f ∉ (assigns init).writes) (hs : f ∉ step.writes) (k : Nat) (st : Store F V) :
    ((runTo init step k).run st).1.get f = st.get f := by
  apply frame
  simp only [runTo, cycles, writes, List.mem_append, not_or]
  exact ⟨hi, hs⟩

/-- the same for an arbitrary program (e.g. one that raises part-way): only written fields can change. -/
theorem c09_frame_any (p : Stmt F V) (f : F) (h : f ∉ p.writes) (st : Store F V) : (p.run st).1.get f = st.get f :=
  frame p st f h

/-- the hypothesis is necessary: a step that stores into the configuration changes it (Firefly's `self._config.alpha *= …`
and Bee Colony's `self._config.population_size = …` on the pinned tree). -/
theorem config_store_witness :
    let step : Stmt Nat Nat := .assign 0 [0] (fun vs => vs.headD 0 / 2)     -- field 0 = the configuration's population_size
    ((runTo [] step 1).run ⟨fun _ => 10⟩).1.get 0 ≠ 10 := by simp [runTo, assigns, cycles, run, Store.set]

/-- an exception inside the step does not undo the frame: fields written before the raise keep their new value, all others their old one -/
example :
    let step : Stmt Nat Nat := .seq (.assign 1 [] (fun _ => 5)) .raise
    let r := (runTo [] step 3).run ⟨fun _ => 0⟩
    r.2 = true ∧ r.1.get 0 = 0 ∧ r.1.get 1 = 5 := by simp [runTo, assigns, cycles, run, Store.set]

end C09
