import PvModel.Props.Tables
/-! Table obligation (regenerated facts, decided by kernel evaluation over the whole table): every optimizer samples through numpy's global generator only (directly and through helpers.py). -/
namespace T07
open Generated Tables
theorem table_numpy_rng_only : ∀ a ∈ algos, numpyRngOnly a = true := by decide
end T07

namespace T07
open Generated
/-- `optimize` seeds numpy's generator right after the configuration check and before anything can draw;
`Task.seed` is declared as an int; no helper draws from another source. -/
theorem core_seeding : core.prologue.take 2 = [.configCheck, .seed] ∧ core.seedIsInt = true ∧ core.helperNonNumpyRng = 0 := by decide
/-- nothing in the framework files (models, abstract, helpers, utils, hypertuner, multitask) draws from a generator other than numpy's global
one: no `default_rng()` / `RandomState()` / stdlib `random` / clock / `urandom` / `uuid` call -/
theorem framework_global_generator_only : core.frameworkNonGlobalRng = 0 := by decide
end T07
