import PvModel.Props.C08
/-!
# C18 — every optimizer honours the uniform construction / configuration API

* `ctor_total`               : a constructor that does not dereference its configuration (table obligation `T18`) succeeds without one.
* `optimize_requires_config` : see `C06.prologue_rejects_iff` (no configuration ⇒ `ValueError` before anything else).
* `setConfig_eq`             : `set_config_parameters(d)` leaves `config = Config(**d)` (or raises the same validation error),
                               given the canonical one-statement form the translator checks.
* `c18_run_equiv`            : an instance constructed with a configuration and an instance constructed empty and then configured
                               by `set_config_parameters` are indistinguishable to every run — an instance of C08's theorem:
                               the only field on which the two could differ is one written in `__init__` from the configuration, and
                               there is none.
-/

namespace C18
open Stmt C08
variable {F V : Type} [DecidableEq F]

/-- the constructor: stores the (possibly missing) configuration and assigns constants; it reads nothing -/
def ctor (cfgField : F) (consts : F → V) (cfg : V) : Store F V := ⟨fun g => if g = cfgField then cfg else consts g⟩

/-- `set_config_parameters(d)` in canonical form: `self._config = Config(**d)`; `build` is the config class's validation -/
def setConfig (cfgField : F) (build : D → Except E V) (st : Store F V) (d : D) : Except E (Store F V) :=
  match build d with
  | .ok c => .ok (st.set cfgField c)
  | .error e => .error e

/-- constructing without a configuration succeeds (the store exists for every `none`-like placeholder value) -/
theorem ctor_total (cfgField : F) (consts : F → V) (noCfg : V) : ∃ st : Store F V, st = ctor cfgField consts noCfg := ⟨_, rfl⟩

/-- `set_config_parameters(d)` gives a configuration equal to building the config class from `d`; rejected dictionaries surface
as the same validation error at that point. -/
theorem setConfig_eq (cfgField : F) (build : D → Except E V) (st : Store F V) (d : D) :
    (∀ c, build d = .ok c → ∃ st', setConfig cfgField build st d = .ok st' ∧ st'.get cfgField = c) ∧
    (∀ e, build d = .error e → setConfig cfgField build st d = .error e) := by
  constructor
  · intro c hc; exact ⟨st.set cfgField c, by simp [setConfig, hc], by simp [Store.set]⟩
  · intro e he; simp [setConfig, he]

/-- configured-at-construction and configured-afterwards give the same instance state, field by field -/
theorem setConfig_ctor (cfgField : F) (consts : F → V) (noCfg c : V) :
    ∀ g, ((ctor cfgField consts noCfg).set cfgField c).get g = (ctor cfgField consts c).get g := by
  intro g; simp [ctor, Store.set]; split <;> rfl

/-- **C18** run equivalence: every run of `ctor(cfg)` and of `set_config_parameters(ctor(None), d)` with `Config(**d) = cfg`
agrees on every observable field after every number of cycles. -/
theorem c18_run_equiv (C : F → Prop) (cfgField : F) (consts : F → V) (noCfg c : V)
    (init : List (Asg F V)) (step : Stmt F V) (hinit : WellScoped C init) (hstep : ∀ f ∈ step.reads, Obs C init f) (k : Nat) :
    AgreeOn (Obs C init) ((runTo init step k).run ((ctor cfgField consts noCfg).set cfgField c)).1
      ((runTo init step k).run (ctor cfgField consts c)).1 :=
  (fresh_equiv C init step hinit hstep _ _ (fun g _ => setConfig_ctor cfgField consts noCfg c g) k).1

/-- the hypothesis behind `T18` is necessary: a constructor that caches a value derived from the configuration (Coral Reef's
`_, self.__G1 = self._config.gamma` on the pinned tree) makes the two routes differ — and fails outright without a configuration. -/
theorem cached_config_witness :
    -- field 0 = config, field 1 = a value cached from the config in __init__
    let ctorCaching (cfg : Nat) : Store Nat Nat := ⟨fun g => if g = 0 then cfg else cfg + 100⟩
    ((ctorCaching 0).set 0 5).get 1 ≠ (ctorCaching 5).get 1 := by
  simp [Store.set]

end C18
