import PvModel.Generated.Core
/-! Pin obligation for C19: the tuner and what is left of the parameter grid (`ParameterGrid.__iter__` / `__len__` are translated: R19).
These functions are modelled by hand (not translated by `tools/py2lean.py`) and tied to the code by the correspondence suites. The regenerated
facts carry a fingerprint of their source text (docstrings / comments removed, `ast.unparse` under /venv's Python); this theorem says the text is
the one the model was last validated against. A change of any of them breaks it — the check then searches for a failing input; if none is found
the report is `no-failing-input-found` and, once the model has been re-validated, `tools/mkpins.py` rewrites the expected values. -/
namespace T19
open Generated

def expected : List (String × String) := [
      ("hypertuner.py:ParameterGrid.__init__", "afd2e886acc3abb8"),
      ("hypertuner.py:ParameterGrid.__getitem__", "afb1f64f0d4cd716"),
      ("hypertuner.py:HyperTuner", "73f466ba353fb2e9"),
      ("enums.py:TaskType", "b3661363ca362f9f"),
      ("enums.py:ModeSolver", "4de7ea767a39ed87")]

theorem source_pins_unchanged : expected.all (fun e => pins.contains e) = true := by decide

end T19
