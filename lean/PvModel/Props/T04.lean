import PvModel.Props.Tables
/-! Table obligation for C04/C08: the prologue of `optimize` as modelled in `Loop.prologue` / `Book.fresh`, and the inventory of
`while` loops (a new `while` anywhere in the package is a new way not to terminate and breaks this obligation). -/
namespace T04
open Generated
theorem core_prologue_order :
    core.prologue = [.configCheck, .seed, .workersCheck, .modeCheck, .setTask, .resetCycle, .resetErrors, .resetDiffs,
                     .beforeInit, .initPopulation, .afterInit, .loop, .ret] := by decide
/-- the two framework loops are `optimize`'s own `while True` (proved to stop: `C04.c04_first`) and `get_partner_index`
(terminates with probability 1 only for `num_elements ≥ 2`: known finding C04, Bee Colony with 2–3 agents). -/
theorem core_while_inventory : core.frameworkWhileLoops = 2 := by decide
/-- six bounded loops in optimizer modules (counters / shrinking lists), reviewed by hand: CoralReef 1, FireHawk 1, HeapBased 2,
ImperialistCompetitive 1, SpottedHyena 1. -/
theorem algos_while_inventory : (algos.map (·.whileLoops)).sum = 6 ∧
    ∀ a ∈ algos, a.whileLoops = 0 ∨ a.id ∈ [AlgoId.CoralReefOptimization, .FireHawkOptimization, .HeapBasedOptimization,
      .ImperialistCompetitiveOptimization, .SpottedHyenaOptimization] := by decide
end T04
