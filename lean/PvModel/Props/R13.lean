import PvModel.Generated.Src
import PvModel.Lemmas.PyLemmas
/-!
# R13 — refinement: `correct` / `get_bounds` / `decode` / `size` / `has_children` of the scalar variable classes of `models.py`
*as the source reads now* are the model's `Var.correct` / `Var.bounds` / `Var.decodeIdx` (the functions C01 / C05 / C13 / C14
are about).  A floating-point literal, a cached bound or a fast path in any of them changes `Src.*` and breaks an equation here.
-/

namespace R13
open Py

theorem cont_correct_eq (lb ub x : Num) :
    (Except.ok (Coord.num (Src.cont_correct lb ub x)) : Except Err Coord) = Var.correct (.cont lb ub) (.scalar x) := by
  simp [Src.cont_correct, Var.correct, Id.run]

theorem cont_get_bounds_eq (lb ub : Num) : Src.cont_get_bounds lb ub = (Var.cont lb ub).bounds := by
  simp [Src.cont_get_bounds, Var.bounds, Id.run]

theorem disc_get_bounds_eq {α : Type} (choices : List α) :
    (intNum (Src.disc_get_bounds choices).1, intNum (Src.disc_get_bounds choices).2) = (Var.disc choices.length).bounds := by
  simp [Src.disc_get_bounds, Var.bounds, Id.run, intNum]

/-- `DiscreteVariable.correct`: clip to `[0, len(choices) − 1]` *in doubles*, then truncate; NaN → `ValueError`, ±inf cannot
survive the clip of a non-empty choice list -/
theorem disc_correct_eq {α : Type} (choices : List α) (x : Num) :
    (Src.disc_correct choices x).map Coord.int = Var.correct (.disc choices.length) (.scalar x) := by
  unfold Src.disc_correct Src.disc_get_bounds Var.correct
  simp only [Id.run, id_pure, len_eq, discUb]
  have h0 : intNum (0 : Int) = Num.fin 0 := by simp [intNum]
  rw [h0]
  generalize Num.clip x (Num.fin 0) (intNum ((choices.length : Int) - 1)) = c
  cases c <;> rfl

theorem truncRat_int (i : Int) : Num.truncRat ((i : Int) : Rat) = i := by
  unfold Num.truncRat
  by_cases h : (0 : Rat) ≤ ((i : Int) : Rat)
  · simp [h, Rat.floor_intCast]
  · simp only [h, ↓reduceIte]
    have : (-((i : Int) : Rat)) = (((-i : Int)) : Rat) := by simp
    rw [this, Rat.floor_intCast]; omega

theorem getItem_eq_decodeIdx {α : Type} (choices : List α) (i : Int) :
    Py.getItem choices i =
      match Var.decodeIdx choices.length i with
      | some k => (match choices[k]? with | some a => .ok a | none => .error .indexError)
      | none => .error .indexError := by
  unfold Py.getItem Var.decodeIdx
  simp only [len_eq]
  by_cases h1 : 0 ≤ i ∧ i < choices.length
  · have : ¬ (i < 0) := by omega
    simp only [h1, this, and_self, ↓reduceIte]
    cases choices[i.toNat]? <;> rfl
  · by_cases h2 : -(choices.length : Int) ≤ i ∧ i < 0
    · have h3 : i < 0 := h2.2
      have h4 : ¬ ((choices.length : Int) + i < 0) := by omega
      have h5 : (choices.length : Int) + i = i + choices.length := by omega
      have h6 : ¬ (i + (choices.length : Int) < 0) := by omega
      simp only [h1, h2, h3, and_self, ↓reduceIte, h5, h6]
      cases choices[(i + (choices.length : Int)).toNat]? <;> rfl
    · simp only [h1, h2, ↓reduceIte]
      by_cases h3 : i < 0
      · have h4 : (choices.length : Int) + i < 0 := by omega
        simp only [h3, h4, ↓reduceIte]
      · have h5 : choices.length ≤ i.toNat := by omega
        simp only [h3, ↓reduceIte, List.getElem?_eq_none h5]

/-- `decode(value)` = `choices[int(value)]` with Python's index rules (negative indices wrap, `IndexError` outside) -/
theorem disc_decode_eq {α : Type} (choices : List α) (i : Int) :
    Src.disc_decode choices (intNum i) =
      match Var.decodeIdx choices.length i with
      | some k => (match choices[k]? with | some a => .ok a | none => .error .indexError)
      | none => .error .indexError := by
  rw [← getItem_eq_decodeIdx]
  unfold Src.disc_decode
  have : Py.intOfNum (intNum i) = .ok i := by simp [Py.intOfNum, intNum, truncRat_int]
  rw [this]
  simp only [except_ok_bind, bind_pure]

theorem perm_correct_eq (n : Nat) (xs : List Num) :
    (Except.ok (Coord.ints ((Src.perm_correct xs).map Int.ofNat)) : Except Err Coord) = Var.correct (.perm n) (.vec xs) := by
  simp [Src.perm_correct, Var.correct, Id.run, Py.npArgsort]

theorem sizes : Src.cont_size = 1 ∧ Src.disc_size = 1 ∧ Src.perm_size = 1 ∧
    Src.cont_has_children = false ∧ Src.disc_has_children = false ∧ Src.perm_has_children = false := by
  refine ⟨rfl, rfl, rfl, rfl, rfl, rfl⟩

theorem cont_decode_eq (x : Num) : Src.cont_decode x = x := rfl

end R13
