import PvModel.Props.Tables
/-! Table obligation for C11: the pool helpers have exactly the modelled shape — `get_pool_results` collects every future of
`as_completed(executors)` (no timeout, no filtering, no early exit), `get_pool_executor` builds a plain thread / process pool. -/
namespace T11
open Generated
theorem core_pool_shapes : core.poolResultsShape = true ∧ core.poolExecutorShape = true := by decide
end T11
