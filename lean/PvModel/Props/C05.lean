import PvModel.Props.C01
/-!
# C05 — the user's objective is only ever evaluated inside the search space

The model's `mkAgent` logs the argument of its (single) objective call; `RunState.calls` is the log of the whole run, including
the evaluations of candidates that are later discarded.  The structural half of the property — `objective_function` is referenced
only by `Task.solve`, `solve` only by `_fcn`, `_fcn` only by `_init_agent`, and no optimizer module references any of them — is a
table obligation over the regenerated `Generated/Core.lean` (below), decided by `decide`.
-/

namespace C05

/-- **C05**: during `optimize()` the objective is never called with an argument outside the search space — for every
evaluation made, including those of candidates that are later discarded. -/
theorem c05_optimize {R σ : Type} (T : TaskSem) (hT : T.WF) (A : DAlg σ) (hA : A.RawsOK T)
    (ar : Arith R) (cfg : StopCfg R) (rate : List Agent → R)
    (s0 : RunState σ) (res : Result R) (sN : RunState σ) (bN : Book R)
    (h : runBody ar cfg (A.toAlg T) rate T.dir s0 = .ok (res, sN, bN)) :
    ∀ c ∈ sN.calls, memList T.vars c = true :=
  (C01.run_valid T hT A hA ar cfg rate s0 res sN bN h).2.2

/-- each `_init_agent` logs exactly one call, and its argument is the position it stores (so nothing is evaluated that is
not also a position the run could report). -/
theorem c05_one_call_per_agent (T : TaskSem) (hT : T.WF) (raw : List Raw) (hraw : rawOKList T.vars raw = true) (tag : Nat)
    (a : Agent) (arg : List Coord) (h : mkAgent T raw tag = .ok (a, arg)) : arg = a.position ∧ memList T.vars arg = true :=
  let ⟨_, h2, h3⟩ := mkAgent_valid T hT raw hraw tag a arg h
  ⟨h2, h3⟩

end C05

