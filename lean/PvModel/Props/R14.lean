import PvModel.Generated.Src
import PvModel.Lemmas.PyLemmas
import PvModel.Props.R20
/-!
# R14 — refinement: the declared variable classes' `size / has_children / get` (children built by each multi-variable class's
`__init__`) and `Task.get_variables / correct_solution` *as the source reads now* are the model's `VarDecl.size / hasChildren /
children`, `TaskDecl.getVariables / correctSolution` (the functions C14 — and through it C01 / C05 — are about).
The dispatch over the seven classes is generated: one `match` arm per class calling that class's translated method.
-/

namespace R14
open Py

theorem vd_has_children_eq (v : VarDecl) : Src.vd_has_children v = v.hasChildren := by
  cases v <;> rfl

/-- `size()`; for `BinaryVariable` the validator's `n_vars > 0` is what makes `n_vars` a length -/
theorem vd_size_eq (v : VarDecl) (hv : v.valid = true) : Src.vd_size v = (v.size : Int) := by
  cases v with
  | binary n =>
    simp only [VarDecl.valid, decide_eq_true_eq] at hv
    simp only [Src.vd_size, Src.binary_size, Id.run, id_pure, VarDecl.size]
    omega
  | discMulti ns => simp [Src.vd_size, Src.discmulti_size, Id.run, VarDecl.size]
  | _ => simp [Src.vd_size, Src.cont_size, Src.contmulti_size, Src.disc_size, Src.perm_size, Src.multiobj_size, Id.run, VarDecl.size]

theorem enumerate_map_snd {α β : Type} (l : List α) (f : α → β) :
    (Py.enumerate l).map (fun x => f x.2) = l.map f := by
  unfold Py.enumerate
  have : ((List.range l.length).zip l).map (fun x => f x.2) = (((List.range l.length).zip l).map Prod.snd).map f := by
    rw [List.map_map]; rfl
  rw [this, List.map_snd_zip (by simp)]

theorem contmulti_children_eq (lbs ubs : List Num) :
    Src.contmulti_children lbs ubs = (VarDecl.contMulti lbs ubs).children := by
  simp only [Src.contmulti_children, Src.contmulti_get_bounds, Id.run, id_pure, VarDecl.children, Py.zip]
  exact enumerate_map_snd (lbs.zip ubs) (fun p => Var.cont p.1 p.2)

theorem multiobj_children_eq (lbs ubs : List Num) :
    Src.multiobj_children lbs ubs = (VarDecl.multiObj lbs ubs).children := by
  simp only [Src.multiobj_children, Src.multiobj_get_bounds, Id.run, id_pure, VarDecl.children, Py.zip]
  exact enumerate_map_snd (lbs.zip ubs) (fun p => Var.cont p.1 p.2)

theorem binary_children_eq (n : Int) : Src.binary_children n = (VarDecl.binary n).children := by
  simp only [Src.binary_children, Id.run, id_pure, VarDecl.children, Py.range, Int.sub_zero, List.map_map]
  induction n.toNat with
  | zero => rfl
  | succ k ih => rw [List.range_succ, List.map_append, ih, List.replicate_succ']; rfl

theorem discmulti_children_eq (ns : List Nat) :
    Src.discmulti_children (ns.map List.range) = .ok (VarDecl.discMulti ns).children := by
  unfold Src.discmulti_children
  simp only [len_eq, List.length_map, VarDecl.children]
  rw [R20.mapM_congr_ok _ _ (fun a => Var.disc ((ns[a.toNat]?).getD 0))]
  · congr 1
    rw [range_zero_nat, List.map_map]
    apply List.ext_getElem
    · simp
    · intro i h1 h2
      simp only [List.length_map, List.length_range] at h1
      simp [List.getElem?_eq_getElem h1]
  · intro a ha
    obtain ⟨k, hk, rfl⟩ := R20.range_mem _ a ha
    have hg : Py.getItem (ns.map List.range) (k : Int) = .ok (List.range ns[k]) := by
      rw [R20.getItem_range _ k (by simpa using hk)]; simp
    simp only [hg, except_ok_bind, len_eq, List.length_range, Int.toNat_natCast, List.getElem?_eq_getElem hk, Option.getD_some]
    rfl

/-- `v.get() if v.has_children() else [v.get()]`, for every declared class: the flattened scalar variables of `v` -/
theorem vd_flat (v : VarDecl) :
    (if Src.vd_has_children v then (do return (← Py.getAsList (← Src.vd_get v)))
      else (do return (← [(← Src.vd_get v)].mapM Py.getAsOne)) : Except Err (List Var)) = .ok v.children := by
  cases v with
  | cont lb ub => rfl
  | disc n => rfl
  | perm n => rfl
  | contMulti lbs ubs => simp [Src.vd_has_children, Src.contmulti_has_children, Id.run, Src.vd_get, contmulti_children_eq, Py.getAsList]; rfl
  | multiObj lbs ubs => simp [Src.vd_has_children, Src.multiobj_has_children, Id.run, Src.vd_get, multiobj_children_eq, Py.getAsList]; rfl
  | binary n => simp [Src.vd_has_children, Src.binary_has_children, Id.run, Src.vd_get, binary_children_eq, Py.getAsList]; rfl
  | discMulti ns => simp [Src.vd_has_children, Src.discmulti_has_children, Id.run, Src.vd_get, discmulti_children_eq, Py.getAsList]; rfl

theorem task_get_variables_eq (vars : List VarDecl) :
    Src.task_get_variables vars = .ok (TaskDecl.getVariables ⟨vars⟩) := by
  unfold Src.task_get_variables TaskDecl.getVariables
  have : vars.mapM (fun v => (do return ((← (if Src.vd_has_children v then (do return (← Py.getAsList (← Src.vd_get v)))
      else (do return (← [(← Src.vd_get v)].mapM Py.getAsOne)))).map (fun item => item)) : Except Err (List Var)))
      = .ok (vars.map VarDecl.children) := by
    apply R20.mapM_congr_ok
    intro v _
    rw [vd_flat v]
    simp
  rw [this]
  simp [List.flatMap]
  rfl

theorem correct_zip (raws : List Raw) (vs : List Var) :
    (Py.zip raws vs).mapM (fun (x : Raw × Var) => (do return (← Var.correct x.2 x.1) : Except Err Coord)) = TaskDecl.correctList raws vs := by
  induction raws generalizing vs with
  | nil => simp [Py.zip, TaskDecl.correctList]; rfl
  | cons c cs ih =>
    cases vs with
    | nil => simp [Py.zip, TaskDecl.correctList]; rfl
    | cons v vs =>
      have := ih vs
      simp only [Py.zip, List.zip_cons_cons, List.mapM_cons, TaskDecl.correctList, bind_pure] at this ⊢
      rw [this]
      cases Var.correct v c <;> rfl

theorem task_correct_solution_eq (vars : List VarDecl) (raws : List Raw) :
    Src.task_correct_solution vars raws = TaskDecl.correctSolution ⟨vars⟩ raws := by
  unfold Src.task_correct_solution TaskDecl.correctSolution
  rw [task_get_variables_eq]
  simp only [except_ok_bind]
  exact correct_zip raws (TaskDecl.getVariables ⟨vars⟩)

end R14

/-!
## bounds: refinement of `get_bounds` of every declared variable class and `Task.get_bounds` *as the source reads now* are the model's
`lowerEntries / upperEntries / getBounds` (C14: one lower / upper pair per coordinate, equal to that coordinate's own variable bounds).
The only floating-point expressions in these functions are named: `n_items - 1e-4` is the parameter `permUb` (what doubles give for it is
observed, `VarDecl.permUbOk`), `2 - np.finfo(float).eps` is the exact constant `binaryUb`; any other float expression is untranslatable.
-/

namespace R14
open Py

theorem discmulti_get_bounds_eq (ns : List Nat) :
    Src.discmulti_get_bounds (ns.map List.range) = .ok (ns.map (fun _ => Num.fin 0), ns.map discUb) := by
  unfold Src.discmulti_get_bounds
  rw [discmulti_children_eq]
  simp only [except_ok_bind, VarDecl.children, List.mapM_map]
  have : (ns.mapM (fun n => (do return (← Src.var_get_bounds_scalar (Var.disc n)) : Except Err (Num × Num))))
      = .ok (ns.map (fun n => ((Num.fin 0 : Num), discUb n))) := by
    apply R20.mapM_congr_ok
    intro n _
    simp [Src.var_get_bounds_scalar, Src.disc_get_bounds, Id.run, intNum, discUb]
  simp only [Function.comp_def] at this ⊢
  rw [this]
  show Except.ok _ = _
  simp [List.map_map, Function.comp_def]

/-- what one declared variable contributes to `lb` / `ub` in `Task.get_bounds` -/
theorem vd_bounds_entries (permUb : Nat → Num) (v : VarDecl) :
    (do let b ← Src.vd_get_bounds permUb v
        let l ← (if Src.vd_has_children v then (do return (← Py.bentryAsList b.1)) else (do return [b.1]) : Except Err (List BEntry))
        let u ← (if Src.vd_has_children v then (do return (← Py.bentryAsList b.2)) else (do return [b.2]) : Except Err (List BEntry))
        return (l, u) : Except Err (List BEntry × List BEntry))
      = .ok (v.lowerEntries, v.upperEntries permUb) := by
  cases v with
  | cont lb ub => rfl
  | disc n =>
    simp [Src.vd_get_bounds, Src.disc_get_bounds, Src.vd_has_children, Src.disc_has_children, Id.run, VarDecl.lowerEntries,
      VarDecl.upperEntries, intNum, discUb]
    rfl
  | perm n =>
    simp [Src.vd_get_bounds, Src.perm_get_bounds, Src.vd_has_children, Src.perm_has_children, Id.run, VarDecl.lowerEntries,
      VarDecl.upperEntries]
    rfl
  | contMulti lbs ubs =>
    simp [Src.vd_get_bounds, Src.contmulti_get_bounds, Src.vd_has_children, Src.contmulti_has_children, Id.run,
      VarDecl.lowerEntries, VarDecl.upperEntries, Py.bentryAsList]
    rfl
  | multiObj lbs ubs =>
    simp [Src.vd_get_bounds, Src.multiobj_get_bounds, Src.vd_has_children, Src.multiobj_has_children, Id.run,
      VarDecl.lowerEntries, VarDecl.upperEntries, Py.bentryAsList]
    rfl
  | binary n =>
    simp [Src.vd_get_bounds, Src.binary_get_bounds, Src.vd_has_children, Src.binary_has_children, Id.run,
      VarDecl.lowerEntries, VarDecl.upperEntries, Py.bentryAsList]
    rfl
  | discMulti ns =>
    simp [Src.vd_get_bounds, discmulti_get_bounds_eq, Src.vd_has_children, Src.discmulti_has_children, Id.run,
      VarDecl.lowerEntries, VarDecl.upperEntries, Py.bentryAsList, List.map_map, Function.comp_def]
    show Except.ok _ = _
    simp [List.map_map, Function.comp_def]


/-- the loop of `Task.get_bounds`: both accumulators grow by each variable's entries -/
theorem bounds_loop (permUb : Nat → Num) (vars : List VarDecl) (l0 u0 : List BEntry) :
    (forIn vars (l0, u0) (fun v (s : List BEntry × List BEntry) => (do
        let b ← Src.vd_get_bounds permUb v
        let l ← (if Src.vd_has_children v = true then Py.bentryAsList b.1 else pure [b.1])
        let u ← (if Src.vd_has_children v = true then Py.bentryAsList b.2 else pure [b.2])
        pure (ForInStep.yield (s.1 ++ l, s.2 ++ u)) : Except Err (ForInStep (List BEntry × List BEntry)))))
      = .ok (l0 ++ vars.flatMap VarDecl.lowerEntries, u0 ++ vars.flatMap (VarDecl.upperEntries permUb)) := by
  induction vars generalizing l0 u0 with
  | nil => simp; rfl
  | cons v vs ih =>
    have hv := vd_bounds_entries permUb v
    simp only [bind_pure_comp, map_pure] at hv
    rw [List.forIn_cons]
    cases hb : Src.vd_get_bounds permUb v with
    | error e => simp [hb] at hv; cases hv
    | ok b =>
      simp only [hb, except_ok_bind] at hv ⊢
      cases hl : (if Src.vd_has_children v = true then Py.bentryAsList b.1 else pure [b.1] : Except Err (List BEntry)) with
      | error e => simp [hl] at hv; cases hv
      | ok l =>
        simp only [hl, except_ok_bind] at hv ⊢
        cases hu : (if Src.vd_has_children v = true then Py.bentryAsList b.2 else pure [b.2] : Except Err (List BEntry)) with
        | error e => simp [hu] at hv; cases hv
        | ok u =>
          simp only [hu, except_ok_bind] at hv ⊢
          have hlu : l = v.lowerEntries ∧ u = v.upperEntries permUb := by
            have : (Except.ok (l, u) : Except Err _) = .ok (v.lowerEntries, v.upperEntries permUb) := hv
            cases this; exact ⟨rfl, rfl⟩
          obtain ⟨rfl, rfl⟩ := hlu
          have := ih (l0 ++ v.lowerEntries) (u0 ++ v.upperEntries permUb)
          simp only [List.flatMap_cons, List.append_assoc] at this ⊢
          exact this

theorem task_get_bounds_eq (permUb : Nat → Num) (vars : List VarDecl) :
    Src.task_get_bounds permUb vars = TaskDecl.getBounds permUb ⟨vars⟩ := by
  unfold Src.task_get_bounds TaskDecl.getBounds
  simp only []
  have := bounds_loop permUb vars [] []
  simp only [List.nil_append] at this
  rw [this]
  simp only [except_ok_bind, Py.npArray]
  cases h1 : TaskDecl.homogeneous (List.flatMap VarDecl.lowerEntries vars) <;>
    cases h2 : TaskDecl.homogeneous (List.flatMap (VarDecl.upperEntries permUb) vars) <;> simp <;> rfl

end R14

/-!
## `Task.transform_solution`: refinement of the slicing of a position among the declared variables

The offsets (`counter`), the slice `x[counter:counter + v.size()]`, the argument selection `temp if v.has_children() else temp[0]`, the special
case `len(x) == 1` and the dict keyed by `v.name` are the source's, translated; `v.decode(arg)` is the model's per-class `decodeVar` (pinned, T13).
A dict is an insertion-ordered association list: `d[k] = v` replaces in place or appends (`Py.dictSet`), so the statement needs no assumption on
the names — with pairwise distinct names the result is one entry per declared variable, in order (`dict_of_distinct`).
-/

namespace R14
open Py TaskDecl

/-- the dict the loop builds from the model's list of decoded slices, keyed by the variables' names -/
def keyed (name_of : VarDecl → String) (sol : List (String × Decoded)) (l : List (Nat × Decoded)) (vs : List VarDecl) : List (String × Decoded) :=
  (l.zip vs).foldl (fun d p => Py.dictSet d (name_of p.2) p.1.2) sol

theorem decode_arg_eq (v : VarDecl) (temp : List Coord) :
    (if Src.vd_has_children v = true then pure (DArg.many temp)
      else (do let c ← Py.getItem temp 0; pure (DArg.one c)) : Except Err DArg) = decodeArg v temp := by
  unfold decodeArg
  rw [vd_has_children_eq]
  cases v.hasChildren
  · simp only [Bool.false_eq_true, ↓reduceIte]
    cases temp <;> rfl
  · rfl

theorem slice_nat_add (x : List Coord) (c s : Nat) : Py.slice x (c : Int) ((c : Int) + (s : Int)) = (x.drop c).take s := by
  have : ((c : Int) + (s : Int)) = ((c + s : Nat) : Int) := by simp
  rw [this, slice_nat, List.drop_take]
  congr 1; omega

theorem transform_loop_eq (name_of : VarDecl → String) (x : List Coord) (vs : List VarDecl) (hv : ∀ v ∈ vs, v.valid = true)
    (idx c : Nat) (sol : List (String × Decoded)) :
    (forIn vs ((c : Int), sol) (fun v (s : Int × List (String × Decoded)) => (do
        let a ← decodeArg v (Py.slice x s.1 (s.1 + Src.vd_size v))
        let d ← decodeVar v a
        pure (ForInStep.yield (s.1 + Src.vd_size v, Py.dictSet s.2 (name_of v) d)) : Except Err (ForInStep (Int × List (String × Decoded))))))
      = (transformLoop x vs idx c).map (fun l => ((((c + (vs.map VarDecl.size).sum : Nat)) : Int), keyed name_of sol l vs)) := by
  induction vs generalizing idx c sol with
  | nil => simp [transformLoop, keyed, Except.map]; rfl
  | cons v vs ih =>
    have hsz : Src.vd_size v = (v.size : Int) := vd_size_eq v (hv v List.mem_cons_self)
    rw [List.forIn_cons]
    simp only [hsz, slice_nat_add, transformLoop]
    cases hda : decodeArg v ((x.drop c).take v.size) with
    | error e => rfl
    | ok a =>
      simp only [except_ok_bind]
      cases hd : decodeVar v a with
      | error e => rfl
      | ok d =>
        simp only [except_ok_bind]
        have hc : ((c : Int) + (v.size : Int)) = ((c + v.size : Nat) : Int) := by simp
        have := ih (fun w hw => hv w (List.mem_cons_of_mem _ hw)) (idx + 1) (c + v.size) (Py.dictSet sol (name_of v) d)
        rw [hc]
        simp only [pure, Except.pure, except_ok_bind] at this ⊢
        rw [this]
        cases transformLoop x vs (idx + 1) (c + v.size) with
        | error e => rfl
        | ok rest =>
          simp only [Except.map, except_ok_bind, keyed, List.zip_cons_cons, List.foldl_cons, List.map_cons, List.sum_cons]
          congr 2
          omega

/-- **`Task.transform_solution`** as the source reads now is the model's `transformSolution`, entry for entry, keyed by the variables' names -/
theorem task_transform_solution_eq (name_of : VarDecl → String) (vars : List VarDecl) (hv : ∀ v ∈ vars, v.valid = true) (x : List Coord) :
    Src.task_transform_solution name_of vars x = (transformSolution ⟨vars⟩ x).map (fun l => keyed name_of [] l vars) := by
  unfold Src.task_transform_solution transformSolution
  simp only []
  by_cases h1 : x.length = 1
  · have : decide (Py.len x = 1) = true := by rw [decide_eq_true_iff]; show ((x.length : Int) = 1); omega
    simp only [this, h1, ↓reduceIte]
    cases vars with
    | nil => rfl
    | cons v vs =>
      have hg : Py.getItem (v :: vs) 0 = .ok v := rfl
      simp only [hg, except_ok_bind, decode_arg_eq]
      cases decodeArg v x with
      | error e => rfl
      | ok a =>
        simp only [except_ok_bind]
        cases decodeVar v a <;> rfl
  · have : ¬ (decide (Py.len x = 1) = true) := by rw [decide_eq_true_iff]; show ¬ ((x.length : Int) = 1); omega
    simp only [this, h1, ↓reduceIte, decode_arg_eq]
    have hl := transform_loop_eq name_of x vars hv 0 0 []
    simp only [Int.natCast_zero] at hl
    rw [hl]
    cases transformLoop x vars 0 0 <;> rfl

/-- with pairwise distinct keys, storing into the dict is appending -/
theorem dictSet_fresh {β : Type} (d : List (String × β)) (k : String) (v : β) (h : k ∉ d.map Prod.fst) :
    Py.dictSet d k v = d ++ [(k, v)] := by
  induction d with
  | nil => rfl
  | cons p rest ih =>
    simp only [List.map_cons, List.mem_cons, not_or] at h
    have hne : ¬ (p.1 = k) := fun e => h.1 e.symm
    simp only [Py.dictSet, hne, ↓reduceIte, ih h.2, List.cons_append]

/-- **`Task.__init__`** as the source reads now: `space_dimension` is the sum of the declared variables' sizes — the model's `dim` — whatever value
the caller passed for it (C14, first clause) -/
theorem task_init_eq (vars : List VarDecl) (hv : ∀ v ∈ vars, v.valid = true) (sd : Int) :
    Src.task_init vars sd = .ok (vars, ((TaskDecl.dim ⟨vars⟩ : Nat) : Int)) := by
  unfold Src.task_init TaskDecl.dim
  simp only []
  have h : ∀ l : List VarDecl, (∀ v ∈ l, v.valid = true) → (l.map (fun v => Src.vd_size v)).sum = (((l.map VarDecl.size).sum : Nat) : Int) := by
    intro l hl
    induction l with
    | nil => rfl
    | cons v vs ih =>
      simp only [List.map_cons, List.sum_cons, vd_size_eq v (hl v List.mem_cons_self), ih (fun w hw => hl w (List.mem_cons_of_mem _ hw))]
      omega
  rw [h vars hv]
  rfl

/-! ## `correct` of the four multi-variable classes: the children's `correct`, coordinate by coordinate -/

/-- `[v.correct(value[idx]) for idx, v in enumerate(children)]` from index `k` on -/
theorem enum_correct_from (value : List Raw) (cs : List Var) (k : Nat) (h : k + cs.length ≤ value.length) :
    ((List.range' k cs.length).zip cs).mapM (fun (p : Nat × Var) => (do return (← Var.correct p.2 (← Py.getNat value p.1)) : Except Err Coord))
      = TaskDecl.correctList (value.drop k) cs := by
  induction cs generalizing k with
  | nil => simp [TaskDecl.correctList]; rfl
  | cons v vs ih =>
    have hk : k < value.length := by simp at h; omega
    have hd : value.drop k = value[k] :: value.drop (k + 1) := List.drop_eq_getElem_cons hk
    have hg : Py.getNat value k = .ok value[k] := by rw [getNat_eq, List.getElem?_eq_getElem hk]
    simp only [List.length_cons, List.range'_succ, List.zip_cons_cons, List.mapM_cons, hg, except_ok_bind]
    rw [hd]
    simp only [TaskDecl.correctList]
    cases Var.correct v value[k] with
    | error e => rfl
    | ok y =>
      simp only [except_ok_bind]
      rw [ih (k + 1) (by simp at h; omega)]
      cases TaskDecl.correctList (value.drop (k + 1)) vs <;> rfl

/-- a value list at least as long as the children: the multi-variable's `correct` is the children's, coordinate by coordinate; coordinates beyond the last
child are ignored (the list comprehension runs over the children) -/
theorem multi_correct_eq (value : List Raw) (cs : List Var) (h : cs.length ≤ value.length) :
    (Py.enumerate cs).mapM (fun (p : Nat × Var) => (do return (← Var.correct p.2 (← Py.getNat value p.1)) : Except Err Coord)) = TaskDecl.correctList value cs := by
  have := enum_correct_from value cs 0 (by omega)
  simpa [Py.enumerate, List.range_eq_range'] using this

theorem contmulti_correct_eq (lbs ubs : List Num) (value : List Raw) (h : (VarDecl.contMulti lbs ubs).children.length ≤ value.length) :
    Src.contmulti_correct lbs ubs value = TaskDecl.correctList value (VarDecl.contMulti lbs ubs).children := by
  unfold Src.contmulti_correct
  rw [contmulti_children_eq]
  exact multi_correct_eq value _ h

theorem multiobj_correct_eq (lbs ubs : List Num) (value : List Raw) (h : (VarDecl.multiObj lbs ubs).children.length ≤ value.length) :
    Src.multiobj_correct lbs ubs value = TaskDecl.correctList value (VarDecl.multiObj lbs ubs).children := by
  unfold Src.multiobj_correct
  rw [multiobj_children_eq]
  exact multi_correct_eq value _ h

theorem binary_correct_eq (n : Int) (value : List Raw) (h : (VarDecl.binary n).children.length ≤ value.length) :
    Src.binary_correct n value = TaskDecl.correctList value (VarDecl.binary n).children := by
  unfold Src.binary_correct
  rw [binary_children_eq]
  exact multi_correct_eq value _ h

theorem discmulti_correct_eq (ns : List Nat) (value : List Raw) (h : (VarDecl.discMulti ns).children.length ≤ value.length) :
    Src.discmulti_correct (ns.map List.range) value = TaskDecl.correctList value (VarDecl.discMulti ns).children := by
  unfold Src.discmulti_correct
  rw [discmulti_children_eq]
  simp only [except_ok_bind]
  exact multi_correct_eq value _ h

end R14
