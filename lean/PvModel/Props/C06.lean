import PvModel.Props.C04
import PvModel.Props.C02
/-!
# C06 — a valid problem yields a result; an invalid call is rejected up front

What is proved is the framework's half of the property:

* `prologue_rejects_iff`   : `optimize` raises before touching the optimizer **iff** the configuration is missing, the worker count is
                             non-positive or the mode is unknown — and then no step runs (`optimize_rejected_no_step`).
* `optimize_total`         : a valid call of an optimizer whose phases return and never empty the population yields a complete result
                             (`evolution`, `rates`, `best_solution`): every unpacking / indexing of the framework is discharged in the model.
* `signIn_multi_elementwise`: the sign flip of a list of objectives is element-wise (the pinned tree computed `-1 * list = []`).
* `weights_checked_first`  : an objective/weight count mismatch makes the very first `_init_agent` raise `ValueError`.
* validators               : see `C13.valid_*`.

That the 84 numerical update rules raise nothing is outside any executable model of ours; it is established run by run by the strict
stream of the C06 check (correspondence level), and every failure found is keyed (optimizer, exception type, raising function).
-/

namespace C06

theorem prologue_rejects_iff (c : Call) :
    (∃ e, prologue c = .error e) ↔ (c.hasConfig = false ∨ (∃ w, c.workers = some w ∧ w ≤ 0) ∨ c.modeValid = some false) := by
  obtain ⟨hc, w, m⟩ := c
  cases hc
  · simp [prologue]
  · cases w with
    | none =>
      cases m with
      | none => simp [prologue]
      | some b => cases b <;> simp [prologue]
    | some w =>
      by_cases h : w ≤ 0
      · simp [prologue, h]
      · cases m with
        | none => simp [prologue, h]
        | some b => cases b <;> simp [prologue, h]

/-- every rejection is a `ValueError` -/
theorem prologue_error_is_valueError (c : Call) (e : Err) (h : prologue c = .error e) : e = .valueError := by
  unfold prologue at h
  repeat' split at h
  all_goals first | (cases h; rfl) | cases h

/-- a rejected call never reaches the optimizer: the result is the prologue's error whatever the optimizer is -/
theorem optimize_rejected_no_step {R σ : Type} (ar : Arith R) (cfg : StopCfg R) (alg alg' : Alg σ) (rate : List Agent → R) (dir : Dir)
    (c : Call) (s0 : σ) (e : Err) (h : prologue c = .error e) :
    optimize ar cfg alg rate dir c s0 = .error e ∧ optimize ar cfg alg' rate dir c s0 = .error e := by
  simp [optimize, h]

/-- a valid call, an optimizer whose initialisation and steps return and keep the population non-empty ⇒ a complete result -/
theorem optimize_total {R σ : Type} (ar : Arith R) (cfg : StopCfg R) (alg : Alg σ) (rate : List Agent → R) (dir : Dir)
    (stepT : σ → σ) (tot : C04.Total alg stepT) (s0 s1 : σ) (hinit : alg.init s0 = .ok s1)
    (c : Call) (hc : prologue c = .ok ()) :
    ∃ res sN bN, optimize ar cfg alg rate dir c s0 = .ok (res, sN, bN) ∧
      res.evolution ≠ [] ∧ res.rates.length + 1 = res.evolution.length := by
  obtain ⟨N, res, sN, bN, h1, _, _, _, h5, h6, h7, _, _⟩ := C04.c04_first ar cfg alg rate dir stepT tot s0 s1 hinit
  refine ⟨res, sN, bN, by simp [optimize, hc, h5], ?_, ?_⟩
  · rw [h6]; simp
  · rw [h6, h7]; simp [C04.ratesUpTo]

theorem signIn_multi_elementwise (xs : List Num) : signIn .max (.multi xs) = .multi (xs.map Num.neg) ∧ signIn .min (.multi xs) = .multi xs :=
  ⟨rfl, rfl⟩

/-- the sign flip keeps the number of objectives, so the weight check sees the user's own count -/
theorem signIn_keeps_count (d : Dir) (xs : List Num) : ∃ ys, signIn d (.multi xs) = .multi ys ∧ ys.length = xs.length := by
  cases d
  · exact ⟨xs, rfl, rfl⟩
  · exact ⟨xs.map Num.neg, rfl, by simp⟩

theorem weights_checked_first (T : TaskSem) (raw : List Raw) (tag : Nat) (w xs : List Num) (hw : T.weights = some w)
    (hF : ∀ p, T.F p = .multi xs) (hlen : w.length ≠ xs.length) (a : Agent) (arg : List Coord) :
    mkAgent T raw tag ≠ .ok (a, arg) := by
  intro h
  unfold mkAgent at h
  cases h1 : T.decl.correctSolution raw with
  | error e => simp [h1, bind, Except.bind] at h
  | ok pos =>
    cases h2 : T.decl.correctSolution (pos.map Coord.toRaw) with
    | error e => simp [h1, h2, bind, Except.bind] at h
    | ok arg' =>
      simp [h1, h2, bind, Except.bind, hw, hF, C02.weights_mismatch_rejected T.dot w xs hlen T.dir] at h

example : prologue { hasConfig := true, workers := some 2, modeValid := some true } = .ok () := rfl
example : prologue { hasConfig := true, workers := some 0, modeValid := none } = .error .valueError := rfl


/-! ## totality for disciplined optimizers: the only ways a run can fail

`dalg_optimize_total` pins down what "does not fail part-way" rests on.  For an optimizer that obeys the agent discipline, a valid
call returns a complete result provided (1) the objective/weight counts match (`WeighOK`), (2) its phases contain no raising node,
hand `_init_agent` RawOK candidates only, and finish with a non-empty population of valid references (`Prog.Total`) — i.e. provided
the *numerical bodies* do not raise.  Everything the framework itself does (correction, evaluation, sign, weights, fitness, sorting,
unpacking of `special_agents`, bookkeeping, packaging) is discharged.  The 26 recorded C06 findings are all violations of (2) inside
numerical bodies (÷0, sample sizes, index arithmetic). -/

/-- a phase that cannot fail by itself; the index is the size of the arena it starts from -/
inductive ProgTotal (T : TaskSem) : Prog σ → Nat → Prop where
  | done (s : σ) (pop : List Nat) (n : Nat) : pop ≠ [] → (∀ i ∈ pop, i < n) → ProgTotal T (.done s pop) n
  | eval (raw : List Raw) (k : Agent → Prog σ) (n : Nat) : rawOKList T.vars raw = true → (∀ a, ProgTotal T (k a) (n + 1)) →
      ProgTotal T (.eval raw k) n

/-- the number of objectives matches the number of weights at every point of the search space -/
def WeighOK (T : TaskSem) : Prop := ∀ p, memList T.vars p = true → ∃ c, weigh T.dot T.weights (signIn T.dir (T.F p)) = .ok c

theorem resolve_ok (arena : List Agent) (pop : List Nat) (h : ∀ i ∈ pop, i < arena.length) :
    ∃ l, resolve arena pop = .ok l ∧ l.length = pop.length := by
  induction pop with
  | nil => exact ⟨[], rfl, rfl⟩
  | cons i is ih =>
    obtain ⟨l, hl, hlen⟩ := ih (fun j hj => h j (List.mem_cons_of_mem _ hj))
    have hi := h i List.mem_cons_self
    exact ⟨arena[i] :: l, by simp [resolve, List.getElem?_eq_getElem hi, hl, bind, Except.bind], by simp [hlen]⟩

theorem mkAgent_ok (T : TaskSem) (hT : T.WF) (hW : WeighOK T) (raw : List Raw) (hraw : rawOKList T.vars raw = true) (tag : Nat) :
    ∃ a arg, mkAgent T raw tag = .ok (a, arg) := by
  cases h : mkAgent T raw tag with
  | ok r => exact ⟨r.1, r.2, rfl⟩
  | error e =>
    obtain ⟨ys, hm, he⟩ := mkAgent_error T hT raw hraw tag e h
    obtain ⟨c, hc⟩ := hW ys hm
    rw [hc] at he; cases he

theorem exec_total (T : TaskSem) (hT : T.WF) (hW : WeighOK T) (p : Prog σ) (n : Nat) (hp : ProgTotal T p n)
    (arena : List Agent) (hn : arena.length = n) (calls : List (List Coord)) :
    ∃ st, p.exec T arena calls = .ok st ∧ st.agents ≠ [] := by
  induction hp generalizing arena calls with
  | done s pop n hne hlt =>
    obtain ⟨l, hl, hlen⟩ := resolve_ok arena pop (fun i hi => hn ▸ hlt i hi)
    refine ⟨{ priv := s, arena := arena, pop := pop, calls := calls }, by simp [Prog.exec, hl], ?_⟩
    simp only [RunState.agents, hl, Except.toOption, Option.getD]
    intro h0; rw [h0] at hlen; simp at hlen; exact hne (List.length_eq_zero_iff.mp hlen.symm)
  | eval raw k n hraw _ ih =>
    obtain ⟨a, arg, hm⟩ := mkAgent_ok T hT hW raw hraw arena.length
    obtain ⟨st, hst, hne⟩ := ih a (arena ++ [a]) (by simp [hn]) (calls ++ [arg])
    exact ⟨st, by simp [Prog.exec, hm, hst], hne⟩

/-- a disciplined optimizer whose phases cannot fail by themselves -/
structure DAlgTotal (T : TaskSem) (A : DAlg σ) : Prop where
  init : ∀ s, ProgTotal T (A.init s) 0
  step : ∀ s arena pop, ProgTotal T (A.step s arena pop) arena.length

/-- **C06 for disciplined optimizers**: a valid call of an optimizer whose numerical bodies do not raise returns a complete
`OptimizationResult` — whatever its update rule, objective, configuration, direction. -/
theorem dalg_optimize_total {R σ : Type} (T : TaskSem) (hT : T.WF) (hW : WeighOK T) (A : DAlg σ) (hA : DAlgTotal T A)
    (ar : Arith R) (cfg : StopCfg R) (rate : List Agent → R) (c : Call) (hc : prologue c = .ok ()) (s0 : σ) :
    ∃ res sN bN, optimize ar cfg (A.toAlg T) rate T.dir c ⟨s0, [], [], []⟩ = .ok (res, sN, bN) ∧
      res.evolution ≠ [] ∧ res.evolution.length = res.rates.length + 1 := by
  have hinit : ∃ s1, (A.toAlg T).init ⟨s0, [], [], []⟩ = .ok s1 ∧ s1.agents ≠ [] ∧ (A.toAlg T).pop s1 ≠ [] := by
    obtain ⟨st, h1, h2⟩ := exec_total T hT hW (A.init s0) 0 (hA.init s0) [] rfl []
    exact ⟨st, h1, h2, h2⟩
  have hstep : ∀ s : RunState σ, s.agents ≠ [] → ∃ s', (A.toAlg T).step s = .ok s' ∧ s'.agents ≠ [] ∧ (A.toAlg T).pop s' ≠ [] := by
    intro s _
    obtain ⟨st, h1, h2⟩ := exec_total T hT hW (A.step s.priv s.arena s.pop) s.arena.length (hA.step s.priv s.arena s.pop) s.arena rfl s.calls
    exact ⟨st, h1, h2, h2⟩
  obtain ⟨res, sN, bN, h, h1, h2⟩ := runBody_ok ar cfg (A.toAlg T) rate T.dir (fun s => s.agents ≠ []) ⟨s0, [], [], []⟩
    (by obtain ⟨s1, a, b, c⟩ := hinit; exact ⟨s1, a, b, c⟩) hstep (fun s hs => hs)
  exact ⟨res, sN, bN, by simp [optimize, hc, h], h1, h2⟩

end C06
