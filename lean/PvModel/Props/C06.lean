import PvModel.Props.C04
import PvModel.Props.C02
/-!
# C06 — a valid problem yields a result; an invalid call is rejected up front

What is proved is the framework's half of the property:

* `prologue_rejects_iff`   : `optimize` raises before touching the optimizer **iff** the configuration is missing, the worker count is
                             non-positive or the mode is unknown — and then no step runs (`optimize_rejected_no_step`).
* `optimize_total`         : a valid call of an optimizer whose phases return and never empty the population yields a complete result
                             (`evolution`, `rates`, `best_solution`): every unpacking / indexing of the framework is discharged in the model.
* `signIn_multi_elementwise`: the sign flip of a list of objectives is element-wise (the pinned tree computed `-1 * list = []`).
* `weights_checked_first`  : an objective/weight count mismatch makes the very first `_init_agent` raise `ValueError`.
* validators               : see `C13.valid_*`.

That the 84 numerical update rules raise nothing is outside any executable model of ours; it is established run by run by the strict
stream of the C06 check (correspondence level), and every failure found is keyed (optimizer, exception type, raising function).
-/

namespace C06

theorem prologue_rejects_iff (c : Call) :
    (∃ e, prologue c = .error e) ↔ (c.hasConfig = false ∨ (∃ w, c.workers = some w ∧ w ≤ 0) ∨ c.modeValid = some false) := by
  obtain ⟨hc, w, m⟩ := c
  cases hc
  · simp [prologue]
  · cases w with
    | none =>
      cases m with
      | none => simp [prologue]
      | some b => cases b <;> simp [prologue]
    | some w =>
      by_cases h : w ≤ 0
      · simp [prologue, h]
      · cases m with
        | none => simp [prologue, h]
        | some b => cases b <;> simp [prologue, h]

/-- every rejection is a `ValueError` -/
theorem prologue_error_is_valueError (c : Call) (e : Err) (h : prologue c = .error e) : e = .valueError := by
  unfold prologue at h
  repeat' split at h
  all_goals first | (cases h; rfl) | cases h

/-- a rejected call never reaches the optimizer: the result is the prologue's error whatever the optimizer is -/
theorem optimize_rejected_no_step {R σ : Type} (ar : Arith R) (cfg : StopCfg R) (alg alg' : Alg σ) (rate : List Agent → R) (dir : Dir)
    (c : Call) (s0 : σ) (e : Err) (h : prologue c = .error e) :
    optimize ar cfg alg rate dir c s0 = .error e ∧ optimize ar cfg alg' rate dir c s0 = .error e := by
  simp [optimize, h]

/-- a valid call, an optimizer whose initialisation and steps return and keep the population non-empty ⇒ a complete result -/
theorem optimize_total {R σ : Type} (ar : Arith R) (cfg : StopCfg R) (alg : Alg σ) (rate : List Agent → R) (dir : Dir)
    (stepT : σ → σ) (tot : C04.Total alg stepT) (s0 s1 : σ) (hinit : alg.init s0 = .ok s1)
    (c : Call) (hc : prologue c = .ok ()) :
    ∃ res sN bN, optimize ar cfg alg rate dir c s0 = .ok (res, sN, bN) ∧
      res.evolution ≠ [] ∧ res.rates.length + 1 = res.evolution.length := by
  obtain ⟨N, res, sN, bN, h1, _, _, _, h5, h6, h7, _, _⟩ := C04.c04_first ar cfg alg rate dir stepT tot s0 s1 hinit
  refine ⟨res, sN, bN, by simp [optimize, hc, h5], ?_, ?_⟩
  · rw [h6]; simp
  · rw [h6, h7]; simp [C04.ratesUpTo]

theorem signIn_multi_elementwise (xs : List Num) : signIn .max (.multi xs) = .multi (xs.map Num.neg) ∧ signIn .min (.multi xs) = .multi xs :=
  ⟨rfl, rfl⟩

/-- the sign flip keeps the number of objectives, so the weight check sees the user's own count -/
theorem signIn_keeps_count (d : Dir) (xs : List Num) : ∃ ys, signIn d (.multi xs) = .multi ys ∧ ys.length = xs.length := by
  cases d
  · exact ⟨xs, rfl, rfl⟩
  · exact ⟨xs.map Num.neg, rfl, by simp⟩

theorem weights_checked_first (T : TaskSem) (raw : List Raw) (tag : Nat) (w xs : List Num) (hw : T.weights = some w)
    (hF : ∀ p, T.F p = .multi xs) (hlen : w.length ≠ xs.length) (a : Agent) (arg : List Coord) :
    mkAgent T raw tag ≠ .ok (a, arg) := by
  intro h
  unfold mkAgent at h
  cases h1 : T.decl.correctSolution raw with
  | error e => simp [h1, bind, Except.bind] at h
  | ok pos =>
    cases h2 : T.decl.correctSolution (pos.map Coord.toRaw) with
    | error e => simp [h1, h2, bind, Except.bind] at h
    | ok arg' =>
      simp [h1, h2, bind, Except.bind, hw, hF, C02.weights_mismatch_rejected T.dot w xs hlen T.dir] at h

example : prologue { hasConfig := true, workers := some 2, modeValid := some true } = .ok () := rfl
example : prologue { hasConfig := true, workers := some 0, modeValid := none } = .error .valueError := rfl

end C06
