import PvModel.Props.Tables
/-! Table obligation (regenerated facts, decided by kernel evaluation over the whole table): every private field observable at step entry or read during per-run initialisation is (re)initialised per run or is a constructor constant. -/
namespace T08
open Generated Tables
theorem table_no_leaking_fields : ∀ a ∈ algos, noLeak a = true := by decide
end T08
