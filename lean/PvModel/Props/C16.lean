import PvModel.Lemmas.SelectLemmas
/-!
# C16 — selection helpers return exactly the best / worst members asked for

For every population with NaN-free costs, every `n` and both directions:
`best_agents` / `worst_agents` / `special_agents` return `n` members of the population (a sub-permutation), best first resp.
worst last, and no omitted agent is strictly better (worse) than a returned one; the `_indexes` variants designate agents with
the same costs (for *any* argsort numpy may return on ties); `sort_and_trim` keeps the `n` cheapest in ascending order;
greedy replacement keeps the incumbent unless the challenger is strictly cheaper, element-wise on cost-sorted populations.
Purity (the caller's list is not mutated or reordered) holds by construction in the functional model and is checked on the
implementation by identity/order probes in `S-select`.
-/

namespace C16

/-! ## best_agents -/

theorem bestAgents_length (d : Dir) (pop : List Agent) (n : Nat) (hn : n ≤ pop.length) : (bestAgents d pop n).length = n := by
  simp [bestAgents, sortByCost_length, Nat.min_eq_left hn]

/-- the `n` returned agents together with the omitted ones are exactly the population (no agent invented, lost or duplicated). -/
theorem bestAgents_partition (d : Dir) (pop : List Agent) (n : Nat) :
    (bestAgents d pop n ++ (sortByCost d pop).drop n).Perm pop := by
  unfold bestAgents
  rw [List.take_append_drop]
  exact sortByCost_perm d pop

theorem bestAgents_mem (d : Dir) (pop : List Agent) (n : Nat) : ∀ a ∈ bestAgents d pop n, a ∈ pop :=
  fun _ ha => mem_sortByCost.mp (List.mem_of_mem_take ha)

/-- best first. -/
theorem bestAgents_sorted (d : Dir) (pop : List Agent) (n : Nat) (h : NoNaN pop) :
    (bestAgents d pop n).Pairwise (fun a b => better d b.cost a.cost = false) :=
  ((sortByCost_sorted d pop h).sublist (List.take_sublist n _)).imp (fun h' => not_better_of_costLe d _ _ h')

/-- no omitted agent is strictly better than a returned one. -/
theorem bestAgents_separated (d : Dir) (pop : List Agent) (n : Nat) (h : NoNaN pop) :
    ∀ a ∈ bestAgents d pop n, ∀ b ∈ (sortByCost d pop).drop n, better d b.cost a.cost = false :=
  fun a ha b hb => not_better_of_costLe d a b (take_drop_split _ n _ (sortByCost_sorted d pop h) a ha b hb)

/-! ## worst_agents -/

theorem worstAgents_length (d : Dir) (pop : List Agent) (n : Nat) (hn : n ≤ pop.length) : (worstAgents d pop n).length = n := by
  simp [worstAgents, sortByCost_length]; omega

theorem worstAgents_partition (d : Dir) (pop : List Agent) (n : Nat) :
    ((sortByCost d pop).take (pop.length - n) ++ worstAgents d pop n).Perm pop := by
  unfold worstAgents
  rw [List.take_append_drop]
  exact sortByCost_perm d pop

theorem worstAgents_mem (d : Dir) (pop : List Agent) (n : Nat) : ∀ a ∈ worstAgents d pop n, a ∈ pop :=
  fun _ ha => mem_sortByCost.mp (List.mem_of_mem_drop ha)

/-- worst last. -/
theorem worstAgents_sorted (d : Dir) (pop : List Agent) (n : Nat) (h : NoNaN pop) :
    (worstAgents d pop n).Pairwise (fun a b => better d b.cost a.cost = false) :=
  ((sortByCost_sorted d pop h).sublist (List.drop_sublist _ _)).imp (fun h' => not_better_of_costLe d _ _ h')

/-- no omitted agent is strictly worse than a returned one. -/
theorem worstAgents_separated (d : Dir) (pop : List Agent) (n : Nat) (h : NoNaN pop) :
    ∀ a ∈ (sortByCost d pop).take (pop.length - n), ∀ b ∈ worstAgents d pop n, better d b.cost a.cost = false :=
  fun a ha b hb => not_better_of_costLe d a b (take_drop_split _ _ _ (sortByCost_sorted d pop h) a ha b hb)

/-! ## best_agent / worst_agent / special_agents -/

theorem bestAgent_ok (d : Dir) (pop : List Agent) (hne : pop ≠ []) :
    ∃ b, bestAgent d pop = .ok b ∧ bestAgents d pop 1 = [b] := by
  have hlen : (bestAgents d pop 1).length = 1 :=
    bestAgents_length d pop 1 (Nat.pos_of_ne_zero (fun h => hne (List.length_eq_zero_iff.mp h)))
  match hb : bestAgents d pop 1, hlen with
  | [b], _ => exact ⟨b, by simp [bestAgent, hb], rfl⟩

theorem worstAgent_ok (d : Dir) (pop : List Agent) (hne : pop ≠ []) :
    ∃ w, worstAgent d pop = .ok w ∧ worstAgents d pop 1 = [w] := by
  have hlen : (worstAgents d pop 1).length = 1 :=
    worstAgents_length d pop 1 (Nat.pos_of_ne_zero (fun h => hne (List.length_eq_zero_iff.mp h)))
  match hb : worstAgents d pop 1, hlen with
  | [w], _ => exact ⟨w, by simp [worstAgent, hb], rfl⟩

/-- an empty population makes `best_agent` raise (the tuple unpacking `b, = []`). -/
theorem bestAgent_empty (d : Dir) : bestAgent d [] = .error .valueError := rfl

theorem specialAgents_spec (d : Dir) (pop : List Agent) (nb nw : Nat) :
    specialAgents d pop (some nb) (some nw) = .ok (bestAgents d pop nb, worstAgents d pop nw) := rfl

theorem specialAgents_none (d : Dir) (pop : List Agent) : specialAgents d pop none none = .error .valueError := rfl

/-! ## the `_indexes` variants -/

theorem sortByCostIndexes_perm (d : Dir) (pop : List Agent) : (sortByCostIndexes d pop).Perm (List.range pop.length) := by
  have h := argsort_perm (pop.map (·.cost))
  simp only [List.length_map] at h
  cases d
  · exact h
  · exact (List.reverse_perm _).trans h

/-- valid, pairwise distinct indices. -/
theorem bestAgentsIndexes_valid (d : Dir) (pop : List Agent) (n : Nat) :
    (bestAgentsIndexes d pop n).Nodup ∧ ∀ i ∈ bestAgentsIndexes d pop n, i < pop.length := by
  have hp := sortByCostIndexes_perm d pop
  constructor
  · exact ((hp.nodup_iff).mpr List.nodup_range).sublist (List.take_sublist n _)
  · intro i hi
    exact List.mem_range.mp (hp.mem_iff.mp (List.mem_of_mem_take hi))

theorem worstAgentsIndexes_valid (d : Dir) (pop : List Agent) (n : Nat) :
    (worstAgentsIndexes d pop n).Nodup ∧ ∀ i ∈ worstAgentsIndexes d pop n, i < pop.length := by
  have hp := sortByCostIndexes_perm d pop
  constructor
  · exact ((hp.nodup_iff).mpr List.nodup_range).sublist (List.drop_sublist _ _)
  · intro i hi
    exact List.mem_range.mp (hp.mem_iff.mp (List.mem_of_mem_drop hi))

/-- whatever order numpy's `argsort` chooses among equal costs: any index permutation `π` that sorts the costs designates
the same cost sequence as `sort_by_cost`, so `best_agents_indexes`/`worst_agents_indexes` designate agents with the same costs. -/
theorem indexes_same_costs (pop : List Agent) (h : NoNaN pop) (π : List Nat) (hπ : π.Perm (List.range pop.length))
    (hs : (π.map (fun i => (pop.getD i default).cost)).Pairwise (fun x y => Num.le x y = true)) :
    π.map (fun i => (pop.getD i default).cost) = (sortByCost .min pop).map (·.cost) := by
  apply List.Perm.eq_of_pairwise (le := fun x y => Num.le x y = true)
  · intro a b _ _ h1 h2; exact Num.le_antisymm a b h1 h2
  · exact hs
  · exact List.pairwise_map.mpr ((sortByCost_sorted .min pop h).imp (fun h' => by simpa [costLe] using h'))
  · have h1 : (π.map (fun i => (pop.getD i default).cost)).Perm ((List.range pop.length).map (fun i => (pop.getD i default).cost)) :=
      hπ.map _
    have h2 : (List.range pop.length).map (fun i => (pop.getD i default).cost) = pop.map (·.cost) := by
      apply List.ext_getElem
      · simp
      · intro i h1 h2; simp at h1; simp [List.getD, h1]
    rw [h2] at h1
    exact h1.trans ((sortByCost_perm .min pop).map _).symm

/-! ## sort_and_trim -/

theorem sortAndTrim_eq_bestAgents (pop : List Agent) (n : Nat) : sortAndTrim pop n = bestAgents .min pop n := rfl

theorem sortAndTrim_length (pop : List Agent) (n : Nat) : (sortAndTrim pop n).length = min n pop.length := by
  simp [sortAndTrim, sortByCost_length]

/-- ascending order. -/
theorem sortAndTrim_sorted (pop : List Agent) (n : Nat) (h : NoNaN pop) :
    (sortAndTrim pop n).Pairwise (fun a b => Num.le a.cost b.cost = true) :=
  ((sortByCost_sorted .min pop h).sublist (List.take_sublist n _)).imp (fun h' => by simpa [costLe] using h')

/-- the `n` cheapest: everything dropped costs at least as much as everything kept. -/
theorem sortAndTrim_cheapest (pop : List Agent) (n : Nat) (h : NoNaN pop) :
    ∀ a ∈ sortAndTrim pop n, ∀ b ∈ (sortByCost .min pop).drop n, Num.le a.cost b.cost = true :=
  fun a ha b hb => by simpa [costLe] using take_drop_split _ n _ (sortByCost_sorted .min pop h) a ha b hb

/-! ## greedy replacement -/

/-- the incumbent is kept unless the challenger is strictly cheaper. -/
theorem greedyAgent_spec (a b : Agent) :
    (Num.lt b.cost a.cost = true → greedyAgent a b = b) ∧ (Num.lt b.cost a.cost = false → greedyAgent a b = a) := by
  constructor <;> intro h <;> simp [greedyAgent, h]

theorem greedyAgent_mem (a b : Agent) : greedyAgent a b = a ∨ greedyAgent a b = b := by
  unfold greedyAgent; split <;> simp

/-- the survivor is not costlier than either contender. -/
theorem greedyAgent_cost_le (a b : Agent) (ha : a.cost.isNaN = false) (hb : b.cost.isNaN = false) :
    Num.le (greedyAgent a b).cost a.cost = true ∧ Num.le (greedyAgent a b).cost b.cost = true := by
  unfold greedyAgent
  split
  · rename_i h
    simp only [Num.lt, Bool.and_eq_true, Bool.not_eq_true'] at h
    exact ⟨h.1, Num.le_refl_of_not_nan _ hb⟩
  · rename_i h
    refine ⟨Num.le_refl_of_not_nan _ ha, ?_⟩
    have ht := Num.le_total_of_not_nan a.cost b.cost ha hb
    simp only [Num.lt, Bool.and_eq_true, Bool.not_eq_true', not_and, Bool.not_eq_false] at h
    simp only [Bool.or_eq_true] at ht
    rcases ht with h' | h'
    · exact h'
    · exact h h'

/-- element-wise on the two cost-sorted populations. -/
theorem greedyZip_pointwise (as bs out : List Agent) (h : greedyZip as bs = .ok out) :
    out.length = as.length ∧ ∀ i (h1 : i < out.length) (h2 : i < as.length) (h3 : i < bs.length), out[i] = greedyAgent as[i] bs[i] := by
  induction as generalizing bs out with
  | nil => simp [greedyZip] at h; cases h; simp
  | cons a as ih =>
    cases bs with
    | nil => simp [greedyZip] at h
    | cons b bs =>
      simp only [greedyZip] at h
      cases hr : greedyZip as bs with
      | error e => simp [hr, bind, Except.bind] at h
      | ok rest =>
        simp [hr, bind, Except.bind] at h
        cases h
        obtain ⟨hl, hp⟩ := ih bs rest hr
        refine ⟨by simp [hl], ?_⟩
        intro i h1 h2 h3
        cases i with
        | zero => rfl
        | succ i => simpa using hp i (by simpa using h1) (by simpa using h2) (by simpa using h3)

/-- `_greedy_select_population` succeeds exactly when the new population is at least as long; otherwise `IndexError`. -/
theorem greedyZip_ok_iff (as bs : List Agent) : (∃ out, greedyZip as bs = .ok out) ↔ as.length ≤ bs.length := by
  induction as generalizing bs with
  | nil => simp [greedyZip]
  | cons a as ih =>
    cases bs with
    | nil => simp [greedyZip]
    | cons b bs =>
      simp only [greedyZip, List.length_cons, Nat.add_le_add_iff_right]
      rw [← ih bs]
      constructor
      · rintro ⟨out, h⟩
        cases hr : greedyZip as bs with
        | error e => simp [hr, bind, Except.bind] at h
        | ok rest => exact ⟨rest, rfl⟩
      · rintro ⟨rest, hr⟩
        exact ⟨greedyAgent a b :: rest, by simp [hr, bind, Except.bind]⟩

theorem greedyPopulation_length (pop new out : List Agent) (h : greedyPopulation pop new = .ok out) :
    out.length = pop.length := by
  have := (greedyZip_pointwise _ _ _ h).1
  simpa [sortByCost_length] using this

theorem extendTrim_length (pop new : List Agent) (ps : Nat) (hne : new ≠ []) :
    (extendTrim pop new ps).length = min ps (pop.length + new.length) := by
  have : new.isEmpty = false := by cases new <;> simp_all
  simp [extendTrim, this, sortAndTrim_length]

theorem replaceTrim_length (new : List Agent) (ps : Nat) : (replaceTrim new ps).length = min ps new.length :=
  sortAndTrim_length new ps

/-! ## non-vacuity -/
private def ag (c : Int) (t : Nat) : Agent := { position := [], cost := .fin c, fitness := .fin 0, tag := t }

example : bestAgents .min [ag 3 0, ag 1 1, ag 2 2, ag 1 3] 2 = [ag 1 1, ag 1 3] := by decide +kernel
example : bestAgents .max [ag 3 0, ag 1 1, ag 3 2, ag 1 3] 2 = [ag 3 0, ag 3 2] := by decide +kernel
example : worstAgents .min [ag 3 0, ag 1 1, ag 2 2, ag 1 3] 1 = [ag 3 0] := by decide +kernel
example : greedyPopulation [ag 3 0, ag 1 1] [ag 2 5, ag 0 6] = .ok [ag 0 6, ag 2 5] := by decide +kernel
example : NoNaN [ag 3 0, ag 1 1] := by intro a ha; simp [ag] at ha; rcases ha with rfl | rfl <;> rfl

end C16
