import PvModel.Task
import PvModel.Lemmas.NumLemmas
/-!
# C14 — a task's search-space description is consistent with its variables

* `dim_eq_sum_sizes`      : the dimension is the sum of the variables' sizes.
* `getVariables_length`   : one flattened variable per coordinate.
* `getBounds_eq`, `getBounds_length`, `getBounds_lower_le_upper` : `get_bounds` lists, coordinate by coordinate, the
  declared variable's own bounds entry; lower ≤ upper.
* `correctList_length`, `correctList_pointwise` : correction acts coordinate-wise with the owning variable's rule and
  yields one coordinate per dimension.
* `transformLoop_keys`, `transformLoop_slices` : one entry per declared variable, in order, holding that variable's
  decoded slice.
-/

namespace C14
open TaskDecl

theorem dim_eq_sum_sizes (t : TaskDecl) : t.dim = (t.vars.map VarDecl.size).sum := rfl

/-- a valid declaration has exactly `size` children. -/
theorem children_length (d : VarDecl) (h : d.valid = true) : d.children.length = d.size := by
  cases d <;> simp_all [VarDecl.children, VarDecl.size, VarDecl.valid]

/-- `get_variables` returns exactly one flattened variable per coordinate of the search space. -/
theorem getVariables_length (t : TaskDecl) (h : t.valid = true) : t.getVariables.length = t.dim := by
  obtain ⟨vars⟩ := t
  simp only [getVariables, dim, valid] at *
  induction vars with
  | nil => rfl
  | cons v vs ih =>
    simp only [List.all_cons, Bool.and_eq_true] at h
    simp [List.flatMap_cons, children_length v h.1, ih h.2]

/-! ## bounds -/
open VarDecl in
/-- whenever `get_bounds` returns, its two lists are the concatenation, variable by variable, of each declared
variable's own lower resp. upper bounds. -/
theorem getBounds_eq (pu : Nat → Num) (t : TaskDecl) (lb ub : List BEntry) (h : t.getBounds pu = .ok (lb, ub)) :
    lb = t.vars.flatMap lowerEntries ∧ ub = t.vars.flatMap (upperEntries pu) := by
  unfold getBounds at h
  simp only [] at h
  split at h
  · cases h; exact ⟨rfl, rfl⟩
  · cases h

theorem lowerEntries_length (v : VarDecl) (h : v.valid = true) : v.lowerEntries.length = v.size := by
  cases v <;> simp_all [VarDecl.lowerEntries, VarDecl.size, VarDecl.valid]

theorem upperEntries_length (pu : Nat → Num) (v : VarDecl) (h : v.valid = true) : (v.upperEntries pu).length = v.size := by
  cases v <;> simp_all [VarDecl.upperEntries, VarDecl.size, VarDecl.valid]

theorem flatMap_length_of (f : VarDecl → List BEntry) (vs : List VarDecl) (hv : vs.all VarDecl.valid = true)
    (hf : ∀ v, v.valid = true → (f v).length = v.size) : (vs.flatMap f).length = (vs.map VarDecl.size).sum := by
  induction vs with
  | nil => rfl
  | cons v vs ih =>
    simp only [List.all_cons, Bool.and_eq_true] at hv
    simp [List.flatMap_cons, hf v hv.1, ih hv.2]

/-- `get_bounds` returns one lower and one upper entry per coordinate. -/
theorem getBounds_length (pu : Nat → Num) (t : TaskDecl) (hv : t.valid = true) (lb ub : List BEntry)
    (h : t.getBounds pu = .ok (lb, ub)) : lb.length = t.dim ∧ ub.length = t.dim := by
  obtain ⟨h1, h2⟩ := getBounds_eq pu t lb ub h
  subst h1 h2
  exact ⟨flatMap_length_of _ _ hv lowerEntries_length, flatMap_length_of _ _ hv (upperEntries_length pu)⟩

/-- a task without permutation variables -/
def noPerm (t : TaskDecl) : Bool := t.vars.all (fun v => match v with | .perm _ => false | _ => true)

theorem homogeneous_of_allScalar (l : List BEntry) (h : l.all BEntry.isScalar = true) : homogeneous l = true := by
  simp [homogeneous, h]

theorem allScalar_flatMap (f : VarDecl → List BEntry) (vs : List VarDecl)
    (h : ∀ v ∈ vs, (f v).all BEntry.isScalar = true) : (vs.flatMap f).all BEntry.isScalar = true := by
  simp only [List.all_eq_true, List.mem_flatMap] at *
  rintro e ⟨v, hv, he⟩
  exact h v hv e he

theorem lowerEntries_scalar (v : VarDecl) (h : (match v with | .perm _ => false | _ => true) = true) :
    v.lowerEntries.all BEntry.isScalar = true := by
  cases v <;> simp_all [VarDecl.lowerEntries, BEntry.isScalar]

theorem upperEntries_scalar (pu : Nat → Num) (v : VarDecl) (h : (match v with | .perm _ => false | _ => true) = true) :
    (v.upperEntries pu).all BEntry.isScalar = true := by
  cases v <;> simp_all [VarDecl.upperEntries, BEntry.isScalar]

/-- a task without permutation variables always has bounds (`np.array` gets a homogeneous list). -/
theorem getBounds_ok_of_noPerm (pu : Nat → Num) (t : TaskDecl) (h : noPerm t = true) :
    ∃ lb ub, t.getBounds pu = .ok (lb, ub) := by
  have hn : ∀ v ∈ t.vars, (match v with | .perm _ => false | _ => true) = true := by
    simpa [noPerm, List.all_eq_true] using h
  have e1 := homogeneous_of_allScalar _ (allScalar_flatMap VarDecl.lowerEntries _ (fun v hv => lowerEntries_scalar v (hn v hv)))
  have e2 := homogeneous_of_allScalar _ (allScalar_flatMap (VarDecl.upperEntries pu) _ (fun v hv => upperEntries_scalar pu v (hn v hv)))
  refine ⟨t.vars.flatMap VarDecl.lowerEntries, t.vars.flatMap (VarDecl.upperEntries pu), ?_⟩
  simp [getBounds, e1, e2]

/-- entry-wise order of two bound entries -/
def entryLe : BEntry → BEntry → Bool
  | .scalar a, .scalar b => Num.le a b
  | .vec as, .vec bs => decide (as.length = bs.length) && (as.zip bs).all (fun p => Num.le p.1 p.2)
  | _, _ => false

/-- well-formed declaration: accepted by the validators, NaN-free bounds, at least one choice. -/
def wf : VarDecl → Bool
  | .cont lb ub => !lb.isNaN && !ub.isNaN && (VarDecl.cont lb ub).valid
  | .contMulti lbs ubs => lbs.all (fun x => !x.isNaN) && ubs.all (fun x => !x.isNaN) && (VarDecl.contMulti lbs ubs).valid
  | .multiObj lbs ubs => lbs.all (fun x => !x.isNaN) && ubs.all (fun x => !x.isNaN) && (VarDecl.multiObj lbs ubs).valid
  | .disc n => decide (0 < n)
  | .discMulti ns => ns.all (fun n => decide (0 < n))
  | .perm _ => true
  | .binary n => decide (0 < n)

theorem le_of_not_ge (a b : Num) (ha : a.isNaN = false) (hb : b.isNaN = false) (h : Num.le b a = false) : Num.le a b = true := by
  have := Num.le_total_of_not_nan a b ha hb
  simpa [h] using this

theorem discUb_nonneg (n : Nat) (h : 0 < n) : Num.le (.fin 0) (discUb n) = true := by
  have h0 : (0 : Rat) ≤ ((((n : Int) - 1 : Int)) : Rat) := by
    have : (0 : Int) ≤ (n : Int) - 1 := by omega
    exact_mod_cast this
  simpa [discUb, intNum, Num.le] using h0

/-- for every well-formed declaration each lower bound is ≤ the matching upper bound (`pu n` is the observed
`n - 1e-4`; the harness checks that it lies in `(n-1, n)`). -/
theorem bounds_lower_le_upper (pu : Nat → Num) (v : VarDecl) (hv : wf v = true)
    (hp : ∀ n, v = .perm n → Num.le (.fin 0) (pu n) = true) :
    (v.lowerEntries.zip (v.upperEntries pu)).all (fun p => entryLe p.1 p.2) = true := by
  cases v with
  | cont lb ub =>
    simp [wf, VarDecl.valid] at hv
    simp [VarDecl.lowerEntries, VarDecl.upperEntries, entryLe, le_of_not_ge lb ub hv.1.1 hv.1.2 hv.2]
  | contMulti lbs ubs =>
    simp [wf, VarDecl.valid] at hv
    simp only [VarDecl.lowerEntries, VarDecl.upperEntries, List.zip_map, List.all_map, List.all_eq_true]
    intro p hp'
    exact le_of_not_ge _ _ (hv.1.1 _ (List.of_mem_zip hp').1) (hv.1.2 _ (List.of_mem_zip hp').2) (hv.2.2 p.1 p.2 hp')
  | multiObj lbs ubs =>
    simp [wf, VarDecl.valid] at hv
    simp only [VarDecl.lowerEntries, VarDecl.upperEntries, List.zip_map, List.all_map, List.all_eq_true]
    intro p hp'
    exact le_of_not_ge _ _ (hv.1.1 _ (List.of_mem_zip hp').1) (hv.1.2 _ (List.of_mem_zip hp').2) (hv.2.2 p.1 p.2 hp')
  | disc n =>
    simp [wf] at hv
    simp [VarDecl.lowerEntries, VarDecl.upperEntries, entryLe, discUb_nonneg n hv]
  | discMulti ns =>
    simp [wf] at hv
    simp only [VarDecl.lowerEntries, VarDecl.upperEntries, List.zip_map, List.all_map, List.all_eq_true]
    intro p hp'
    exact discUb_nonneg p.2 (hv p.2 (List.of_mem_zip hp').2)
  | perm n =>
    have := hp n rfl
    simp [VarDecl.lowerEntries, VarDecl.upperEntries, entryLe, List.zip_replicate, this]
  | binary n =>
    have hb : Num.le (.fin 0) VarDecl.binaryUb = true := by decide +kernel
    simp [VarDecl.lowerEntries, VarDecl.upperEntries, entryLe, List.zip_replicate, hb]

/-! ## correction is coordinate-wise -/

/-- corrected solutions have one coordinate per `zip`ped pair: exactly `dim` when the candidate has at least `dim`. -/
theorem correctList_length (xs : List Raw) (vs : List Var) (ys : List Coord) (h : correctList xs vs = .ok ys) :
    ys.length = min xs.length vs.length := by
  induction xs generalizing vs ys with
  | nil => cases vs <;> simp_all [correctList] <;> (cases h; rfl)
  | cons x xs ih =>
    cases vs with
    | nil => simp [correctList] at h; cases h; simp
    | cons v vs =>
      simp only [correctList] at h
      cases hy : v.correct x with
      | error e => simp [hy, bind, Except.bind] at h
      | ok y =>
        cases hys : correctList xs vs with
        | error e => simp [hy, hys, bind, Except.bind] at h
        | ok ys' =>
          simp [hy, hys, bind, Except.bind] at h
          cases h
          simp [ih vs ys' hys]
          try omega

/-- coordinate `i` of the corrected solution is the owning variable's `correct` of coordinate `i` of the candidate. -/
theorem correctList_pointwise (xs : List Raw) (vs : List Var) (ys : List Coord) (h : correctList xs vs = .ok ys)
    (i : Nat) (hi : i < ys.length) (hx : i < xs.length) (hv : i < vs.length) :
    vs[i].correct xs[i] = .ok ys[i] := by
  induction xs generalizing vs ys i with
  | nil => simp at hx
  | cons x xs ih =>
    cases vs with
    | nil => simp at hv
    | cons v vs =>
      simp only [correctList] at h
      cases hy : v.correct x with
      | error e => simp [hy, bind, Except.bind] at h
      | ok y =>
        cases hys : correctList xs vs with
        | error e => simp [hy, hys, bind, Except.bind] at h
        | ok ys' =>
          simp [hy, hys, bind, Except.bind] at h
          cases h
          cases i with
          | zero => simpa using hy
          | succ i => simpa using ih vs ys' hys i (by simpa using hi) (by simpa using hx) (by simpa using hv)

/-- a candidate with one coordinate per dimension is corrected to one coordinate per dimension. -/
theorem correctSolution_length (t : TaskDecl) (hv : t.valid = true) (xs : List Raw) (hx : xs.length = t.dim)
    (ys : List Coord) (h : t.correctSolution xs = .ok ys) : ys.length = t.dim := by
  have := correctList_length xs t.getVariables ys h
  rw [getVariables_length t hv, hx] at this
  simpa using this

/-! ## transform_solution -/

/-- one entry per declared variable, in declaration order (`idx, idx+1, …`). -/
theorem transformLoop_keys (x : List Coord) (vs : List VarDecl) (idx counter : Nat) (out : List (Nat × Decoded))
    (h : transformLoop x vs idx counter = .ok out) : out.map (·.1) = (List.range vs.length).map (· + idx) := by
  induction vs generalizing idx counter out with
  | nil => simp [transformLoop] at h; cases h; rfl
  | cons v vs ih =>
    simp only [transformLoop] at h
    cases ha : decodeArg v ((x.drop counter).take v.size) with
    | error e => simp [ha, bind, Except.bind] at h
    | ok arg =>
      cases hd : decodeVar v arg with
      | error e => simp [ha, hd, bind, Except.bind] at h
      | ok d =>
        cases hr : transformLoop x vs (idx + 1) (counter + v.size) with
        | error e => simp [ha, hd, hr, bind, Except.bind] at h
        | ok rest =>
          simp [ha, hd, hr, bind, Except.bind] at h
          cases h
          have := ih (idx + 1) (counter + v.size) rest hr
          simp only [List.map_cons, this, List.length_cons, List.range_succ_eq_map, List.map_cons, List.map_map]
          simp; intro a _; omega

/-- offset of declared variable `k` inside the position: the sum of the sizes before it. -/
def offset (vs : List VarDecl) (k : Nat) : Nat := ((vs.take k).map VarDecl.size).sum

/-- entry `k` is the decoding, by declared variable `k`, of that variable's own slice of the position. -/
theorem transformLoop_slices (x : List Coord) (vs : List VarDecl) (idx counter : Nat) (out : List (Nat × Decoded))
    (h : transformLoop x vs idx counter = .ok out) (k : Nat) (hk : k < vs.length) (hk' : k < out.length) :
    ∃ arg, decodeArg vs[k] ((x.drop (counter + offset vs k)).take vs[k].size) = .ok arg ∧
      decodeVar vs[k] arg = .ok out[k].2 := by
  induction vs generalizing idx counter out k with
  | nil => simp at hk
  | cons v vs ih =>
    simp only [transformLoop] at h
    cases ha : decodeArg v ((x.drop counter).take v.size) with
    | error e => simp [ha, bind, Except.bind] at h
    | ok arg =>
      cases hd : decodeVar v arg with
      | error e => simp [ha, hd, bind, Except.bind] at h
      | ok d =>
        cases hr : transformLoop x vs (idx + 1) (counter + v.size) with
        | error e => simp [ha, hd, hr, bind, Except.bind] at h
        | ok rest =>
          simp [ha, hd, hr, bind, Except.bind] at h
          cases h
          cases k with
          | zero => exact ⟨arg, by simpa [offset] using ha, by simpa using hd⟩
          | succ k =>
            obtain ⟨arg', h1, h2⟩ := ih (idx + 1) (counter + v.size) rest hr k (by simpa using hk) (by simpa using hk')
            refine ⟨arg', ?_, by simpa using h2⟩
            have : counter + offset (v :: vs) (k + 1) = counter + v.size + offset vs k := by
              simp [offset]; omega
            simpa [this] using h1

/-- scalar variables receive their single coordinate, multi-variables their whole slice — also when the slice has length one. -/
theorem decodeArg_multi (v : VarDecl) (temp : List Coord) (h : v.hasChildren = true) : decodeArg v temp = .ok (.many temp) := by
  simp [decodeArg, h]

/-! ## non-vacuity -/
example :
    let t : TaskDecl := ⟨[.cont (.fin 0) (.fin 1), .binary 2, .disc 3]⟩
    t.valid = true ∧ t.dim = 4 ∧ t.getVariables.length = 4 ∧
    (t.transformSolution [.num (.fin (1/2)), .int 1, .int 0, .int 2]) =
      .ok [(0, .num (.fin (1/2))), (1, .choices [1, 0]), (2, .choice 2)] := by decide +kernel

end C14
