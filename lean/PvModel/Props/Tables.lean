import PvModel.Generated.Algos
import PvModel.Generated.Core
/-!
# Predicates over the regenerated fact tables (shared by the table obligations `Props/T*.lean`)

`Generated.algos` / `Generated.core` are rewritten from /repo's working tree by `tools/translate.py` on every run.
The tables are finite and *are* the domain of the per-class quantifier, so `decide` over them is a proof, not a sample.
Exemption lists mirror /verif/known_findings.json (recorded, unrepaired defects).
-/
namespace Tables
open Generated

/-- agents are only ever made by `_init_agent` (or copied from existing agents), never altered in place, and the objective
is never touched directly by an optimizer module -/
def disciplined (a : AlgoFacts) : Bool :=
  a.ctorsRaw == 0 && a.coreStores == 0 && a.badCopyUpdates == 0 && a.objectiveRefs == 0

/-- Imperialist Competitive hand-builds `EmpireModel(position=…, cost=…, fitness=…)` (known finding C01/C02). -/
def disciplineExempt : List AlgoId := [.ImperialistCompetitiveOptimization]

def noConfigTaskWrites (a : AlgoFacts) : Bool := a.cfgWrites == 0 && a.taskWrites == 0 && a.frameworkFieldWrites == 0

def numpyRngOnly (a : AlgoFacts) : Bool := a.rngOther == 0

/-- decided here, not by the translator: every field observable at step entry or read by the initialisation before it writes it is
(re)initialised per run or a constructor constant -/
def noLeak (a : AlgoFacts) : Bool :=
  (a.stepEntryReads ++ a.initReadsBeforeWrite).all (fun f => (a.initWrites ++ a.ctorConst).contains f) && a.frameworkFieldWrites == 0

def uniformApi (a : AlgoFacts) : Bool := a.ctorReadsConfig == 0 && a.setConfigCanonical

/-- the search never consults fitness or the task direction -/
def directionBlind (a : AlgoFacts) : Bool := a.fitnessReads == 0 && a.directionReads == 0

/-- Ant Lion weighs by fitness (excluded by the statement of C12); Imperialist Competitive reads `minmax` to hand-build its agents -/
def directionExempt : List AlgoId := [.AntLionOptimization, .ImperialistCompetitiveOptimization]

end Tables
