import PvModel.Generated.Src
import PvModel.Lemmas.PyLemmas
import PvModel.Lemmas.SelectLemmas
import PvModel.PopExp
import PvModel.Props.R16
/-!
# R10 — refinement: the population combinators of `abstract.py` and `get_pool_results` *as the source reads now*
are the model's `extendTrim`, `replaceTrim`, `greedyPopulation`, `greedyPopulationPooled`, `groupPopulation`, `poolResults`
(the functions C10 / C11 / C17 are about).  `Generated/Src.lean` is regenerated from `/repo` on every run.
-/

namespace R10
open Py

theorem flatten_map_singleton {α β : Type} (f : α → β) (l : List α) : (l.map (fun x => [f x])).flatten = l.map f := by
  induction l <;> simp_all

/-- a `for x in l: acc.append(f(x))` loop is `acc + [f(x) for x in l]` -/
theorem forIn_append_yield {m : Type → Type} [Monad m] [LawfulMonad m] {α β : Type} (l : List α) (init : List β) (f : α → β) :
    forIn l init (fun x r => (pure (ForInStep.yield (r ++ [f x])) : m _)) = (pure (init ++ l.map f) : m _) := by
  induction l generalizing init with
  | nil => simp
  | cons a l ih => simp [flatten_map_singleton]

theorem forIn_append_yield_id {α β : Type} (l : List α) (init : List β) (f : α → β) :
    (forIn l init (fun x r => (ForInStep.yield (r ++ [f x]) : Id _)) : Id _) = init ++ l.map f :=
  forIn_append_yield (m := Id) l init f

theorem get_pool_results_eq {α : Type} (σ : List Nat) (rs : List α) : Src.get_pool_results σ rs = poolResults σ rs := by
  unfold Src.get_pool_results
  simp only [Id.run, Py.asCompleted]
  have := forIn_append_yield_id (poolResults σ rs) [] id
  simp at this
  simp [this]
  rfl

theorem extend_and_trim_eq (pop new : List Agent) (ps : Nat) :
    Src.extend_and_trim_population ps pop new = extendTrim pop new ps := by
  unfold Src.extend_and_trim_population extendTrim
  cases new with
  | nil => simp [Id.run]
  | cons a l =>
    simp [Id.run, R16.sort_and_trim_eq]
    have : ¬ ((l.length : Int) + 1 = 0) := by omega
    simp [this]

theorem replace_and_trim_eq (pop new : List Agent) (ps : Nat) :
    Src.replace_and_trim_population ps pop new = replaceTrim new ps := by
  simp [Src.replace_and_trim_population, replaceTrim, Id.run, R16.sort_and_trim_eq]

end R10

namespace R10
open Py

/-- `[g(a, new[idx]) for idx, a in enumerate(pop)]` with `IndexError` when `new` is the shorter list -/
theorem enum_mapM_zip (pop new pre : List Agent) (k : Nat) (hk : pre.length = k) :
    ((List.range' k pop.length).zip pop).mapM
        (fun (x : Nat × Agent) => (do return (greedyAgent x.2 (← Py.getNat (pre ++ new) x.1)) : Except Err Agent))
      = greedyZip pop new := by
  induction pop generalizing new pre k with
  | nil => simp [greedyZip]; rfl
  | cons a as ih =>
    cases new with
    | nil =>
      simp [greedyZip, List.range'_succ, hk.symm]
      rfl
    | cons b bs =>
      have h1 : Py.getNat (pre ++ b :: bs) k = .ok b := by simp [hk.symm]
      have := ih bs (pre ++ [b]) (k + 1) (by simp [hk])
      simp only [List.append_assoc, List.singleton_append] at this
      simp only [List.length_cons, List.range'_succ, List.zip_cons_cons, List.mapM_cons, this, h1, greedyZip]
      cases greedyZip as bs <;> rfl

theorem greedy_zip_eq (pop new : List Agent) :
    (Py.enumerate pop).mapM (fun (x : Nat × Agent) => (do return (Src.greedy_select_agent x.2 (← Py.getNat new x.1)) : Except Err Agent))
      = greedyZip pop new := by
  have := enum_mapM_zip pop new [] 0 rfl
  simp only [R16.greedy_select_agent_eq]
  simpa [Py.enumerate, List.range_eq_range'] using this

/-- serial mode: `_greedy_select_population` is the model's `greedyPopulation` (both lists sorted ascending, pairwise greedy) -/
theorem greedy_select_population_serial (σ : List Nat) (w : Int) (pop new : List Agent) :
    Src.greedy_select_population σ .serial w pop new = greedyPopulation pop new := by
  unfold Src.greedy_select_population greedyPopulation
  simp only [R16.sort_by_cost_eq]
  have := greedy_zip_eq (sortByCost .min pop) (sortByCost .min new)
  simp only [decide_true, ↓reduceIte, bind_pure_comp] at this ⊢
  rw [this]
  cases greedyZip (sortByCost .min pop) (sortByCost .min new) <;> rfl

/-- thread / process mode: the same pairwise results, collected in completion order `σ` -/
theorem greedy_select_population_pooled (σ : List Nat) (m : Mode) (hm : m ≠ .serial) (w : Int) (pop new : List Agent) :
    Src.greedy_select_population σ m w pop new = greedyPopulationPooled pop new σ := by
  unfold Src.greedy_select_population greedyPopulationPooled greedyPopulation
  simp only [R16.sort_by_cost_eq]
  have := greedy_zip_eq (sortByCost .min pop) (sortByCost .min new)
  simp only [hm, decide_false, Bool.false_eq_true, ↓reduceIte, bind_pure_comp] at this ⊢
  rw [this]
  have hp : Src.get_pool_results (α := Agent) σ = poolResults σ := funext (get_pool_results_eq σ)
  rw [hp]
  cases greedyZip (sortByCost .min pop) (sortByCost .min new) <;> rfl

end R10

namespace R10
open Py

theorem take_drop_slice (l : List Agent) (i n : Nat) : (l.take ((i + 1) * n)).drop (i * n) = (l.drop (i * n)).take n := by
  rw [List.drop_take]
  congr 1
  rw [Nat.add_mul, Nat.one_mul, Nat.add_sub_cancel_left]

/-- `_generate_group_population`: `n_groups` consecutive slices of `n_agents` agents, plus — `with_residual` — the last
`population_size % n_groups` agents as one more group when that is not zero; `ZeroDivisionError` for `n_groups = 0` with residual. -/
theorem generate_group_population_eq (pop : List Agent) (ps g n : Nat) (wr : Bool) :
    Src.generate_group_population ps pop g n wr =
      match groupPopulation pop ps g n wr with
      | some gs => .ok gs
      | none => .error .zeroDivisionError := by
  unfold Src.generate_group_population groupPopulation
  have hloop : (forIn (Py.range 0 (g : Int)) ([] : List (List Agent)) (fun idx r =>
      (pure (ForInStep.yield (r ++ [(Py.slice pop (idx * (n : Int)) ((idx + 1) * (n : Int)))])) : Except Err _)))
        = pure ((List.range g).map (fun i => (pop.drop (i * n)).take n)) := by
    rw [forIn_append_yield (m := Except Err) (Py.range 0 (g : Int)) [] (fun idx => Py.slice pop (idx * (n : Int)) ((idx + 1) * (n : Int)))]
    simp only [range_zero_nat, List.map_map, List.nil_append]
    congr 1
    apply List.map_congr_left
    intro i _
    have h1 : ((i : Int) * (n : Int)) = ((i * n : Nat) : Int) := by simp
    have h2 : (((i : Int) + 1) * (n : Int)) = (((i + 1) * n : Nat) : Int) := by simp
    simp only [Function.comp, h1, h2, slice_nat, take_drop_slice]
  simp only [List.map_id'] at hloop ⊢
  cases wr with
  | false => simp [hloop]; rfl
  | true =>
    by_cases hg : g = 0
    · subst hg
      simp [hloop, Py.mod]
      rfl
    · have hg' : ¬ ((g : Int) = 0) := by omega
      have hm : Py.mod (ps : Int) (g : Int) = .ok (((ps % g : Nat) : Int)) := by
        unfold Py.mod; rw [if_neg hg', Int.ofNat_fmod]
      generalize hrd : (((ps % g : Nat) : Int)) = r at hm
      by_cases hr : ps % g = 0
      · have hr0 : r = 0 := by omega
        subst hr0
        simp [hloop, hm, hg, hr]; rfl
      · have hr' : ¬ (r = 0) := by omega
        have hs := sliceFrom_neg pop (ps % g) (by omega)
        rw [hrd] at hs
        simp [hloop, hm, hg, hr]
        simp only [bind, Except.bind, hr', ↓reduceIte, hs]
        rfl

/-- **`get_pool_executor(mode, n_workers)`** as the source reads now: a pool of threads for the thread mode, a pool of processes for anything else
(the callers only reach it in a pooled mode: the serial branches return before) -/
theorem get_pool_executor_eq (m : Mode) (w : Option Int) :
    Src.get_pool_executor m w = (match m with | .thread => Py.PoolKind.thread w | _ => Py.PoolKind.process w) := by
  cases m <;> rfl

end R10
