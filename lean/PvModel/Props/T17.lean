import PvModel.Generated.Steps
import PvModel.PopExp
/-! Table obligation for C17 (regenerated skeletons, decided by kernel evaluation over the whole table): every class of the committed
list `elitistProved` — the optimizers classified as structurally elitist from their source *and* recognised as such by the
classifier — has a monotone skeleton (`C17.monotone_sound` / `C17.c17_skeleton` then give: the best cost never gets worse and
`best_solution` is the best ever recorded).  A source edit that drops a `_greedy_select_agent` call, replaces
`_extend_and_trim_population` by a plain assignment or trims from the wrong end flips the Bool and breaks the `decide`.
The list mirrors `harness/pvh/data/elitist.json: proved`; the classes under `reviewed` there are elitist by reading but (partly)
opaque to the classifier and are covered by observation only. -/
namespace T17
open Generated

def elitistProved : List AlgoId :=
  [.AfricanVultureOptimization, .AntColonyOptimization, .AntLionOptimization, .AquilaOptimization, .ArchimedeOptimization, .BatOptimization,
   .BiogeographyBasedOptimization, .BrownBearOptimization, .CamelCaravanOptimization, .CatSwarmOptimization, .ChaosGameOptimization,
   .CoatiOptimization, .DragonflyOptimization, .EgretSwarmOptimization, .ElectromagneticFieldOptimization, .EnergyValleyOptimization,
   .FicksLawOptimization, .FireworksOptimization, .FlowerPollinationAlgorithmOptimization, .ForensicBasedInvestigationOptimization,
   .FoxOptimization, .GainingSharingKnowledgeOptimization, .GerminalCenterOptimization, .GiantTrevallyOptimization,
   .GizaPyramidConstructionOptimization, .GoldenJackalOptimization, .GrasshopperOptimization, .GreyWolfOptimization,
   .HarmonySearchOptimization, .HungerGamesSearchOptimization, .InvasiveWeedOptimization, .KrillHerdOptimization,
   .LeviFlightJayaSwarmOptimization, .MarinePredatorsOptimization, .MothFlameOptimization, .MountainGazelleOptimization,
   .MultiverseOptimization, .NuclearReactionOptimization, .OspreyOptimization, .PathfinderAlgorithmOptimization, .PelicanOptimization,
   .QleSineCosineAlgorithmOptimization, .SalpSwarmOptimization, .SeagullOptimization, .ServalOptimization, .SiberianTigerOptimization,
   .SineCosineAlgorithmOptimization, .SpottedHyenaOptimization, .SuccessHistoryIntelligentOptimization, .SwarmHillClimbingOptimization,
   .TasmanianDevilOptimization, .TunaSwarmOptimization, .VirusColonySearchOptimization, .WalrusOptimization, .WarStrategyOptimization,
   .WhalesOptimization, .WildebeestHerdOptimization, .WindDrivenOptimization, .ZebraOptimization]

theorem table_elitist_monotone : ∀ r ∈ steps, r.1 ∈ elitistProved → monotone r.2 = true := by decide

/-- every listed class is in the table (a removed or renamed optimizer cannot leave a vacuous entry behind). -/
theorem table_elitist_listed : ∀ a ∈ elitistProved, a ∈ steps.map (·.1) := by decide

/-- the list is exactly the set of classes with a monotone skeleton: nothing the classifier proves is left out. -/
theorem table_elitist_exact : ∀ r ∈ steps, monotone r.2 = true → r.1 ∈ elitistProved := by decide

/-- a monotone skeleton is in particular size preserving, so C10 holds for the same classes. -/
theorem table_elitist_size : ∀ r ∈ steps, r.1 ∈ elitistProved → sizePreserving r.2 = true := by decide

end T17
