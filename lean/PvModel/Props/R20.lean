import PvModel.Generated.Src
import PvModel.Lemmas.PyLemmas
import PvModel.Multi
import PvModel.Props.R10
/-!
# R20 — refinement: `Multitask.__check_input__` *as the source reads now* is the model's `checkInput`
(the broadcasting of `modes` in its four documented shapes, in the order the source tests them — which is what decides the
ambiguous case `n == m`).  The typing SPEC declares `values` a tuple: the `isinstance(values, tuple)` guard is outside the translation.
-/

namespace R20
open Py Multi

theorem mapM_ok {α β : Type} (l : List α) (f : α → β) :
    l.mapM (fun a => (Except.ok (f a) : Except Err β)) = .ok (l.map f) := by
  induction l with
  | nil => rfl
  | cons a l ih => simp [List.mapM_cons, ih]; rfl

theorem mapM_congr_ok {α β : Type} (l : List α) (g : α → Except Err β) (f : α → β) (h : ∀ a ∈ l, g a = .ok (f a)) :
    l.mapM g = .ok (l.map f) := by
  induction l with
  | nil => rfl
  | cons a l ih =>
    simp only [List.mapM_cons, h a List.mem_cons_self, ih (fun b hb => h b (List.mem_cons_of_mem _ hb))]
    rfl

theorem range_const {β : Type} (n : Nat) (x : β) : (Py.range 0 (n : Int)).map (fun _ => x) = List.replicate n x := by
  simp only [range_zero_nat, List.map_map]
  induction n with
  | zero => rfl
  | succ k ih => rw [List.range_succ, List.map_append, ih]; simp [List.replicate_succ']

/-- `[x for _ in range(m)]` with `x` an indexing that succeeds -/
theorem inner_ok {α : Type} (vs : List α) (m : Nat) (i : Int) (v : α) (h : Py.getItem vs i = .ok v) :
    (Py.range 0 (m : Int)).mapM (fun _ => (do return (← Py.getItem vs i) : Except Err α)) = .ok (List.replicate m v) := by
  rw [mapM_congr_ok _ _ (fun _ => v)]
  · rw [range_const]
  · intro a _; simp [h]

theorem getItem_range {α : Type} (vs : List α) (k : Nat) (hk : k < vs.length) : Py.getItem vs (k : Int) = .ok vs[k] := by
  rw [getItem_nat]; simp [hk]

theorem check_input_none {α : Type} (n m : Int) (name kind : String) :
    Src.check_input (α := α) n m name kind none = .ok none := rfl

theorem range_mem (n : Nat) (a : Int) (h : a ∈ Py.range 0 (n : Int)) : ∃ k : Nat, k < n ∧ a = (k : Int) := by
  rw [range_zero_nat] at h
  obtain ⟨k, hk, rfl⟩ := List.mem_map.mp h
  exact ⟨k, List.mem_range.mp hk, rfl⟩

/-- `[[values[idx] for _ in range(m)] for idx in range(len(values))]` -/
theorem per_algorithm {α : Type} (m : Nat) (vs : List α) :
    (Py.range 0 (vs.length : Int)).mapM (fun idx => (do return (← (Py.range 0 (m : Int)).mapM (fun _ => (do return (← Py.getItem vs idx) : Except Err α))) : Except Err (List α)))
      = .ok (vs.map (fun v => List.replicate m v)) := by
  cases vs with
  | nil => rfl
  | cons d tl =>
    rw [mapM_congr_ok _ _ (fun a => List.replicate m (((d :: tl)[a.toNat]?).getD d))]
    · congr 1
      rw [range_zero_nat, List.map_map]
      apply List.ext_getElem
      · simp
      · intro i h1 h2
        simp only [List.length_map, List.length_range] at h1
        simp only [List.getElem_map, List.getElem_range, Function.comp, Int.toNat_natCast, List.getElem?_eq_getElem h1, Option.getD_some]
    · intro a ha
      obtain ⟨k, hk, rfl⟩ := range_mem _ a ha
      have := inner_ok (d :: tl) m (k : Int) (d :: tl)[k] (getItem_range _ k hk)
      rw [this]
      simp only [Int.toNat_natCast, List.getElem?_eq_getElem hk, Option.getD_some]

/-- the tail of the test chain (`len == n`, `len == m`, `len == n*m`, else `ValueError`), for any tuple -/
theorem chain_eq {α : Type} (n m : Nat) (vs : List α) :
    (if decide (Py.len vs = (n : Int)) = true then
        (do return (some (← (Py.range 0 (n : Int)).mapM (fun idx => (do return (← (Py.range 0 (m : Int)).mapM (fun _ => (do return (← Py.getItem vs idx) : Except Err α))) : Except Err (List α))))) : Except Err (Option (List (List α))))
      else if decide (Py.len vs = (m : Int)) = true then
        (pure (some ((Py.range 0 (n : Int)).map (fun _ => vs))))
      else if decide (Py.len vs = (n : Int) * (m : Int)) = true then
        (pure (some ((Py.range 0 (n : Int)).map (fun i => Py.slice vs (i * (m : Int)) ((i + 1) * (m : Int))))))
      else throw Err.valueError)
      = (if vs.length = n then .ok (some (vs.map (fun v => List.replicate m v)))
         else if vs.length = m then .ok (some (List.replicate n vs))
         else if vs.length = n * m then .ok (some (rows n m vs))
         else .error .valueError) := by
  have e1 : (decide (Py.len vs = (n : Int)) = true) ↔ vs.length = n := by
    rw [decide_eq_true_iff]; show ((vs.length : Int) = (n : Int)) ↔ _; omega
  have e2 : (decide (Py.len vs = (m : Int)) = true) ↔ vs.length = m := by
    rw [decide_eq_true_iff]; show ((vs.length : Int) = (m : Int)) ↔ _; omega
  have e3 : (decide (Py.len vs = (n : Int) * (m : Int)) = true) ↔ vs.length = n * m := by
    rw [decide_eq_true_iff]; show ((vs.length : Int) = (n : Int) * (m : Int)) ↔ _
    rw [← Int.natCast_mul]; omega
  simp only [e1, e2, e3]
  by_cases h1 : vs.length = n
  · rw [if_pos h1, if_pos h1]
    subst h1
    rw [per_algorithm]
    rfl
  · rw [if_neg h1, if_neg h1]
    by_cases h2 : vs.length = m
    · rw [if_pos h2, if_pos h2, range_const]
      rfl
    · rw [if_neg h2, if_neg h2]
      by_cases h3 : vs.length = n * m
      · rw [if_pos h3, if_pos h3]
        have : (Py.range 0 (n : Int)).map (fun i => Py.slice vs (i * (m : Int)) ((i + 1) * (m : Int))) = rows n m vs := by
          simp only [range_zero_nat, List.map_map, rows]
          apply List.map_congr_left
          intro i _
          have e1 : ((i : Int) * (m : Int)) = ((i * m : Nat) : Int) := by simp
          have e2 : (((i : Int) + 1) * (m : Int)) = (((i + 1) * m : Nat) : Int) := by simp
          simp only [Function.comp, e1, e2, slice_nat]
          rw [List.drop_take]
          congr 1
          rw [Nat.add_mul, Nat.one_mul, Nat.add_sub_cancel_left]
        rw [this]
        rfl
      · rw [if_neg h3, if_neg h3]
        rfl

theorem check_input_eq {α : Type} (n m : Nat) (name kind : String) (vs : List α) :
    Src.check_input n m name kind (some vs) = checkInput n m (.tuple vs) := by
  unfold Src.check_input checkInput
  simp only [Bool.not_true, Bool.false_eq_true, ↓reduceIte]
  have hc := chain_eq n m vs
  rcases vs with _ | ⟨v, _ | ⟨v2, rest⟩⟩
  · have : ¬ (decide (Py.len ([] : List α) = 1) = true) := by rw [decide_eq_true_iff]; show ¬ ((0 : Int) = 1); omega
    rw [if_neg this]
    exact hc
  · have h0 : Py.getItem [v] 0 = .ok v := rfl
    have hin := inner_ok [v] m 0 v h0
    have hrow : (Py.range 0 (n : Int)).mapM (fun _ => (do return (← (Py.range 0 (m : Int)).mapM (fun _ => (do return (← Py.getItem [v] 0) : Except Err α))) : Except Err (List α)))
        = .ok (List.replicate n (List.replicate m v)) := by
      rw [mapM_congr_ok _ _ (fun _ => List.replicate m v)]
      · rw [range_const]
      · intro a _; exact hin
    have : (decide (Py.len ([v] : List α) = 1) = true) := by rw [decide_eq_true_iff]; rfl
    rw [if_pos this, hrow]
    rfl
  · have : ¬ (decide (Py.len (v :: v2 :: rest) = 1) = true) := by
      rw [decide_eq_true_iff]; show ¬ (((v :: v2 :: rest).length : Int) = 1); simp only [List.length_cons]; omega
    rw [if_neg this]
    exact hc


/-- `__check_modes__`: every mode of the broadcast table is a `ModeSolver` value, else `ValueError` -/
theorem check_modes_eq (modes : Option (List (List String))) : Src.check_modes modes = checkModes modes := by
  unfold Src.check_modes checkModes
  cases modes with
  | none => rfl
  | some t =>
    simp only [List.all_map, Function.comp_def]
    cases h : t.flatten.all validMode <;> simp [h] <;> rfl

/-- `__get_mode__`: `"serial"` without a table, else `self._modes[id_optimizer][id_prob]`, parsed by `ModeSolver` -/
theorem get_mode_eq (modes : Option (List (List String))) (i j : Nat) : Src.get_mode modes i j = getMode modes i j := by
  unfold Src.get_mode getMode
  cases modes with
  | none => rfl
  | some t =>
    simp only [getNat_eq, lookup]
    cases hi : t[i]? with
    | none => rfl
    | some row =>
      simp only [except_ok_bind, Option.bind_some]
      cases hj : row[j]? with
      | none => rfl
      | some s0 =>
        simp only [except_ok_bind, bind_pure, Multi.parseMode]
        cases Mode.ofString s0 <;> rfl


/-! ## `execute`, `__parallelize__`, `__run__`: the loops as the source reads now are the model's `executeFrom`

An optimizer / task object is its position in the constructor's list and its name (`Multi.Obj`); the call
`optimizer.optimize(task, mode=str(mode), workers=self._n_workers)` made in the worker process of trial `t` is an opaque function of those objects,
the mode string, the workers argument and `t`.  Trial numbers are Python ints in the translation and naturals in the model. -/

/-- the model's `run` behind an opaque `optimize` -/
def runOf {ρ : Type} (optimize : Obj → Obj → String → Option Int → Int → ρ) (c : Multi.Call) : ρ :=
  optimize ⟨c.alg, c.algName⟩ ⟨c.task, c.taskName⟩ c.mode.toString (c.workers.map Int.ofNat) (c.trial : Int)

/-- a model cell as the dict `__run__` builds -/
def toRunDict {ρ : Type} (c : Cell ρ) : RunDict ρ := ⟨(c.idTrial : Int), c.solution, c.problemName⟩

/-- a model table as the dict of columns handed to `pd.DataFrame` -/
def toDict {ρ : Type} (t : Table ρ) : List (String × List (RunDict ρ)) := t.map (fun kv => (kv.1, kv.2.map toRunDict))

/-- `enumerate(l)` counting from `k` -/
def enumFrom {α : Type} (k : Nat) (l : List α) : List (Nat × α) := (List.range' k l.length).zip l

theorem enumerate_eq {α : Type} (l : List α) : Py.enumerate l = enumFrom 0 l := by
  simp [Py.enumerate, enumFrom, List.range_eq_range']

theorem enumFrom_cons {α : Type} (k : Nat) (x : α) (xs : List α) : enumFrom k (x :: xs) = (k, x) :: enumFrom (k + 1) xs := by
  simp [enumFrom, List.range'_succ]

/-- the objects of a list of names -/
def objsFrom (k : Nat) (names : List String) : List Obj := (enumFrom k names).map (fun p => ⟨p.1, p.2⟩)

theorem parallelize_eq {ρ : Type} (optimize : Obj → Obj → String → Option Int → Int → ρ) (dbg : Bool) (w : Option Int) (o t : Obj) (m : Multi.Mode) (trials : List Int) :
    Src.multitask_parallelize optimize dbg w o t m () trials = .ok (trials.map (fun x => Src.multitask_run optimize w x o t m)) := by
  unfold Src.multitask_parallelize Src.multitask_debug_results
  simp
  show Except.ok _ = Except.ok _
  congr 1
  exact R10.flatten_map_singleton _ _


theorem objsFrom_cons (k : Nat) (x : String) (xs : List String) : objsFrom k (x :: xs) = ⟨k, x⟩ :: objsFrom (k + 1) xs := by
  simp [objsFrom, enumFrom_cons]

theorem objsFrom_length (k : Nat) (xs : List String) : (objsFrom k xs).length = xs.length := by
  simp [objsFrom, enumFrom]

/-- `d[k] = v` on the association list of the translation and on the model's agree (both replace in place or append) -/
theorem dictSet_toDict {ρ : Type} (d : Table ρ) (k : String) (cells : List (Cell ρ)) :
    Py.dictSet (toDict d) k (cells.map toRunDict) = toDict (Multi.dictSet d k cells) := by
  induction d with
  | nil => rfl
  | cons kv rest ih =>
    obtain ⟨k', v'⟩ := kv
    simp only [toDict, List.map_cons, Py.dictSet, Multi.dictSet] at ih ⊢
    by_cases h : k' = k
    · subst h; simp
    · simp [h, ih]

/-- the trials of one (algorithm, task) pair: `executor.map(partial(self.__run__, …), trial_list)` is the model's list of cells -/
theorem cells_eq {ρ : Type} (optimize : Obj → Obj → String → Option Int → Int → ρ) (w : Option Nat) (n i j : Nat) (an tn : String) (md : Multi.Mode) :
    List.map (fun x => Src.multitask_run optimize (Option.map Int.ofNat w) x ⟨i, an⟩ ⟨j, tn⟩ md) (Py.range 1 ((n : Int) + 1))
      = (((trialList n).map (fun t => Multi.Call.mk i j an tn md w t)).map (fun c => Cell.mk c.trial (runOf optimize c) tn)).map toRunDict := by
  have hr : Py.range 1 ((n : Int) + 1) = (List.range n).map (fun (k : Nat) => (1 : Int) + (k : Int)) := by
    simp [Py.range]
  rw [hr]
  simp only [trialList, List.map_map]
  apply List.map_congr_left
  intro k _
  simp only [Function.comp, Src.multitask_run, toRunDict, runOf, Id.run, pure, bind]
  have : ((1 : Int) + (k : Int)) = ((k + 1 : Nat) : Int) := by omega
  rw [this]

theorem tasks_loop_eq {ρ : Type} (optimize : Obj → Obj → String → Option Int → Int → ρ) (modes : Option (List (List String))) (w : Option Nat) (n i : Nat) (an : String)
    (j : Nat) (tns : List String) (d : Table ρ) (log : List Multi.Call) :
    forIn (enumFrom j (objsFrom j tns)) (toDict d) (fun x_1 __s => (do
        let m ← Src.get_mode modes i x_1.fst
        let r ← Except.ok (List.map (fun x_2 => Src.multitask_run optimize (Option.map Int.ofNat w) x_2 ⟨i, an⟩ x_1.snd m) (Py.range 1 ((n : Int) + 1)))
        pure (ForInStep.yield (Py.dictSet __s (an ++ "_" ++ x_1.snd.name) r)) : Except Err _))
      = (tasksLoop (runOf optimize) modes w (trialList n) i an j tns (d, log)).map (fun r => toDict r.1) := by
  induction tns generalizing j d log with
  | nil => simp [objsFrom, enumFrom, tasksLoop, Except.map]; rfl
  | cons tn rest ih =>
    rw [objsFrom_cons, enumFrom_cons, List.forIn_cons]
    dsimp only
    rw [get_mode_eq]
    simp only [tasksLoop]
    cases hm : getMode modes i j with
    | error e => rfl
    | ok md =>
      simp only [except_ok_bind]
      rw [cells_eq, dictSet_toDict]
      simp only [pure, Except.pure, except_ok_bind]
      exact ih (j + 1) _ _

theorem algs_loop_eq {ρ : Type} (optimize : Obj → Obj → String → Option Int → Int → ρ) (modes : Option (List (List String))) (w : Option Nat) (n : Nat)
    (tasks : List String) (i : Nat) (ans : List String) (df2 : List (Table ρ)) (log : List Multi.Call) :
    forIn (enumFrom i (objsFrom i ans)) (df2.map toDict) (fun x __s => (do
        let __s_1 ← forIn (Py.enumerate (objsFrom 0 tasks)) [] (fun x_1 __s => (do
            let m ← Src.get_mode modes x.fst x_1.fst
            let r ← Except.ok (List.map (fun x_2 => Src.multitask_run optimize (Option.map Int.ofNat w) x_2 x.snd x_1.snd m) (Py.range 1 ((n : Int) + 1)))
            pure (ForInStep.yield (Py.dictSet __s (x.snd.name ++ "_" ++ x_1.snd.name) r)) : Except Err _))
        pure (ForInStep.yield (__s ++ [__s_1])) : Except Err _))
      = (algsLoop (runOf optimize) modes w (trialList n) tasks i ans (df2, log)).map (fun st => st.1.map toDict) := by
  induction ans generalizing i df2 log with
  | nil => simp [objsFrom, enumFrom, algsLoop, Except.map]; rfl
  | cons an rest ih =>
    rw [objsFrom_cons, enumFrom_cons, List.forIn_cons]
    dsimp only
    rw [enumerate_eq]
    have ht := tasks_loop_eq optimize modes w n i an 0 tasks [] log
    simp only [toDict, List.map_nil] at ht
    rw [ht]
    simp only [algsLoop]
    cases hl : tasksLoop (runOf optimize) modes w (trialList n) i an 0 tasks ([], log) with
    | error e => rfl
    | ok r =>
      obtain ⟨d, log'⟩ := r
      simp only [Except.map, except_ok_bind, pure, Except.pure]
      have := ih (i + 1) (df2 ++ [d]) log'
      simp only [List.map_append, List.map_cons, List.map_nil, enumerate_eq] at this
      exact this

theorem execute_eq {ρ : Type} (optimize : Obj → Obj → String → Option Int → Int → ρ) (modes : Option (List (List String))) (w : Option Nat)
    (algs tasks : List String) (n : Nat) (prior : List (Table ρ)) (dbg0 dbg : Bool) (jobs : Int) :
    Src.multitask_execute optimize (objsFrom 0 algs) (objsFrom 0 tasks) modes (w.map Int.ofNat) dbg0 (prior.map toDict) (n : Int) jobs dbg
      = (executeFrom (runOf optimize) modes w algs tasks n prior).map (fun st => (dbg, st.1.map toDict)) := by
  unfold Src.multitask_execute
  simp only [parallelize_eq]
  rw [enumerate_eq (objsFrom 0 algs)]
  have h := algs_loop_eq optimize modes w n tasks 0 algs prior []
  rw [h]
  unfold executeFrom
  cases algsLoop (runOf optimize) modes w (trialList n) tasks 0 algs (prior, []) with
  | error e => rfl
  | ok st => rfl


/-- on a fresh instance (`_df2 = []`): the tables of the model's `execute` -/
theorem execute_fresh_eq {ρ : Type} (optimize : Obj → Obj → String → Option Int → Int → ρ) (modes : Option (List (List String))) (w : Option Nat)
    (algs tasks : List String) (n : Nat) (dbg0 dbg : Bool) (jobs : Int) :
    Src.multitask_execute optimize (objsFrom 0 algs) (objsFrom 0 tasks) modes (w.map Int.ofNat) dbg0 [] (n : Int) jobs dbg
      = (Multi.execute (runOf optimize) modes w algs tasks n).map (fun st => (dbg, st.1.map toDict)) := by
  have := execute_eq optimize modes w algs tasks n [] dbg0 dbg jobs
  simpa [Multi.execute] using this

/-- the debug flag and the number of jobs change no table (they only print / size the pool of trial processes) -/
theorem execute_debug_jobs_irrelevant {ρ : Type} (optimize : Obj → Obj → String → Option Int → Int → ρ) (modes : Option (List (List String))) (w : Option Nat)
    (algs tasks : List String) (n : Nat) (prior : List (Table ρ)) (d0 d0' d d' : Bool) (jobs jobs' : Int) :
    (Src.multitask_execute optimize (objsFrom 0 algs) (objsFrom 0 tasks) modes (w.map Int.ofNat) d0 (prior.map toDict) (n : Int) jobs d).map (·.2)
      = (Src.multitask_execute optimize (objsFrom 0 algs) (objsFrom 0 tasks) modes (w.map Int.ofNat) d0' (prior.map toDict) (n : Int) jobs' d').map (·.2) := by
  rw [execute_eq, execute_eq]
  cases executeFrom (runOf optimize) modes w algs tasks n prior <;> rfl

example : (Src.multitask_execute (fun o t m _ k => (o.idx, t.idx, m, k)) (objsFrom 0 ["A", "B"]) (objsFrom 0 ["t"]) none none false [] 2 2 true).map (fun r => r.2.length) = .ok 2 := by
  decide


/-- the `modes` argument of the constructor as the model's `ModesArg` (a non-tuple is outside the translation: the typing declares a tuple or `None`) -/
def modesArg : Option (List String) → ModesArg String
  | none => .none
  | some vs => .tuple vs

/-- **`Multitask.__init__`** (called without extra keyword arguments): `_modes` is the model's `construct` — `__check_input__` with `n = len(algorithms)`,
`m = len(tasks)`, then `__check_modes__` — and the instance starts with `_df2 = []`, `_debug = None`, whatever the attributes held before -/
theorem init_eq {ρ : Type} (a0 t0 : List Obj) (n0 m0 : Int) (md0 : Option (List (List String))) (w0 : Option Int) (d0 : Option Bool)
    (df0 : List (List (String × List (RunDict ρ)))) (algs tasks : List Obj) (modes : Option (List String)) (w : Option Int) :
    Src.multitask_init (ρ := ρ) a0 t0 n0 m0 md0 w0 d0 df0 algs tasks modes w
      = (construct algs.length tasks.length (modesArg modes)).map
          (fun t => (algs, tasks, (algs.length : Int), (tasks.length : Int), t, w, none, [])) := by
  unfold Src.multitask_init construct
  simp only [len_eq]
  cases modes with
  | none =>
    simp [Src.check_input, modesArg, checkInput, check_modes_eq, checkModes, Except.map, bind, Except.bind, pure, Except.pure]
  | some vs =>
    simp only [check_input_eq, modesArg, check_modes_eq]
    cases checkInput algs.length tasks.length (ModesArg.tuple vs) with
    | error e => rfl
    | ok t =>
      simp only [except_ok_bind]
      cases checkModes t <;> rfl

end R20
