import PvModel.Generated.Src
import PvModel.Lemmas.PyLemmas
import PvModel.Multi
/-!
# R20 — refinement: `Multitask.__check_input__` *as the source reads now* is the model's `checkInput`
(the broadcasting of `modes` in its four documented shapes, in the order the source tests them — which is what decides the
ambiguous case `n == m`).  The typing SPEC declares `values` a tuple: the `isinstance(values, tuple)` guard is outside the translation.
-/

namespace R20
open Py Multi

theorem mapM_ok {α β : Type} (l : List α) (f : α → β) :
    l.mapM (fun a => (Except.ok (f a) : Except Err β)) = .ok (l.map f) := by
  induction l with
  | nil => rfl
  | cons a l ih => simp [List.mapM_cons, ih]; rfl

theorem mapM_congr_ok {α β : Type} (l : List α) (g : α → Except Err β) (f : α → β) (h : ∀ a ∈ l, g a = .ok (f a)) :
    l.mapM g = .ok (l.map f) := by
  induction l with
  | nil => rfl
  | cons a l ih =>
    simp only [List.mapM_cons, h a List.mem_cons_self, ih (fun b hb => h b (List.mem_cons_of_mem _ hb))]
    rfl

theorem range_const {β : Type} (n : Nat) (x : β) : (Py.range 0 (n : Int)).map (fun _ => x) = List.replicate n x := by
  simp only [range_zero_nat, List.map_map]
  induction n with
  | zero => rfl
  | succ k ih => rw [List.range_succ, List.map_append, ih]; simp [List.replicate_succ']

/-- `[x for _ in range(m)]` with `x` an indexing that succeeds -/
theorem inner_ok {α : Type} (vs : List α) (m : Nat) (i : Int) (v : α) (h : Py.getItem vs i = .ok v) :
    (Py.range 0 (m : Int)).mapM (fun _ => (do return (← Py.getItem vs i) : Except Err α)) = .ok (List.replicate m v) := by
  rw [mapM_congr_ok _ _ (fun _ => v)]
  · rw [range_const]
  · intro a _; simp [h]

theorem getItem_range {α : Type} (vs : List α) (k : Nat) (hk : k < vs.length) : Py.getItem vs (k : Int) = .ok vs[k] := by
  rw [getItem_nat]; simp [hk]

theorem check_input_none {α : Type} (n m : Int) (name kind : String) :
    Src.check_input (α := α) n m name kind none = .ok none := rfl

theorem range_mem (n : Nat) (a : Int) (h : a ∈ Py.range 0 (n : Int)) : ∃ k : Nat, k < n ∧ a = (k : Int) := by
  rw [range_zero_nat] at h
  obtain ⟨k, hk, rfl⟩ := List.mem_map.mp h
  exact ⟨k, List.mem_range.mp hk, rfl⟩

/-- `[[values[idx] for _ in range(m)] for idx in range(len(values))]` -/
theorem per_algorithm {α : Type} (m : Nat) (vs : List α) :
    (Py.range 0 (vs.length : Int)).mapM (fun idx => (do return (← (Py.range 0 (m : Int)).mapM (fun _ => (do return (← Py.getItem vs idx) : Except Err α))) : Except Err (List α)))
      = .ok (vs.map (fun v => List.replicate m v)) := by
  cases vs with
  | nil => rfl
  | cons d tl =>
    rw [mapM_congr_ok _ _ (fun a => List.replicate m (((d :: tl)[a.toNat]?).getD d))]
    · congr 1
      rw [range_zero_nat, List.map_map]
      apply List.ext_getElem
      · simp
      · intro i h1 h2
        simp only [List.length_map, List.length_range] at h1
        simp only [List.getElem_map, List.getElem_range, Function.comp, Int.toNat_natCast, List.getElem?_eq_getElem h1, Option.getD_some]
    · intro a ha
      obtain ⟨k, hk, rfl⟩ := range_mem _ a ha
      have := inner_ok (d :: tl) m (k : Int) (d :: tl)[k] (getItem_range _ k hk)
      rw [this]
      simp only [Int.toNat_natCast, List.getElem?_eq_getElem hk, Option.getD_some]

/-- the tail of the test chain (`len == n`, `len == m`, `len == n*m`, else `ValueError`), for any tuple -/
theorem chain_eq {α : Type} (n m : Nat) (vs : List α) :
    (if decide (Py.len vs = (n : Int)) = true then
        (do return (some (← (Py.range 0 (n : Int)).mapM (fun idx => (do return (← (Py.range 0 (m : Int)).mapM (fun _ => (do return (← Py.getItem vs idx) : Except Err α))) : Except Err (List α))))) : Except Err (Option (List (List α))))
      else if decide (Py.len vs = (m : Int)) = true then
        (pure (some ((Py.range 0 (n : Int)).map (fun _ => vs))))
      else if decide (Py.len vs = (n : Int) * (m : Int)) = true then
        (pure (some ((Py.range 0 (n : Int)).map (fun i => Py.slice vs (i * (m : Int)) ((i + 1) * (m : Int))))))
      else throw Err.valueError)
      = (if vs.length = n then .ok (some (vs.map (fun v => List.replicate m v)))
         else if vs.length = m then .ok (some (List.replicate n vs))
         else if vs.length = n * m then .ok (some (rows n m vs))
         else .error .valueError) := by
  have e1 : (decide (Py.len vs = (n : Int)) = true) ↔ vs.length = n := by
    rw [decide_eq_true_iff]; show ((vs.length : Int) = (n : Int)) ↔ _; omega
  have e2 : (decide (Py.len vs = (m : Int)) = true) ↔ vs.length = m := by
    rw [decide_eq_true_iff]; show ((vs.length : Int) = (m : Int)) ↔ _; omega
  have e3 : (decide (Py.len vs = (n : Int) * (m : Int)) = true) ↔ vs.length = n * m := by
    rw [decide_eq_true_iff]; show ((vs.length : Int) = (n : Int) * (m : Int)) ↔ _
    rw [← Int.natCast_mul]; omega
  simp only [e1, e2, e3]
  by_cases h1 : vs.length = n
  · rw [if_pos h1, if_pos h1]
    subst h1
    rw [per_algorithm]
    rfl
  · rw [if_neg h1, if_neg h1]
    by_cases h2 : vs.length = m
    · rw [if_pos h2, if_pos h2, range_const]
      rfl
    · rw [if_neg h2, if_neg h2]
      by_cases h3 : vs.length = n * m
      · rw [if_pos h3, if_pos h3]
        have : (Py.range 0 (n : Int)).map (fun i => Py.slice vs (i * (m : Int)) ((i + 1) * (m : Int))) = rows n m vs := by
          simp only [range_zero_nat, List.map_map, rows]
          apply List.map_congr_left
          intro i _
          have e1 : ((i : Int) * (m : Int)) = ((i * m : Nat) : Int) := by simp
          have e2 : (((i : Int) + 1) * (m : Int)) = (((i + 1) * m : Nat) : Int) := by simp
          simp only [Function.comp, e1, e2, slice_nat]
          rw [List.drop_take]
          congr 1
          rw [Nat.add_mul, Nat.one_mul, Nat.add_sub_cancel_left]
        rw [this]
        rfl
      · rw [if_neg h3, if_neg h3]
        rfl

theorem check_input_eq {α : Type} (n m : Nat) (name kind : String) (vs : List α) :
    Src.check_input n m name kind (some vs) = checkInput n m (.tuple vs) := by
  unfold Src.check_input checkInput
  simp only [Bool.not_true, Bool.false_eq_true, ↓reduceIte]
  have hc := chain_eq n m vs
  rcases vs with _ | ⟨v, _ | ⟨v2, rest⟩⟩
  · have : ¬ (decide (Py.len ([] : List α) = 1) = true) := by rw [decide_eq_true_iff]; show ¬ ((0 : Int) = 1); omega
    rw [if_neg this]
    exact hc
  · have h0 : Py.getItem [v] 0 = .ok v := rfl
    have hin := inner_ok [v] m 0 v h0
    have hrow : (Py.range 0 (n : Int)).mapM (fun _ => (do return (← (Py.range 0 (m : Int)).mapM (fun _ => (do return (← Py.getItem [v] 0) : Except Err α))) : Except Err (List α)))
        = .ok (List.replicate n (List.replicate m v)) := by
      rw [mapM_congr_ok _ _ (fun _ => List.replicate m v)]
      · rw [range_const]
      · intro a _; exact hin
    have : (decide (Py.len ([v] : List α) = 1) = true) := by rw [decide_eq_true_iff]; rfl
    rw [if_pos this, hrow]
    rfl
  · have : ¬ (decide (Py.len (v :: v2 :: rest) = 1) = true) := by
      rw [decide_eq_true_iff]; show ¬ (((v :: v2 :: rest).length : Int) = 1); simp only [List.length_cons]; omega
    rw [if_neg this]
    exact hc


/-- `__check_modes__`: every mode of the broadcast table is a `ModeSolver` value, else `ValueError` -/
theorem check_modes_eq (modes : Option (List (List String))) : Src.check_modes modes = checkModes modes := by
  unfold Src.check_modes checkModes
  cases modes with
  | none => rfl
  | some t =>
    simp only [List.all_map, Function.comp_def]
    cases h : t.flatten.all validMode <;> simp [h] <;> rfl

/-- `__get_mode__`: `"serial"` without a table, else `self._modes[id_optimizer][id_prob]`, parsed by `ModeSolver` -/
theorem get_mode_eq (modes : Option (List (List String))) (i j : Nat) : Src.get_mode modes i j = getMode modes i j := by
  unfold Src.get_mode getMode
  cases modes with
  | none => rfl
  | some t =>
    simp only [getNat_eq, lookup]
    cases hi : t[i]? with
    | none => rfl
    | some row =>
      simp only [except_ok_bind, Option.bind_some]
      cases hj : row[j]? with
      | none => rfl
      | some s0 =>
        simp only [except_ok_bind, bind_pure, Multi.parseMode]
        cases Mode.ofString s0 <;> rfl

end R20
