import PvModel.Props.R00
import PvModel.Props.R11
/-!
# R12 — the translated pieces composed: `optimize()` as the source reads now, run with the base class's own `_init_population`
as the source reads now (`R11`), records as generation 0 the agents built from the next `n` draws of the random stream

`R00.optimize_eq` treats the four hooks as arbitrary transformers of the instance; here `_init_population` is instantiated with the translation of
the base class's method (the classes that do not override it — T11 lists the ones that do), the instance's private state carrying the number of
draws made so far.  The other three hooks stay arbitrary (`Frame`).
-/

namespace R12
open Py

variable {R σ' : Type}

/-- the base class's `_init_population()` as a hook: `n` = `self._config.population_size`, the draw counter is the first component of the
private state, `perm` the completion order of the pool -/
def baseInit (draw : Nat → List Raw) (perm : List Nat) (n : Nat) (s : Self R (Nat × σ') TaskSem) : Except Err (Self R (Nat × σ') TaskSem) :=
  match s.task with
  | some T =>
    match (Src.init_population perm (R02.fitOf T) draw s.mode s.workers T (n : Int) s.population).run s.priv.1 with
    | .ok (pop, k) => .ok { s with population := pop, priv := (k, s.priv.2) }
    | .error e => .error e
  | none => .error .attributeError

/-- it touches the population and the stream only -/
theorem baseInit_keeps (draw : Nat → List Raw) (perm : List Nat) (n : Nat) : R00.Keeps (baseInit (R := R) (σ' := σ') draw perm n) := by
  intro s s' h
  unfold baseInit at h
  cases ht : s.task with
  | none => simp [ht] at h
  | some T =>
    simp only [ht] at h
    cases hr : (Src.init_population perm (R02.fitOf T) draw s.mode s.workers T (n : Int) s.population).run s.priv.1 with
    | error e => simp [hr] at h
    | ok r =>
      obtain ⟨pop, k⟩ := r
      simp only [hr, Except.ok.injEq] at h
      subst h
      exact ⟨rfl, rfl, rfl, rfl⟩

/-- what it leaves: in serial mode the agents of draws `k … k+n-1` in order, in a pooled mode a permutation of them; the stream at `k + n` -/
theorem baseInit_population (draw : Nat → List Raw) (perm : List Nat) (n : Nat) (hperm : perm.Perm (List.range n)) (s s' : Self R (Nat × σ') TaskSem) (T : TaskSem)
    (ht : s.task = some T) (h : baseInit draw perm n s = .ok s') :
    ∃ l, R11.fromDraws (R11.mk T) draw s.priv.1 n = .ok l ∧ s'.priv = (s.priv.1 + n, s.priv.2) ∧ l.length = n ∧
      (if s.mode = Mode.serial then s'.population = l else s'.population.Perm l) := by
  unfold baseInit at h
  simp only [ht] at h
  rw [R11.init_population_eq] at h
  by_cases hm : s.mode = Mode.serial
  · rw [hm, R11.generate_agents_serial] at h
    cases hf : R11.fromDraws (R11.mk T) draw s.priv.1 n with
    | error e => simp [hf, Except.map] at h
    | ok l =>
      simp only [hf, Except.map, Except.ok.injEq] at h
      subst h
      exact ⟨l, rfl, rfl, R11.fromDraws_length _ _ _ _ _ hf, by simp [hm]⟩
  · rw [R11.generate_agents_pooled perm T draw s.mode hm] at h
    cases hf : R11.fromDraws (R11.mk T) draw s.priv.1 n with
    | error e => simp [hf, Except.map] at h
    | ok l =>
      simp only [hf, Except.map, Except.ok.injEq] at h
      subst h
      have hl := R11.fromDraws_length _ _ _ _ _ hf
      refine ⟨l, rfl, rfl, hl, ?_⟩
      simp only [hm, ↓reduceIte]
      exact C11.poolResults_perm perm l (by rw [hl]; exact hperm)


section
variable {σ : Type} (ar : Arith R) (cfg : StopCfg R) (alg : Alg σ) (rate : List Agent → R) (dir : Dir)

/-- the loop only ever appends to the history -/
theorem loop_prefix (fuel : Nat) (s : σ) (b : Book R) (hist : List (List Agent)) (s' : σ) (b' : Book R) (hist' : List (List Agent))
    (h : loop ar cfg alg rate dir fuel s b hist = .ok (s', b', hist')) : ∃ suf, hist' = hist ++ suf := by
  induction fuel generalizing s b hist with
  | zero => simp only [loop, Except.ok.injEq, Prod.mk.injEq] at h; exact ⟨[], by simp [h.2.2]⟩
  | succ fuel ih =>
    simp only [loop] at h
    cases hs : alg.step s with
    | error e => simp [hs] at h
    | ok s1 =>
      simp only [hs] at h
      split at h
      · split at h
        · simp only [Except.ok.injEq, Prod.mk.injEq] at h
          exact ⟨[snapshot dir (alg.pop s1)], h.2.2.symm⟩
        · obtain ⟨suf, hsuf⟩ := ih _ _ _ h
          exact ⟨snapshot dir (alg.pop s1) :: suf, by simp [hsuf]⟩
      · simp at h

/-- generation 0 of a returned result is the snapshot of the population `init` left -/
theorem runBody_head (s0 : σ) (res : Result R) (sN : σ) (bN : Book R) (h : runBody ar cfg alg rate dir s0 = .ok (res, sN, bN)) :
    ∃ s1, alg.init s0 = .ok s1 ∧ res.evolution.head? = some (snapshot dir (alg.pop s1)) := by
  unfold runBody at h
  cases hi : alg.init s0 with
  | error e => simp [hi] at h
  | ok s1 =>
    refine ⟨s1, rfl, ?_⟩
    simp only [hi] at h
    split at h
    · cases hl : loop ar cfg alg rate dir (max cfg.maxCycles.toNat 1) s1 Book.fresh [snapshot dir (alg.pop s1)] with
      | error e => simp [hl] at h
      | ok r =>
        obtain ⟨s, b, hist⟩ := r
        simp only [hl] at h
        obtain ⟨suf, hsuf⟩ := loop_prefix ar cfg alg rate dir _ _ _ _ _ _ _ hl
        cases hb : bestAgent .min (alg.pop s) with
        | error e => simp [hb] at h
        | ok best =>
          simp only [hb, Except.ok.injEq, Prod.mk.injEq] at h
          rw [← h.1]
          simp [hsuf]
    · simp at h
end


section
variable (ar : Arith R) (H : Hooks R (Nat × σ') TaskSem) (avg : List Agent → R) (one : R)

/-- **generation 0 of `optimize()`** as the source reads now, for a class that uses the base `_init_population` (as the source reads now): the agents
built by the model's `mkAgent` from the `n` draws that follow whatever `before_initialization` consumed — in that order in serial mode, in some order in a
pooled mode — recorded with the caller-visible sign. The three other hooks are arbitrary (`Frame`). -/
theorem src_first_generation (draw : Nat → List Raw) (perm : List Nat) (n : Nat) (hperm : perm.Perm (List.range n))
    (hinit : H.init_population = baseInit draw perm n) (hF : R00.Frame H)
    (cfg : StopCfg R) (hp : ∀ es, cfg.es = some es → 1 ≤ es.patience) (hmode : ∀ m e, H.parse_mode m = .error e → e = .valueError)
    (task : TaskSem) (mode : Option String) (workers : Option Int) (self : Self R (Nat × σ') TaskSem) (hc : self.config = some cfg)
    (evo : List (List Agent)) (rates : List R) (best : Option Agent) (d : Dir) (self' : Self R (Nat × σ') TaskSem)
    (h : Src.optimize ar H avg one task mode workers (max cfg.maxCycles.toNat 1) self = .ok ((evo, rates, best, d), self')) :
    ∃ s1 T l g, H.before_initialization (R00.prep H self task (R00.modeOf H mode) workers) = .ok s1 ∧ s1.task = some T ∧
      R11.fromDraws (R11.mk T) draw s1.priv.1 n = .ok l ∧ l.length = n ∧ evo.head? = some g ∧
      (if s1.mode = Mode.serial then g = snapshot (H.task_minmax task) l else g.Perm (snapshot (H.task_minmax task) l)) := by
  rw [R00.optimize_eq ar H avg one hF cfg hp hmode task mode workers self hc] at h
  unfold optimize at h
  cases hpr : prologue (R00.callOf H self mode workers) with
  | error e => simp [hpr, Except.map] at h
  | ok u =>
    simp only [hpr] at h
    cases hr : runBody ar cfg (R00.algM ar H avg one cfg) (R00.rate ar avg one) (H.task_minmax task) (R00.prep H self task (R00.modeOf H mode) workers, false) with
    | error e => simp [hr, Except.map] at h
    | ok r =>
      obtain ⟨res, sN, bN⟩ := r
      simp only [hr, Except.map, Except.ok.injEq, Prod.mk.injEq] at h
      obtain ⟨⟨h1, -⟩, -⟩ := h
      obtain ⟨sx, hix, hhead⟩ := runBody_head ar cfg _ _ _ _ res sN bN hr
      simp only [R00.algM, R00.initM] at hix hhead
      cases hb : H.before_initialization (R00.prep H self task (R00.modeOf H mode) workers) with
      | error e => simp [hb] at hix
      | ok s1 =>
        simp only [hb, hinit] at hix
        cases hi : baseInit draw perm n s1 with
        | error e => simp [hi] at hix
        | ok s2 =>
          simp only [hi] at hix
          have hpop : sx.1.population = s2.population := by
            split at hix <;> (simp only [Except.ok.injEq] at hix; subst hix; rfl)
          cases ht : s1.task with
          | none => simp [baseInit, ht] at hi
          | some T =>
            obtain ⟨l, hl, -, hlen, hmodeq⟩ := baseInit_population draw perm n hperm s1 s2 T ht hi
            refine ⟨s1, T, l, snapshot (H.task_minmax task) s2.population, rfl, ht, hl, hlen, ?_, ?_⟩
            · rw [← h1, hhead, hpop]
            · by_cases hm : s1.mode = Mode.serial
              · simp only [hm, ↓reduceIte] at hmodeq ⊢
                rw [hmodeq]
              · simp only [hm, ↓reduceIte] at hmodeq ⊢
                exact hmodeq.map _
end

/-- the hypotheses are satisfiable: hooks that do nothing except the base `_init_population` -/
def baseHooks (draw : Nat → List Raw) (perm : List Nat) (n : Nat) : Hooks R (Nat × σ') TaskSem where
  before_initialization := fun s => .ok s
  init_population := baseInit draw perm n
  after_initialization := fun s => .ok s
  optimization_step := fun s => .ok s
  parse_mode := fun _ => .ok Mode.serial
  np_random_seed := fun _ p => p
  task_minmax := fun T => T.dir
  task_seed := fun _ => 0

theorem baseHooks_frame (draw : Nat → List Raw) (perm : List Nat) (n : Nat) : R00.Frame (baseHooks (R := R) (σ' := σ') draw perm n) := by
  have hid : R00.Keeps (fun (s : Self R (Nat × σ') TaskSem) => (Except.ok s : Except Err _)) := by
    intro s s' h
    simp only [Except.ok.injEq] at h
    subst h
    exact ⟨rfl, rfl, rfl, rfl⟩
  exact ⟨hid, baseInit_keeps draw perm n, hid, hid⟩

end R12
