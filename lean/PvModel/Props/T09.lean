import PvModel.Props.Tables
/-! Table obligation (regenerated facts, decided by kernel evaluation over the whole table): no optimizer module stores into self._config / self._task (or an alias of one of their fields), nor into the framework's bookkeeping fields. -/
namespace T09
open Generated Tables
theorem table_no_config_task_writes : ∀ a ∈ algos, noConfigTaskWrites a = true := by decide
end T09
