import PvModel.Props.C08
/-!
# C07 — a seeded run is reproducible

The world a run executes in has, besides the instance's own fields, the state of numpy's global generator (`np`), of the stdlib
`random` module (`py`) and anything else ambient (clock, entropy, hash seeds).  `optimize` assigns `np := seedOf(task.seed)`
right after the configuration check (table obligation `T07.core_seeding`: the prologue starts `configCheck, seed`, `Task.seed`
is an int) — an unconditional assignment that reads only the task.  Every optimizer draws through `np` only (table obligation
`T07.table_numpy_rng_only`): in the field machine, `np` is read and written by the programs, `py` and the ambient state are not read.

`c07_noninterference`: then two runs of the same class with equal configuration on equal tasks carrying the same seed agree on
every observable field after every number of cycles — whatever both generators and the environment held before, and whatever
the instance did before (C07 is the instance of C08's theorem with the seeding prepended to the initialisation).
What numpy's generator returns for a given state is an arbitrary function (`e`) here: MT19937 being a function of its seed is trusted.
-/

namespace C07
open Stmt C08
variable {F V : Type} [DecidableEq F]

/-- **C07**: `np` is the generator field, `task` the task field; `seedOf` is whatever `np.random.seed` does with the seed.
The initialisation `init` and the step may read and write `np` (sampling advances the generator) but read nothing outside
`C ∪ {np} ∪ targets(init)`. Two worlds that agree on `C` (configuration, task incl. its seed, constructor constants) and differ
arbitrarily elsewhere (generator states, ambient state, instance history) yield identical runs. -/
theorem c07_noninterference (C : F → Prop) (np task : F) (htask : C task) (seedOf : List V → V)
    (init : List (Asg F V)) (step : Stmt F V)
    (hinit : WellScoped (fun g => C g ∨ g = np) init)
    (hstep : ∀ f ∈ step.reads, Obs C ((np, [task], seedOf) :: init) f)
    (w1 w2 : Store F V) (h : AgreeOn C w1 w2) (k : Nat) :
    AgreeOn (Obs C ((np, [task], seedOf) :: init))
        ((runTo ((np, [task], seedOf) :: init) step k).run w1).1 ((runTo ((np, [task], seedOf) :: init) step k).run w2).1 ∧
      ((runTo ((np, [task], seedOf) :: init) step k).run w1).2 = ((runTo ((np, [task], seedOf) :: init) step k).run w2).2 :=
  fresh_equiv C ((np, [task], seedOf) :: init) step ⟨by intro r hr; simp at hr; subst hr; exact htask, hinit⟩ hstep w1 w2 h k

/-- the hypothesis "draws through `np` only" is necessary: a step that reads the stdlib generator (`helpers.get_partner_index`
on the pinned tree, used by Bee Colony) distinguishes two worlds that agree on everything the seed controls. -/
theorem pyRandom_witness :
    -- fields: 0 = task, 1 = np, 2 = py (never seeded), 3 = a private field the step writes
    let step : Stmt Nat Nat := .assign 3 [2] (fun vs => vs.headD 0)
    let w1 : Store Nat Nat := ⟨fun f => if f = 2 then 111 else 0⟩
    let w2 : Store Nat Nat := ⟨fun f => if f = 2 then 222 else 0⟩
    AgreeOn (fun g => g = 0) w1 w2 ∧
      ((runTo [(1, [0], fun vs => vs.headD 0)] step 1).run w1).1.get 3 ≠ ((runTo [(1, [0], fun vs => vs.headD 0)] step 1).run w2).1.get 3 := by
  refine ⟨by intro f hf; subst hf; rfl, ?_⟩
  simp [runTo, assigns, cycles, run, Store.set]

/-- an int seed reaches the generator unchanged; the pinned tree declared `seed: float`, so pydantic turned `42` into `42.0`,
which `np.random.seed` rejects (`TypeError`): modelled as the seed's declared type admitting exactly the ints. -/
inductive SeedTy | int | float deriving DecidableEq
def seedAccepted : SeedTy → Bool
  | .int => true
  | .float => false
theorem seed_int_accepted : seedAccepted .int = true ∧ seedAccepted .float = false := ⟨rfl, rfl⟩

end C07
