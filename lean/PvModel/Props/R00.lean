import PvModel.Generated.Src
import PvModel.Lemmas.PyLemmas
import PvModel.Props.R04
import PvModel.Props.R16
import PvModel.Lemmas.PopExpLemmas
import PvModel.Lemmas.LoopLemmas
/-!
# R00 — refinement: `OptimizationAbstract.optimize` *as the source reads now* is the model's `optimize` / `runBody` / `loop`

`Src.optimize` is the statement-by-statement translation of `abstract.py:optimize` (prologue, initialisation, `while True`
loop with fuel, result assembly) over the instance record `Self` and arbitrary hooks `H` (`before_initialization`,
`_init_population`, `after_initialization`, `optimization_step`: any transformers of the *whole* instance, possibly raising).
-/

namespace R00
open Py

variable {R σ τ : Type} (ar : Arith R) (H : Hooks R σ τ) (avg : List Agent → R) (one : R)

/-- the convergence rate of a generation, as `__error_check__` computes it: `|1 − average_fitness(population)|` -/
def rate (pop : List Agent) : R := ar.abs (ar.sub one (avg pop))

theorem population_init_eq (pop : List Agent) (d : Dir) : Src.population_init pop d = snapshot d pop := by
  unfold Src.population_init snapshot
  simp only [Id.run, id_pure]
  apply List.map_congr_left
  intro a _
  cases d <;> simp [Src.population_init_refine_agent, Agent.refine, Id.run]

theorem result_init_eq (evo : List (List Agent)) (rates : List R) (best : Option Agent) (d : Dir) :
    Src.result_init evo rates best d = (evo, rates, best.map (Agent.refine d), d) := by
  unfold Src.result_init
  cases best <;> cases d <;> simp [Id.run, Src.result_init_refine_best_solution, Agent.refine]

/-- `special_agents(pop, n_best=1, n_worst=1)` on any population, the empty one included -/
theorem special_one_one (pop : List Agent) :
    Src.special_agents pop (some 1) (some 1) .min = specialAgents .min pop (some 1) (some 1) := by
  cases pop with
  | nil => rfl
  | cons a l => exact R16.special_agents_eq (a :: l) (some 1) (some 1) .min (by intro n hn; cases hn; simp)


/-- what the framework does to the instance after each step, given the step's result `s` (population non-empty):
best / worst agent, the two histories, and — unless a criterion holds — the cycle counter -/
def bookkeep (cfg : StopCfg R) (s : Self R σ τ) (b w : Agent) : Self R σ τ × Bool :=
  let r := errorCheck ar cfg ⟨s.current_cycle, s.errors, s.error_diffs⟩ (rate ar avg one s.population)
  let s2 : Self R σ τ := { s with best_agent := some b, worst_agent := some w, errors := r.1.errors, error_diffs := r.1.diffs }
  (if r.2 then s2 else { s2 with current_cycle := s2.current_cycle + 1 }, r.2)

theorem loop_zero (task : τ) (s : Self R σ τ) (hist : List (List Agent)) :
    Src.optimize_loop ar H avg one task 0 s hist = .ok (s, hist) := by
  rw [Src.optimize_loop]; rfl

theorem loop_succ_err (task : τ) (fuel : Nat) (s : Self R σ τ) (hist : List (List Agent)) (e : Err)
    (hs : H.optimization_step s = .error e) :
    Src.optimize_loop ar H avg one task (fuel + 1) s hist = .error e := by
  rw [Src.optimize_loop]
  simp only [hs]
  rfl

/-- one iteration of the translated `while True:` loop, in explicit form -/
theorem loop_succ_ok (task : τ) (fuel : Nat) (s s' : Self R σ τ) (hist : List (List Agent)) (cfg : StopCfg R)
    (hp : ∀ es, cfg.es = some es → 1 ≤ es.patience)
    (hs : H.optimization_step s = .ok s') (hc : s'.config = some cfg) :
    Src.optimize_loop ar H avg one task (fuel + 1) s hist =
      match specialAgents .min s'.population (some 1) (some 1) with
      | .ok ([b], [w]) =>
        let hist' := hist ++ [snapshot (H.task_minmax task) s'.population]
        let r := bookkeep ar avg one cfg s' b w
        if r.2 then .ok (r.1, hist') else Src.optimize_loop ar H avg one task fuel r.1 hist'
      | _ => .error .valueError := by
  rw [Src.optimize_loop]
  simp only [hs, population_init_eq, special_one_one]
  have hsp : specialAgents .min s'.population (some 1) (some 1) = .ok (bestAgents .min s'.population 1, worstAgents .min s'.population 1) := rfl
  rw [hsp]
  have hattr : Py.attrOf s'.config = .ok cfg := by rw [hc]; rfl
  have hec := R04.error_check_eq ar avg one cfg ⟨s'.current_cycle, s'.errors, s'.error_diffs⟩ s'.population hp
  rcases hB : bestAgents .min s'.population 1 with _ | ⟨b, _ | ⟨b2, bl⟩⟩ <;>
    rcases hW : worstAgents .min s'.population 1 with _ | ⟨w, _ | ⟨w2, wl⟩⟩
  all_goals simp only [bind, Except.bind, hsp, hB, hW, unpack1, hattr]
  all_goals try rfl
  simp only at hec
  simp only [hec, bookkeep, rate, pure, Except.pure]
  by_cases hstop : (errorCheck ar cfg ⟨s'.current_cycle, s'.errors, s'.error_diffs⟩ (ar.abs (ar.sub one (avg s'.population)))).2 = true
  · simp only [hstop, if_true]
  · simp only [hstop, if_false]; rfl


/-! ## the model algorithm that the hooks define -/

/-- a hook leaves the configuration and the framework's bookkeeping attributes alone.  Per optimizer class this is decided
over the regenerated fact table: no store into `_current_cycle / _errors / _error_diffs` (T08: `frameworkFieldWrites = 0`)
and none into the configuration (T09). Hooks may *read* everything and change anything else. -/
def Keeps (f : Self R σ τ → Except Err (Self R σ τ)) : Prop :=
  ∀ s s', f s = .ok s' →
    s'.config = s.config ∧ s'.current_cycle = s.current_cycle ∧ s'.errors = s.errors ∧ s'.error_diffs = s.error_diffs

structure Frame (H : Hooks R σ τ) : Prop where
  before : Keeps H.before_initialization
  initp : Keeps H.init_population
  after : Keeps H.after_initialization
  step : Keeps H.optimization_step

def bookOf (s : Self R σ τ) : Book R := ⟨s.current_cycle, s.errors, s.error_diffs⟩

/-- `optimization_step` followed by the framework's bookkeeping on the instance; the first step of a run is preceded by
`after_initialization` (nothing observes the instance between the two) -/
def stepM (cfg : StopCfg R) (x : Self R σ τ × Bool) : Except Err (Self R σ τ × Bool) :=
  match (if x.2 then .ok x.1 else H.after_initialization x.1) with
  | .error e => .error e
  | .ok s0 =>
    match H.optimization_step s0 with
    | .error e => .error e
    | .ok s' =>
      match specialAgents .min s'.population (some 1) (some 1) with
      | .ok ([b], [w]) => .ok ((bookkeep ar avg one cfg s' b w).1, true)
      | _ => .ok (s', true)

/-- `before_initialization; _init_population`, then best / worst of the initial population stored on the instance -/
def initM (x : Self R σ τ × Bool) : Except Err (Self R σ τ × Bool) :=
  match H.before_initialization x.1 with
  | .error e => .error e
  | .ok s1 =>
    match H.init_population s1 with
    | .error e => .error e
    | .ok s2 =>
      match specialAgents .min s2.population (some 1) (some 1) with
      | .ok ([b], [w]) => .ok ({ s2 with best_agent := some b, worst_agent := some w }, false)
      | _ => .ok (s2, false)

/-- the optimizer as the model's `Alg`: state = the whole instance (+ whether `after_initialization` has run) -/
def algM (cfg : StopCfg R) : Alg (Self R σ τ × Bool) where
  init := initM H
  step := stepM ar H avg one cfg
  pop := fun x => x.1.population

theorem bookkeep_population (cfg : StopCfg R) (s : Self R σ τ) (b w : Agent) :
    (bookkeep ar avg one cfg s b w).1.population = s.population := by
  unfold bookkeep; simp only; split <;> rfl

theorem bookkeep_config (cfg : StopCfg R) (s : Self R σ τ) (b w : Agent) :
    (bookkeep ar avg one cfg s b w).1.config = s.config := by
  unfold bookkeep; simp only; split <;> rfl

theorem stepM_true (cfg : StopCfg R) (s : Self R σ τ) :
    stepM ar H avg one cfg (s, true) =
      match H.optimization_step s with
      | .error e => .error e
      | .ok s' =>
        match specialAgents .min s'.population (some 1) (some 1) with
        | .ok ([b], [w]) => .ok ((bookkeep ar avg one cfg s' b w).1, true)
        | _ => .ok (s', true) := by
  simp [stepM]

theorem bookkeep_book (cfg : StopCfg R) (s0 s : Self R σ τ) (b w : Agent)
    (k2 : s.current_cycle = s0.current_cycle) (k3 : s.errors = s0.errors) (k4 : s.error_diffs = s0.error_diffs) :
    let r := errorCheck ar cfg (bookOf s0) (rate ar avg one s.population)
    (bookkeep ar avg one cfg s b w).2 = r.2 ∧
    bookOf (bookkeep ar avg one cfg s b w).1 = (if r.2 then r.1 else { r.1 with cycle := r.1.cycle + 1 }) := by
  have hb : bookOf s0 = ⟨s.current_cycle, s.errors, s.error_diffs⟩ := by simp [bookOf, k2, k3, k4]
  simp only [bookkeep, hb, true_and]
  split <;> simp [bookOf, errorCheck]

/-- the loop, from a state in which `after_initialization` has run -/
theorem loop_eq (hF : Frame H) (cfg : StopCfg R) (hp : ∀ es, cfg.es = some es → 1 ≤ es.patience) (task : τ)
    (fuel : Nat) (s : Self R σ τ) (hist : List (List Agent)) (hc : s.config = some cfg) :
    loop ar cfg (algM ar H avg one cfg) (rate ar avg one) (H.task_minmax task) fuel (s, true) (bookOf s) hist =
      (Src.optimize_loop ar H avg one task fuel s hist).map (fun r => ((r.1, true), bookOf r.1, r.2)) := by
  induction fuel generalizing s hist with
  | zero => rw [loop_zero]; rfl
  | succ n ih =>
    rw [loop]
    have hstep : (algM ar H avg one cfg).step (s, true) = stepM ar H avg one cfg (s, true) := rfl
    rw [hstep, stepM_true]
    cases hs : H.optimization_step s with
    | error e => rw [loop_succ_err ar H avg one task n s hist e hs]; rfl
    | ok s' =>
      obtain ⟨k1, k2, k3, k4⟩ := hF.step s s' hs
      have hc' : s'.config = some cfg := by rw [k1, hc]
      rw [loop_succ_ok ar H avg one task n s s' hist cfg hp hs hc']
      have hsp : specialAgents .min s'.population (some 1) (some 1) = .ok (bestAgents .min s'.population 1, worstAgents .min s'.population 1) := rfl
      simp only [hsp]
      rcases hB : bestAgents .min s'.population 1 with _ | ⟨b, _ | ⟨b2, bl⟩⟩ <;>
        rcases hW : worstAgents .min s'.population 1 with _ | ⟨w, _ | ⟨w2, wl⟩⟩
      all_goals simp only [algM, hsp, hB, hW]
      all_goals try rfl
      -- the regular case: exactly one best and one worst agent
      obtain ⟨hb2, hbk⟩ := bookkeep_book ar avg one cfg s s' b w k2 k3 k4
      simp only [bookkeep_population, hsp, hB, hW, hb2]
      by_cases hstop : (errorCheck ar cfg (bookOf s) (rate ar avg one s'.population)).2 = true
      · simp only [hstop, if_true] at hbk ⊢
        simp only [Except.map, hbk]
      · simp only [hstop, if_false] at hbk ⊢
        have := ih (bookkeep ar avg one cfg s' b w).1 (hist ++ [snapshot (H.task_minmax task) s'.population])
          (by rw [bookkeep_config, hc'])
        rw [hbk] at this
        exact this


/-- the first iteration runs `after_initialization` before the step -/
theorem loop_false (cfg : StopCfg R) (task : τ) (n : Nat) (s : Self R σ τ) (b : Book R) (hist : List (List Agent)) :
    loop ar cfg (algM ar H avg one cfg) (rate ar avg one) (H.task_minmax task) (n + 1) (s, false) b hist =
      match H.after_initialization s with
      | .error e => .error e
      | .ok s0 => loop ar cfg (algM ar H avg one cfg) (rate ar avg one) (H.task_minmax task) (n + 1) (s0, true) b hist := by
  cases ha : H.after_initialization s with
  | error e =>
    rw [loop]
    have : (algM ar H avg one cfg).step (s, false) = .error e := by simp [algM, stepM, ha]
    rw [this]
  | ok s0 =>
    simp only
    rw [loop, loop]
    have : (algM ar H avg one cfg).step (s, false) = (algM ar H avg one cfg).step (s0, true) := by simp [algM, stepM, ha]
    rw [this]

/-- after at least one iteration the instance's `_best_agent` is the best agent of its final population -/
def Post (s : Self R σ τ) : Prop := ∃ b, bestAgents .min s.population 1 = [b] ∧ s.best_agent = some b

theorem bookkeep_post (cfg : StopCfg R) (s : Self R σ τ) (b w : Agent) (hB : bestAgents .min s.population 1 = [b]) :
    Post (bookkeep ar avg one cfg s b w).1 := by
  refine ⟨b, by rw [bookkeep_population]; exact hB, ?_⟩
  unfold bookkeep; simp only; split <;> rfl

theorem loop_post (hF : Frame H) (cfg : StopCfg R) (hp : ∀ es, cfg.es = some es → 1 ≤ es.patience) (task : τ)
    (fuel : Nat) (s : Self R σ τ) (hist : List (List Agent)) (hc : s.config = some cfg)
    (r : Self R σ τ × List (List Agent)) (h : Src.optimize_loop ar H avg one task (fuel + 1) s hist = .ok r) : Post r.1 := by
  induction fuel generalizing s hist with
  | zero =>
    cases hs : H.optimization_step s with
    | error e => rw [loop_succ_err ar H avg one task 0 s hist e hs] at h; cases h
    | ok s' =>
      have hc' : s'.config = some cfg := by rw [(hF.step s s' hs).1, hc]
      rw [loop_succ_ok ar H avg one task 0 s s' hist cfg hp hs hc'] at h
      have hsp : specialAgents .min s'.population (some 1) (some 1) = .ok (bestAgents .min s'.population 1, worstAgents .min s'.population 1) := rfl
      simp only [hsp] at h
      rcases hB : bestAgents .min s'.population 1 with _ | ⟨b, _ | ⟨b2, bl⟩⟩ <;>
        rcases hW : worstAgents .min s'.population 1 with _ | ⟨w, _ | ⟨w2, wl⟩⟩ <;> simp only [hB, hW] at h <;> try cases h
      split at h
      · cases h; exact bookkeep_post ar avg one cfg s' b w hB
      · rw [loop_zero] at h; cases h; exact bookkeep_post ar avg one cfg s' b w hB
  | succ n ih =>
    cases hs : H.optimization_step s with
    | error e => rw [loop_succ_err ar H avg one task (n + 1) s hist e hs] at h; cases h
    | ok s' =>
      have hc' : s'.config = some cfg := by rw [(hF.step s s' hs).1, hc]
      rw [loop_succ_ok ar H avg one task (n + 1) s s' hist cfg hp hs hc'] at h
      have hsp : specialAgents .min s'.population (some 1) (some 1) = .ok (bestAgents .min s'.population 1, worstAgents .min s'.population 1) := rfl
      simp only [hsp] at h
      rcases hB : bestAgents .min s'.population 1 with _ | ⟨b, _ | ⟨b2, bl⟩⟩ <;>
        rcases hW : worstAgents .min s'.population 1 with _ | ⟨w, _ | ⟨w2, wl⟩⟩ <;> simp only [hB, hW] at h <;> try cases h
      split at h
      · cases h; exact bookkeep_post ar avg one cfg s' b w hB
      · exact ih _ _ (by rw [bookkeep_config, hc']) h


/-! ## the whole of `optimize` -/

/-- the instance as the prologue leaves it: generator seeded, workers / mode stored when given, task stored, bookkeeping reset -/
def prep (self : Self R σ τ) (task : τ) (m : Option Mode) (workers : Option Int) : Self R σ τ :=
  { self with priv := H.np_random_seed (H.task_seed task) self.priv,
              workers := workers.getD self.workers,
              mode := m.getD self.mode,
              task := some task, current_cycle := 1, errors := [], error_diffs := [] }

/-- what the model's prologue looks at -/
def callOf (self : Self R σ τ) (mode : Option String) (workers : Option Int) : Call :=
  { hasConfig := self.config.isSome, workers := workers,
    modeValid := mode.map (fun m => match H.parse_mode m with | .ok _ => true | .error _ => false) }

/-- the parsed mode, when one was passed and is valid -/
def modeOf (mode : Option String) : Option Mode :=
  mode.bind (fun m => match H.parse_mode m with | .ok v => some v | .error _ => none)

theorem optimize_no_config (task : τ) (mode : Option String) (workers : Option Int) (fuel : Nat) (self : Self R σ τ)
    (hc : self.config = none) :
    Src.optimize ar H avg one task mode workers fuel self = .error .valueError := by
  unfold Src.optimize
  simp [hc]
  rfl


/-- everything after the prologue of the translated `optimize`, as one function of the prepared instance -/
def srcBody (task : τ) (fuel : Nat) (self : Self R σ τ) :
    Except Err (((List (List Agent)) × (List R) × (Option Agent) × Dir) × (Self R σ τ)) := do
  let self ← H.before_initialization self
  let self ← H.init_population self
  let evolution := [snapshot (H.task_minmax task) self.population]
  match specialAgents .min self.population (some 1) (some 1) with
  | .ok ([b], [w]) =>
    let self : Self R σ τ := { self with best_agent := some b, worst_agent := some w }
    let self ← H.after_initialization self
    let (self, evolution) ← Src.optimize_loop ar H avg one task fuel self evolution
    return ((evolution, self.errors, self.best_agent.map (Agent.refine (H.task_minmax task)), H.task_minmax task), self)
  | _ => throw .valueError

/-- the part of the translated `optimize` after the prologue is `srcBody` -/
macro "src_tail" : tactic => `(tactic| (
  simp only [special_one_one, population_init_eq, result_init_eq, List.nil_append]
  cases hb : Hooks.before_initialization _ _ with
  | error e => rfl
  | ok s1 =>
    simp only [bind, Except.bind]
    cases hi : Hooks.init_population _ s1 with
    | error e => rfl
    | ok s2 =>
      simp only
      have hsp : specialAgents .min s2.population (some 1) (some 1) = .ok (bestAgents .min s2.population 1, worstAgents .min s2.population 1) := rfl
      simp only [hsp]
      rcases hB : bestAgents .min s2.population 1 with _ | ⟨b, _ | ⟨b2, bl⟩⟩ <;>
        rcases hW : worstAgents .min s2.population 1 with _ | ⟨w, _ | ⟨w2, wl⟩⟩ <;> simp only [unpack1] <;> rfl))

theorem ok_bind {α β : Type} (v : α) (f : α → Except Err β) : ((Except.ok v : Except Err α) >>= f) = f v := rfl
theorem tryCatch_ok {α : Type} (v : α) (h : Err → Except Err α) : tryCatch (Except.ok v : Except Err α) h = .ok v := rfl
theorem tryCatch_error {α : Type} (e : Err) (h : Err → Except Err α) : tryCatch (Except.error e : Except Err α) h = h e := rfl

theorem optimize_src (hmode : ∀ m e, H.parse_mode m = .error e → e = .valueError)
    (task : τ) (mode : Option String) (workers : Option Int) (fuel : Nat) (self : Self R σ τ) (cfg : StopCfg R)
    (hc : self.config = some cfg) :
    Src.optimize ar H avg one task mode workers fuel self =
      match prologue (callOf H self mode workers) with
      | .error e => .error e
      | .ok () => srcBody ar H avg one task fuel (prep H self task (modeOf H mode) workers) := by
  unfold Src.optimize
  simp only [hc, Option.isSome_some, Bool.not_true, Bool.false_eq_true, ↓reduceIte]
  have hw : ∀ w : Int, (decide (w ≤ 0) = true) ↔ w ≤ 0 := by intro w; simp
  cases workers with
  | none =>
    cases mode with
    | none =>
      simp only [callOf, prologue, hc, Option.isSome_some, Bool.not_true, Bool.false_eq_true, ↓reduceIte, Option.map_none]
      unfold srcBody prep modeOf
      simp only [hc, Option.getD_none, Option.bind_none]
      src_tail
    | some m =>
      simp only [callOf, prologue, hc, Option.isSome_some, Bool.not_true, Bool.false_eq_true, ↓reduceIte, Option.map_some, bind_pure]
      cases hm : H.parse_mode m with
      | error e =>
        have := hmode m e hm
        subst this
        simp only [tryCatch_error, ↓reduceIte]
        rfl
      | ok v =>
        unfold srcBody prep modeOf
        simp only [hc, hm, tryCatch_ok, ok_bind, Option.getD_none, Option.bind_some, Option.getD_some]
        src_tail
  | some w =>
    by_cases hw0 : w ≤ 0
    · simp only [callOf, prologue, hc, Option.isSome_some, Bool.not_true, Bool.false_eq_true, ↓reduceIte, hw0, decide_true]
      rfl
    · cases mode with
      | none =>
        simp only [callOf, prologue, hc, Option.isSome_some, Bool.not_true, Bool.false_eq_true, ↓reduceIte, Option.map_none, hw0, decide_false]
        unfold srcBody prep modeOf
        simp only [hc, Option.getD_none, Option.bind_none, Option.getD_some]
        src_tail
      | some m =>
        simp only [callOf, prologue, hc, Option.isSome_some, Bool.not_true, Bool.false_eq_true, ↓reduceIte, Option.map_some, bind_pure, hw0, decide_false]
        cases hm : H.parse_mode m with
        | error e =>
          have := hmode m e hm
          subst this
          simp only [tryCatch_error, ↓reduceIte]
          rfl
        | ok v =>
          unfold srcBody prep modeOf
          simp only [hc, hm, tryCatch_ok, ok_bind, Option.getD_none, Option.bind_some, Option.getD_some]
          src_tail


/-- the body of the translated `optimize` is the model's `runBody` on the algorithm the hooks define -/
theorem body_eq (hF : Frame H) (cfg : StopCfg R) (hp : ∀ es, cfg.es = some es → 1 ≤ es.patience) (task : τ)
    (s : Self R σ τ) (hc : s.config = some cfg) (h1 : s.current_cycle = 1) (h2 : s.errors = []) (h3 : s.error_diffs = []) :
    srcBody ar H avg one task (max cfg.maxCycles.toNat 1) s =
      (runBody ar cfg (algM ar H avg one cfg) (rate ar avg one) (H.task_minmax task) (s, false)).map
        (fun r => ((r.1.evolution, r.1.rates, some r.1.best, H.task_minmax task), r.2.1.1)) := by
  obtain ⟨n, hn⟩ : ∃ n, max cfg.maxCycles.toNat 1 = n + 1 := ⟨max cfg.maxCycles.toNat 1 - 1, by omega⟩
  rw [hn]
  unfold srcBody runBody
  have hinit : (algM ar H avg one cfg).init (s, false) = initM H (s, false) := rfl
  rw [hinit]
  unfold initM
  simp only
  cases hb : H.before_initialization s with
  | error e => rfl
  | ok s1 =>
    obtain ⟨a1, a2, a3, a4⟩ := hF.before s s1 hb
    simp only [ok_bind]
    cases hi : H.init_population s1 with
    | error e => rfl
    | ok s2 =>
      obtain ⟨b1, b2, b3, b4⟩ := hF.initp s1 s2 hi
      simp only [ok_bind]
      have hsp : specialAgents .min s2.population (some 1) (some 1) = .ok (bestAgents .min s2.population 1, worstAgents .min s2.population 1) := rfl
      simp only [hsp]
      rcases hB : bestAgents .min s2.population 1 with _ | ⟨b, _ | ⟨b2', bl⟩⟩ <;>
        rcases hW : worstAgents .min s2.population 1 with _ | ⟨w, _ | ⟨w2, wl⟩⟩
      all_goals simp only [algM, hsp, hB, hW]
      all_goals try rfl
      -- regular case
      generalize hx : ({ s2 with best_agent := some b, worst_agent := some w } : Self R σ τ) = x
      have hxc : x.config = some cfg := by rw [← hx]; simp only; rw [b1, a1, hc]
      have hxb : bookOf x = Book.fresh := by
        rw [← hx]; simp only [bookOf, Book.fresh]; rw [b2, b3, b4, a2, a3, a4, h1, h2, h3]
      have hxp : x.population = s2.population := by rw [← hx]
      have hloop := loop_false ar H avg one cfg task n x Book.fresh [snapshot (H.task_minmax task) s2.population]
      have halg : ({ init := initM H, step := stepM ar H avg one cfg, pop := fun x => x.1.population } : Alg (Self R σ τ × Bool)) = algM ar H avg one cfg := rfl
      simp only [halg, hn] at hloop ⊢
      rw [hloop]
      cases ha : H.after_initialization x with
      | error e => rfl
      | ok s0 =>
        obtain ⟨c1, c2, c3, c4⟩ := hF.after x s0 ha
        have hs0c : s0.config = some cfg := by rw [c1, hxc]
        have hs0b : bookOf s0 = Book.fresh := by rw [← hxb]; simp only [bookOf]; rw [c2, c3, c4]
        have hl := loop_eq ar H avg one hF cfg hp task (n + 1) s0 [snapshot (H.task_minmax task) s2.population] hs0c
        rw [hs0b] at hl
        simp only [ok_bind, hl]
        cases hr : Src.optimize_loop ar H avg one task (n + 1) s0 [snapshot (H.task_minmax task) s2.population] with
        | error e => rfl
        | ok r =>
          obtain ⟨bb, hbb, hbest⟩ := loop_post ar H avg one hF cfg hp task n s0 _ hs0c r hr
          simp only [Except.map, ok_bind, bestAgent, hbb, hbest, bookOf]
          rfl


/-- **the refinement theorem for `optimize`.**  For every optimizer whose hooks leave the configuration and the framework's
bookkeeping attributes alone (`Frame`, decided per class over the regenerated fact tables), every configured instance, task,
`mode` and `workers` argument: what `abstract.py:optimize` — as the source reads now — returns (result and final instance,
or the exception) is what the model's `optimize` returns for the algorithm `algM` the hooks define, the rate
`|1 − average_fitness|`, the call record `callOf` and the prepared instance `prep`.  Every theorem about the model's
`optimize` / `runBody` / `loop` for an arbitrary `Alg` (C03, C04, C10, C15, C17 …) therefore speaks about this source text. -/
theorem optimize_eq (hF : Frame H) (cfg : StopCfg R) (hp : ∀ es, cfg.es = some es → 1 ≤ es.patience)
    (hmode : ∀ m e, H.parse_mode m = .error e → e = .valueError)
    (task : τ) (mode : Option String) (workers : Option Int) (self : Self R σ τ) (hc : self.config = some cfg) :
    Src.optimize ar H avg one task mode workers (max cfg.maxCycles.toNat 1) self =
      (optimize ar cfg (algM ar H avg one cfg) (rate ar avg one) (H.task_minmax task) (callOf H self mode workers)
          (prep H self task (modeOf H mode) workers, false)).map
        (fun r => ((r.1.evolution, r.1.rates, some r.1.best, H.task_minmax task), r.2.1.1)) := by
  rw [optimize_src ar H avg one hmode task mode workers _ self cfg hc]
  unfold optimize
  cases prologue (callOf H self mode workers) with
  | error e => rfl
  | ok u =>
    cases u
    exact body_eq ar H avg one hF cfg hp task _ (by simp [prep, hc]) rfl rfl rfl


/-! ## consequences: model theorems read on the translated source -/

/-- an `optimize()` call that returns has recorded at least the initial generation, one rate fewer than generations is
impossible to miss: every recorded generation is non-empty (C10, first half), whatever the hooks do -/
theorem src_generations_nonempty (hF : Frame H) (cfg : StopCfg R) (hp : ∀ es, cfg.es = some es → 1 ≤ es.patience)
    (hmode : ∀ m e, H.parse_mode m = .error e → e = .valueError)
    (task : τ) (mode : Option String) (workers : Option Int) (self : Self R σ τ) (hc : self.config = some cfg)
    (evo : List (List Agent)) (rates : List R) (best : Option Agent) (d : Dir) (self' : Self R σ τ)
    (h : Src.optimize ar H avg one task mode workers (max cfg.maxCycles.toNat 1) self = .ok ((evo, rates, best, d), self')) :
    ∀ g ∈ evo, g ≠ [] := by
  rw [optimize_eq ar H avg one hF cfg hp hmode task mode workers self hc] at h
  unfold optimize at h
  cases hpr : prologue (callOf H self mode workers) with
  | error e => simp [hpr, Except.map] at h
  | ok u =>
    simp only [hpr] at h
    cases hr : runBody ar cfg (algM ar H avg one cfg) (rate ar avg one) (H.task_minmax task) (prep H self task (modeOf H mode) workers, false) with
    | error e => simp [hr, Except.map] at h
    | ok r =>
      obtain ⟨res, sN, bN⟩ := r
      simp only [hr, Except.map, Except.ok.injEq, Prod.mk.injEq] at h
      obtain ⟨⟨h1, -⟩, -⟩ := h
      rw [← h1]
      exact runBody_nonempty ar cfg _ _ _ _ res sN bN hr

/-- `best_solution` of a returned result is the (sign-restored) best agent of the final instance's population, which is the
last recorded generation (C03 on the source, without any assumption on the hooks beyond `Frame`) -/
theorem src_best_of_last (hF : Frame H) (cfg : StopCfg R) (hp : ∀ es, cfg.es = some es → 1 ≤ es.patience)
    (hmode : ∀ m e, H.parse_mode m = .error e → e = .valueError)
    (task : τ) (mode : Option String) (workers : Option Int) (self : Self R σ τ) (hc : self.config = some cfg)
    (evo : List (List Agent)) (rates : List R) (best : Option Agent) (d : Dir) (self' : Self R σ τ)
    (h : Src.optimize ar H avg one task mode workers (max cfg.maxCycles.toNat 1) self = .ok ((evo, rates, best, d), self')) :
    evo.getLast? = some (snapshot (H.task_minmax task) self'.population) ∧
      ∃ b, bestAgent .min self'.population = .ok b ∧ best = some (b.refine (H.task_minmax task)) := by
  rw [optimize_eq ar H avg one hF cfg hp hmode task mode workers self hc] at h
  unfold optimize at h
  cases hpr : prologue (callOf H self mode workers) with
  | error e => simp [hpr, Except.map] at h
  | ok u =>
    simp only [hpr] at h
    cases hr : runBody ar cfg (algM ar H avg one cfg) (rate ar avg one) (H.task_minmax task) (prep H self task (modeOf H mode) workers, false) with
    | error e => simp [hr, Except.map] at h
    | ok r =>
      obtain ⟨res, sN, bN⟩ := r
      simp only [hr, Except.map, Except.ok.injEq, Prod.mk.injEq] at h
      obtain ⟨⟨h1, -, h3, -⟩, h5⟩ := h
      have hl := runBody_last ar cfg _ _ _ _ res sN bN hr
      obtain ⟨-, -, b, hb, hbest⟩ := runBody_inv ar cfg (algM ar H avg one cfg) (rate ar avg one) (H.task_minmax task)
        (fun _ => True) (fun _ => True) (fun _ _ _ => trivial) (fun _ _ _ _ => trivial) (fun _ _ => trivial) _ res sN bN hr
      have hpop : (algM ar H avg one cfg).pop sN = self'.population := by rw [← h5]; rfl
      rw [hpop] at hl hb
      exact ⟨by rw [← h1]; exact hl, b, hb, by rw [← h3, hbest]⟩

/-! ## non-vacuity: hooks satisfying `Frame` exist and the translated `optimize` runs on them -/

/-- hooks of a toy optimizer: initial population of two agents, each step prepends a cheaper agent and drops the last -/
def toyHooks : Hooks Nat Nat Unit where
  before_initialization := fun s => .ok s
  init_population := fun s => .ok { s with population := [⟨[], .fin 5, .fin 0, 0⟩, ⟨[], .fin 7, .fin 0, 1⟩] }
  after_initialization := fun s => .ok s
  optimization_step := fun s => .ok { s with population := (⟨[], .fin (4 - (s.current_cycle : Rat)), .fin 0, 2⟩ :: s.population).take 2, priv := s.priv + 1 }
  parse_mode := fun m => if m = "serial" then .ok .serial else .error .valueError
  np_random_seed := fun seed _ => seed.toNat
  task_minmax := fun _ => .min
  task_seed := fun _ => 42

theorem toyHooks_frame : Frame toyHooks := by
  constructor <;> intro s s' h <;> cases h <;> exact ⟨rfl, rfl, rfl, rfl⟩

/-- a new instance: the given configuration and debug flag, mode serial, 4 workers, no task, an empty population, no best / worst agent, cycle 1
and empty error lists; `p` is the subclass's private state, which the base constructor does not touch -/
def freshSelf {R σ τ : Type} (config : Option (StopCfg R)) (debug : Bool) (p : σ) : Self R σ τ where
  config := config
  debug := debug
  mode := Mode.serial
  workers := 4
  task := none
  population := []
  best_agent := none
  worst_agent := none
  current_cycle := 1
  errors := []
  error_diffs := []
  priv := p

/-- **`OptimizationAbstract.__init__`** as the source reads now builds `freshSelf`: nothing of whatever the attributes held before survives -/
theorem init_fresh {R σ τ : Type} (ar : Arith R) (H : Hooks R σ τ) (config : Option (StopCfg R)) (debug : Bool) (self : Self R σ τ) :
    Src.optimizer_init ar H config debug self = .ok ((), freshSelf config debug self.priv) := rfl

/-- two instances built with the same configuration and flag differ at most in the subclass's private state -/
theorem init_same {R σ τ : Type} (ar : Arith R) (H : Hooks R σ τ) (config : Option (StopCfg R)) (debug : Bool) (s1 s2 : Self R σ τ) (h : s1.priv = s2.priv) :
    Src.optimizer_init ar H config debug s1 = Src.optimizer_init ar H config debug s2 := by
  rw [init_fresh, init_fresh, h]

end R00
