import PvModel.Multi
/-!
# C20 — `Multitask` runs every algorithm on every task with the designated mode

Shapes of `modes` (`__check_input__`), for `n` algorithms and `m` tasks, `i < n`, `j < m`:
* `checkInput_none`, `checkInput_notTuple`, `checkInput_badLength`
* `checkInput_one`          : one value            → `t[i][j] = v`
* `checkInput_perAlgorithm` : `len = n`            → `t[i][j] = vs[i]`
* `checkInput_perTask`      : `len = m` (≠ n)      → `t[i][j] = vs[j]`
* `checkInput_perPair`      : `len = n*m` (≠ n, m) → `t[i][j] = vs[i*m + j]`
* `checkInput_ambiguity`    : `n = m`: a tuple of that length is read per algorithm (the code tests `len == n` first)
* `checkInput_designated`   : all of the above at once, against `designated`
* `checkModes_rejects`      : an unknown mode anywhere ⇔ construction fails (and then with `ValueError`)
* `construct_getMode`       : after a successful construction `__get_mode__(i, j)` is the designated `ModeSolver`
* `execute_complete`        : tables and call log of `execute`
* `exportPaths_spec`, `exportPaths_files_nodup`, `exportResults_ok`, `exportResults_rejects`
* negations on the pinned tree: `modes_per_algorithm_witness`, `modes_per_pair_witness`, `export_nesting_witness`
-/

namespace C20
open Multi

/-! ## `__check_input__` -/

/-- the value the documentation designates for the pair `(i, j)`, the shapes being tried in the order of the code -/
def designated (n m : Nat) (vs : List α) (i j : Nat) : Option α :=
  if vs.length = 1 then vs[0]?
  else if vs.length = n then vs[i]?
  else if vs.length = m then vs[j]?
  else if vs.length = n * m then vs[i * m + j]?
  else none

/-- `t` is an `n × m` table whose entry `(i, j)` is `f i j` -/
def IsTable (n m : Nat) (t : List (List α)) (f : Nat → Nat → Option α) : Prop :=
  t.length = n ∧ (∀ r ∈ t, r.length = m) ∧ ∀ i j, i < n → j < m → lookup t i j = f i j

theorem checkInput_none (n m : Nat) : checkInput n m (ModesArg.none : ModesArg α) = .ok none := rfl

theorem checkInput_notTuple (n m : Nat) : checkInput n m (ModesArg.notTuple : ModesArg α) = .error .valueError := rfl

/-- the `len` branches for a tuple that does not have exactly one element -/
theorem checkInput_tuple_of_ne_one (n m : Nat) (vs : List α) (h1 : vs.length ≠ 1) :
    checkInput n m (.tuple vs) =
      if vs.length = n then .ok (some (vs.map (fun v => List.replicate m v)))
      else if vs.length = m then .ok (some (List.replicate n vs))
      else if vs.length = n * m then .ok (some (rows n m vs))
      else .error .valueError := by
  match vs, h1 with
  | [], _ => rfl
  | [_], h => exact absurd rfl h
  | _ :: _ :: _, _ => rfl

theorem checkInput_badLength (n m : Nat) (vs : List α) (h1 : vs.length ≠ 1) (hn : vs.length ≠ n) (hm : vs.length ≠ m)
    (hp : vs.length ≠ n * m) : checkInput n m (.tuple vs) = .error .valueError := by
  rw [checkInput_tuple_of_ne_one n m vs h1, if_neg hn, if_neg hm, if_neg hp]

example : checkInput 2 3 (.tuple ["a", "b", "c", "d"]) = .error .valueError := by decide

theorem checkInput_one (n m : Nat) (v : α) :
    ∃ t, checkInput n m (.tuple [v]) = .ok (some t) ∧ IsTable n m t (fun _ _ => some v) := by
  refine ⟨List.replicate n (List.replicate m v), rfl, by simp, ?_, ?_⟩
  · intro r hr; rw [List.eq_of_mem_replicate hr]; simp
  · intro i j hi hj; simp [lookup, hi, hj]

theorem checkInput_perAlgorithm (n m : Nat) (vs : List α) (h1 : vs.length ≠ 1) (hn : vs.length = n) :
    ∃ t, checkInput n m (.tuple vs) = .ok (some t) ∧ IsTable n m t (fun i _ => vs[i]?) := by
  refine ⟨vs.map (fun v => List.replicate m v), ?_, by simp [hn], ?_, ?_⟩
  · rw [checkInput_tuple_of_ne_one n m vs h1, if_pos hn]
  · intro r hr
    obtain ⟨v, _, rfl⟩ := List.mem_map.mp hr
    simp
  · intro i j hi hj
    have hi' : i < vs.length := hn ▸ hi
    simp [lookup, hi', hj]

example : (["s", "t"] : List String).length ≠ 1 ∧ (["s", "t"] : List String).length = 2 := by decide

theorem checkInput_perTask (n m : Nat) (vs : List α) (h1 : vs.length ≠ 1) (hn : vs.length ≠ n) (hm : vs.length = m) :
    ∃ t, checkInput n m (.tuple vs) = .ok (some t) ∧ IsTable n m t (fun _ j => vs[j]?) := by
  refine ⟨List.replicate n vs, ?_, by simp, ?_, ?_⟩
  · rw [checkInput_tuple_of_ne_one n m vs h1, if_neg hn, if_pos hm]
  · intro r hr; rw [List.eq_of_mem_replicate hr]; exact hm
  · intro i j hi hj; simp [lookup, hi]

example : (["s", "t", "p"] : List String).length ≠ 1 ∧ (["s", "t", "p"] : List String).length ≠ 2
    ∧ (["s", "t", "p"] : List String).length = 3 := by decide

theorem lookup_rows (n m : Nat) (vs : List α) (i j : Nat) (hi : i < n) (hj : j < m) :
    lookup (rows n m vs) i j = vs[i * m + j]? := by
  simp [lookup, rows, hi, hj, List.getElem?_drop]

theorem rows_row_length (n m : Nat) (vs : List α) (hp : vs.length = n * m) : ∀ r ∈ rows n m vs, r.length = m := by
  intro r hr
  obtain ⟨i, hi, rfl⟩ := List.mem_map.mp hr
  have hi' : i < n := List.mem_range.mp hi
  simp only [List.length_take, List.length_drop, hp]
  have : i * m + m ≤ n * m := by
    calc i * m + m = (i + 1) * m := by rw [Nat.succ_mul]
      _ ≤ n * m := Nat.mul_le_mul_right m hi'
  omega

theorem checkInput_perPair (n m : Nat) (vs : List α) (h1 : vs.length ≠ 1) (hn : vs.length ≠ n) (hm : vs.length ≠ m)
    (hp : vs.length = n * m) :
    ∃ t, checkInput n m (.tuple vs) = .ok (some t) ∧ IsTable n m t (fun i j => vs[i * m + j]?) := by
  refine ⟨rows n m vs, ?_, by simp [rows], rows_row_length n m vs hp, ?_⟩
  · rw [checkInput_tuple_of_ne_one n m vs h1, if_neg hn, if_neg hm, if_pos hp]
  · intro i j hi hj; exact lookup_rows n m vs i j hi hj

example : let vs : List String := ["a", "b", "c", "d", "e", "f"]
    vs.length ≠ 1 ∧ vs.length ≠ 2 ∧ vs.length ≠ 3 ∧ vs.length = 2 * 3 := by decide

/-- `n = m`: a tuple of that length is one mode per ALGORITHM (row `i` is constantly `vs[i]`), not one per task. -/
theorem checkInput_ambiguity (n : Nat) (vs : List α) (h1 : vs.length ≠ 1) (hn : vs.length = n) :
    ∃ t, checkInput n n (.tuple vs) = .ok (some t) ∧ IsTable n n t (fun i _ => vs[i]?) :=
  checkInput_perAlgorithm n n vs h1 hn

/-- and the two readings really differ: -/
example : checkInput 2 2 (.tuple ["serial", "thread"]) = .ok (some [["serial", "serial"], ["thread", "thread"]]) := by decide

/-- every accepted tuple yields the `n × m` table of designated values. -/
theorem checkInput_designated (n m : Nat) (vs : List α) (r : Option (List (List α)))
    (h : checkInput n m (.tuple vs) = .ok r) : ∃ t, r = some t ∧ IsTable n m t (fun i j => designated n m vs i j) := by
  by_cases h1 : vs.length = 1
  · match vs, h1 with
    | [v], _ =>
      obtain ⟨t, ht, hT⟩ := checkInput_one n m v
      rw [ht] at h; cases h
      exact ⟨t, rfl, hT.1, hT.2.1, fun i j hi hj => by simp [designated, hT.2.2 i j hi hj]⟩
  · by_cases hn : vs.length = n
    · obtain ⟨t, ht, hT⟩ := checkInput_perAlgorithm n m vs h1 hn
      rw [ht] at h; cases h
      exact ⟨t, rfl, hT.1, hT.2.1, fun i j hi hj => by rw [hT.2.2 i j hi hj]; show _ = designated n m vs i j; unfold designated; rw [if_neg h1, if_pos hn]⟩
    · by_cases hm : vs.length = m
      · obtain ⟨t, ht, hT⟩ := checkInput_perTask n m vs h1 hn hm
        rw [ht] at h; cases h
        exact ⟨t, rfl, hT.1, hT.2.1, fun i j hi hj => by rw [hT.2.2 i j hi hj]; show _ = designated n m vs i j; unfold designated; rw [if_neg h1, if_neg hn, if_pos hm]⟩
      · by_cases hp : vs.length = n * m
        · obtain ⟨t, ht, hT⟩ := checkInput_perPair n m vs h1 hn hm hp
          rw [ht] at h; cases h
          exact ⟨t, rfl, hT.1, hT.2.1, fun i j hi hj => by rw [hT.2.2 i j hi hj]; show _ = designated n m vs i j; unfold designated; rw [if_neg h1, if_neg hn, if_neg hm, if_pos hp]⟩
        · rw [checkInput_badLength n m vs h1 hn hm hp] at h; cases h

/-! ## `__check_modes__` -/

theorem rows_flatten (m : Nat) : ∀ (n : Nat) (vs : List α), vs.length = n * m → (rows n m vs).flatten = vs := by
  intro n
  induction n with
  | zero => intro vs h; simp at h; simp [rows, h]
  | succ k ih =>
    intro vs h
    have hlen : (vs.drop m).length = k * m := by simp [List.length_drop, h, Nat.succ_mul]
    have := ih (vs.drop m) hlen
    simp only [rows] at this ⊢
    rw [List.range_succ_eq_map, List.map_cons, List.map_map, List.flatten_cons]
    have hf : ((fun i => List.take m (List.drop (i * m) vs)) ∘ Nat.succ) = fun i => List.take m (List.drop (i * m) (vs.drop m)) := by
      funext i
      simp [List.drop_drop, Nat.succ_mul, Nat.add_comm]
    rw [hf, this]
    simp

/-- with at least one algorithm and one task the table contains exactly the entries of the tuple. -/
theorem checkInput_flatten_mem (n m : Nat) (hn0 : 0 < n) (hm0 : 0 < m) (vs : List α) (t : List (List α))
    (h : checkInput n m (.tuple vs) = .ok (some t)) (s : α) : s ∈ t.flatten ↔ s ∈ vs := by
  by_cases h1 : vs.length = 1
  · match vs, h1 with
    | [v], _ =>
      simp only [checkInput, Except.ok.injEq, Option.some.injEq] at h
      subst h
      simp only [List.mem_flatten, List.mem_singleton]
      constructor
      · rintro ⟨r, hr, hs⟩
        rw [List.eq_of_mem_replicate hr] at hs
        exact List.eq_of_mem_replicate hs
      · rintro rfl
        exact ⟨List.replicate m s, by simp [Nat.ne_of_gt hn0], by simp [Nat.ne_of_gt hm0]⟩
  · rw [checkInput_tuple_of_ne_one n m vs h1] at h
    by_cases hn : vs.length = n
    · rw [if_pos hn] at h
      simp only [Except.ok.injEq, Option.some.injEq] at h
      subst h
      simp only [List.mem_flatten, List.mem_map]
      constructor
      · rintro ⟨r, ⟨v, hv, rfl⟩, hs⟩
        rw [List.eq_of_mem_replicate hs]; exact hv
      · intro hs
        exact ⟨List.replicate m s, ⟨s, hs, rfl⟩, by simp [Nat.ne_of_gt hm0]⟩
    · by_cases hm : vs.length = m
      · rw [if_neg hn, if_pos hm] at h
        simp only [Except.ok.injEq, Option.some.injEq] at h
        subst h
        simp only [List.mem_flatten]
        constructor
        · rintro ⟨r, hr, hs⟩
          rw [List.eq_of_mem_replicate hr] at hs; exact hs
        · intro hs
          exact ⟨vs, by simp [Nat.ne_of_gt hn0], hs⟩
      · by_cases hp : vs.length = n * m
        · rw [if_neg hn, if_neg hm, if_pos hp] at h
          simp only [Except.ok.injEq, Option.some.injEq] at h
          subst h
          rw [rows_flatten m n vs hp]
        · rw [if_neg hn, if_neg hm, if_neg hp] at h; cases h

/-- a tuple whose length is one of the four documented ones -/
def admissible (n m len : Nat) : Prop := len = 1 ∨ len = n ∨ len = m ∨ len = n * m

theorem checkInput_ok_of_admissible (n m : Nat) (vs : List α) (h : admissible n m vs.length) :
    ∃ t, checkInput n m (.tuple vs) = .ok (some t) := by
  by_cases h1 : vs.length = 1
  · match vs, h1 with
    | [v], _ => exact ⟨_, rfl⟩
  · rw [checkInput_tuple_of_ne_one n m vs h1]
    by_cases hn : vs.length = n
    · exact ⟨_, by rw [if_pos hn]⟩
    · by_cases hm : vs.length = m
      · exact ⟨_, by rw [if_neg hn, if_pos hm]⟩
      · by_cases hp : vs.length = n * m
        · exact ⟨_, by rw [if_neg hn, if_neg hm, if_pos hp]⟩
        · rcases h with h | h | h | h <;> contradiction

/-- **unknown modes are rejected at construction, and only they**: for a tuple of a documented length (and at least
one algorithm and one task) the constructor raises iff some entry is not a `ModeSolver` value. -/
theorem checkModes_rejects (n m : Nat) (hn0 : 0 < n) (hm0 : 0 < m) (vs : List String) (hlen : admissible n m vs.length) :
    (∃ e, construct n m (.tuple vs) = .error e) ↔ ∃ s ∈ vs, validMode s = false := by
  obtain ⟨t, ht⟩ := checkInput_ok_of_admissible n m vs hlen
  have hmem := checkInput_flatten_mem n m hn0 hm0 vs t ht
  by_cases hall : t.flatten.all validMode = true
  · have hc : construct n m (.tuple vs) = .ok (some t) := by
      simp [construct, ht, checkModes, hall, bind, Except.bind]
    constructor
    · rintro ⟨e, he⟩; rw [hc] at he; cases he
    · rintro ⟨s, hs, hv⟩
      have := List.all_eq_true.mp hall s ((hmem s).mpr hs)
      rw [hv] at this; cases this
  · have hc : construct n m (.tuple vs) = .error .valueError := by
      simp [construct, ht, checkModes, hall, bind, Except.bind]
    constructor
    · intro _
      have : ∃ s ∈ t.flatten, ¬ validMode s = true :=
        Classical.byContradiction fun hne => hall (List.all_eq_true.mpr fun s hs =>
          Classical.byContradiction fun hv => hne ⟨s, hs, hv⟩)
      obtain ⟨s, hs, hv⟩ := this
      exact ⟨s, (hmem s).mp hs, by simpa using hv⟩
    · intro _; exact ⟨_, hc⟩

example : admissible 2 3 (["serial", "bad", "thread"] : List String).length := Or.inr (Or.inr (Or.inl rfl))
example : construct 2 3 (.tuple ["serial", "bad", "thread"]) = .error .valueError := by decide
example : construct 2 3 (.tuple ["serial", "process", "thread"]) =
    .ok (some [["serial", "process", "thread"], ["serial", "process", "thread"]]) := by decide

/-- a construction error is always a `ValueError`. -/
theorem construct_error_valueError (n m : Nat) (arg : ModesArg String) (e : Err) (h : construct n m arg = .error e) :
    e = .valueError := by
  unfold construct at h
  cases hc : checkInput n m arg with
  | error e' =>
    rw [hc] at h
    simp only [bind, Except.bind] at h
    cases h
    cases arg with
    | none => cases hc
    | notTuple => cases hc; rfl
    | tuple vs =>
      by_cases h1 : vs.length = 1
      · match vs, h1 with
        | [v], _ => cases hc
      · rw [checkInput_tuple_of_ne_one n m vs h1] at hc
        split at hc
        · cases hc
        · split at hc
          · cases hc
          · split at hc
            · cases hc
            · cases hc; rfl
  | ok t =>
    rw [hc] at h
    simp only [bind, Except.bind] at h
    cases t with
    | none => simp [checkModes] at h
    | some t =>
      by_cases hall : t.flatten.all validMode = true
      · simp [checkModes, hall] at h
      · simp only [checkModes, hall] at h
        cases h; rfl

/-! ## `__get_mode__` -/

theorem validMode_iff (s : String) : validMode s = true ↔ ∃ md, Mode.ofString s = some md := by
  simp [validMode, Option.isSome_iff_exists]

theorem getMode_none (i j : Nat) : getMode none i j = .ok .serial := rfl

/-- after a successful construction from a tuple, `__get_mode__(i, j)` returns the designated mode for every pair. -/
theorem construct_getMode (n m : Nat) (vs : List String) (modes : Option (List (List String)))
    (h : construct n m (.tuple vs) = .ok modes) (i j : Nat) (hi : i < n) (hj : j < m) :
    ∃ s md, designated n m vs i j = some s ∧ Mode.ofString s = some md ∧ getMode modes i j = .ok md := by
  unfold construct at h
  cases hc : checkInput n m (.tuple vs) with
  | error e => rw [hc] at h; simp [bind, Except.bind] at h
  | ok r =>
    rw [hc] at h
    obtain ⟨t, rfl, hlen, hrow, hlk⟩ := checkInput_designated n m vs r hc
    by_cases hall : t.flatten.all validMode = true
    · simp only [bind, Except.bind, checkModes, hall] at h
      cases h
      -- the entry exists
      have hil : i < t.length := hlen ▸ hi
      have hr : (t[i]).length = m := hrow _ (List.getElem_mem hil)
      have hjl : j < (t[i]).length := hr ▸ hj
      have hlook : lookup t i j = some (t[i][j]) := by simp [lookup, hil, hjl]
      have hmemf : t[i][j] ∈ t.flatten := List.mem_flatten.mpr ⟨t[i], List.getElem_mem hil, List.getElem_mem hjl⟩
      have hv := List.all_eq_true.mp hall _ hmemf
      obtain ⟨md, hmd⟩ := (validMode_iff _).mp hv
      refine ⟨t[i][j], md, ?_, hmd, ?_⟩
      · exact (hlk i j hi hj).symm.trans hlook
      · simp [getMode, hlook, hmd]
    · simp [bind, Except.bind, checkModes, hall] at h

example : construct 2 3 (.tuple ["serial", "thread", "process", "process", "thread", "serial"]) =
    .ok (some [["serial", "thread", "process"], ["process", "thread", "serial"]]) := by decide
example : getMode (some [["serial", "thread", "process"], ["process", "thread", "serial"]]) 1 0 = .ok .process := by decide

/-- the constructor accepts `None`; every pair then runs `serial`. -/
theorem construct_none (n m : Nat) : construct n m .none = .ok none := rfl

/-- whatever was accepted, `__get_mode__` succeeds for every pair (so `execute` cannot fail on a mode). -/
theorem construct_getMode_ok (n m : Nat) (arg : ModesArg String) (modes : Option (List (List String)))
    (h : construct n m arg = .ok modes) (i j : Nat) (hi : i < n) (hj : j < m) : ∃ md, getMode modes i j = .ok md := by
  cases arg with
  | none => cases h; exact ⟨.serial, rfl⟩
  | notTuple => simp [construct, checkInput, bind, Except.bind] at h
  | tuple vs =>
    obtain ⟨_, md, _, _, hg⟩ := construct_getMode n m vs modes h i j hi hj
    exact ⟨md, hg⟩

/-! ## `execute` -/

/-- the mode used for the pair (specification only: `serial` stands in where `getMode` fails, which it does not after
a successful construction, see `construct_getMode_ok`) -/
def modeOf (modes : Option (List (List String))) (i j : Nat) : Mode :=
  match getMode modes i j with
  | .ok md => md
  | .error _ => .serial

/-- the `optimize` calls of one (algorithm, task) pair: one per trial, in trial order -/
def callsFor (i j : Nat) (an tn : String) (md : Mode) (w : Option Nat) (trials : List Nat) : List Call :=
  trials.map (fun t => Call.mk i j an tn md w t)

/-- the column of one (algorithm, task) pair -/
def cellsFor (run : Call → ρ) (i j : Nat) (an tn : String) (md : Mode) (w : Option Nat) (trials : List Nat) : List (Cell ρ) :=
  (callsFor i j an tn md w trials).map (fun c => Cell.mk c.trial (run c) tn)

def colsSpec (run : Call → ρ) (mf : Nat → Mode) (w : Option Nat) (trials : List Nat) (i : Nat) (an : String) :
    Nat → List String → Table ρ
  | _, [] => []
  | j, tn :: rest => (colName an tn, cellsFor run i j an tn (mf j) w trials) :: colsSpec run mf w trials i an (j + 1) rest

def callsSpec (mf : Nat → Mode) (w : Option Nat) (trials : List Nat) (i : Nat) (an : String) : Nat → List String → List Call
  | _, [] => []
  | j, tn :: rest => callsFor i j an tn (mf j) w trials ++ callsSpec mf w trials i an (j + 1) rest

def tablesSpec (run : Call → ρ) (modes : Option (List (List String))) (w : Option Nat) (trials : List Nat) (tasks : List String) :
    Nat → List String → List (Table ρ)
  | _, [] => []
  | i, an :: rest => colsSpec run (modeOf modes i) w trials i an 0 tasks :: tablesSpec run modes w trials tasks (i + 1) rest

def logSpec (modes : Option (List (List String))) (w : Option Nat) (trials : List Nat) (tasks : List String) :
    Nat → List String → List Call
  | _, [] => []
  | i, an :: rest => callsSpec (modeOf modes i) w trials i an 0 tasks ++ logSpec modes w trials tasks (i + 1) rest

theorem dictSet_of_not_mem (d : List (String × β)) (k : String) (v : β) (h : k ∉ d.map Prod.fst) :
    dictSet d k v = d ++ [(k, v)] := by
  induction d with
  | nil => rfl
  | cons p rest ih =>
    obtain ⟨k', v'⟩ := p
    simp only [List.map_cons, List.mem_cons, not_or] at h
    have hne : ¬ k' = k := fun e => h.1 e.symm
    simp [dictSet, hne, ih h.2]

theorem nodup_map_of_injective {f : α → β} (hf : Function.Injective f) {l : List α} (h : l.Nodup) : (l.map f).Nodup :=
  List.Pairwise.map f (fun _ _ hab e => hab (hf e)) h

theorem colName_injective (an : String) : Function.Injective (colName an) := by
  intro a b h
  unfold colName at h
  rw [String.append_assoc, String.append_assoc] at h
  exact (String.append_right_inj "_").mp ((String.append_right_inj an).mp h)

theorem colsSpec_keys (run : Call → ρ) (mf : Nat → Mode) (w : Option Nat) (trials : List Nat) (i : Nat) (an : String) :
    ∀ (tasks : List String) (j : Nat), (colsSpec run mf w trials i an j tasks).map Prod.fst = tasks.map (colName an) := by
  intro tasks
  induction tasks with
  | nil => intro j; rfl
  | cons tn rest ih => intro j; simp [colsSpec, ih]

theorem tasksLoop_spec (run : Call → ρ) (modes : Option (List (List String))) (w : Option Nat) (trials : List Nat)
    (i : Nat) (an : String) (mf : Nat → Mode) :
    ∀ (tasks : List String) (j : Nat) (d : Table ρ) (log : List Call),
      (∀ k, k < tasks.length → getMode modes i (j + k) = .ok (mf (j + k))) →
      (tasks.map (colName an)).Nodup → (∀ tn ∈ tasks, colName an tn ∉ d.map Prod.fst) →
      tasksLoop run modes w trials i an j tasks (d, log)
        = .ok (d ++ colsSpec run mf w trials i an j tasks, log ++ callsSpec mf w trials i an j tasks) := by
  intro tasks
  induction tasks with
  | nil => intro j d log _ _ _; simp [tasksLoop, colsSpec, callsSpec]
  | cons tn rest ih =>
    intro j d log hg hnd hfresh
    have h0 : getMode modes i j = .ok (mf j) := by simpa using hg 0 (by simp)
    have hkey : colName an tn ∉ d.map Prod.fst := hfresh tn (by simp)
    simp only [List.map_cons, List.nodup_cons] at hnd
    unfold tasksLoop
    simp only [h0]
    rw [dictSet_of_not_mem d _ _ hkey]
    rw [ih (j + 1) _ _ ?_ hnd.2 ?_]
    · simp [colsSpec, callsSpec, callsFor, cellsFor]
    · intro k hk
      have := hg (k + 1) (by simpa using hk)
      simpa [Nat.add_assoc, Nat.add_comm 1 k] using this
    · intro tn' htn'
      simp only [List.map_append, List.map_cons, List.map_nil, List.mem_append, List.mem_singleton, not_or]
      refine ⟨hfresh tn' (by simp [htn']), ?_⟩
      intro e
      exact hnd.1 (e ▸ List.mem_map_of_mem htn')

theorem algsLoop_spec (run : Call → ρ) (modes : Option (List (List String))) (w : Option Nat) (trials : List Nat)
    (tasks : List String) (hnd : tasks.Nodup) :
    ∀ (algs : List String) (i : Nat) (df2 : List (Table ρ)) (log : List Call),
      (∀ k, k < algs.length → ∀ j, j < tasks.length → ∃ md, getMode modes (i + k) j = .ok md) →
      algsLoop run modes w trials tasks i algs (df2, log)
        = .ok (df2 ++ tablesSpec run modes w trials tasks i algs, log ++ logSpec modes w trials tasks i algs) := by
  intro algs
  induction algs with
  | nil => intro i df2 log _; simp [algsLoop, tablesSpec, logSpec]
  | cons an rest ih =>
    intro i df2 log hg
    have hrow : ∀ k, k < tasks.length → getMode modes i (0 + k) = .ok (modeOf modes i (0 + k)) := by
      intro k hk
      obtain ⟨md, hmd⟩ := hg 0 (by simp) k hk
      have hmd2 : getMode modes i k = .ok md := by simpa using hmd
      simp [modeOf, hmd2]
    have := tasksLoop_spec run modes w trials i an (modeOf modes i) tasks 0 [] log hrow
      (nodup_map_of_injective (colName_injective an) hnd) (by simp)
    unfold algsLoop
    simp only [this, List.nil_append]
    rw [ih (i + 1) _ _ ?_]
    · simp [tablesSpec, logSpec]
    · intro k hk j hj
      have := hg (k + 1) (by simpa using hk) j hj
      simpa [Nat.add_assoc, Nat.add_comm 1 k] using this

theorem tablesSpec_length (run : Call → ρ) (modes : Option (List (List String))) (w : Option Nat) (trials : List Nat)
    (tasks : List String) : ∀ (algs : List String) (i : Nat), (tablesSpec run modes w trials tasks i algs).length = algs.length := by
  intro algs
  induction algs with
  | nil => intro i; rfl
  | cons an rest ih => intro i; simp [tablesSpec, ih]

theorem tablesSpec_getElem? (run : Call → ρ) (modes : Option (List (List String))) (w : Option Nat) (trials : List Nat)
    (tasks : List String) : ∀ (algs : List String) (i k : Nat),
      (tablesSpec run modes w trials tasks i algs)[k]?
        = (algs[k]?).map (fun an => colsSpec run (modeOf modes (i + k)) w trials (i + k) an 0 tasks) := by
  intro algs
  induction algs with
  | nil => intro i k; simp [tablesSpec]
  | cons an rest ih =>
    intro i k
    cases k with
    | zero => simp [tablesSpec]
    | succ k => simp [tablesSpec, ih, Nat.add_assoc, Nat.add_comm 1 k]

theorem colsSpec_getElem? (run : Call → ρ) (mf : Nat → Mode) (w : Option Nat) (trials : List Nat) (i : Nat) (an : String) :
    ∀ (tasks : List String) (j k : Nat),
      (colsSpec run mf w trials i an j tasks)[k]?
        = (tasks[k]?).map (fun tn => (colName an tn, cellsFor run i (j + k) an tn (mf (j + k)) w trials)) := by
  intro tasks
  induction tasks with
  | nil => intro j k; simp [colsSpec]
  | cons tn rest ih =>
    intro j k
    cases k with
    | zero => simp [colsSpec]
    | succ k => simp [colsSpec, ih, Nat.add_assoc, Nat.add_comm 1 k]

theorem colsSpec_rows (run : Call → ρ) (mf : Nat → Mode) (w : Option Nat) (trials : List Nat) (i : Nat) (an : String) :
    ∀ (tasks : List String) (j : Nat), ∀ col ∈ colsSpec run mf w trials i an j tasks, col.2.length = trials.length := by
  intro tasks
  induction tasks with
  | nil => intro j col h; simp [colsSpec] at h
  | cons tn rest ih =>
    intro j col h
    simp only [colsSpec, List.mem_cons] at h
    rcases h with rfl | h
    · simp [cellsFor, callsFor]
    · exact ih (j + 1) col h

/-! ### the call log, pair by pair -/

/-- "this call belongs to the pair `(i0, j0)`" -/
def isPair (i0 j0 : Nat) (c : Call) : Bool := decide (c.alg = i0 ∧ c.task = j0)

theorem filter_callsFor (i0 j0 i j : Nat) (an tn : String) (md : Mode) (w : Option Nat) (trials : List Nat) :
    (callsFor i j an tn md w trials).filter (isPair i0 j0)
      = if i = i0 ∧ j = j0 then callsFor i j an tn md w trials else [] := by
  unfold callsFor
  by_cases h : i = i0 ∧ j = j0
  · simp only [h, and_self, if_true]
    rw [List.filter_eq_self]
    intro c hc
    obtain ⟨t, _, rfl⟩ := List.mem_map.mp hc
    simp [isPair]
  · simp only [h, if_false]
    rw [List.filter_eq_nil_iff]
    intro c hc
    obtain ⟨t, _, rfl⟩ := List.mem_map.mp hc
    simpa [isPair] using h

theorem filter_callsSpec (i0 j0 : Nat) (mf : Nat → Mode) (w : Option Nat) (trials : List Nat) (i : Nat) (an : String) :
    ∀ (tasks : List String) (j : Nat),
      (callsSpec mf w trials i an j tasks).filter (isPair i0 j0)
        = if i = i0 ∧ j ≤ j0 then
            (match tasks[j0 - j]? with
             | some tn => callsFor i j0 an tn (mf j0) w trials
             | none => [])
          else [] := by
  intro tasks
  induction tasks with
  | nil => intro j; simp [callsSpec]
  | cons tn rest ih =>
    intro j
    simp only [callsSpec, List.filter_append, filter_callsFor, ih]
    by_cases hi : i = i0
    · subst hi
      rcases Nat.lt_trichotomy j0 j with hlt | heq | hgt
      · have h1 : ¬ j = j0 := by omega
        have h2 : ¬ j ≤ j0 := by omega
        have h3 : ¬ j + 1 ≤ j0 := by omega
        simp [h1, h2, h3]
      · subst heq
        have h3 : ¬ j0 + 1 ≤ j0 := by omega
        simp [h3]
      · have h1 : ¬ j = j0 := by omega
        have h2 : j ≤ j0 := by omega
        have h3 : j + 1 ≤ j0 := by omega
        have h4 : j0 - j = (j0 - (j + 1)) + 1 := by omega
        simp only [h1, h2, h3, and_false, and_true, if_true, if_false, List.nil_append]
        rw [h4, List.getElem?_cons_succ]
    · simp [hi]

theorem filter_logSpec (i0 j0 : Nat) (modes : Option (List (List String))) (w : Option Nat) (trials : List Nat)
    (tasks : List String) :
    ∀ (algs : List String) (i : Nat),
      (logSpec modes w trials tasks i algs).filter (isPair i0 j0)
        = if i ≤ i0 then
            (match algs[i0 - i]?, tasks[j0]? with
             | some an, some tn => callsFor i0 j0 an tn (modeOf modes i0 j0) w trials
             | _, _ => [])
          else [] := by
  intro algs
  induction algs with
  | nil => intro i; simp [logSpec]
  | cons an rest ih =>
    intro i
    simp only [logSpec, List.filter_append, filter_callsSpec, ih, Nat.zero_le, and_true, Nat.sub_zero]
    rcases Nat.lt_trichotomy i0 i with hlt | heq | hgt
    · have h1 : ¬ i = i0 := by omega
      have h2 : ¬ i ≤ i0 := by omega
      have h3 : ¬ i + 1 ≤ i0 := by omega
      simp [h1, h2, h3]
    · subst heq
      have h3 : ¬ i0 + 1 ≤ i0 := by omega
      simp only [h3, if_true, if_false, List.append_nil, Nat.le_refl, Nat.sub_self, List.getElem?_cons_zero]
      cases tasks[j0]? <;> rfl
    · have h1 : ¬ i = i0 := by omega
      have h2 : i ≤ i0 := by omega
      have h3 : i + 1 ≤ i0 := by omega
      have h4 : i0 - i = (i0 - (i + 1)) + 1 := by omega
      simp only [h1, h2, h3, if_true, if_false, List.nil_append]
      rw [h4, List.getElem?_cons_succ]

theorem callsSpec_length (mf : Nat → Mode) (w : Option Nat) (trials : List Nat) (i : Nat) (an : String) :
    ∀ (tasks : List String) (j : Nat), (callsSpec mf w trials i an j tasks).length = tasks.length * trials.length := by
  intro tasks
  induction tasks with
  | nil => intro j; simp [callsSpec]
  | cons tn rest ih => intro j; simp [callsSpec, callsFor, ih, Nat.succ_mul, Nat.add_comm]

theorem logSpec_length (modes : Option (List (List String))) (w : Option Nat) (trials : List Nat) (tasks : List String) :
    ∀ (algs : List String) (i : Nat),
      (logSpec modes w trials tasks i algs).length = algs.length * (tasks.length * trials.length) := by
  intro algs
  induction algs with
  | nil => intro i; simp [logSpec]
  | cons an rest ih => intro i; simp [logSpec, callsSpec_length, ih, Nat.succ_mul, Nat.add_comm]

theorem trialList_length (k : Nat) : (trialList k).length = k := by simp [trialList]

theorem trialList_eq (k : Nat) : ∀ t, t ∈ trialList k ↔ 1 ≤ t ∧ t ≤ k := by
  intro t
  simp only [trialList, List.mem_map, List.mem_range]
  constructor
  · rintro ⟨a, ha, rfl⟩; omega
  · rintro ⟨h1, h2⟩; exact ⟨t - 1, by omega, by omega⟩

theorem trialList_nodup (k : Nat) : (trialList k).Nodup := by
  unfold trialList
  exact nodup_map_of_injective (fun a b h => by simpa using h) List.nodup_range

/-- **`execute` is complete.** After a successful construction (any `modes` argument), with tasks of distinct names,
`execute(n_trials)` on a fresh instance succeeds and

1. leaves exactly one table per algorithm in `_df2`, in algorithm order;
2. table `i` has one column per task, in task order, named `<alg>_<task>`, and every column has `n_trials` rows;
3. row `r` of column `j` of table `i` is the dict `{id_trial: r+1, solution: run(call), problem_name: task}` where the
   call is algorithm `i` on task `j` with mode `__get_mode__(i, j)` (the designated one, `construct_getMode`) and
   `n_workers`;
4. the `optimize` calls made for the pair `(i, j)` are exactly these `n_trials` calls, trial 1 to `n_trials` in order
   (so: each pair exactly `n_trials` times, all with the designated mode), and nothing else was called
   (`n * m * n_trials` calls in total). -/
theorem execute_complete (run : Call → ρ) (arg : ModesArg String) (modes : Option (List (List String)))
    (w : Option Nat) (algs tasks : List String) (nTrials : Nat)
    (hc : construct algs.length tasks.length arg = .ok modes) (hnd : tasks.Nodup) :
    ∃ tables log, execute run modes w algs tasks nTrials = .ok (tables, log) ∧
      tables.length = algs.length ∧
      (∀ i (hi : i < algs.length), ∃ tb, tables[i]? = some tb ∧
          tb.map Prod.fst = tasks.map (colName algs[i]) ∧
          (∀ col ∈ tb, col.2.length = nTrials) ∧
          ∀ j (hj : j < tasks.length), ∃ md, getMode modes i j = .ok md ∧
            tb[j]? = some (colName algs[i] tasks[j],
              (trialList nTrials).map (fun t => Cell.mk t (run ⟨i, j, algs[i], tasks[j], md, w, t⟩) tasks[j]))) ∧
      (∀ i j (hi : i < algs.length) (hj : j < tasks.length), ∃ md, getMode modes i j = .ok md ∧
          log.filter (isPair i j) = (trialList nTrials).map (fun t => ⟨i, j, algs[i], tasks[j], md, w, t⟩)) ∧
      log.length = algs.length * (tasks.length * nTrials) := by
  have hg : ∀ k, k < algs.length → ∀ j, j < tasks.length → ∃ md, getMode modes (0 + k) j = .ok md := by
    intro k hk j hj
    simpa using construct_getMode_ok algs.length tasks.length arg modes hc k j hk hj
  have hmode : ∀ i j, i < algs.length → j < tasks.length → getMode modes i j = .ok (modeOf modes i j) := by
    intro i j hi hj
    obtain ⟨md, hmd⟩ := construct_getMode_ok algs.length tasks.length arg modes hc i j hi hj
    simp [modeOf, hmd]
  have hex := algsLoop_spec run modes w (trialList nTrials) tasks hnd algs 0 [] [] hg
  refine ⟨_, _, by simpa [execute, executeFrom] using hex, ?_, ?_, ?_, ?_⟩
  · simp [tablesSpec_length]
  · intro i hi
    refine ⟨colsSpec run (modeOf modes i) w (trialList nTrials) i algs[i] 0 tasks, ?_, ?_, ?_, ?_⟩
    · simp [tablesSpec_getElem?, hi]
    · exact colsSpec_keys _ _ _ _ _ _ _ _
    · intro col hcol
      rw [colsSpec_rows _ _ _ _ _ _ _ _ col hcol, trialList_length]
    · intro j hj
      refine ⟨modeOf modes i j, hmode i j hi hj, ?_⟩
      simp [colsSpec_getElem?, hj, cellsFor, callsFor, Function.comp_def]
  · intro i j hi hj
    refine ⟨modeOf modes i j, hmode i j hi hj, ?_⟩
    simp [filter_logSpec, hi, hj, callsFor]
  · simp [logSpec_length, trialList_length]

/-- non-vacuity: 2 algorithms × 3 tasks, per-pair modes, 2 trials (the scripted optimizer returns its own call). -/
example : (execute (fun c => c) (some [["serial", "thread", "process"], ["process", "thread", "serial"]]) (some 4)
    ["A", "B"] ["T1", "T2", "T3"] 2).map (fun r => (r.1.map (fun tb => tb.map Prod.fst), r.2.length))
    = .ok ([["A_T1", "A_T2", "A_T3"], ["B_T1", "B_T2", "B_T3"]], 12) := by decide

/-- `_df2` is never reset: a second `execute` appends `n` more tables behind the existing ones. -/
theorem executeFrom_appends (run : Call → ρ) (arg : ModesArg String) (modes : Option (List (List String)))
    (w : Option Nat) (algs tasks : List String) (nTrials : Nat) (prior : List (Table ρ))
    (hc : construct algs.length tasks.length arg = .ok modes) (hnd : tasks.Nodup) :
    ∃ tables log, execute run modes w algs tasks nTrials = .ok (tables, log) ∧
      executeFrom run modes w algs tasks nTrials prior = .ok (prior ++ tables, log) := by
  have hg : ∀ k, k < algs.length → ∀ j, j < tasks.length → ∃ md, getMode modes (0 + k) j = .ok md := by
    intro k hk j hj
    simpa using construct_getMode_ok algs.length tasks.length arg modes hc k j hk hj
  refine ⟨tablesSpec run modes w (trialList nTrials) tasks 0 algs, logSpec modes w (trialList nTrials) tasks 0 algs, ?_, ?_⟩
  · simpa [execute, executeFrom] using algsLoop_spec run modes w (trialList nTrials) tasks hnd algs 0 [] [] hg
  · simpa [executeFrom] using algsLoop_spec run modes w (trialList nTrials) tasks hnd algs 0 prior [] hg

/-! ## `export_results` -/

theorem exportLoop_spec (base : String) (stamp : Nat → String) (ext : String) :
    ∀ (names : List String) (i k : Nat),
      (exportLoop base stamp ext i names)[k]?
        = (names[k]?).map (fun nm => ⟨base ++ "/" ++ nm, base ++ "/" ++ nm ++ "/" ++ fileName nm (stamp (i + k)) ext, i + k⟩) := by
  intro names
  induction names with
  | nil => intro i k; simp [exportLoop]
  | cons nm rest ih =>
    intro i k
    cases k with
    | zero => simp [exportLoop]
    | succ k => simp [exportLoop, ih, Nat.add_assoc, Nat.add_comm 1 k]

theorem exportLoop_length (base : String) (stamp : Nat → String) (ext : String) :
    ∀ (names : List String) (i : Nat), (exportLoop base stamp ext i names).length = names.length := by
  intro names
  induction names with
  | nil => intro i; rfl
  | cons nm rest ih => intro i; simp [exportLoop, ih]

/-- **one file per algorithm under `<save_path>/<algorithm name>/`, each independently of the others**: iteration `k`
creates the directory `<save_path>/<name_k>` and writes table `k` to `<save_path>/<name_k>/tuning_best_fit_<name_k>_<stamp><ext>`;
there is exactly one iteration per algorithm. (`save_path = None` stands for `"multitask"`.) -/
theorem exportPaths_spec (savePath : Option String) (names : List String) (stamp : Nat → String) (ext : String) :
    (exportPaths savePath names stamp ext).length = names.length ∧
    ∀ k (hk : k < names.length),
      (exportPaths savePath names stamp ext)[k]? = some
        { dir := savePath.getD "multitask" ++ "/" ++ names[k],
          file := savePath.getD "multitask" ++ "/" ++ names[k] ++ "/" ++ fileName names[k] (stamp k) ext,
          table := k } := by
  refine ⟨exportLoop_length _ _ _ _ _, ?_⟩
  intro k hk
  simp [exportPaths, exportLoop_spec, hk]

example : exportPaths (some "out") ["A", "B"] (fun _ => "S") ".csv" =
    [⟨"out/A", "out/A/tuning_best_fit_A_S.csv", 0⟩, ⟨"out/B", "out/B/tuning_best_fit_B_S.csv", 1⟩] := by decide

theorem dir_injective (base : String) : Function.Injective (fun nm : String => base ++ "/" ++ nm) := by
  intro a b h
  simp only [String.append_assoc] at h
  exact (String.append_right_inj "/").mp ((String.append_right_inj base).mp h)

/-- algorithms of distinct names get distinct directories (no file of one algorithm lands in another's folder). -/
theorem exportPaths_dirs_nodup (savePath : Option String) (names : List String) (stamp : Nat → String) (ext : String)
    (hnd : names.Nodup) : ((exportPaths savePath names stamp ext).map (·.dir)).Nodup := by
  have : (exportPaths savePath names stamp ext).map (·.dir) = names.map (fun nm => savePath.getD "multitask" ++ "/" ++ nm) := by
    apply List.ext_getElem?
    intro k
    simp only [List.getElem?_map, exportPaths, exportLoop_spec]
    cases names[k]? <;> simp
  rw [this]
  exact nodup_map_of_injective (dir_injective _) hnd

example : (["A", "B"] : List String).Nodup := by decide

/-- `export_results` succeeds for the three export types once `execute` has produced the `n` tables … -/
theorem exportResults_ok (saveAs : String) (ty : ExportType) (hty : ExportType.ofString saveAs = some ty)
    (savePath : Option String) (names : List String) (stamp : Nat → String) (nTables : Nat) (hn : names.length ≤ nTables) :
    exportResults saveAs savePath names stamp nTables = .ok (exportPaths savePath names stamp ty.ext) := by
  simp only [exportResults, hty]
  have : (exportPaths savePath names stamp ty.ext).all (fun e => decide (e.table < nTables)) = true := by
    rw [List.all_eq_true]
    intro e he
    obtain ⟨k, hk, hek⟩ := List.getElem_of_mem he
    have hk' : k < names.length := by simpa [exportPaths, exportLoop_length] using hk
    have := (exportPaths_spec savePath names stamp ty.ext).2 k hk'
    rw [List.getElem?_eq_getElem hk] at this
    simp only [Option.some.injEq] at this
    rw [← hek, this]
    simp; omega
  simp [this]

example : ExportType.ofString "dataframe" = some .dataframe ∧ ExportType.ofString "json" = some .json
    ∧ ExportType.ofString "csv" = some .csv := by decide

/-- … and rejects every other export type with `ValueError` before touching the file system. -/
theorem exportResults_rejects (saveAs : String) (hty : ExportType.ofString saveAs = none)
    (savePath : Option String) (names : List String) (stamp : Nat → String) (nTables : Nat) :
    exportResults saveAs savePath names stamp nTables = .error .valueError := by
  simp [exportResults, hty]

example : ExportType.ofString "xlsx" = none := by decide

/-! ## the pinned tree violated the property (history; repaired by three `fix:` commits) -/

/-- (a) one mode per algorithm (`len == n`, n ≥ 2): the constructor died with `TypeError` (`deepcopy(<generator>)`). -/
theorem modes_per_algorithm_witness :
    Pinned.construct 2 3 (.tuple ["serial", "thread"]) = .error .typeError
    ∧ construct 2 3 (.tuple ["serial", "thread"]) = .ok (some [["serial", "serial", "serial"], ["thread", "thread", "thread"]]) := by
  decide

/-- (b) one mode per pair (`len == n*m`): valid modes were rejected (the flat tuple was flattened into characters). -/
theorem modes_per_pair_witness :
    Pinned.construct 2 3 (.tuple ["serial", "thread", "process", "process", "thread", "serial"]) = .error .valueError
    ∧ ∀ s ∈ ["serial", "thread", "process", "process", "thread", "serial"], validMode s = true := by
  decide

/-- (c) `export_results`: the second algorithm's folder was created inside the first one's. -/
theorem export_nesting_witness :
    (Pinned.exportPaths (some "out") ["A", "B"] (fun _ => "S") ".csv").map (·.dir) = ["out/A", "out/A/B"]
    ∧ (exportPaths (some "out") ["A", "B"] (fun _ => "S") ".csv").map (·.dir) = ["out/A", "out/B"] := by
  decide

end C20
