import PvModel.Lemmas.RunLemmas
import PvModel.Props.C16
/-!
# C01 — every reported solution lies inside the declared search space
(and the shared invariant behind C02 and C05, whose theorems are in `Props/C02.lean` and `Props/C05.lean`)

One invariant carries all three: every agent a disciplined optimizer can ever hold was built by `_init_agent` (`mkAgent`),
hence is `Valid` (position in the search space, cost = signed weighted objective of *that* position, fitness = documented
function), and every argument handed to the objective is a member of the search space.  The optimizer is an arbitrary
`DAlg σ`: arbitrary private state, arbitrary update rule and decisions (continuations), arbitrary number of evaluations
per phase.  Hypotheses: the task's variables are well-formed (`T.WF`) and every raw candidate handed to `_init_agent` is
`RawOK` (enough coordinates, well-shaped, NaN-free) — the one assumption about the numerical rules, monitored on every trace.
-/

namespace C01
open TaskDecl

/-- the property of one recorded generation: every agent is the user-sign view of a `Valid` agent -/
def GenOK (T : TaskSem) (g : List Agent) : Prop := ∀ r ∈ g, ∃ a, Valid T a ∧ r = a.refine T.dir

theorem snapshot_ok (T : TaskSem) (st : RunState σ) (h : RunInv T st) : GenOK T (snapshot T.dir st.agents) := by
  intro r hr
  simp only [snapshot, List.mem_map] at hr
  obtain ⟨a, ha, rfl⟩ := hr
  exact ⟨a, agents_valid T st h a ha, rfl⟩

/-- the invariant over a whole `optimize` run: every generation consists of valid agents, so does `best_solution`,
and the call log only holds members of the search space. -/
theorem run_valid {R σ : Type} (T : TaskSem) (hT : T.WF) (A : DAlg σ) (hA : A.RawsOK T)
    (ar : Arith R) (cfg : StopCfg R) (rate : List Agent → R)
    (s0 : RunState σ) (res : Result R) (sN : RunState σ) (bN : Book R)
    (h : runBody ar cfg (A.toAlg T) rate T.dir s0 = .ok (res, sN, bN)) :
    (∀ g ∈ res.evolution, GenOK T g) ∧ (∃ a, Valid T a ∧ res.best = a.refine T.dir) ∧ CallsOK T sN.calls := by
  obtain ⟨hinv, hgen, b, hb, hbest⟩ := runBody_inv ar cfg (A.toAlg T) rate T.dir (RunInv T) (GenOK T)
    (fun s s' hi => toAlg_init_inv T hT A hA s s' hi)
    (fun s s' hs hst => toAlg_step_inv T hT A hA s s' hs hst)
    (fun s hs => snapshot_ok T s hs) s0 res sN bN h
  refine ⟨hgen, ⟨b, ?_, hbest⟩, hinv.calls⟩
  -- the best agent is a member of the final population
  have hmem : b ∈ bestAgents .min ((A.toAlg T).pop sN) 1 := by
    unfold bestAgent at hb
    split at hb
    · rename_i a' heq; cases hb; rw [heq]; simp
    · cases hb
  exact agents_valid T sN hinv b (C16.bestAgents_mem .min _ 1 b hmem)

/-- **C01**: every position `optimize()` reports — each agent of every generation and `best_solution` — is a member of the
search space: exactly one coordinate per declared scalar variable, each continuous coordinate finite and within its bounds,
each discrete/binary coordinate an integer index of a declared choice, each permutation coordinate a permutation of the item indices. -/
theorem c01_optimize {R σ : Type} (T : TaskSem) (hT : T.WF) (A : DAlg σ) (hA : A.RawsOK T)
    (ar : Arith R) (cfg : StopCfg R) (rate : List Agent → R)
    (s0 : RunState σ) (res : Result R) (sN : RunState σ) (bN : Book R)
    (h : runBody ar cfg (A.toAlg T) rate T.dir s0 = .ok (res, sN, bN)) :
    (∀ g ∈ res.evolution, ∀ r ∈ g, memList T.vars r.position = true) ∧ memList T.vars res.best.position = true := by
  obtain ⟨h1, ⟨a, ha, hb⟩, _⟩ := run_valid T hT A hA ar cfg rate s0 res sN bN h
  constructor
  · intro g hg r hr
    obtain ⟨a', ha', rfl⟩ := h1 g hg r hr
    cases hd : T.dir <;> simpa [Agent.refine, hd] using ha'.pos
  · rw [hb]; cases hd : T.dir <;> simpa [Agent.refine, hd] using ha.pos

/-- in particular: exactly one coordinate per flattened variable, i.e. per dimension of a valid task. -/
theorem c01_dimension (T : TaskSem) (pos : List Coord) (h : memList T.vars pos = true) : pos.length = T.vars.length :=
  memList_length _ _ h

/-- what membership means coordinate by coordinate. -/
theorem memList_pointwise : ∀ (vs : List Var) (ys : List Coord), memList vs ys = true →
    ∀ i (h1 : i < vs.length) (h2 : i < ys.length), vs[i].mem ys[i] = true
  | [], [], _, i, h1, _ => by simp at h1
  | [], _ :: _, h, _, _, _ => by simp [memList] at h
  | _ :: _, [], h, _, _, _ => by simp [memList] at h
  | v :: vs, y :: ys, h, i, h1, h2 => by
    simp only [memList, Bool.and_eq_true] at h
    cases i with
    | zero => simpa using h.1
    | succ i => simpa using memList_pointwise vs ys h.2 i (by simpa using h1) (by simpa using h2)

/-- the NaN hypothesis cannot be dropped: a NaN raw coordinate is "corrected" to NaN, which is not a member. -/
theorem nan_candidate_escapes (lb ub : Num) :
    correctList [.scalar .nan] [.cont lb ub] = .ok [.num .nan] ∧ memList [.cont lb ub] [.num .nan] = false := by
  simp [correctList, Var.correct, Num.clip_nan, bind, Except.bind, memList, Var.mem, Num.isFinite]

/-! ## non-vacuity: a concrete task and a concrete disciplined optimizer -/
private def demoT : TaskSem :=
  { decl := ⟨[.cont (.fin 0) (.fin 1), .disc 3]⟩, dir := .max, weights := none,
    F := fun p => match p with | [.num x, _] => .single x | _ => .single (.fin 0),
    dot := fun _ _ => .fin 0, fit := fun c => c }
/-- evaluates two candidates at initialisation; each step evaluates one more (out of range: it gets corrected) and keeps the newer two -/
private def demoA : DAlg Nat :=
  { init := fun s => .eval [.scalar (.fin 5), .scalar (.fin (-1))] (fun _ => .eval [.scalar (.fin (1/2)), .scalar (.fin 7)] (fun _ => .done s [0, 1])),
    step := fun s arena _ => .eval [.scalar .pinf, .scalar (.fin (3/2))] (fun a => .done (s + 1) [arena.length - 1, a.tag]) }

example : demoT.WF := by intro v hv; simp [TaskSem.vars, demoT, TaskDecl.getVariables, VarDecl.children] at hv; rcases hv with rfl | rfl <;> rfl
example : demoA.RawsOK demoT :=
  ⟨fun _ => .eval _ _ (by decide +kernel) (fun _ => .eval _ _ (by decide +kernel) (fun _ => .done _ _)),
   fun _ _ _ => .eval _ _ (by decide +kernel) (fun _ => .done _ _)⟩
example : ((demoA.toAlg demoT).init ⟨0, [], [], []⟩).map (fun st => st.agents.map (·.position)) =
    .ok [[.num (.fin 1), .int 0], [.num (.fin (1/2)), .int 2]] := by decide +kernel

end C01

