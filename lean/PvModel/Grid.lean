import PvModel.Sort
/-!
# Grid — `ParameterGrid` and the `HyperTuner` selection (pyvolutionary/hypertuner.py)

* `ParameterGrid` (hypertuner.py:17-147): a grid is a list of sub-grids (a dict is wrapped in a singleton list), a sub-grid a
  dict `key → sequence of values`, here an association list in insertion order with distinct keys.  `iter`, `len`, `getitem`
  follow `__iter__`, `__len__`, `__getitem__` statement by statement (the three are written independently in the code:
  `sorted` + `itertools.product`; `reduce(operator.mul, …)` over the *unsorted* values; reversed sorted keys + `divmod`).
  A point is the dict the code builds, as the association list in *insertion order* (`__iter__`: sorted keys, `__getitem__`:
  reversed sorted keys — the two dicts are equal as Python dicts, the model keeps the order and the theorem says `reverse`).
  Values are an abstract type `V` (the driver instantiates it with JSON values).
* `HyperTuner.execute` (hypertuner.py:239-298): nested loops over `list(ParameterGrid(grid))` × `range(n_trials)` around a
  scripted run function; `trial_mean`; pandas `rank(method="average", ascending)` on exact rationals; the dense rank of the
  `(rank_mean, rank_std)` tuples as pandas computes it for an object column (stable `lexsort` by the tuples' `<`, reversed when
  descending, then a scan that opens a new rank whenever two neighbours are `!=`); `_best_row`/`values[0]`.
  `trial_std` enters only through its rank, so the observed values are an input (`none` = NaN, which is what pandas returns for
  `n_trials = 1`; NaN ranks are NaN, `nan != nan` makes every tuple containing one distinct from every other tuple).
* `resolve` (hypertuner.py:306-318).

Python exceptions are explicit (`Except PyErr`).
-/

namespace Grid

inductive PyErr where
  | indexError
  | valueError
  | typeError
  | zeroDivisionError
  deriving DecidableEq, Repr

def PyErr.render : PyErr → String
  | .indexError => "IndexError"
  | .valueError => "ValueError"
  | .typeError => "TypeError"
  | .zeroDivisionError => "ZeroDivisionError"

/-- one dict of the grid: `key → values`, in insertion order (keys distinct, as in any dict). -/
abbrev SubGrid (V : Type) := List (String × List V)
/-- `ParameterGrid.param_grid` after the constructor wrapped a lone dict into a list. -/
abbrev PGrid (V : Type) := List (SubGrid V)
/-- a grid point: the dict the code yields, in insertion order. -/
abbrev Point (V : Type) := List (String × V)

/-- the constructor's checks that depend on the values (hypertuner.py:72-76): an empty value sequence is a `ValueError`.
(The `TypeError`s for non-dict entries / non-sequence values concern Python types the model does not have.) -/
def mk (g : PGrid V) : Except PyErr (PGrid V) :=
  if g.all (fun sg => sg.all (fun kv => !kv.2.isEmpty)) then .ok g else .error .valueError

/-- the grid passed the constructor. -/
def valid (g : PGrid V) : Bool := g.all (fun sg => sg.all (fun kv => !kv.2.isEmpty))

/-- `sorted(p.items())`: keys are distinct, so the tuples are ordered by key alone (Python compares `str` by code point, as
Lean's `String.lt` does); stable. -/
def keyLe (a b : String × α) : Bool := !decide (b.1 < a.1)

def sortItems (sg : SubGrid V) : SubGrid V := isort keyLe sg

/-- `for v in product(*values): dict(zip(keys, v))` — the last key varies fastest. -/
def cartesian : List (String × List V) → List (Point V)
  | [] => [[]]
  | (k, vs) :: rest => vs.flatMap (fun v => (cartesian rest).map (fun p => (k, v) :: p))

/-- one pass of the `for p in self.param_grid` loop of `__iter__`. -/
def subIter (sg : SubGrid V) : List (Point V) :=
  let items := sortItems sg
  if items.isEmpty then [[]] else cartesian items

/-- `list(ParameterGrid(g))` -/
def iter (g : PGrid V) : List (Point V) := g.flatMap subIter

/-- `prd(len(v) for v in p.values()) if p else 1` with `prd = partial(reduce, operator.mul)` (no initial value, insertion order). -/
def subLen : SubGrid V → Nat
  | [] => 1
  | (_, vs) :: rest => rest.foldl (fun acc kv => acc * kv.2.length) vs.length

/-- `len(ParameterGrid(g))` -/
def len (g : PGrid V) : Nat := (g.map subLen).sum

/-- the inner loop of `__getitem__`: `ind, offset = divmod(ind, n); out[key] = v_list[offset]` (Python's floor `divmod`). -/
def decode : List (String × List V) → Int → Except PyErr (Point V)
  | [], _ => .ok []
  | (k, vs) :: rest, ind =>
    if vs.length = 0 then .error .zeroDivisionError
    else
      let q := ind.fdiv vs.length
      let r := ind.fmod vs.length
      match vs[r.toNat]? with
      | none => .error .indexError
      | some v =>
        match decode rest q with
        | .ok out => .ok ((k, v) :: out)
        | .error e => .error e

/-- `np.prod(sizes)` -/
def total (items : List (String × List V)) : Int := (items.map (fun kv => (kv.2.length : Int))).foldl (· * ·) 1

/-- `ParameterGrid.__getitem__(ind)`, for any Python int (negative ones included, as the code treats them). -/
def getitem : PGrid V → Int → Except PyErr (Point V)
  | [], _ => .error .indexError
  | sg :: rest, ind =>
    if sg.isEmpty then
      if ind = 0 then .ok [] else getitem rest (ind - 1)
    else
      let items := (sortItems sg).reverse
      if ind < total items then decode items ind else getitem rest (ind - total items)

/-! ## the tuner -/

/-- `TaskType` -/
inductive Dir where
  | min
  | max
  deriving DecidableEq, Repr

/-- `ascending = True if self._problem.minmax == TaskType.MIN else False` -/
def Dir.ascending : Dir → Bool
  | .min => true
  | .max => false

def sumRat : List Rat → Rat
  | [] => 0
  | x :: xs => x + sumRat xs

/-- `df[trial_columns].mean(axis=1)` of one row (exact). -/
def mean (row : List Rat) : Rat := sumRat row / (row.length : Rat)

/-- twice pandas' `rank(method="average", ascending=asc)` of `x` within the non-NaN values `xs`: the members of a tie group
occupy the positions `lt+1 … lt+eq`, whose average is `lt + (eq+1)/2`. -/
def rank2 (asc : Bool) (xs : List Rat) (x : Rat) : Nat :=
  2 * xs.countP (fun y => if asc then decide (y < x) else decide (x < y)) + xs.countP (fun y => decide (y = x)) + 1

/-- a whole column; NaN (`none`) keeps a NaN rank and does not count for the others (`na_option="keep"`). -/
def rankCol (asc : Bool) (col : List (Option Rat)) : List (Option Nat) :=
  col.map (fun o => o.map (rank2 asc (col.filterMap id)))

/-- a `(rank_mean, rank_std)` tuple (ranks doubled; `none` = NaN) -/
abbrev Key := Nat × Option Nat

/-- Python's `<` on two such tuples held by different rows: the first position where the members are not `==` decides;
`nan == nan` is false and `nan < x`, `x < nan` are false. -/
def tupLt (a b : Key) : Bool :=
  decide (a.1 < b.1) || (a.1 == b.1 && match a.2, b.2 with
    | some x, some y => decide (x < y)
    | _, _ => false)

/-- Python's `!=` on two such tuples held by different rows. -/
def tupNe (a b : Key) : Bool :=
  a.1 != b.1 || match a.2, b.2 with
    | some x, some y => x != y
    | _, _ => true

/-- the scan of the sorted values: a new dense rank starts whenever two neighbours differ. -/
def denseScan (ne : α → α → Bool) : Nat → α → List α → List (α × Nat)
  | _, _, [] => []
  | r, p, x :: xs => (x, if ne p x then r + 1 else r) :: denseScan ne (if ne p x then r + 1 else r) x xs

def denseSorted (ne : α → α → Bool) : List α → List (α × Nat)
  | [] => []
  | x :: xs => (x, 1) :: denseScan ne 1 x xs

/-- rows (index, key) in the order pandas visits them: stable sort by `<` (`np.lexsort`), reversed for `ascending=False`. -/
def sortedKeys (tupAsc : Bool) (keys : List Key) : List (Nat × Key) :=
  let s := isort (fun a b => !tupLt b.2 a.2) (keys.zipIdx.map (fun p => (p.2, p.1)))
  if tupAsc then s else s.reverse

/-- `(row index, dense rank)` for every row, in visiting order: `.rank(method="dense", ascending=tupAsc)` of the tuple column. -/
def denseRanks (tupAsc : Bool) (keys : List Key) : List (Nat × Nat) :=
  (denseSorted (fun a b => tupNe a.2 b.2) (sortedKeys tupAsc keys)).map (fun p => (p.1.1, p.2))

def minNat : List Nat → Option Nat
  | [] => none
  | x :: xs => match minNat xs with
    | none => some x
    | some m => some (if x ≤ m then x else m)

/-- `_best_row`: the indices of the rows whose dense rank equals the column's minimum (in visiting order), and
`.values[0]`: the first of them in row order, i.e. the smallest index. -/
def bestRows (tupAsc : Bool) (keys : List Key) : List Nat :=
  let d := denseRanks tupAsc keys
  match minNat (d.map (·.2)) with
  | none => []
  | some m => (d.filter (fun p => p.2 == m)).map (·.1)

/-- the tuple column of `_df_fit` from the means and the observed standard deviations.
`tupAsc` is the `ascending` argument of the third `rank` call. -/
def keysOf (asc : Bool) (means : List Rat) (stds : List (Option Rat)) : List Key :=
  (rankCol asc (means.map some)).zipWith (fun rm rs => (rm.getD 0, rs)) (rankCol asc stds)

/-- index of the row `execute` reports.  `tupAsc = true` is the code as repaired, `tupAsc = dir.ascending` the pinned code. -/
def selectBestWith (tupAsc : Bool) (dir : Dir) (means : List Rat) (stds : List (Option Rat)) : Option Nat :=
  minNat (bestRows tupAsc (keysOf dir.ascending means stds))

/-- the selection of `HyperTuner.execute` (hypertuner.py:289-297). -/
def selectBest (dir : Dir) (means : List Rat) (stds : List (Option Rat)) : Option Nat :=
  selectBestWith true dir means stds

/-- the selection as written in the pinned tree: the third `rank` call also received `ascending=ascending`. -/
def selectBestPinned (dir : Dir) (means : List Rat) (stds : List (Option Rat)) : Option Nat :=
  selectBestWith dir.ascending dir means stds

/-! ### `execute` and `resolve` around a scripted optimizer

The optimizer is a state machine whose only state the tuner touches is its configuration: `set_config_parameters(p)` replaces
it, `optimize` reads it.  `run cfg t` is the best cost the optimizer reports in trial `t` when its configuration is `cfg`
(`none`: never configured).  Every trial of a point runs on a copy of the optimizer taken when the pool is fed, i.e. after the
point's `set_config_parameters`. -/

inductive Event (P : Type) where
  | setConfig (p : P)
  | optimize (cfg : Option P) (trial : Nat)
  deriving DecidableEq, Repr

structure TunerState (P : Type) where
  cfg : Option P := none
  log : List (Event P) := []
  /-- `best_fit_results`: one row of `n_trials` costs per grid point -/
  table : List (P × List Rat) := []

/-- the `for idx in range(n_trials)` part: every trial runs the optimizer as configured now. -/
def runTrials (run : Option P → Nat → Rat) (cfg : Option P) (nTrials : Nat) : List (Event P) × List Rat :=
  ((List.range nTrials).map (fun t => Event.optimize cfg t), (List.range nTrials).map (fun t => run cfg t))

/-- one pass of `for id_params, params in enumerate(list_params_grid)` -/
def executeStep (run : Option P → Nat → Rat) (nTrials : Nat) (s : TunerState P) (params : P) : TunerState P :=
  let cfg := some params                                  -- self._algorithm.set_config_parameters(params)
  let (ev, costs) := runTrials run cfg nTrials
  { cfg := cfg, log := s.log ++ Event.setConfig params :: ev, table := s.table ++ [(params, costs)] }

/-- the loop of `execute` over the listed grid. -/
def executeLoop (run : Option P → Nat → Rat) (nTrials : Nat) (points : List P) (s : TunerState P) : TunerState P :=
  points.foldl (executeStep run nTrials) s

structure Outcome (P : Type) where
  state : TunerState P
  bestParams : P
  bestScore : Rat

/-- `HyperTuner.execute`: the loop, then the selection; `stds` stands for the observed `trial_std` column.
An empty table makes `values[0]` fail with `IndexError` (cannot happen: a grid has at least one point). -/
def execute (run : Option P → Nat → Rat) (dir : Dir) (nTrials : Nat) (points : List P)
    (stds : List (Option Rat)) (s : TunerState P) : Except PyErr (Outcome P) :=
  let s' := executeLoop run nTrials points s
  let means := s'.table.map (fun r => mean r.2)
  match selectBest dir means stds with
  | none => .error .indexError
  | some i =>
    match s'.table[i]? with
    | none => .error .indexError
    | some r => .ok { state := s', bestParams := r.1, bestScore := mean r.2 }

/-- `HyperTuner.resolve`: `set_config_parameters(best_parameters)` then `optimize`. -/
def resolve (o : Outcome P) : List (Event P) :=
  let cfg := some o.bestParams
  [Event.setConfig o.bestParams, Event.optimize cfg 0]

end Grid
