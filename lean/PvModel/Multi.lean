import PvModel.Vars
/-!
# Multi — `pyvolutionary/multitask.py` (`Multitask`)

* `ModesArg`      : what the caller passes as `modes` (`None`, something that is not a tuple, a tuple of entries).
* `checkInput`    : `Multitask.__check_input__` (lines 50-66): `None`, not-a-tuple, then the four `len` branches *in the
                    written order* (1, n, m, n*m); produces the n×m table `_modes` or `ValueError`.
* `checkModes`    : `Multitask.__check_modes__` (68-74): every entry of the table is a `ModeSolver` value, else `ValueError`.
* `construct`     : what `__init__` does with `modes` (43, 48).
* `getMode`       : `Multitask.__get_mode__` (167-175).
* `execute`       : `execute` / `__parallelize__` / `__run__` (113-165) as nested loops over a scripted `run` function:
                    algorithms outer, tasks inner, trials `1..n_trials`; per algorithm one table (a `dict` keyed
                    `<alg>_<task>` turned into a `DataFrame`); every invocation of `run` is appended to a call log.
* `exportPaths`   : the directories / files `export_results` (92-111) writes.
* `Pinned.*`      : the same functions as they were on the pinned tree (before the three `fix:` commits), kept only to
                    state the negation witnesses.

`ProcessPoolExecutor.map` is modelled as `List.map` (trusted: it yields one result per submitted trial, in order).
-/

namespace Multi

/-! ## modes -/

/-- `enums.ModeSolver` -/
inductive Mode where
  | serial | thread | process
deriving DecidableEq, Repr, Inhabited

/-- `ModeSolver(s)`; `none` = `ValueError` -/
def Mode.ofString (s : String) : Option Mode :=
  if s = "serial" then some .serial
  else if s = "thread" then some .thread
  else if s = "process" then some .process
  else none

/-- `str(mode)` (enums.py:21-22) -/
def Mode.toString : Mode → String
  | .serial => "serial"
  | .thread => "thread"
  | .process => "process"

/-- `mode in ModeSolver` (enums.py:12-17) -/
def validMode (s : String) : Bool := (Mode.ofString s).isSome

/-- the `modes` argument of the constructor -/
inductive ModesArg (α : Type) where
  | none                      -- `None`
  | notTuple                  -- anything else that is not a `tuple` (a list, a string, ...)
  | tuple (vs : List α)
deriving Repr

/-- `values[i*m:(i+1)*m]` for `i` in `range(n)` -/
def rows (n m : Nat) (vs : List α) : List (List α) :=
  (List.range n).map (fun i => (vs.drop (i * m)).take m)

/-- `__check_input__` (multitask.py:50-66) with `n = _n_algorithms`, `m = _m_tasks`. -/
def checkInput (n m : Nat) : ModesArg α → Except Err (Option (List (List α)))
  | .none => .ok none
  | .notTuple => .error .valueError
  | .tuple vs =>
    match vs with
    | [v] => .ok (some (List.replicate n (List.replicate m v)))                   -- len == 1
    | _ =>
      if vs.length = n then .ok (some (vs.map (fun v => List.replicate m v)))     -- len == n : one per algorithm
      else if vs.length = m then .ok (some (List.replicate n vs))                 -- len == m : one per task
      else if vs.length = n * m then .ok (some (rows n m vs))                     -- len == n*m : one per pair
      else .error .valueError

/-- `__check_modes__` (68-74): `all(mode in ModeSolver for mode in chain.from_iterable(self._modes))`. -/
def checkModes : Option (List (List String)) → Except Err Unit
  | none => .ok ()
  | some t => if t.flatten.all validMode then .ok () else .error .valueError

/-- what `__init__` computes for `_modes` (lines 43 and 48). -/
def construct (n m : Nat) (arg : ModesArg String) : Except Err (Option (List (List String))) := do
  let t ← checkInput n m arg
  checkModes t
  .ok t

/-- `t[i][j]` -/
def lookup (t : List (List α)) (i j : Nat) : Option α := (t[i]?).bind (fun r => r[j]?)

/-- `__get_mode__` (167-175). -/
def getMode (modes : Option (List (List String))) (i j : Nat) : Except Err Mode :=
  match modes with
  | none => .ok .serial
  | some t =>
    match lookup t i j with
    | none => .error .indexError
    | some s =>
      match Mode.ofString s with
      | some md => .ok md
      | none => .error .valueError

/-! ## execute -/

/-- one invocation of `optimizer.optimize(task, mode=str(mode), workers=self._n_workers)` for trial `trial` -/
structure Call where
  alg : Nat
  task : Nat
  algName : String
  taskName : String
  mode : Mode
  workers : Option Nat
  trial : Nat
deriving DecidableEq, Repr

/-- the dict `__run__` returns -/
structure Cell (ρ : Type) where
  idTrial : Nat
  solution : ρ
  problemName : String
deriving Repr

instance [DecidableEq ρ] : DecidableEq (Cell ρ) := fun a b => by
  cases a; cases b; simp only [Cell.mk.injEq]; exact inferInstance

/-- `d[k] = v` on an insertion-ordered `dict` -/
def dictSet (d : List (String × β)) (k : String) (v : β) : List (String × β) :=
  match d with
  | [] => [(k, v)]
  | (k', v') :: rest => if k' = k then (k, v) :: rest else (k', v') :: dictSet rest k v

/-- a `DataFrame` built from a dict of columns (`pd.DataFrame(best_fit_optimizer_results)`) -/
abbrev Table (ρ : Type) := List (String × List (Cell ρ))

/-- `f"{optimizer.name}_{task.name}"` -/
def colName (algName taskName : String) : String := algName ++ "_" ++ taskName

/-- `list(range(1, n_trials + 1))` -/
def trialList (nTrials : Nat) : List Nat := (List.range nTrials).map (· + 1)

/-- state of the loops: the tables appended to `_df2` so far and the log of `optimize` calls -/
abbrev St (ρ : Type) := List (Table ρ) × List Call

/-- inner loop (multitask.py:147-152) for algorithm `i`, from task index `j` on. -/
def tasksLoop (run : Call → ρ) (modes : Option (List (List String))) (w : Option Nat) (trials : List Nat)
    (i : Nat) (algName : String) : Nat → List String → Table ρ × List Call → Except Err (Table ρ × List Call)
  | _, [], acc => .ok acc
  | j, tn :: rest, (d, log) =>
    match getMode modes i j with
    | .error e => .error e
    | .ok md =>
      let calls := trials.map (fun t => Call.mk i j algName tn md w t)
      let cells := calls.map (fun c => Cell.mk c.trial (run c) tn)
      tasksLoop run modes w trials i algName (j + 1) rest (dictSet d (colName algName tn) cells, log ++ calls)

/-- outer loop (multitask.py:145-154), from algorithm index `i` on. -/
def algsLoop (run : Call → ρ) (modes : Option (List (List String))) (w : Option Nat) (trials : List Nat)
    (tasks : List String) : Nat → List String → St ρ → Except Err (St ρ)
  | _, [], acc => .ok acc
  | i, an :: rest, (df2, log) =>
    match tasksLoop run modes w trials i an 0 tasks ([], log) with
    | .error e => .error e
    | .ok (d, log') => algsLoop run modes w trials tasks (i + 1) rest (df2 ++ [d], log')

/-- `execute(n_trials)` on an instance whose `_df2` currently holds `prior` (it is never reset). -/
def executeFrom (run : Call → ρ) (modes : Option (List (List String))) (w : Option Nat) (algs tasks : List String)
    (nTrials : Nat) (prior : List (Table ρ)) : Except Err (St ρ) :=
  algsLoop run modes w (trialList nTrials) tasks 0 algs (prior, [])

/-- `execute(n_trials)` on a fresh instance: the tables (`_df2`) and the log of `optimize` calls. -/
def execute (run : Call → ρ) (modes : Option (List (List String))) (w : Option Nat) (algs tasks : List String)
    (nTrials : Nat) : Except Err (St ρ) :=
  executeFrom run modes w algs tasks nTrials []

/-! ## export_results -/

/-- `enums.ExportType` -/
inductive ExportType where
  | csv | json | dataframe
deriving DecidableEq, Repr

def ExportType.ofString (s : String) : Option ExportType :=
  if s = "csv" then some .csv
  else if s = "json" then some .json
  else if s = "dataframe" then some .dataframe
  else none

/-- the extension appended by `export_to_<type>` (multitask.py:80-90) -/
def ExportType.ext : ExportType → String
  | .csv => ".csv"
  | .json => ".json"
  | .dataframe => ".pkl"

/-- one iteration of the export loop: the directory created, the file written, the index of the exported table -/
structure Export where
  dir : String
  file : String
  table : Nat
deriving DecidableEq, Repr

/-- `f"tuning_best_fit_{optimizer.name}_{stamp}"` + extension -/
def fileName (name stamp ext : String) : String := "tuning_best_fit_" ++ name ++ "_" ++ stamp ++ ext

/-- the export loop (multitask.py:105-111), `stamp i` = `datetime.now()` text of iteration `i`. -/
def exportLoop (base : String) (stamp : Nat → String) (ext : String) : Nat → List String → List Export
  | _, [] => []
  | i, nm :: rest =>
    let dir := base ++ "/" ++ nm
    ⟨dir, dir ++ "/" ++ fileName nm (stamp i) ext, i⟩ :: exportLoop base stamp ext (i + 1) rest

/-- directories and files written by `export_results(save_as, save_path)` for algorithms named `names`. -/
def exportPaths (savePath : Option String) (names : List String) (stamp : Nat → String) (ext : String) : List Export :=
  exportLoop (savePath.getD "multitask") stamp ext 0 names

/-- `export_results` (92-111): unknown type → `ValueError`; `_df2[id]` missing (no `execute` yet) → `IndexError`. -/
def exportResults (saveAs : String) (savePath : Option String) (names : List String) (stamp : Nat → String)
    (nTables : Nat) : Except Err (List Export) :=
  match ExportType.ofString saveAs with
  | none => .error .valueError
  | some ty =>
    let es := exportPaths savePath names stamp ty.ext
    if es.all (fun e => e.table < nTables) then .ok es else .error .indexError

/-! ## the pinned tree (before `fix:` ×3), for the negation witnesses only -/
namespace Pinned

/-- outcome of the pinned `__check_input__`: the per-algorithm branch built `deepcopy(<generator>)`,
the per-pair branch returned the flat tuple. -/
inductive Modes (α : Type) where
  | none
  | table (t : List (List α))
  | flat (vs : List α)
deriving DecidableEq, Repr

def checkInput (n m : Nat) : ModesArg α → Except Err (Modes α)
  | .none => .ok .none
  | .notTuple => .error .valueError
  | .tuple vs =>
    match vs with
    | [v] => .ok (.table (List.replicate n (List.replicate m v)))
    | _ =>
      if vs.length = n then (if n = 0 then .ok (.table []) else .error .typeError)   -- cannot pickle 'generator' object
      else if vs.length = m then .ok (.table (List.replicate n vs))
      else if vs.length = n * m then .ok (.flat vs)
      else .error .valueError

/-- `chain.from_iterable` over a flat tuple of strings yields their characters. -/
def checkModes : Modes String → Except Err Unit
  | .none => .ok ()
  | .table t => if t.flatten.all validMode then .ok () else .error .valueError
  | .flat vs => if (vs.flatMap (fun s => s.toList.map (fun c => String.singleton c))).all validMode then .ok () else .error .valueError

def construct (n m : Nat) (arg : ModesArg String) : Except Err (Modes String) := do
  let t ← checkInput n m arg
  checkModes t
  .ok t

/-- the pinned export loop reassigns `save_path` in every iteration. -/
def exportLoop (stamp : Nat → String) (ext : String) : String → Nat → List String → List Export
  | _, _, [] => []
  | path, i, nm :: rest =>
    let path' := path ++ "/" ++ nm
    ⟨path', path' ++ "/" ++ fileName nm (stamp i) ext, i⟩ :: exportLoop stamp ext path' (i + 1) rest

def exportPaths (savePath : Option String) (names : List String) (stamp : Nat → String) (ext : String) : List Export :=
  exportLoop stamp ext (savePath.getD "multitask") 0 names

end Pinned

end Multi
