import PvModel.Loop
/-!
# Run — agent construction (`_init_agent`, abstract.py:69-91) and the discipline with which optimizers use it

* `TaskSem`  : a task with its meaning — declaration, direction, weights, the user's objective `F` (an arbitrary
               *function*: "deterministic objective"), `np.dot` and `calculate_fitness` as parameters.
* `mkAgent`  : `_init_agent(raw)` — correct, evaluate on the (re-)corrected position, sign in, weight, fitness.
               It also returns the argument it handed to the objective (the model's call log, for C05).
* `Prog`     : what one phase of an optimizer (initialisation, or one `optimization_step`) may do: evaluate raw candidates
               through `_init_agent` (`eval`, continuing with the created agent), finish with a new private state and a
               population given as *references into the arena* of agents created so far in this run (`done`), or raise.
               The continuation may depend arbitrarily on the agents it sees, so every numerical update rule, every
               random choice and every greedy / elitist decision is covered; what it cannot do is fabricate an agent or
               alter one — that is exactly the agent discipline the generated facts establish class by class.
-/

inductive ObjVal where
  | single (x : Num)
  | multi (xs : List Num)
deriving DecidableEq, Repr, Inhabited

structure TaskSem where
  decl : TaskDecl
  dir : Dir
  weights : Option (List Num)
  F : List Coord → ObjVal
  dot : List Num → List Num → Num
  fit : Num → Num

/-- `_fcn` (abstract.py:69-76): the objective value as is for min, negated (element-wise for a list) for max. -/
def signIn : Dir → ObjVal → ObjVal
  | .min, v => v
  | .max, .single x => .single x.neg
  | .max, .multi xs => .multi (xs.map Num.neg)

/-- the weight-count check, `np.dot(np.atleast_1d(cost), weights)` and the unpacking of a one-element list (abstract.py:85-97). -/
def weigh (dot : List Num → List Num → Num) : Option (List Num) → ObjVal → Except Err Num
  | none, .single x => .ok x
  | none, .multi [x] => .ok x                         -- one objective in a one-element list, no weights: `cost, = cost`
  | none, .multi _ => .error .valueError
  | some w, .single x => if w.length = 1 then .ok (dot [x] w) else .error .valueError
  | some w, .multi xs => if w.length = xs.length then .ok (dot xs w) else .error .valueError

/-- the user-visible sign of an internal cost -/
def signOut : Dir → Num → Num
  | .min, c => c
  | .max, c => c.neg

/-- `_init_agent(raw)`; the second component is the argument handed to `objective_function`. -/
def mkAgent (T : TaskSem) (raw : List Raw) (tag : Nat := 0) : Except Err (Agent × List Coord) := do
  let position ← T.decl.correctSolution raw                                  -- Task.initial_solution
  let arg ← T.decl.correctSolution (position.map Coord.toRaw)               -- Task.solve corrects again
  let cost ← weigh T.dot T.weights (signIn T.dir (T.F arg))
  .ok ({ position := position, cost := cost, fitness := T.fit (signOut T.dir cost), tag := tag }, arg)

/-- one phase of an optimizer, see the module comment. -/
inductive Prog (σ : Type) where
  | done (s : σ) (pop : List Nat)
  | eval (raw : List Raw) (k : Agent → Prog σ)
  | fail (e : Err)

/-- the state of a run as the framework sees it -/
structure RunState (σ : Type) where
  priv : σ                      -- the optimizer's private fields
  arena : List Agent            -- every agent created by `_init_agent` so far in this run
  pop : List Nat                -- `self._population`, as references into the arena
  calls : List (List Coord)     -- every argument handed to the objective so far

/-- resolve references; a dangling reference cannot be written in Python and is an error of the model -/
def resolve (arena : List Agent) : List Nat → Except Err (List Agent)
  | [] => .ok []
  | i :: is => match arena[i]? with
    | some a => do let rest ← resolve arena is; .ok (a :: rest)
    | none => .error .indexError

/-- run one phase -/
def Prog.exec (T : TaskSem) : Prog σ → List Agent → List (List Coord) → Except Err (RunState σ)
  | .done s pop, arena, calls =>
    match resolve arena pop with
    | .ok _ => .ok { priv := s, arena := arena, pop := pop, calls := calls }
    | .error e => .error e
  | .eval raw k, arena, calls =>
    match mkAgent T raw arena.length with
    | .error e => .error e
    | .ok (a, arg) => (k a).exec T (arena ++ [a]) (calls ++ [arg])
  | .fail e, _, _ => .error e

/-- an optimizer that obeys the agent discipline: both phases are `Prog`s that may inspect the private state and the agents
of the current population / arena. -/
structure DAlg (σ : Type) where
  init : σ → Prog σ
  step : σ → List Agent → List Nat → Prog σ      -- private state, arena, population

def RunState.agents (st : RunState σ) : List Agent := (resolve st.arena st.pop).toOption.getD []

/-- the framework-level `Alg` (see `Loop`) induced by a disciplined optimizer -/
def DAlg.toAlg (T : TaskSem) (A : DAlg σ) : Alg (RunState σ) where
  init := fun st => (A.init st.priv).exec T [] []
  step := fun st => (A.step st.priv st.arena st.pop).exec T st.arena st.calls
  pop := RunState.agents
