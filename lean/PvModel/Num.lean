/-!
# Num — IEEE-754 doubles as the structural core of pyvolutionary uses them

The structural core (clip, sort, argsort, greedy comparison, min/max) depends only on the *order* of the doubles
involved, on NaN propagation and on negation.  `Num` carries the exact rational value of every finite double,
`±inf`, and `nan`, so the model computes on the very values the code handles.  `-0.0` is canonicalised to `0`
by the harness before it crosses the boundary.

No imports: this file is part of the executable model.
-/

inductive Num where
  | nan
  | ninf
  | fin (q : Rat)
  | pinf
deriving DecidableEq, Repr, Inhabited

namespace Num

/-- `a <= b` on doubles: every comparison with NaN is false. -/
def le : Num → Num → Bool
  | nan, _ => false
  | _, nan => false
  | ninf, _ => true
  | _, pinf => true
  | fin a, fin b => decide (a ≤ b)
  | pinf, _ => false
  | _, ninf => false

/-- `a < b` on doubles. -/
def lt (a b : Num) : Bool := le a b && !le b a

def isNaN : Num → Bool
  | nan => true
  | _ => false

def isFinite : Num → Bool
  | fin _ => true
  | _ => false

/-- unary minus (`-x`, `-1 * x`): exact on doubles. -/
def neg : Num → Num
  | nan => nan
  | ninf => pinf
  | pinf => ninf
  | fin q => fin (-q)

/-- `np.maximum`: NaN propagates. -/
def maxN (a b : Num) : Num :=
  match a, b with
  | nan, _ => nan
  | _, nan => nan
  | a, b => if le a b then b else a

/-- `np.minimum`: NaN propagates. -/
def minN (a b : Num) : Num :=
  match a, b with
  | nan, _ => nan
  | _, nan => nan
  | a, b => if le a b then a else b

/-- `np.clip(x, lo, hi) = np.minimum(np.maximum(x, lo), hi)`. -/
def clip (x lo hi : Num) : Num := minN (maxN x lo) hi

/-- Python `int(x)` on a finite double: truncation toward zero. -/
def truncRat (q : Rat) : Int := if 0 ≤ q then q.floor else -((-q).floor)

/-- exact decode of the 64-bit pattern of a double (given as a natural number `< 2^64`). -/
def ofBits (b : Nat) : Num :=
  let sign : Nat := (b / 2 ^ 63) % 2
  let e : Nat := (b / 2 ^ 52) % 2048
  let f : Nat := b % 2 ^ 52
  if e = 2047 then
    if f = 0 then (if sign = 1 then ninf else pinf) else nan
  else
    let m : Nat := if e = 0 then f else 2 ^ 52 + f
    let ex : Int := if e = 0 then -1074 else (e : Int) - 1075
    let mag : Rat := if 0 ≤ ex then ((m * 2 ^ ex.toNat : Nat) : Rat) else mkRat (m : Int) (2 ^ (-ex).toNat)
    fin (if sign = 1 then -mag else mag)

/-- canonical text form used by the line protocol: `nan`, `-inf`, `inf`, or `num/den`. -/
def render : Num → String
  | nan => "nan"
  | ninf => "-inf"
  | pinf => "inf"
  | fin q => toString q.num ++ "/" ++ toString q.den

end Num
