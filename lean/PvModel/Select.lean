import PvModel.Agent
/-!
# Select — the sort / select helpers of `pyvolutionary/helpers.py:86-262` and the combinators of `abstract.py:113-166`
-/

/-- comparison used by `sort_by_cost(population, task_type)`: ascending cost for `min`, descending for `max`
(`list.sort(key=cost, reverse=(task_type == MAX))`; CPython's sort is stable in both cases). -/
def costLe (d : Dir) (a b : Agent) : Bool :=
  match d with
  | .min => Num.le a.cost b.cost
  | .max => Num.le b.cost a.cost

/-- `sort_by_cost` (helpers.py:86-97): a sorted copy; the caller's list is untouched. -/
def sortByCost (d : Dir) (pop : List Agent) : List Agent := isort (costLe d) pop

/-- `sort_by_cost_indexes` (helpers.py:100-112): `np.argsort` of the costs, reversed for `max`.
(Executable version: stable. numpy's order among equal costs is unspecified; the harness compares relationally.) -/
def sortByCostIndexes (d : Dir) (pop : List Agent) : List Nat :=
  let asc := argsort (pop.map (·.cost))
  match d with
  | .min => asc
  | .max => asc.reverse

/-- `sort_and_trim` (helpers.py:115-124). -/
def sortAndTrim (pop : List Agent) (n : Nat) : List Agent := (sortByCost .min pop).take n

/-- `best_agents` (helpers.py:173-182): `sort_by_cost(...)[:n]`. -/
def bestAgents (d : Dir) (pop : List Agent) (n : Nat) : List Agent := (sortByCost d pop).take n

/-- `worst_agents` (helpers.py:200-209): `sort_by_cost(...)[len(population)-n:]` (for `0 ≤ n ≤ len`). -/
def worstAgents (d : Dir) (pop : List Agent) (n : Nat) : List Agent := (sortByCost d pop).drop (pop.length - n)

def bestAgentsIndexes (d : Dir) (pop : List Agent) (n : Nat) : List Nat := (sortByCostIndexes d pop).take n
def worstAgentsIndexes (d : Dir) (pop : List Agent) (n : Nat) : List Nat := (sortByCostIndexes d pop).drop (pop.length - n)

/-- `best_agent` (helpers.py:127-136): `b, = best_agents(population, 1)` raises `ValueError` on an empty population. -/
def bestAgent (d : Dir) (pop : List Agent) : Except Err Agent :=
  match bestAgents d pop 1 with
  | [a] => .ok a
  | _ => .error .valueError

def worstAgent (d : Dir) (pop : List Agent) : Except Err Agent :=
  match worstAgents d pop 1 with
  | [a] => .ok a
  | _ => .error .valueError

/-- `special_agents` (helpers.py:225-252). -/
def specialAgents (d : Dir) (pop : List Agent) (nBest nWorst : Option Nat) : Except Err (List Agent × List Agent) :=
  if nBest.isNone && nWorst.isNone then .error .valueError
  else
    .ok ((match nBest with | some n => bestAgents d pop n | none => []),
         (match nWorst with | some n => worstAgents d pop n | none => []))

/-- `_greedy_select_agent` (abstract.py:138-147): the challenger wins only when strictly cheaper. -/
def greedyAgent (agent new : Agent) : Agent := if Num.lt new.cost agent.cost then new else agent

/-- the element-wise part of `_greedy_select_population` on two already sorted lists:
`[greedy(agent, new[idx]) for idx, agent in enumerate(pop)]`; `IndexError` when `new` is shorter. -/
def greedyZip : List Agent → List Agent → Except Err (List Agent)
  | [], _ => .ok []
  | _ :: _, [] => .error .indexError
  | a :: as, b :: bs => do
    let rest ← greedyZip as bs
    .ok (greedyAgent a b :: rest)

/-- `_greedy_select_population` in serial mode (abstract.py:113-129). -/
def greedyPopulation (pop new : List Agent) : Except Err (List Agent) :=
  greedyZip (sortByCost .min pop) (sortByCost .min new)

/-- `_extend_and_trim_population` (abstract.py:149-158), including the early return on an empty list. -/
def extendTrim (pop new : List Agent) (ps : Nat) : List Agent :=
  if new.isEmpty then pop else sortAndTrim (pop ++ new) ps

/-- `_replace_and_trim_population` (abstract.py:160-166). -/
def replaceTrim (new : List Agent) (ps : Nat) : List Agent := sortAndTrim new ps
