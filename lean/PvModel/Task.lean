import PvModel.Vars
/-!
# Task — the search-space description of `pyvolutionary/models.py:434-594`

`Task.get_variables`, `get_bounds`, `correct_solution`, `initial_solution`, `solve`, `transform_solution`,
with the branching exactly as written in the source (including the `zip` truncation of `correct_solution`
and the `len(x) == 1` / `len(temp) > 1` branches of `transform_solution`).
-/

/-- one entry of the `lb` / `ub` lists built by `Task.get_bounds` before `np.array`:
a number, or (for a permutation variable, which reports list-valued bounds) a list of numbers. -/
inductive BEntry where
  | scalar (x : Num)
  | vec (xs : List Num)
deriving DecidableEq, Repr, Inhabited

def BEntry.isScalar : BEntry → Bool
  | .scalar _ => true
  | .vec _ => false

namespace VarDecl

/-- `2 - eps` : the upper bound `BinaryVariable.get_bounds` reports, exactly `2 - 2^-52`. -/
def binaryUb : Num := .fin (2 - mkRat 1 (2 ^ 52))

/-- `n - 1e-4` as computed in doubles is not rational-exact in the model: the harness supplies the observed
value `u` and the model only checks `n - 1 < u < n`. -/
def permUbOk (n : Nat) (u : Num) : Bool :=
  Num.lt (discUb n) u && Num.lt u (.fin ((n : Int) : Rat))

/-- the `lb_` that `Task.get_bounds` extends its list with for one declared variable, i.e. the first component of
`v.get_bounds()` followed by `lb.extend(lb_ if v.has_children() else [lb_])` (models.py:474-477). -/
def lowerEntries : VarDecl → List BEntry
  | cont lb _ => [.scalar lb]
  | contMulti lbs _ => lbs.map .scalar
  | multiObj lbs _ => lbs.map .scalar
  | disc _ => [.scalar (.fin 0)]
  | discMulti ns => ns.map (fun _ => .scalar (.fin 0))
  | perm n => [.vec (List.replicate n (.fin 0))]
  | binary n => List.replicate n.toNat (.scalar (.fin 0))

/-- likewise for `ub_`; `permUb n` is the observed double `n - 1e-4`. -/
def upperEntries (permUb : Nat → Num) : VarDecl → List BEntry
  | cont _ ub => [.scalar ub]
  | contMulti _ ubs => ubs.map .scalar
  | multiObj _ ubs => ubs.map .scalar
  | disc n => [.scalar (discUb n)]
  | discMulti ns => ns.map (fun n => .scalar (discUb n))
  | perm n => [.vec (List.replicate n (permUb n))]
  | binary n => List.replicate n.toNat (.scalar binaryUb)

end VarDecl

structure TaskDecl where
  vars : List VarDecl
deriving Repr, Inhabited

namespace TaskDecl

def valid (t : TaskDecl) : Bool := t.vars.all VarDecl.valid

/-- `space_dimension = sum(v.size() for v in variables)` (models.py:446). -/
def dim (t : TaskDecl) : Nat := (t.vars.map VarDecl.size).sum

/-- `get_variables` (models.py:463-464). -/
def getVariables (t : TaskDecl) : List Var := t.vars.flatMap VarDecl.children

/-- `np.array(lb)` succeeds iff the list is homogeneous: all scalars, or all vectors of one length. -/
def homogeneous (l : List BEntry) : Bool :=
  l.all BEntry.isScalar ||
  match l with
  | [] => true
  | .vec xs :: rest => rest.all (fun e => match e with | .vec ys => decide (ys.length = xs.length) | .scalar _ => false)
  | .scalar _ :: _ => false

/-- `get_bounds` (models.py:466-479): concatenate the per-variable entries, then `np.array` (which needs homogeneity). -/
def getBounds (permUb : Nat → Num) (t : TaskDecl) : Except Err (List BEntry × List BEntry) :=
  let lb := t.vars.flatMap VarDecl.lowerEntries
  let ub := t.vars.flatMap (VarDecl.upperEntries permUb)
  if homogeneous lb && homogeneous ub then .ok (lb, ub) else .error .valueError

/-- `[v.correct(c) for c, v in zip(solution, variables)]` (models.py:489-490): `zip` truncates to the shorter list. -/
def correctList : List Raw → List Var → Except Err (List Coord)
  | c :: cs, v :: vs => do
    let y ← v.correct c
    let ys ← correctList cs vs
    .ok (y :: ys)
  | _, _ => .ok []

def correctSolution (t : TaskDecl) (xs : List Raw) : Except Err (List Coord) :=
  correctList xs t.getVariables

/-- the decoded form of one declared variable's slice: indices into the declared choices. -/
inductive Decoded where
  | num (x : Num)                    -- continuous: the value itself
  | nums (xs : List Num)             -- continuous multi
  | choice (i : Nat)                 -- discrete: index of the choice
  | choices (is : List Nat)          -- discrete multi / binary
  | labels (is : List Nat)           -- permutation: indices into the encoder's sorted unique labels
deriving DecidableEq, Repr, Inhabited

def coordNum : Coord → Except Err Num
  | .num x => .ok x
  | .int i => .ok (.fin (i : Rat))
  | .ints _ => .error .typeError

def coordInt : Coord → Except Err Int
  | .int i => .ok i
  | .num (.fin q) => .ok (Num.truncRat q)       -- `int(value)`
  | .num .nan => .error .valueError
  | .num _ => .error .overflowError
  | .ints _ => .error .typeError

def decodeDisc (n : Nat) (c : Coord) : Except Err Nat := do
  let i ← coordInt c
  match Var.decodeIdx n i with
  | some k => .ok k
  | none => .error .indexError

/-- argument handed to `VarDecl.decode`: a scalar (`temp[0]`) or a slice (`temp`). -/
inductive DArg where
  | one (c : Coord)
  | many (cs : List Coord)

/-- `v.decode(arg)`. Multi-variables index their argument (`value[idx]`): a scalar argument raises. -/
def decodeVar : VarDecl → DArg → Except Err Decoded
  | .cont _ _, .one c => do .ok (.num (← coordNum c))
  | .cont _ _, .many _ => .error .typeError
  | .disc n, .one c => do .ok (.choice (← decodeDisc n c))
  | .disc _, .many _ => .error .typeError
  | .perm n, .one (.ints l) =>
    -- decode = inverse_transform(correct(value)); correct is the rank transform
    match (Var.perm n).correct (Coord.toRaw (.ints l)) with
    | .ok (.ints r) => .ok (.labels (r.map Int.toNat))
    | .ok _ => .error .typeError
    | .error e => .error e
  | .perm _, .one _ => .ok (.labels [0])
  | .perm n, .many cs =>
    -- a slice of length > 1 handed to a permutation variable: argsort of the slice
    match cs.mapM coordNum with
    | .ok xs => match (Var.perm n).correct (.vec xs) with
      | .ok (.ints r) => .ok (.labels (r.map Int.toNat))
      | .ok _ => .error .typeError
      | .error e => .error e
    | .error e => .error e
  | .contMulti lbs _, .many cs => if cs.length < lbs.length then .error .indexError else do .ok (.nums (← (cs.take lbs.length).mapM coordNum))
  | .multiObj lbs _, .many cs => if cs.length < lbs.length then .error .indexError else do .ok (.nums (← (cs.take lbs.length).mapM coordNum))
  | .discMulti ns, .many cs => if cs.length < ns.length then .error .indexError else do
      .ok (.choices (← (ns.zip cs).mapM (fun p => decodeDisc p.1 p.2)))
  | .binary n, .many cs => if cs.length < n.toNat then .error .indexError else do
      .ok (.choices (← (cs.take n.toNat).mapM (decodeDisc 2)))
  | .contMulti _ _, .one _ => .error .typeError
  | .multiObj _ _, .one _ => .error .typeError
  | .discMulti _, .one _ => .error .typeError
  | .binary _, .one _ => .error .typeError

/-- argument selection `temp if v.has_children() else temp[0]`. -/
def decodeArg (v : VarDecl) (temp : List Coord) : Except Err DArg :=
  if v.hasChildren then .ok (.many temp) else
    match temp with
    | c :: _ => .ok (.one c)
    | [] => .error .indexError

/-- `transform_solution` (models.py:585-594): one `(variable index, decoded slice)` per declared variable, in order.
(The Python dict is keyed by `v.name`; the harness checks names separately.) -/
def transformLoop (x : List Coord) : List VarDecl → Nat → Nat → Except Err (List (Nat × Decoded))
  | [], _, _ => .ok []
  | v :: vs, idx, counter => do
    let temp := (x.drop counter).take v.size
    let arg ← decodeArg v temp
    let d ← decodeVar v arg
    let rest ← transformLoop x vs (idx + 1) (counter + v.size)
    .ok ((idx, d) :: rest)

def transformSolution (t : TaskDecl) (x : List Coord) : Except Err (List (Nat × Decoded)) :=
  if x.length = 1 then
    match t.vars with
    | v :: _ => do
      let arg ← decodeArg v x
      let d ← decodeVar v arg
      .ok [(0, d)]
    | [] => .error .indexError
  else transformLoop x t.vars 0 0

end TaskDecl
