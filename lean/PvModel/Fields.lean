/-!
# Fields — the instance / field discipline of an optimizer object

An optimizer instance is a store of fields (`self._config`, `self._task`, `self.__x`, numpy's global generator, …).
Its methods are programs over that store in a small imperative language in which every statement *declares* what it reads
and what it writes — the same read / write sets the translator extracts from the Python source class by class:

* `assign f reads e`   : `self.f = e(<values of reads>)`
* `ite reads c a b`    : `if c(<values of reads>): a else: b`
* `seq a b`, `skip`
* `raise`              : an exception (the rest of the enclosing program is skipped)
* `repeat n body`      : a loop that runs a bounded number of times

The expression `e` is an arbitrary function of the values read: every numerical update rule fits.
-/

structure Store (F V : Type) where
  get : F → V

namespace Store
variable {F V : Type} [DecidableEq F]
def set (st : Store F V) (f : F) (v : V) : Store F V := ⟨fun g => if g = f then v else st.get g⟩
end Store

inductive Stmt (F V : Type) where
  | skip
  | assign (f : F) (reads : List F) (e : List V → V)
  | seq (a b : Stmt F V)
  | ite (reads : List F) (c : List V → Bool) (a b : Stmt F V)
  | raise
  | repeat (n : Nat) (body : Stmt F V)

namespace Stmt
variable {F V : Type} [DecidableEq F]

/-- every field the statement may write -/
def writes : Stmt F V → List F
  | skip => []
  | assign f _ _ => [f]
  | seq a b => a.writes ++ b.writes
  | ite _ _ a b => a.writes ++ b.writes
  | raise => []
  | «repeat» _ body => body.writes

/-- every field the statement may read -/
def reads : Stmt F V → List F
  | skip => []
  | assign _ rs _ => rs
  | seq a b => a.reads ++ b.reads
  | ite rs _ a b => rs ++ a.reads ++ b.reads
  | raise => []
  | «repeat» _ body => body.reads

/-- run a statement; the Boolean says whether an exception is propagating (then later statements are skipped) -/
def run : Stmt F V → Store F V → Store F V × Bool
  | skip, st => (st, false)
  | assign f rs e, st => (st.set f (e (rs.map st.get)), false)
  | seq a b, st =>
    let r := a.run st
    if r.2 then r else b.run r.1
  | ite rs c a b, st => if c (rs.map st.get) then a.run st else b.run st
  | raise, st => (st, true)
  | «repeat» 0 _, st => (st, false)
  | «repeat» (n + 1) body, st =>
    let r := body.run st
    if r.2 then r else («repeat» n body).run r.1

end Stmt
