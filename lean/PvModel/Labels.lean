/-!
# Labels — `LabelEncoder` (models.py:11-68), as `PermutationVariable.decode` uses it

`fit(y)` stores the sorted distinct labels; `transform` maps labels to their indices (`KeyError` for an unseen label),
`inverse_transform` maps indices back (`"unknown"` for an index that is not a label index).  The labels themselves are an
arbitrary type with decidable equality; the *order* `sorted(set(y), key=lambda x: (isinstance(x, (int, float)), x))` is Python's
business: the model takes the fitted list `labels` (distinct) as given, and the harness checks it against the real encoder.
-/

/-- index of `x` in `l` (first occurrence), `none` if absent — `self.__label_to_index__[label]` -/
def indexOf? [DecidableEq α] (x : α) : List α → Option Nat
  | [] => none
  | a :: l => if a = x then some 0 else (indexOf? x l).map (· + 1)

structure Encoder (α : Type) where
  labels : List α            -- `__unique_labels__`

namespace Encoder
variable {α : Type} [DecidableEq α]

/-- `transform(y)`: `none` models the `KeyError` of an unseen label -/
def transform (e : Encoder α) (y : List α) : Option (List Nat) := y.mapM (fun x => indexOf? x e.labels)

/-- `inverse_transform(y)`: `none` entries model the string `"unknown"` -/
def inverseTransform (e : Encoder α) (y : List Nat) : List (Option α) := y.map (fun i => e.labels[i]?)

end Encoder
