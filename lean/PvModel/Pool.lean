import PvModel.Select
/-!
# Pool — `get_pool_executor` / `get_pool_results` (helpers.py:338-361) and the pooled branches of
# `_generate_agents` / `_greedy_select_population` (abstract.py:93-136)

`get_pool_results` collects `as_completed(futures)`: the submitted results in *completion order*, i.e. under an arbitrary
permutation `σ` of the submission indices (trusted: `concurrent.futures` completes each future exactly once).
Randomness is an explicit stream of draws: `draw i` is the `i`-th random position taken from numpy's global generator.
-/

/-- the results `rs` (submission order) as `as_completed` returns them, for completion order `σ` -/
def poolResults (σ : List Nat) (rs : List α) : List α := σ.filterMap (fun i => rs[i]?)

/-- serial `_generate_agents(n)`: `[self._init_agent() for _ in range(n)]` — agent `i` is built from the `i`-th draw -/
def generateSerial (mk : β → α) (draw : Nat → β) (n : Nat) : List α := (List.range n).map (fun i => mk (draw i))

/-- pooled `_generate_agents(n)`: the random positions are drawn in the parent, the evaluations are submitted to the pool and
collected in completion order -/
def generatePooled (mk : β → α) (draw : Nat → β) (n : Nat) (σ : List Nat) : List α :=
  poolResults σ ((List.range n).map (fun i => mk (draw i)))

/-- the pinned tree's process mode: `executor.submit(self._init_agent)` draws *inside* the workers, each of which inherited the
parent's generator state at fork time — worker `w`'s `k`-th evaluation uses draw `k`, whatever `w` is. `sched i = (w, k)`. -/
def generateForkedPinned (mk : β → α) (draw : Nat → β) (n : Nat) (sched : Nat → Nat × Nat) : List α :=
  (List.range n).map (fun i => mk (draw (sched i).2))

/-- pooled `_greedy_select_population`: pairwise selection on the two sorted lists, collected in completion order -/
def greedyPopulationPooled (pop new : List Agent) (σ : List Nat) : Except Err (List Agent) :=
  match greedyPopulation pop new with
  | .ok l => .ok (poolResults σ l)
  | .error e => .error e
