import PvModel.Lemmas.RunLemmas
/-!
# Accept — a proved-sound acceptor for traced runs of the real optimizers (C01 / C05 / provenance)

The harness records, for every run of a real optimizer, every `_init_agent` event (raw candidate, resulting position, internal
cost, fitness) and every reported agent.  `acceptRun` replays that trace against the model:

1. every `_init_agent` event is `RawOK` and its recorded position is exactly the model's `correct_solution` of the raw candidate
   (for a randomly drawn initial point the raw candidate is not observable: the recorded position itself is used, i.e. it must be
   a well-shaped fixed point of `correct_solution`);
2. every reported agent is value-equal (position, internal cost, fitness) to the result of an `_init_agent` event of this run.

`acceptRun_sound`: an accepted trace reports only members of the search space — proved, so the verdict on an individual run does
not rest on the harness's own assertions but on the same lemmas as the generative theorem `C01.c01_optimize`.
-/

structure InitEv where
  raw : Option (List Raw)
  pos : List Coord
  cost : Num
  fit : Num
deriving Repr

structure Reported where
  pos : List Coord
  cost : Num      -- internal cost (the harness undoes the sign restoration)
  fit : Num
deriving Repr

structure RunTrace where
  inits : List InitEv
  gens : List (List Reported)
deriving Repr

def InitEv.rawOf (e : InitEv) : List Raw := match e.raw with | some r => r | none => e.pos.map Coord.toRaw

instance : BEq (Except Err (List Coord)) := ⟨fun a b => decide (a = b)⟩

/-- item 1: the event is what the model's `_init_agent` does with the raw candidate -/
def initOK (vars : List Var) (e : InitEv) : Bool :=
  rawOKList vars e.rawOf && decide (TaskDecl.correctList e.rawOf vars = .ok e.pos)

/-- item 2: provenance -/
def fromInit (inits : List InitEv) (a : Reported) : Bool :=
  inits.any (fun e => decide (e.pos = a.pos) && decide (e.cost = a.cost) && decide (e.fit = a.fit))

def acceptRun (vars : List Var) (tr : RunTrace) : Bool :=
  tr.inits.all (initOK vars) && tr.gens.all (fun g => g.all (fromInit tr.inits))

/-- **soundness of the acceptor**: in an accepted trace every reported position is a member of the search space
(one coordinate per flattened variable, each in its variable's domain). -/
theorem acceptRun_sound (vars : List Var) (hw : ∀ v ∈ vars, v.wf = true) (tr : RunTrace) (h : acceptRun vars tr = true) :
    ∀ g ∈ tr.gens, ∀ a ∈ g, memList vars a.pos = true := by
  simp only [acceptRun, Bool.and_eq_true, List.all_eq_true] at h
  obtain ⟨hin, hgen⟩ := h
  intro g hg a ha
  have hp := hgen g hg a ha
  simp only [fromInit, List.any_eq_true, Bool.and_eq_true, decide_eq_true_eq] at hp
  obtain ⟨e, he, ⟨hpos, _⟩, _⟩ := hp
  have hi := hin e he
  simp only [initOK, Bool.and_eq_true, decide_eq_true_eq] at hi
  obtain ⟨ys, h1, h2, _⟩ := correctList_ok vars hw e.rawOf hi.1
  rw [hi.2] at h1
  cases h1
  rw [← hpos]; exact h2

/-- and every accepted `_init_agent` event evaluated the objective inside the search space (its argument is the recorded position,
a fixed point of the second correction). -/
theorem acceptRun_calls (vars : List Var) (hw : ∀ v ∈ vars, v.wf = true) (tr : RunTrace) (h : acceptRun vars tr = true) :
    ∀ e ∈ tr.inits, memList vars e.pos = true ∧ TaskDecl.correctList (e.pos.map Coord.toRaw) vars = .ok e.pos := by
  simp only [acceptRun, Bool.and_eq_true, List.all_eq_true] at h
  intro e he
  have hi := h.1 e he
  simp only [initOK, Bool.and_eq_true, decide_eq_true_eq] at hi
  obtain ⟨ys, h1, h2, h3⟩ := correctList_ok vars hw e.rawOf hi.1
  rw [hi.2] at h1
  cases h1
  exact ⟨h2, h3⟩

/-- non-vacuity: a two-event trace over `[cont 0 1, disc 3]` is accepted -/
example : acceptRun [.cont (.fin 0) (.fin 1), .disc 3]
    { inits := [⟨some [.scalar (.fin 5), .scalar (.fin (-1))], [.num (.fin 1), .int 0], .fin 1, .fin 1⟩, ⟨none, [.num (.fin (1/2)), .int 2], .fin 2, .fin 2⟩],
      gens := [[⟨[.num (.fin (1/2)), .int 2], .fin 2, .fin 2⟩]] } = true := by decide +kernel
