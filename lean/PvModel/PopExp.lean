import PvModel.Select
/-!
# PopExp — the population algebra: what one `optimization_step` may do to `self._population`

The 84 optimizer modules differ in their numerical update rules, but they all rewrite `self._population` through a handful of
shapes.  `tools/popexp.py` abstract-interprets each class's `optimization_step` into a `List PopOp` (`Generated.steps`); this
file gives that syntax a meaning in which **everything numerical is an arbitrary parameter** (`Env`): challengers, freshly
made agents, the "new population" handed to a combinator, indices, extras, the path taken through loops and branches.  The
soundness theorems (`Props/C10`, `Props/C17`) quantify over every `Env`, i.e. over every update rule, every random draw and
every objective.

One write to `self._population`                                              | `Prim`
---------------------------------------------------------------------------- | ------------
`self._population = sort_by_cost(self._population)`                          | `sortBy`
`self._population = sort_and_trim(self._population, cfg.population_size)`    | `sortTrim`
`self._population = [e(x) for x in self._population]` where every value `e`  | `mapGreedy`
  can take is `x` itself (extras may change) sent through a chain of
  `self._greedy_select_agent(·, ·)` calls — in either argument order for the
  base implementation, incumbent first for an incumbent-keeping override
`self._population = [e(x) for x in self._population]`, anything else          | `mapFresh`
`self._greedy_select_population(new)`                                        | `greedyPop`
`self._extend_and_trim_population(new)`                                      | `extendTrim`
`self._replace_and_trim_population(new)`                                     | `replaceTrim`
`self._population[i] = a`                                                    | `setAt`
anything else that may touch the list                                        | `opaque`

A statement of the step's straight-line body is `PopOp.one p`.  The writes under a `for` / `while` / `if` / `try` (or after an
early `return`) form a `PopOp.ctl ps` block: they run in *some* order, each any number of times — the environment's schedule
`sched` lists the indices into `ps` that are executed, which over-approximates every control-flow path.
Every execution of a primitive has its own time stamp `(k, j)` (position of the `PopOp` in the step, position in the
block's schedule), so two executions of the same source statement see unrelated challengers.
-/

inductive Prim where
  | sortBy
  | sortTrim
  | mapGreedy
  | mapFresh
  | greedyPop
  | extendTrim
  | replaceTrim
  | setAt
  | opaque
deriving DecidableEq, Repr, Inhabited

inductive PopOp where
  | one (p : Prim)
  | ctl (ps : List Prim)
deriving DecidableEq, Repr, Inhabited

/-- the interpretation of everything the skeleton abstracts from.  `k j` = time stamp of the primitive being executed,
`pop` = the population it is applied to, `i` = index of the element being rewritten. -/
structure Env where
  /-- the challengers element `i` meets, in order; `true` = the challenger is passed as *first* argument of
  `_greedy_select_agent` (Cuckoo, Zebra, Seagull, … call `greedy(new, old)`) -/
  chain : Nat → Nat → List Agent → Nat → List (Agent × Bool)
  /-- the agent written at index `i` by `mapFresh` / `setAt` -/
  fresh : Nat → Nat → List Agent → Nat → Agent
  /-- the list handed to `_greedy_select_population` / `_extend_and_trim_population` / `_replace_and_trim_population` -/
  news : Nat → Nat → List Agent → List Agent
  /-- the index written by `setAt` -/
  idx : Nat → Nat → List Agent → Nat
  /-- subclass extras (`trials`, `age`, `velocity`, …) of the element kept at index `i`: they may be updated freely -/
  extras : Nat → Nat → Nat → Agent → Nat
  /-- which statements of the `k`-th block run, in which order -/
  sched : Nat → List Nat
  /-- an unrecognised write: any list whatsoever -/
  any : Nat → Nat → List Agent → List Agent

/-- `x` sent through a chain of `_greedy_select_agent` calls (abstract.py:138-147). -/
def chase (x : Agent) : List (Agent × Bool) → Agent
  | [] => x
  | (c, first) :: rest => chase (if first then greedyAgent c x else greedyAgent x c) rest

/-- `[g(i, a) for i, a in enumerate(l, n)]` -/
def imap (g : Nat → Agent → Agent) : Nat → List Agent → List Agent
  | _, [] => []
  | n, a :: l => g n a :: imap g (n + 1) l

/-- same position, cost and fitness; other extras. -/
def retag (a : Agent) (t : Nat) : Agent := { a with tag := t }

/-- one execution of a primitive on `pop`; `ps` is `self._config.population_size`.  Python exceptions stay explicit. -/
def Prim.eval (env : Env) (ps k j : Nat) : Prim → List Agent → Except Err (List Agent)
  | .sortBy, pop => .ok (sortByCost .min pop)
  | .sortTrim, pop => .ok (sortAndTrim pop ps)
  | .mapGreedy, pop => .ok (imap (fun i x => retag (chase x (env.chain k j pop i)) (env.extras k j i (chase x (env.chain k j pop i)))) 0 pop)
  | .mapFresh, pop => .ok (imap (fun i _ => env.fresh k j pop i) 0 pop)
  | .greedyPop, pop => greedyPopulation pop (env.news k j pop)          -- `IndexError` when `new` is shorter
  | .extendTrim, pop => .ok (_root_.extendTrim pop (env.news k j pop) ps)
  | .replaceTrim, pop => .ok (_root_.replaceTrim (env.news k j pop) ps)
  | .setAt, pop =>
    if env.idx k j pop < pop.length then .ok (pop.set (env.idx k j pop) (env.fresh k j pop (env.idx k j pop)))
    else .error .indexError
  | .opaque, pop => .ok (env.any k j pop)

/-- run the scheduled statements of a block; an index outside the block is no statement and is skipped. -/
def runSched (env : Env) (ps k : Nat) (prims : List Prim) : List Nat → Nat → List Agent → Except Err (List Agent)
  | [], _, pop => .ok pop
  | s :: rest, j, pop =>
    match prims[s]? with
    | none => runSched env ps k prims rest (j + 1) pop
    | some p =>
      match p.eval env ps k j pop with
      | .error e => .error e
      | .ok pop' => runSched env ps k prims rest (j + 1) pop'

def PopOp.eval (env : Env) (ps k : Nat) : PopOp → List Agent → Except Err (List Agent)
  | .one p, pop => p.eval env ps k 0 pop
  | .ctl prims, pop => runSched env ps k prims (env.sched k) 0 pop

/-- a whole `optimization_step`: the operations in order, the `k`-th one stamped `k`. -/
def evalAll (env : Env) (ps : Nat) : Nat → List PopOp → List Agent → Except Err (List Agent)
  | _, [], pop => .ok pop
  | k, op :: ops, pop =>
    match op.eval env ps k pop with
    | .error e => .error e
    | .ok pop' => evalAll env ps (k + 1) ops pop'

/-! ## the two syntactic predicates -/

/-- the primitive returns a list as long as the one it got (given that one has `population_size` elements). -/
def Prim.sizeOK : Prim → Bool
  | .sortBy | .sortTrim | .mapGreedy | .mapFresh | .greedyPop | .extendTrim | .setAt => true
  | .replaceTrim | .opaque => false

/-- the primitive never loses the best cost: greedy / elitist replacement only. -/
def Prim.monoOK : Prim → Bool
  | .sortBy | .sortTrim | .mapGreedy | .greedyPop | .extendTrim => true
  | .mapFresh | .replaceTrim | .setAt | .opaque => false

def PopOp.sizeOK : PopOp → Bool
  | .one p => p.sizeOK
  | .ctl ps => ps.all Prim.sizeOK

def PopOp.monoOK : PopOp → Bool
  | .one p => p.monoOK
  | .ctl ps => ps.all Prim.monoOK

/-- every write of the step keeps exactly `population_size` agents. -/
def sizePreserving (ops : List PopOp) : Bool := ops.all PopOp.sizeOK

/-- every write of the step is greedy or elitist. -/
def monotone (ops : List PopOp) : Bool := ops.all PopOp.monoOK

/-! ## best cost of a population -/

/-- the lowest internal cost (`np.minimum` semantics: NaN propagates); `+inf` for the empty list. -/
def bestCost : List Agent → Num
  | [] => .pinf
  | a :: l => Num.minN a.cost (bestCost l)

/-- the highest cost; `-inf` for the empty list. -/
def maxCost : List Agent → Num
  | [] => .ninf
  | a :: l => Num.maxN a.cost (maxCost l)

/-! ## `_generate_group_population` (abstract.py:168-193) -/

/-- `n_groups` slices `pop[i*n_agents : (i+1)*n_agents]` and — `with_residual` — one more group `pop[-residual:]` with
`residual = config.population_size % n_groups` when that is not zero.  `none` stands for the `ZeroDivisionError` of `% 0`
(`Err` has no constructor for it); without residual `n_groups = 0` simply yields no group. -/
def groupPopulation (pop : List Agent) (ps nGroups nAgents : Nat) (withResidual : Bool) : Option (List (List Agent)) :=
  let groups := (List.range nGroups).map (fun i => (pop.drop (i * nAgents)).take nAgents)
  if !withResidual then some groups
  else if nGroups = 0 then none
  else if ps % nGroups = 0 then some groups
  else some (groups ++ [pop.drop (pop.length - ps % nGroups)])
