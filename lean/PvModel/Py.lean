import PvModel.Loop
import PvModel.Pool
import PvModel.Run
import PvModel.Multi
/-!
# Py — the Python primitives that `tools/py2lean.py` translates source text *into*

`Generated/Src.lean` is regenerated from `/repo`'s working tree on every run: each listed function of `helpers.py`,
`abstract.py`, `utils.py` is translated statement by statement (Python `ast` → Lean `do`-notation) into a definition over
the primitives below.  The refinement theorems of `Props/R*.lean` then prove the hand-written model (`Select`, `Loop`,
`Utils`, `Pool`) equal to what the source says *now*.  Each primitive states the Python semantics it stands for, negative
indices and all; Python `int` is `Int`.

No imports outside the project: this file is part of the executable model.
-/

namespace Py

/-- `len(l)` -/
def len (l : List α) : Int := (l.length : Int)

/-- `l[i:]` (negative `i` counts from the end, clipped at the front) -/
def sliceFrom (l : List α) (i : Int) : List α :=
  if i < 0 then l.drop (len l + i).toNat else l.drop i.toNat

/-- `l[:i]` -/
def sliceTo (l : List α) (i : Int) : List α :=
  if i < 0 then l.take (len l + i).toNat else l.take i.toNat

/-- `l[i:j]` -/
def slice (l : List α) (i j : Int) : List α :=
  let a := if i < 0 then (len l + i).toNat else i.toNat
  let b := if j < 0 then (len l + j).toNat else j.toNat
  (l.take b).drop a

/-- `l[i]`: `IndexError` outside `-len ≤ i < len` -/
def getItem (l : List α) (i : Int) : Except Err α :=
  let k : Int := if i < 0 then len l + i else i
  if k < 0 then .error .indexError
  else match l[k.toNat]? with
    | some a => .ok a
    | none => .error .indexError

/-- `l[i]` for an index that is a natural number by construction (an `np.argsort` output, a `range` variable) -/
def getNat (l : List α) (i : Nat) : Except Err α :=
  match l[i]? with
  | some a => .ok a
  | none => .error .indexError

/-- `x, = l`: `ValueError` unless `l` has exactly one element -/
def unpack1 (l : List α) : Except Err α :=
  match l with
  | [a] => .ok a
  | _ => .error .valueError

/-- `list.sort(key=key, reverse=rev)` / `sorted(...)` on a copy: CPython's sort is stable in both directions -/
def sortKey (key : α → Num) (rev : Bool) (l : List α) : List α :=
  isort (fun a b => if rev then Num.le (key b) (key a) else Num.le (key a) (key b)) l

/-- `range(a, b)` -/
def range (a b : Int) : List Int := (List.range (b - a).toNat).map (fun (k : Nat) => a + (k : Int))

/-- `enumerate(l)` -/
def enumerate (l : List α) : List (Nat × α) := (List.range l.length).zip l

/-- `np.argsort(xs)` (the model's stable argsort; numpy's order among equal keys is unspecified and compared relationally) -/
def npArgsort (xs : List Num) : List Nat := argsort xs

/-- `concurrent.futures.as_completed(futures)` followed by `.result()`: the submitted results in completion order `σ` -/
def asCompleted (σ : List Nat) (rs : List α) : List α := poolResults σ rs

/-- Python `a % b` (result has the sign of `b`); `ZeroDivisionError` for `b = 0` -/
def mod (a b : Int) : Except Err Int := if b = 0 then .error .zeroDivisionError else .ok (Int.fmod a b)

/-- Python `a // b` (floor division); `ZeroDivisionError` for `b = 0` -/
def floordiv (a b : Int) : Except Err Int := if b = 0 then .error .zeroDivisionError else .ok (Int.fdiv a b)

end Py

/-- the three solver modes (`ModeSolver`) -/
inductive Mode where
  | serial
  | thread
  | process
deriving DecidableEq, Repr, Inhabited

/-- an optimizer instance as `OptimizationAbstract.optimize` sees it: the framework's own attributes by name, and `priv` for
everything else (the subclass's private attributes and numpy's global generator, which `np.random.seed` re-initialises). -/
structure Self (R σ τ : Type) where
  config : Option (StopCfg R)
  debug : Bool
  mode : Mode
  workers : Int
  task : Option τ
  population : List Agent
  best_agent : Option Agent
  worst_agent : Option Agent
  current_cycle : Int
  errors : List R
  error_diffs : List R
  priv : σ

/-- the overridable hooks `optimize` calls, each an arbitrary (possibly raising) transformer of the whole instance, and the
opaque library calls: `ModeSolver(mode)` and `np.random.seed(seed)`. -/
structure Hooks (R σ τ : Type) where
  before_initialization : Self R σ τ → Except Err (Self R σ τ)
  init_population : Self R σ τ → Except Err (Self R σ τ)
  after_initialization : Self R σ τ → Except Err (Self R σ τ)
  optimization_step : Self R σ τ → Except Err (Self R σ τ)
  parse_mode : String → Except Err Mode
  np_random_seed : Int → σ → σ
  task_minmax : τ → Dir
  task_seed : τ → Int

namespace Py
/-- reading an attribute of an `Optional[...]` attribute: `AttributeError` on `None` -/
def attrOf (o : Option α) : Except Err α :=
  match o with
  | some a => .ok a
  | none => .error .attributeError
end Py

namespace Py
/-- `int(x)` on a double: truncation toward zero; `ValueError` on NaN, `OverflowError` on an infinity -/
def intOfNum (x : Num) : Except Err Int :=
  match x with
  | .fin q => .ok (Num.truncRat q)
  | .nan => .error .valueError
  | _ => .error .overflowError
end Py

/-! ## `float | list[float]` values (the objective's result) -/

def ObjVal.isList : ObjVal → Bool
  | .multi _ => true
  | .single _ => false

/-- `np.atleast_1d(cost)` -/
def ObjVal.toList : ObjVal → List Num
  | .multi xs => xs
  | .single x => [x]

namespace Py
/-- pydantic's validation of `Agent.cost: float`: a list is a `ValidationError` -/
def asFloat : ObjVal → Except Err Num
  | .single x => .ok x
  | .multi _ => .error .validationError

/-- a `float | list` value used where arithmetic / comparison with a number happens (`value >= 0`): a list is a `TypeError` -/
def asFloatT : ObjVal → Except Err Num
  | .single x => .ok x
  | .multi _ => .error .typeError
end Py

/-! ## what `Variable.get()` returns: the variable itself, or its list of children -/
inductive VarGet where
  | one (v : Var)
  | many (vs : List Var)
deriving Repr

namespace Py
/-- iterating over the result of `get()`: a single variable is not iterable -/
def getAsList : VarGet → Except Err (List Var)
  | .many vs => .ok vs
  | .one _ => .error .typeError

/-- using the result of `get()` as one flattened variable: a list of children has no `correct` -/
def getAsOne : VarGet → Except Err Var
  | .one v => .ok v
  | .many _ => .error .attributeError

/-- `zip(a, b)` -/
def zip (a : List α) (b : List β) : List (α × β) := List.zip a b
end Py

/-! ## bounds as `Task.get_bounds` sees them: every component of a variable's `get_bounds()` is a number or a list of numbers (`BEntry`) -/
namespace Py
/-- `lb.extend(lb_)`: iterating a list-valued bound gives its numbers; a number is not iterable -/
def bentryAsList : BEntry → Except Err (List BEntry)
  | .vec xs => .ok (xs.map .scalar)
  | .scalar _ => .error .typeError

/-- `np.array(lb)`: a list of numbers, or of equally long lists; anything ragged is a `ValueError` (numpy ≥ 1.24) -/
def npArray (l : List BEntry) : Except Err (List BEntry) :=
  if TaskDecl.homogeneous l then .ok l else .error .valueError
end Py

/-! ## dicts (insertion-ordered, as Python's) as association lists -/
namespace Py
/-- `d[k] = v`: replaces the value of an existing key in place, appends a new key at the end -/
def dictSet (d : List (String × β)) (k : String) (v : β) : List (String × β) :=
  match d with
  | [] => [(k, v)]
  | (k', v') :: rest => if k' = k then (k', v) :: rest else (k', v') :: dictSet rest k v
end Py

namespace Multi
/-- `ModeSolver(s)` as an operation that can raise -/
def parseMode (s : String) : Except Err Mode :=
  match Mode.ofString s with
  | some m => .ok m
  | none => .error .valueError
end Multi

/-! ## the random stream as an indexed sequence of draws: the state is the number of draws made so far -/
namespace Py
/-- `self._task.empty_solution()`: the next element of the stream, which advances -/
def nextDraw (draw : Nat → β) : StateT Nat (Except Err) β := do
  let k ← get
  set (k + 1)
  return draw k

/-- what the next draw would be, without making it (the argument of a callee that only draws when it is given no position) -/
def peekDraw (draw : Nat → β) : StateT Nat (Except Err) β := do
  return draw (← get)
end Py

/-! ## Multitask: the objects `execute` iterates over and the dict `__run__` returns, as the source builds them -/
namespace Multi
/-- an optimizer / task object as `Multitask` sees it: its identity (the position in the constructor's list) and its `name` -/
structure Obj where
  idx : Nat
  name : String
deriving DecidableEq, Repr

/-- `{"id_trial": …, "solution": …, "problem_name": …}` -/
structure RunDict (ρ : Type) where
  id_trial : Int
  solution : ρ
  problem_name : String
deriving Repr
end Multi

/-! ## the builtins `ParameterGrid` uses -/
namespace Py
/-- `sorted(d.items())`: tuples whose first components are the (distinct) keys of a dict, so the order is the keys' — Python compares `str` by code
point, as `String.lt` does; CPython's sort is stable -/
def sortedItems (l : List (String × β)) : List (String × β) := isort (fun a b => !decide (b.1 < a.1)) l

/-- `a, b = zip(*xs)` for a list of pairs: the two columns; with no pair there is nothing to unpack (`ValueError`) -/
def unzipNonempty (l : List (α × β)) : Except Err (List α × List β) :=
  if l.isEmpty then .error .valueError else .ok l.unzip

/-- `itertools.product(*ls)`: the last factor varies fastest; one empty tuple for no factors -/
def product : List (List α) → List (List α)
  | [] => [[]]
  | vs :: rest => vs.flatMap (fun v => (product rest).map (fun p => v :: p))

/-- `dict(pairs)`: entered one by one (a repeated key keeps its first position and takes the last value) -/
def dictOfPairs (l : List (String × β)) : List (String × β) := l.foldl (fun d kv => dictSet d kv.1 kv.2) []

/-- `reduce(operator.mul, xs)` without an initial value: `TypeError` on an empty sequence -/
def reduceMul : List Int → Except Err Int
  | [] => .error .typeError
  | x :: rest => .ok (rest.foldl (· * ·) x)
end Py

/-! ## double arithmetic whose rounding is not modelled -/
namespace Py
/-- `+`, `/` and `abs` on doubles as parameters (negation and the comparisons are exact and are not in here) -/
structure FloatOps where
  add : Num → Num → Num
  div : Num → Num → Num
  abs : Num → Num
end Py

namespace Py
/-- what `get_pool_executor` hands back: which kind of pool, with how many workers (`None` = the library default) -/
inductive PoolKind where
  | thread (workers : Option Int)
  | process (workers : Option Int)
deriving DecidableEq, Repr
end Py
