import Driver.Main
def main : IO Unit := Driver.main
