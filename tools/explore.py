#!/venv/bin/python
"""Exploration helper (not a registered check): run a property's suites over many seeds, without the Lean build, and
list every distinct oracle-failure signature with one example. Used to populate / review known_findings.json by hand."""
import importlib, json, os, sys, collections
sys.path.insert(0, os.path.join(os.path.dirname(__file__), "..", "harness"))
sys.path.insert(1, os.environ.get("PV_REPO", "/repo"))
from pvh.core import Ctx, load_known

prop, tier, seeds = sys.argv[1], sys.argv[2], [int(s) for s in sys.argv[3].split(",")]
mod = importlib.import_module(f"pvh.props.{prop}")
sigs = collections.OrderedDict()
counts = collections.Counter()
dis = 0
for seed in seeds:
    ctx = Ctx(prop, tier, seed)
    ctx.prove = lambda modules: True
    mod.run(ctx)
    dis += len(ctx.disagreements)
    for f in ctx.failures:
        counts[f["signature"]] += 1
        sigs.setdefault(f["signature"], {"what": f["what"], "case": f["case"], "seed": seed})
    print(f"seed {seed}: {ctx.evaluations} cases, {len(ctx.failures)} failures, {len(ctx.disagreements)} disagreements", file=sys.stderr)
    if ctx.disagreements:
        print("  first disagreement:", json.dumps(ctx.disagreements[0], default=str)[:600], file=sys.stderr)
known = {(f["property"], f["signature"]) for f in load_known()["findings"]}
out = [{"signature": s, "count": counts[s], "known": (prop, s) in known, **v} for s, v in sigs.items()]
json.dump(out, open(f"/verif/.work/explore_{prop}.json", "w"), indent=1, default=str)
for o in out:
    print(("known " if o["known"] else "NEW   ") + f"{o['count']:5d} {o['signature']} | {o['what'][:150]}")
print("disagreements:", dis)
