#!/bin/sh
# tools/seedwt.sh <id> — (re)create the scratch worktree /tmp/seed_<id> of /repo at HEAD with the archived change of seeded/<id> applied
ID="$1"; W=/tmp/seed_$ID
git -C /repo worktree remove --force $W 2>/dev/null; rm -rf $W
git -C /repo worktree add -q --detach $W HEAD && git -C $W apply /verif/seeded/$ID/patch.diff && echo "$W ready"
