#!/venv/bin/python
"""Rewrite lean/PvModel/Props/T13.lean T14.lean T19.lean T20.lean with the source fingerprints of the tree in PV_REPO (default /repo).
Run ONLY after the hand-written model of the pinned functions has been re-validated against that tree (correspondence suites green):
the pin obligations say "the model was validated against exactly this text"."""
import importlib.util, os, sys
from pathlib import Path
V = Path(__file__).resolve().parents[1]
spec = importlib.util.spec_from_file_location("tr", V / "tools" / "translate.py")
tr = importlib.util.module_from_spec(spec)
spec.loader.exec_module(tr)
pins = dict(tr.source_pins(Path(os.environ.get("PV_REPO", "/repo"))))
GROUPS = {
    "T13": ("C13 (and C01/C05): the variable classes whose `correct` / `decode` / `randomize` / children the model writes by hand",
            ["models.py:LabelEncoder", "models.py:ContinuousMultiVariable", "models.py:DiscreteMultiVariable", "models.py:PermutationVariable",
             "models.py:MultiObjectiveVariable", "models.py:BinaryVariable"]),
    "T14": ("C14 (and C01/C02/C05/C09): the task's description of its search space",
            ["models.py:Task.validate_objective_weights", "models.py:Task.empty_solution",
             "models.py:ContinuousMultiVariable", "models.py:DiscreteMultiVariable", "models.py:MultiObjectiveVariable", "models.py:BinaryVariable"]),
    "T19": ("C19: the tuner and what is left of the parameter grid (`ParameterGrid.__iter__` / `__len__` are translated: R19)", ["hypertuner.py:ParameterGrid.__init__", "hypertuner.py:ParameterGrid.__getitem__", "hypertuner.py:HyperTuner", "enums.py:TaskType", "enums.py:ModeSolver"]),
    "T20": ("C20: the parts of Multitask that are not translated (`__check_input__`, `__check_modes__`, `__get_mode__`, `__init__`, `execute`, `__parallelize__`, `__run__` are: R20)",
            ["multitask.py:Multitask.__set_keyword_arguments__", "multitask.py:Multitask.export_results", "enums.py:ModeSolver", "enums.py:ExportType"]),
    "T02": ("C02/C04/C06/C11 and the loop: what is left of agent creation (`_generate_agents` / `_init_population` are translated: R11; `OptimizationAbstract.__init__`: R00) and the configuration / agent records",
            ["models.py:EarlyStopping", "models.py:BaseOptimizationConfig", "models.py:Agent", "helpers.py:average_fitness"]),
}
for name, (doc, keys) in GROUPS.items():
    rows = ",\n".join(f'      ("{k}", "{pins[k]}")' for k in keys)
    txt = f'''import PvModel.Generated.Core
/-! Pin obligation for {doc}.
These functions are modelled by hand (not translated by `tools/py2lean.py`) and tied to the code by the correspondence suites. The regenerated
facts carry a fingerprint of their source text (docstrings / comments removed, `ast.unparse` under /venv's Python); this theorem says the text is
the one the model was last validated against. A change of any of them breaks it — the check then searches for a failing input; if none is found
the report is `no-failing-input-found` and, once the model has been re-validated, `tools/mkpins.py` rewrites the expected values. -/
namespace {name}
open Generated

def expected : List (String × String) := [
{rows}]

theorem source_pins_unchanged : expected.all (fun e => pins.contains e) = true := by decide

end {name}
'''
    (V / "lean" / "PvModel" / "Props" / f"{name}.lean").write_text(txt)
print("rewrote", ", ".join(GROUPS))
