#!/usr/bin/env python3
"""Skeleton classifier: `optimization_step` of every exported optimizer  →  `List PopOp` (lean/PvModel/PopExp.lean).

Python `ast` only; the package is never imported.  Same class enumeration as tools/translate.py.

What is recognised (everything else that can touch `self._population` becomes `opaque`, which proves nothing):

  self._population = sort_by_cost(self._population)                                  sortBy
  self._population = sort_and_trim(self._population, self._config.population_size)   sortTrim
  self._population = [E for <x> in <self._population | enumerate(..) | zip(.., …)>]  mapGreedy | mapFresh
  self._population, … = map(lambda x: list(x), zip(*[E for … in …]))                 mapGreedy | mapFresh   (by tuple component)
  self._greedy_select_population(new)                                                greedyPop
  self._extend_and_trim_population(new)                                              extendTrim
  self._replace_and_trim_population(new)                                             replaceTrim
  self._population[i] = a                                                            setAt
  self.<helper>(…) as a statement                                                    the helper's body, inlined
  for / while / if / with / try around any of these, or a `return` before them       ctl [ … ]

`mapGreedy` needs a proof that *every* value E can take is the loop element itself (extras aside) sent through
`self._greedy_select_agent` calls.  That is a small flow-sensitive abstract interpretation (`Interp`) over the element
expression and the local functions / same-class methods it calls, with the lattice

    K  (the very element, extras may differ)  <  G  (the element after ≥ 0 greedy selections: never costlier)  <  F (anything)

  x, x.model_copy(update={non-core}), Cls(**x.model_dump(), extras…), self._population[i] (i the enumerate index)   keep the kind of x
  self._greedy_select_agent(a, b)    G if a ∈ {K, G}  — or b ∈ {K, G} when the class uses the base implementation, which is symmetric in
                                     cost; an override must be `return B if B.cost < A.cost [and …] else A[.model_copy(update={non-core})]`
                                     ("incumbent keeping": Bat, Bee Colony) and then only the first argument counts; any other override: F
  f(…) for a local def / method      join of the kinds of its `return`s, parameters bound to the kinds of the arguments; tuples component-wise
  anything else                      F

Soundness first: assignments are tracked per program point (branches joined, loops iterated to a fixed point); names bound by
walrus / nonlocal / global are F; a function that rebinds its element parameter loses K.  Every place where the list object can be
written or can escape (store, subscript store, `+=`, mutating method, bare alias, passing it to a function that is not a known
pure helper) anywhere in the code reachable from `optimization_step` must be accounted for by a recognised statement; what is left
over is reported as an `opaque` operation.  A subscript store hidden inside a function called by a map comprehension turns that
comprehension into `mapFresh` (same length, any elements).

The shapes of the framework combinators themselves (abstract.py, helpers.py) are pinned: if one of them is edited, the
operations that rely on it become `opaque` until the Lean model (`PvModel/Select.lean`) and this table are revisited.

Usage: popexp.py [--repo /repo] [--out …/Generated] [--json …/.work/facts.json]
"""
from __future__ import annotations
import argparse
import ast
import importlib.util
import json
import os
import sys
from pathlib import Path

U = ast.unparse
POP = "self._population"
CORE_ATTRS = ("position", "cost", "fitness")
K, G, F = "K", "G", "F"
IDX = "I"          # the enumerate index of the comprehension (an int, never an agent)
ORDER = {K: 0, G: 1, F: 2}
PURE_CALLEES = {"best_agent", "best_agents", "worst_agent", "worst_agents", "special_agents", "best_agent_index", "best_agents_indexes",
                "worst_agent_index", "worst_agents_indexes", "sort_by_cost", "sort_by_cost_indexes", "sort_and_trim", "enumerate", "len", "map",
                "zip", "list", "tuple", "sorted", "sum", "min", "max", "reversed", "iter", "chain.from_iterable", "np.array", "np.asarray"}
PURE_METHODS = {"copy", "index", "count"}
PRIMS = ("sortBy", "sortTrim", "mapGreedy", "mapFresh", "greedyPop", "extendTrim", "replaceTrim", "setAt", "opaque")
SIZE_OK = {"sortBy", "sortTrim", "mapGreedy", "mapFresh", "greedyPop", "extendTrim", "setAt"}
MONO_OK = {"sortBy", "sortTrim", "mapGreedy", "greedyPop", "extendTrim"}

# ---- pinned shapes of the framework combinators (ast.unparse of the body without docstring / comments)
CORE_SHAPES = {
    ("abstract.py", "_greedy_select_agent"): "agent_copy = agent.model_copy()\nreturn new_agent if new_agent.cost < agent_copy.cost else agent_copy",
    ("abstract.py", "_extend_and_trim_population"): "if len(new_population) == 0:\n    return\nself._population.extend(new_population)\n"
                                                    "self._population = sort_and_trim(self._population, self._config.population_size)",
    ("abstract.py", "_replace_and_trim_population"): "self._population = sort_and_trim(new_population, self._config.population_size)",
    ("abstract.py", "_greedy_select_population"):
        "self._population = sort_by_cost(self._population)\nnew_population = sort_by_cost(new_population)\n"
        "if self._mode == ModeSolver.SERIAL:\n    self._population = [self._greedy_select_agent(agent, new_population[idx]) for idx, agent in enumerate(self._population)]\n    return\n"
        "with get_pool_executor(self._mode, self._workers) as executor:\n"
        "    executors = [executor.submit(self._greedy_select_agent, agent, new_population[idx]) for idx, agent in enumerate(self._population)]\n"
        "    self._population = get_pool_results(executors)",
    ("helpers.py", "sort_by_cost"): "pop_new = population.copy()\npop_new.sort(key=lambda agent: agent.cost, reverse=task_type == TaskType.MAX)\nreturn pop_new",
    ("helpers.py", "sort_and_trim"): "return sort_by_cost(population)[:population_size]",
}
# which primitives rely on which combinator
PRIM_NEEDS = {
    "sortBy": [("helpers.py", "sort_by_cost")],
    "sortTrim": [("helpers.py", "sort_by_cost"), ("helpers.py", "sort_and_trim")],
    "mapGreedy": [("abstract.py", "_greedy_select_agent")],
    "greedyPop": [("abstract.py", "_greedy_select_agent"), ("abstract.py", "_greedy_select_population"), ("helpers.py", "sort_by_cost")],
    "extendTrim": [("abstract.py", "_extend_and_trim_population"), ("helpers.py", "sort_by_cost"), ("helpers.py", "sort_and_trim")],
    "replaceTrim": [("abstract.py", "_replace_and_trim_population"), ("helpers.py", "sort_by_cost"), ("helpers.py", "sort_and_trim")],
}


def _load_translate():
    spec = importlib.util.spec_from_file_location("pv_translate", Path(__file__).resolve().parent / "translate.py")
    tr = importlib.util.module_from_spec(spec)
    spec.loader.exec_module(tr)
    return tr


def body_src(fn) -> str:
    body = [s for s in fn.body if not (isinstance(s, ast.Expr) and isinstance(s.value, ast.Constant) and isinstance(s.value.value, str))]
    return "\n".join(U(s) for s in body)


def core_shapes(repo: Path) -> dict:
    """{(file, function): bool} — does the framework combinator still have the shape the Lean model mirrors?"""
    out = {}
    for (f, name), want in CORE_SHAPES.items():
        ok = False
        try:
            tree = ast.parse((repo / "pyvolutionary" / f).read_text())
            for n in ast.walk(tree):
                if isinstance(n, ast.FunctionDef) and n.name == name:
                    ok = body_src(n) == want
        except (OSError, SyntaxError):
            ok = False
        out[(f, name)] = ok
    return out


def join(*ks):
    ks = [k for k in ks if k is not None]
    if not ks:
        return None
    if any(isinstance(k, tuple) for k in ks):
        if all(isinstance(k, tuple) for k in ks) and len({len(k) for k in ks}) == 1:
            return tuple(join(*[k[i] for k in ks]) for i in range(len(ks[0])))
        return F
    if any(k == IDX for k in ks):
        return IDX if all(k == IDX for k in ks) else F
    return max(ks, key=lambda k: ORDER[k])


def join_env(a, b):
    if a is None:
        return b
    if b is None:
        return a
    return {v: join(a.get(v), b.get(v)) for v in set(a) | set(b)}


def own_walk(fn):
    """nodes of a function, not descending into nested defs / lambdas / classes (the nested def statement itself is yielded)"""
    todo = list(fn.body)
    while todo:
        n = todo.pop()
        yield n
        if isinstance(n, (ast.FunctionDef, ast.AsyncFunctionDef, ast.Lambda, ast.ClassDef)):
            continue
        todo.extend(ast.iter_child_nodes(n))


def local_defs(fn):
    """name -> FunctionDef for defs nested directly in fn (at any control depth, not inside other defs); duplicates -> None"""
    out = {}
    for n in own_walk(fn):
        if isinstance(n, ast.FunctionDef):
            out[n.name] = None if n.name in out else n
    return out


def non_core_update(call) -> bool:
    """model_copy(...) / copy(...) keywords cannot touch position / cost / fitness"""
    if call.args:
        return False
    for k in call.keywords:
        if k.arg == "deep":
            continue
        if k.arg == "update" and isinstance(k.value, ast.Dict) and all(
                isinstance(x, ast.Constant) and isinstance(x.value, str) and x.value not in CORE_ATTRS for x in k.value.keys):
            continue
        return False
    return True


def greedy_override_mode(fn) -> str:
    """'incumbent' iff the override is `return B if B.cost < A.cost [and …] else A | A.model_copy(update={non-core})`"""
    params = [a.arg for a in fn.args.args]
    if len(params) != 3 or fn.args.vararg or fn.args.kwarg or fn.args.kwonlyargs:
        return "unknown"
    _, a, b = params
    body = [s for s in fn.body if not (isinstance(s, ast.Expr) and isinstance(s.value, ast.Constant))]
    if len(body) != 1 or not isinstance(body[0], ast.Return) or not isinstance(body[0].value, ast.IfExp):
        return "unknown"
    e = body[0].value
    if not (isinstance(e.body, ast.Name) and e.body.id == b):
        return "unknown"
    conj = e.test.values if isinstance(e.test, ast.BoolOp) and isinstance(e.test.op, ast.And) else [e.test]
    if not any(U(c) in (f"{b}.cost < {a}.cost", f"{a}.cost > {b}.cost") for c in conj):
        return "unknown"
    o = e.orelse
    if isinstance(o, ast.Name) and o.id == a:
        return "incumbent"
    if isinstance(o, ast.Call) and isinstance(o.func, ast.Attribute) and o.func.attr in ("model_copy", "copy") and \
            isinstance(o.func.value, ast.Name) and o.func.value.id == a and non_core_update(o):
        return "incumbent"
    return "unknown"


class Interp:
    """kinds of agent-valued expressions relative to one element of the population (see module docstring)"""

    def __init__(self, meths: dict, greedy_mode: str):
        self.meths = meths
        self.greedy_mode = greedy_mode
        self.stack = []

    # ---- expressions
    def kind(self, e, env, funcs, depth=0):
        if depth > 12:
            return F
        if isinstance(e, ast.Name):
            return env.get(e.id, F)
        if isinstance(e, ast.IfExp):
            return join(self.kind(e.body, env, funcs, depth + 1), self.kind(e.orelse, env, funcs, depth + 1)) or F
        if isinstance(e, ast.Tuple) and not any(isinstance(x, ast.Starred) for x in e.elts):
            return tuple(self.kind(x, env, funcs, depth + 1) for x in e.elts)
        if isinstance(e, ast.Subscript):
            if U(e.value) == POP and isinstance(e.slice, ast.Name) and env.get(e.slice.id) == IDX:
                return K
            base = self.kind(e.value, env, funcs, depth + 1) if isinstance(e.value, (ast.Name, ast.Call)) else F
            if isinstance(base, tuple) and isinstance(e.slice, ast.Constant) and isinstance(e.slice.value, int) and 0 <= e.slice.value < len(base):
                return base[e.slice.value]
            return F
        if isinstance(e, ast.Call):
            return self.call_kind(e, env, funcs, depth)
        return F

    def call_kind(self, e, env, funcs, depth):
        f = U(e.func)
        plain = not e.keywords and not any(isinstance(a, ast.Starred) for a in e.args)
        if f == "self._greedy_select_agent":
            if not plain or len(e.args) != 2:
                return F
            ka, kb = (self.kind(a, env, funcs, depth + 1) for a in e.args)
            if self.greedy_mode == "base":
                return G if ka in (K, G) or kb in (K, G) else F
            if self.greedy_mode == "incumbent":
                return G if ka in (K, G) else F
            return F
        if isinstance(e.func, ast.Attribute) and e.func.attr in ("model_copy", "copy") and non_core_update(e):
            k = self.kind(e.func.value, env, funcs, depth + 1)
            return k if k in (K, G) else F
        if isinstance(e.func, ast.Name) and e.func.id[:1].isupper() and not e.args:
            stars = [k for k in e.keywords if k.arg is None]
            named = {k.arg for k in e.keywords if k.arg}
            if len(stars) == 1 and not (named & set(CORE_ATTRS)):
                v = stars[0].value
                if isinstance(v, ast.Call) and isinstance(v.func, ast.Attribute) and v.func.attr == "model_dump" and not v.args and not v.keywords:
                    k = self.kind(v.func.value, env, funcs, depth + 1)
                    return k if k in (K, G) else F
            return F
        target = None
        skip_self = False
        callee_funcs = funcs
        if isinstance(e.func, ast.Name) and funcs.get(e.func.id) is not None:
            target = funcs[e.func.id]
        elif isinstance(e.func, ast.Attribute) and isinstance(e.func.value, ast.Name) and e.func.value.id == "self" and e.func.attr in self.meths \
                and e.func.attr not in ("_init_agent", "_greedy_select_agent"):
            target, skip_self, callee_funcs = self.meths[e.func.attr], True, {}
        if target is None or any(isinstance(a, ast.Starred) for a in e.args) or any(k.arg is None for k in e.keywords):
            return F
        a = target.args
        if a.vararg or a.kwarg or a.posonlyargs or target.decorator_list:
            return F
        params = [p.arg for p in a.args][(1 if skip_self else 0):]
        if len(e.args) > len(params):
            return F
        bound = {p: F for p in params + [p.arg for p in a.kwonlyargs]}
        for p, arg in zip(params, e.args):
            bound[p] = self.kind(arg, env, funcs, depth + 1)
        for k in e.keywords:
            if k.arg in bound:
                bound[k.arg] = self.kind(k.value, env, funcs, depth + 1)
        return self.fn_kind(target, bound, callee_funcs, depth + 1)

    # ---- functions
    def fn_kind(self, fn, bound, outer_funcs, depth):
        if fn in self.stack or depth > 12:
            return F
        for n in own_walk(fn):
            if isinstance(n, (ast.Global, ast.Nonlocal, ast.Match, ast.AsyncFor, ast.AsyncWith, ast.Yield, ast.YieldFrom, ast.Await)):
                return F
        forced = set()
        for n in ast.walk(fn):          # including nested defs: a closure may rebind through nonlocal
            if isinstance(n, ast.NamedExpr):
                forced.add(n.target.id)
            if isinstance(n, (ast.Nonlocal, ast.Global)):
                forced |= set(n.names)
        funcs = dict(outer_funcs)
        funcs.update(local_defs(fn))
        for name in list(funcs):
            if name in bound or name in forced:
                funcs[name] = None
        env = {p: (F if p in forced else k) for p, k in bound.items()}
        self.stack.append(fn)
        try:
            st = _Exec(self, funcs, forced, depth)
            st.block(fn.body, env)
            rets = st.returns
        finally:
            self.stack.pop()
        if not rets:
            return F
        return join(*rets) or F


class _Exec:
    def __init__(self, interp: Interp, funcs, forced, depth):
        self.i, self.funcs, self.forced, self.depth = interp, funcs, forced, depth
        self.returns = []
        self.loop_exits = []

    def k(self, e, env):
        return self.i.kind(e, env, self.funcs, self.depth + 1)

    def bind(self, target, kind, env):
        if isinstance(target, ast.Name):
            env[target.id] = F if target.id in self.forced else (kind if kind is not None else F)
            if target.id in self.funcs:
                self.funcs = dict(self.funcs)
                self.funcs[target.id] = None
        elif isinstance(target, (ast.Tuple, ast.List)):
            if isinstance(kind, tuple) and len(kind) == len(target.elts) and not any(isinstance(t, ast.Starred) for t in target.elts):
                for t, kk in zip(target.elts, kind):
                    self.bind(t, kk, env)
            else:
                for t in target.elts:
                    self.bind(t.value if isinstance(t, ast.Starred) else t, F, env)
        elif isinstance(target, ast.Attribute):
            # x.attr = …: in-place update of an agent; touching a core attribute forfeits the kind of x
            if target.attr in CORE_ATTRS and isinstance(target.value, ast.Name):
                env[target.value.id] = F
        # subscript stores do not rebind names

    def block(self, stmts, env):
        """returns the environment after the block, or None if control cannot fall through"""
        for st in stmts:
            if env is None:
                return None
            env = self.stmt(st, env)
        return env

    def stmt(self, st, env):
        if isinstance(st, (ast.FunctionDef, ast.AsyncFunctionDef, ast.ClassDef, ast.Pass, ast.Expr, ast.Assert, ast.Import, ast.ImportFrom)):
            return env
        if isinstance(st, ast.Assign):
            kind = self.k(st.value, env)
            env = dict(env)
            for t in st.targets:
                self.bind(t, kind, env)
            return env
        if isinstance(st, ast.AnnAssign):
            env = dict(env)
            self.bind(st.target, self.k(st.value, env) if st.value is not None else F, env)
            return env
        if isinstance(st, ast.AugAssign):
            env = dict(env)
            self.bind(st.target, F, env)
            return env
        if isinstance(st, ast.Delete):
            env = dict(env)
            for t in st.targets:
                self.bind(t, F, env)
            return env
        if isinstance(st, ast.Return):
            self.returns.append(self.k(st.value, env) if st.value is not None else F)
            return None
        if isinstance(st, ast.Raise):
            return None
        if isinstance(st, ast.If):
            return join_env(self.block(st.body, dict(env)), self.block(st.orelse, dict(env)))
        if isinstance(st, (ast.For, ast.While)):
            cur = dict(env)
            exits = []
            self.loop_exits.append(exits)
            for _ in range(6):
                start = dict(cur)
                if isinstance(st, ast.For):
                    self.bind(st.target, F, start)
                after = self.block(st.body, start)
                for x in [e for e in exits if e[0] == "continue"]:
                    after = join_env(after, x[1])
                new = join_env(cur, after)
                if new == cur:
                    break
                cur = new
            self.loop_exits.pop()
            out = cur
            if isinstance(st, ast.For):
                out = dict(out)
                self.bind(st.target, F, out)
            out = self.block(st.orelse, out) if st.orelse else out
            for x in [e for e in exits if e[0] == "break"]:
                out = join_env(out, x[1])
            return out
        if isinstance(st, (ast.Break, ast.Continue)):
            if self.loop_exits:
                self.loop_exits[-1].append(("break" if isinstance(st, ast.Break) else "continue", dict(env)))
            return None
        if isinstance(st, ast.With):
            env = dict(env)
            for it in st.items:
                if it.optional_vars is not None:
                    self.bind(it.optional_vars, F, env)
            return self.block(st.body, env)
        if isinstance(st, ast.Try):
            after = self.block(st.body, dict(env))
            mid = join_env(dict(env), after)          # an exception may leave any prefix of the body executed
            outs = [self.block(st.orelse, after) if after is not None else None]
            for h in st.handlers:
                henv = dict(mid)
                if h.name:
                    henv[h.name] = F
                outs.append(self.block(h.body, henv))
            res = None
            for o in outs:
                res = join_env(res, o)
            if st.finalbody:
                res = self.block(st.finalbody, res if res is not None else dict(mid))
            return res
        # anything else (match, global, …): give up on every name
        self.returns.append(F)
        return {v: F for v in env}


class StepAnalyser:
    def __init__(self, cls: ast.ClassDef, rel: str, shapes: dict):
        self.cls, self.rel, self.shapes = cls, rel, shapes
        self.meths = {m.name: m for m in cls.body if isinstance(m, ast.FunctionDef)}
        self.parent = {}
        for n in ast.walk(cls):
            for c in ast.iter_child_nodes(n):
                self.parent[c] = n
        if "_greedy_select_agent" in self.meths:
            self.greedy_mode = greedy_override_mode(self.meths["_greedy_select_agent"])
        else:
            self.greedy_mode = "base" if shapes[("abstract.py", "_greedy_select_agent")] else "unknown"
        self.interp = Interp(self.meths, self.greedy_mode)
        self.accounted = set()
        self.notes = []

    def where(self, n):
        return f"{self.rel}:{getattr(n, 'lineno', 0)}"

    def prim_ok(self, prim: str) -> bool:
        if any(not self.shapes[x] for x in PRIM_NEEDS.get(prim, [])):
            return False
        overridden = {"greedyPop": "_greedy_select_population", "extendTrim": "_extend_and_trim_population", "replaceTrim": "_replace_and_trim_population"}
        if prim in overridden and overridden[prim] in self.meths:
            return False
        if prim == "greedyPop" and self.greedy_mode != "base":
            return False
        return True

    # ---- reachable code and the places where the list can be written / escape
    def reachable(self):
        seen, todo = [], ["optimization_step"]
        while todo:
            m = todo.pop()
            if m in seen or m not in self.meths:
                continue
            seen.append(m)
            for n in ast.walk(self.meths[m]):
                if isinstance(n, ast.Attribute) and isinstance(n.value, ast.Name) and n.value.id == "self" and n.attr in self.meths:
                    todo.append(n.attr)
        return seen

    def write_sites(self, root):
        """[(node, what)] — every place in `root` where the population list is (possibly) written or escapes"""
        out = []
        for n in ast.walk(root):
            if isinstance(n, ast.Attribute) and n.attr == "_population" and isinstance(n.value, ast.Name) and n.value.id == "self":
                p = self.parent.get(n)
                if isinstance(n.ctx, (ast.Store, ast.Del)):
                    out.append((n, "store"))
                elif isinstance(p, ast.Subscript) and p.value is n:
                    if isinstance(p.ctx, (ast.Store, ast.Del)):
                        out.append((p, "setAt" if isinstance(p.ctx, ast.Store) and not isinstance(p.slice, (ast.Slice, ast.Tuple)) else "slice-store"))
                elif isinstance(p, ast.Attribute) and p.value is n:
                    gp = self.parent.get(p)
                    if not (isinstance(gp, ast.Call) and gp.func is p and p.attr in PURE_METHODS):
                        out.append((p, f"method .{p.attr}"))
                elif isinstance(p, ast.comprehension) and p.iter is n:
                    pass
                elif isinstance(p, ast.For) and p.iter is n:
                    pass
                elif isinstance(p, ast.Call) and n in p.args and U(p.func) in PURE_CALLEES:
                    pass
                elif isinstance(p, ast.BinOp) and isinstance(p.op, ast.Add) and not isinstance(self.parent.get(p), ast.AugAssign):
                    pass
                elif isinstance(p, ast.Compare):
                    pass
                else:
                    out.append((n, "escape: " + U(p)[:60] if p is not None else "escape"))
            if isinstance(n, ast.Call) and isinstance(n.func, ast.Name) and n.func.id in ("setattr", "delattr", "vars", "getattr") and n.args and U(n.args[0]) == "self":
                out.append((n, n.func.id + "(self, …)"))
            if isinstance(n, ast.Attribute) and n.attr == "__dict__" and U(n.value) == "self":
                out.append((n, "self.__dict__"))
        return out

    # ---- recognisers
    def map_parts(self, comp):
        """(element var, index var | None) of a comprehension over the population, or None"""
        if not isinstance(comp, ast.ListComp) or len(comp.generators) != 1:
            return None
        g = comp.generators[0]
        if g.ifs or g.is_async:
            return None
        it, tg = g.iter, g.target
        if U(it) == POP and isinstance(tg, ast.Name):
            return tg.id, None
        if isinstance(it, ast.Call) and not it.keywords:
            f = U(it.func)
            if f == "enumerate" and len(it.args) == 1 and isinstance(tg, ast.Tuple) and len(tg.elts) == 2 and isinstance(tg.elts[0], ast.Name):
                inner, itg = it.args[0], tg.elts[1]
                if U(inner) == POP and isinstance(itg, ast.Name):
                    return itg.id, tg.elts[0].id
                if isinstance(inner, ast.Call) and U(inner.func) == "zip" and not inner.keywords and inner.args and U(inner.args[0]) == POP and \
                        isinstance(itg, ast.Tuple) and itg.elts and isinstance(itg.elts[0], ast.Name) and not any(isinstance(a, ast.Starred) for a in inner.args):
                    return itg.elts[0].id, tg.elts[0].id
            if f == "zip" and it.args and U(it.args[0]) == POP and isinstance(tg, ast.Tuple) and tg.elts and isinstance(tg.elts[0], ast.Name) and \
                    not any(isinstance(a, ast.Starred) for a in it.args):
                return tg.elts[0].id, None
        return None

    def called_funcs(self, expr, funcs):
        """local defs / methods transitively callable from expr"""
        seen, todo = [], [expr]
        while todo:
            e = todo.pop()
            for n in ast.walk(e):
                t = None
                if isinstance(n, ast.Name) and funcs.get(n.id) is not None:
                    t = funcs[n.id]
                if isinstance(n, ast.Attribute) and isinstance(n.value, ast.Name) and n.value.id == "self" and n.attr in self.meths:
                    t = self.meths[n.attr]
                if t is not None and t not in seen:
                    seen.append(t)
                    todo.append(t)
        return seen

    def classify_map(self, comp, funcs, component=None):
        elem, idx = self.map_parts(comp)
        env = {elem: K}
        if idx:
            env[idx] = IDX
        # a store into the list hidden in a function this comprehension calls: same length, but any elements
        hidden = []
        for fn in self.called_funcs(comp.elt, funcs):
            hidden += self.write_sites(fn)
        hidden += [s for s in self.write_sites(comp.elt)]
        if hidden:
            if all(w == "setAt" for _, w in hidden):
                for n, _ in hidden:
                    self.accounted.add(n)
                return "mapFresh", "the element function stores into self._population[…] while the list is being rebuilt"
            return "mapFresh", "the element function touches the list (left unaccounted: see the opaque entry)"
        kind = self.interp.kind(comp.elt, env, funcs)
        if component is not None:
            kind = kind[component] if isinstance(kind, tuple) and component < len(kind) else F
        if kind in (K, G) and self.prim_ok("mapGreedy"):
            return "mapGreedy", {K: "every element is kept (extras aside)", G: "every element is the old one sent through _greedy_select_agent"}[kind] + \
                (" [incumbent-keeping override]" if self.greedy_mode == "incumbent" else "")
        return "mapFresh", "some value of the element expression is not a greedy selection against the old element"

    def unzip_parts(self, st):
        """`A, B = map(lambda x: list(x), zip(*[E for …]))` with self._population among the targets → (component, comprehension)"""
        if not (isinstance(st, ast.Assign) and len(st.targets) == 1 and isinstance(st.targets[0], ast.Tuple)):
            return None
        tg = st.targets[0]
        pos = [i for i, t in enumerate(tg.elts) if U(t) == POP]
        if len(pos) != 1 or any(isinstance(t, ast.Starred) for t in tg.elts):
            return None
        v = st.value
        if not (isinstance(v, ast.Call) and U(v.func) == "map" and len(v.args) == 2 and not v.keywords):
            return None
        conv, z = v.args
        if U(conv) not in ("list", "lambda x: list(x)"):
            return None
        if not (isinstance(z, ast.Call) and U(z.func) == "zip" and len(z.args) == 1 and not z.keywords and isinstance(z.args[0], ast.Starred)):
            return None
        comp = z.args[0].value
        if self.map_parts(comp) is None:
            return None
        return pos[0], comp

    def walk(self, stmts, funcs, out, stack):
        """append recognised operations of a statement list to `out` as ("one", prim, where, why) / ("ctl", [(prim, where, why)…])"""
        for st in stmts:
            if isinstance(st, (ast.FunctionDef, ast.AsyncFunctionDef, ast.ClassDef)):
                continue
            if isinstance(st, ast.Assign) and len(st.targets) == 1 and U(st.targets[0]) == POP:
                v, tgt = st.value, st.targets[0]
                if self.map_parts(v) is not None:
                    prim, why = self.classify_map(v, funcs)
                elif U(v) == f"sort_by_cost({POP})" and self.prim_ok("sortBy"):
                    prim, why = "sortBy", "sorted copy of itself"
                elif U(v) == f"sort_and_trim({POP}, self._config.population_size)" and self.prim_ok("sortTrim"):
                    prim, why = "sortTrim", "sorted copy of itself, cut at population_size"
                else:
                    prim, why = "opaque", "unrecognised right-hand side: " + U(v)[:80]
                self.accounted.add(tgt)
                out.append(("one", prim, self.where(st), why))
                continue
            uz = self.unzip_parts(st)
            if uz is not None:
                comp_i, comp = uz
                prim, why = self.classify_map(comp, funcs, component=comp_i)
                for t in st.targets[0].elts:
                    if U(t) == POP:
                        self.accounted.add(t)
                out.append(("one", prim, self.where(st), why + f" (component {comp_i} of an unzipped comprehension)"))
                continue
            if isinstance(st, ast.Assign) and len(st.targets) == 1 and isinstance(st.targets[0], ast.Subscript) and U(st.targets[0].value) == POP \
                    and not isinstance(st.targets[0].slice, (ast.Slice, ast.Tuple)):
                self.accounted.add(st.targets[0])
                out.append(("one", "setAt", self.where(st), "one element overwritten"))
                continue
            if isinstance(st, ast.Expr) and isinstance(st.value, ast.Call):
                c = st.value
                f = U(c.func)
                combi = {"self._extend_and_trim_population": "extendTrim", "self._greedy_select_population": "greedyPop",
                         "self._replace_and_trim_population": "replaceTrim"}
                if f in combi and len(c.args) == 1 and not c.keywords and not isinstance(c.args[0], ast.Starred):
                    prim = combi[f]
                    if self.prim_ok(prim):
                        out.append(("one", prim, self.where(st), f[5:]))
                    else:
                        out.append(("one", "opaque", self.where(st), f"{f[5:]}: the combinator (or _greedy_select_agent) is overridden or no longer has the modelled shape"))
                    continue
                if isinstance(c.func, ast.Attribute) and isinstance(c.func.value, ast.Name) and c.func.value.id == "self" and c.func.attr in self.meths \
                        and c.func.attr not in ("_init_agent", "_greedy_select_agent"):
                    m = self.meths[c.func.attr]
                    if m in stack:
                        out.append(("one", "opaque", self.where(st), "recursive helper"))
                        continue
                    inner = []
                    self.walk(m.body, {k: v for k, v in local_defs(m).items()}, inner, stack + [m])
                    if any(isinstance(n, ast.Return) for n in own_walk(m)):
                        inner = self.as_ctl(inner)
                    out.extend(inner)
                    continue
            if isinstance(st, (ast.For, ast.While, ast.If, ast.With, ast.Try, ast.AsyncFor, ast.AsyncWith, ast.Match)):
                inner = []
                for fld in ("body", "orelse", "finalbody"):
                    self.walk(getattr(st, fld, None) or [], funcs, inner, stack)
                for h in getattr(st, "handlers", []) or []:
                    self.walk(h.body, funcs, inner, stack)
                for case in getattr(st, "cases", []) or []:
                    self.walk(case.body, funcs, inner, stack)
                out.extend(self.as_ctl(inner))
                continue
            # any other statement: whatever it writes stays unaccounted and surfaces as `opaque`

    @staticmethod
    def as_ctl(ops):
        prims = []
        for o in ops:
            if o[0] == "one":
                prims.append((o[1], o[2], o[3]))
            else:
                prims += o[1]
        return [("ctl", prims)] if prims else []

    def analyse(self):
        step = self.meths.get("optimization_step")
        if step is None:
            return {"ops": [("one", "opaque", self.rel, "no optimization_step in the class")], "greedy": self.greedy_mode}
        ops = []
        self.walk(step.body, local_defs(step), ops, [step])
        if any(isinstance(n, ast.Return) for n in own_walk(step)):
            ops = self.as_ctl(ops)
        # everything that can write the list and was not recognised
        left = []
        for m in self.reachable():
            for n, what in self.write_sites(self.meths[m]):
                if n not in self.accounted:
                    left.append((n, what, m))
        for n, what, m in sorted(left, key=lambda x: getattr(x[0], "lineno", 0)):
            ops.append(("one", "opaque", self.where(n), f"unaccounted {what} in {m}"))
        return {"ops": ops, "greedy": self.greedy_mode}


def flat_prims(ops):
    for o in ops:
        if o[0] == "one":
            yield o[1], o[2], o[3]
        else:
            yield from o[1]


def classify(repo: Path) -> dict:
    tr = _load_translate()
    shapes = core_shapes(repo)
    out = {}
    for pkg in tr.exported_packages(repo):
        pdir = repo / "pyvolutionary" / pkg
        for p in sorted(pdir.glob("*.py")):
            if p.name == "__init__.py":
                continue
            tree = tr.parse(p)
            if not tr.is_optimizer_module(tree):
                continue
            cls = None
            for n in tree.body:
                if isinstance(n, ast.ClassDef) and any("OptimizationAbstract" in U(b) for b in n.bases):
                    cls = n
            if cls is None:
                continue
            rel = str(p.relative_to(repo))
            res = StepAnalyser(cls, rel, shapes).analyse()
            prims = list(flat_prims(res["ops"]))
            out[cls.name] = {
                "file": rel,
                "greedy": res["greedy"],
                "ops": [{"op": "one", "prim": o[1], "where": o[2], "why": o[3]} if o[0] == "one" else
                        {"op": "ctl", "prims": [{"prim": q[0], "where": q[1], "why": q[2]} for q in o[1]]} for o in res["ops"]],
                "sizePreserving": all(q[0] in SIZE_OK for q in prims),
                "monotone": all(q[0] in MONO_OK for q in prims),
                "opaque": [{"where": q[1], "why": q[2]} for q in prims if q[0] == "opaque"],
            }
    out = dict(sorted(out.items()))
    return {"classes": out, "coreShapes": {f"{f}:{n}": ok for (f, n), ok in shapes.items()}}


def render_lean(steps: dict) -> str:
    L = ["import PvModel.PopExp", "import PvModel.Generated.Algos",
         "/-! GENERATED by tools/popexp.py from /repo's working tree — do not edit.",
         "The skeleton of every exported optimizer's `optimization_step` in the population algebra of `PvModel/PopExp.lean`. -/",
         "namespace Generated\n", "def steps : List (AlgoId × List PopOp) := ["]
    rows = []
    for name, c in steps["classes"].items():
        ops = []
        for o in c["ops"]:
            if o["op"] == "one":
                ops.append(f".one .{o['prim']}")
            else:
                ops.append(".ctl [" + ", ".join("." + q["prim"] for q in o["prims"]) + "]")
        rows.append(f"  (.{name}, [{', '.join(ops)}])")
    L.append(",\n".join(rows))
    L.append("]\n\nend Generated")
    return "\n".join(L) + "\n"


def main():
    ap = argparse.ArgumentParser()
    here = Path(__file__).resolve().parents[1]
    ap.add_argument("--repo", default=os.environ.get("PV_REPO", "/repo"))
    ap.add_argument("--out", default=str(here / "lean" / "PvModel" / "Generated"))
    ap.add_argument("--json", default=str(here / ".work" / "facts.json"))
    ap.add_argument("--show", action="store_true", help="print the per-class classification")
    args = ap.parse_args()
    tr = _load_translate()
    steps = classify(Path(args.repo))
    changed = tr.write_if_changed(Path(args.out) / "Steps.lean", render_lean(steps))
    jp = Path(args.json)
    jp.parent.mkdir(parents=True, exist_ok=True)
    facts = json.loads(jp.read_text()) if jp.exists() else {}
    facts["steps"] = steps
    jp.write_text(json.dumps(facts, indent=1))
    cl = steps["classes"]
    print(f"popexp: {len(cl)} classes; sizePreserving {sum(c['sizePreserving'] for c in cl.values())}; monotone {sum(c['monotone'] for c in cl.values())}; "
          f"with opaque writes {sum(bool(c['opaque']) for c in cl.values())}; Steps.lean {'rewritten' if changed else 'unchanged'}")
    bad = [k for k, ok in steps["coreShapes"].items() if not ok]
    if bad:
        print("popexp: framework combinators whose shape changed (dependent operations are opaque):", ", ".join(bad))
    if args.show:
        for name, c in cl.items():
            ops = []
            for o in c["ops"]:
                ops.append(o["prim"] if o["op"] == "one" else "ctl[" + ",".join(q["prim"] for q in o["prims"]) + "]")
            print(f"{name:45s} size={'Y' if c['sizePreserving'] else '-'} mono={'Y' if c['monotone'] else '-'} greedy={c['greedy']:9s} {' ; '.join(ops)}")
            for o in c["opaque"]:
                print(f"{'':47s}opaque @ {o['where']}: {o['why']}")


if __name__ == "__main__":
    main()
