#!/usr/bin/env python3
"""Regenerate /verif/MANIFEST.json from the list of claimed properties (tools/claims.json)."""
import json
from pathlib import Path
V = Path(__file__).resolve().parents[1]
props = [json.loads(l) for l in open(V / "properties.jsonl")]
claims = json.load(open(V / "tools" / "claims.json"))
checks = []
for p in props:
    c = claims["claimed"].get(p["id"])
    if not c:
        continue
    checks.append({
        "property_id": p["id"],
        "quick_cmd": f"./check {p['id']} --tier quick",
        "thorough_cmd": f"./check {p['id']} --tier thorough",
        "evidence_file": f"evidence/{p['id']}.json",
        "replay_cmd_template": f"./check {p['id']} --replay {{path}}",
        "engine": "lean4-model+correspondence",
        "level_claimed": {"category": "proof", "text": c["text"], "design_ref": f"DESIGN.md §4 {p['id']}"},
        "level_note": c.get("note", claims["default_note"]),
        "technique": c.get("technique", "Lean 4 proof over an executable model + differential correspondence with the implementation"),
    })
m = {
    "version": 1,
    "setup_cmd": "cd lean && lake build",
    "hooks": {"guard": "PYVOLUTIONARY_VERIF",
              "enable": "no source hooks are installed: the harness wraps the library in-process (subclassing / monkey-patching inside the check's own interpreter)",
              "baseline_off_cmd": "cd /repo && /venv/bin/python -m pytest -ra -q -p no:cacheprovider --timeout=900 --continue-on-collection-errors",
              "source_commits": [], "add_only": True},
    "engines": [{"name": "lean4-model+correspondence", "path": "lean/, harness/, tools/py2lean.py, tools/translate.py, tools/popexp.py, check",
                 "serves_properties": [c["property_id"] for c in checks],
                 "kind_free_text": "Lean 4 model and theorems (lean/PvModel), structural functions translated from the source (tools/py2lean.py -> lean/PvModel/Generated/Src.lean) with refinement theorems (Props/R*.lean), generated fact tables (tools/translate.py, tools/popexp.py -> lean/PvModel/Generated), model driver (lean/Driver), Python differential harness (harness/pvh)"}],
    "checks": checks,
    "not_applicable": [{"property_id": p["id"], "reason": claims["unclaimed"].get(p["id"], "check under construction (not yet claimed); see DESIGN.md §4")} for p in props if p["id"] not in claims["claimed"]],
    "notes": "see DESIGN.md; known findings in known_findings.json",
}
json.dump(m, open(V / "MANIFEST.json", "w"), indent=1)
print("claimed:", [c["property_id"] for c in checks])
