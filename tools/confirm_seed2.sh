#!/bin/sh
# tools/confirm_seed2.sh <Cxx> [check ids...] — like confirm_seed.sh, but the checks run against the seed's own worktree (PV_REPO=/tmp/seed_<Cxx>, change applied)
# instead of patching /repo: several confirmations, or a confirmation and other runs on /repo, can then proceed at the same time.
ID="$1"; shift
W=/tmp/seed_$ID
D=/verif/seeded/$ID
[ -f $W/patch.diff ] || { echo "no patch in $W"; exit 2; }
mkdir -p $D
cp $W/patch.diff $D/patch.diff; cp $W/demo_$ID.py $D/ 2>/dev/null; cp $W/meta.json $D/meta.json 2>/dev/null || echo '{}' > $D/meta.json
cd $W
git checkout -q -- pyvolutionary 2>/dev/null
PYTHONPATH=$W /venv/bin/python demo_$ID.py > $D/demo_without.log 2>&1; RC0=$?
git apply $D/patch.diff || { echo "patch does not apply to a clean worktree"; exit 2; }
PYTHONPATH=$W /venv/bin/python demo_$ID.py > $D/demo_with.log 2>&1; RC1=$?
PYTHONPATH=$W timeout 3000 /venv/bin/python -m pytest -q -p no:cacheprovider -n ${NPROC:-10} --timeout=900 > $D/pytest_with.log 2>&1; RCT=$?
TESTS=$(grep -E "passed|failed" $D/pytest_with.log | tail -1)
echo "$ID demo_without_rc=$RC0 demo_with_rc=$RC1 pytest_rc=$RCT [$TESTS]"
cd /verif
DET=""
for P in "$@"; do
  OUT=$(PV_REPO=$W VERIF_SEED=${VERIF_SEED:-0} ./check "$P" --tier quick 2>&1); RC=$?
  LINE="$P rc=$RC $(echo "$OUT" | grep -m1 '^VIOLATION') | $(echo "$OUT" | grep -m1 "^\[$P\]" | cut -c1-160)"
  if [ $RC -eq 1 ]; then
    R=$(echo "$OUT" | grep -m1 '^VIOLATION' | sed 's/.*replay=\([^ ]*\).*/\1/'); [ -f "$R" ] && LINE="$LINE
$(python3 -c "import json,sys; d=json.load(open('$R')); print('   ', d.get('signature', 'unproved'), '|', str(d.get('what', d.get('broken_obligations')))[:200])")"
  fi
  DET="$DET$LINE
"
done
DET=$(echo "$DET" | grep -v WARNING)
echo "$DET"
python3 - "$ID" "$RC0" "$RC1" "$RCT" "$TESTS" "$DET" "$@" <<'PY'
import json, sys
ID, rc0, rc1, rct, tests, det = sys.argv[1:7]
checks = sys.argv[7:]
p = f"/verif/seeded/{ID}/meta.json"
m = json.load(open(p))
m["confirmed_by_verifier"] = {"demo_exit_without_change": int(rc0), "demo_exit_with_change": int(rc1), "full_test_suite_with_change": {"exit": int(rct), "summary": tests},
                              "commands": [f"cd /tmp/seed_{ID} && PYTHONPATH=/tmp/seed_{ID} /venv/bin/python demo_{ID}.py (clean / patched)", "… -m pytest -q -p no:cacheprovider -n 10 --timeout=900 (patched)",
                                           f"PV_REPO=/tmp/seed_{ID} ./check <id> for " + " ".join(checks)]}
m["checks_run"] = {l.split()[0]: l for l in det.splitlines() if l[:1] == "C"}
m["detected_by"] = [l.split()[0] for l in det.splitlines() if l[:1] == "C" and "rc=1" in l]
json.dump(m, open(p, "w"), indent=1)
PY
rm -f $D/pytest_with.log.tmp
git -C /repo worktree remove --force $W 2>/dev/null
