#!/usr/bin/env python3
"""Fact translator: /repo's working tree (Python `ast` only, the package is never imported) → Lean data + facts.json.

For every optimizer package `pyvolutionary/<pkg>/` whose optimizer class is exported from `pyvolutionary/__init__.py`:
  agent discipline   : how agent objects are constructed (fromInit / fromAgent / fromBestOf / raw), stores to
                       .position/.cost/.fitness, model_copy(update=…) keys touching them, direct use of the objective
  config / task      : stores and mutating calls rooted at self._config / self._task (and aliases of their fields),
                       config dereferenced in __init__, canonical set_config_parameters
  fields             : private / framework fields observable at step entry or read in the per-run initialisation before
                       being written, versus the fields (re)initialised unconditionally per run
  randomness         : sources other than numpy's global generator
  direction          : reads of .fitness, of minmax / TaskType
  loops              : every `while`
plus `CoreFacts` about the framework itself (who references objective_function / solve / _fcn, seeding order, seed type).

Usage: translate.py [--repo /repo] [--out /verif/lean/PvModel/Generated] [--json /verif/.work/facts.json]
Files are only rewritten when their content changes (keeps `lake build` incremental).
"""
from __future__ import annotations
import argparse
import ast
import json
import os
import re
import sys
from pathlib import Path

U = ast.unparse
CORE_ATTRS = ("position", "cost", "fitness")
MUTATORS = {"append", "extend", "insert", "sort", "reverse", "pop", "remove", "clear", "update", "setdefault", "popitem", "fill", "put", "itemset", "resize"}
FRAMEWORK_FIELDS = ("_current_cycle", "_errors", "_error_diffs", "_best_agent", "_worst_agent", "_population", "_mode", "_workers", "_task")
COPY_WRAPPERS = {"list", "copy", "deepcopy", "array", "asarray", "tolist", "tuple", "sorted"}


def parse(path: Path):
    return ast.parse(path.read_text(), filename=str(path))


def exported_packages(repo: Path):
    init = parse(repo / "pyvolutionary" / "__init__.py")
    pkgs = []
    for n in init.body:
        if isinstance(n, ast.ImportFrom) and n.level == 1 and n.module and (repo / "pyvolutionary" / n.module).is_dir():
            pkgs.append(n.module)
    return pkgs


def agent_class_names(repo: Path):
    names = {"Agent"}
    trees = {f: parse(f) for f in (repo / "pyvolutionary").rglob("*.py")}
    changed = True
    while changed:
        changed = False
        for t in trees.values():
            for n in ast.walk(t):
                if isinstance(n, ast.ClassDef) and n.name not in names and any(isinstance(b, ast.Name) and b.id in names for b in n.bases):
                    names.add(n.name)
                    changed = True
    return names, trees


def import_aliases(tree):
    """local name -> original name for `from x import A as B`"""
    out = {}
    for n in ast.walk(tree):
        if isinstance(n, ast.ImportFrom):
            for a in n.names:
                out[a.asname or a.name] = a.name
    return out


def root_chain(node):
    """('self', ['_config', 'alpha']) for self._config.alpha[...] etc.; None if not rooted at a Name"""
    attrs = []
    while True:
        if isinstance(node, ast.Attribute):
            attrs.append(node.attr)
            node = node.value
        elif isinstance(node, ast.Subscript):
            attrs.append("[]")
            node = node.value
        elif isinstance(node, ast.Name):
            return node.id, list(reversed(attrs))
        else:
            return None


def is_uncopied(expr):
    """expr evaluates to the very object (no copy): attribute / name / subscript chains only"""
    return isinstance(expr, (ast.Attribute, ast.Name, ast.Subscript))


class Funcs(ast.NodeVisitor):
    """collect every function (incl. nested) of a module with its qualified name"""

    def __init__(self):
        self.stack, self.funcs = [], []

    def visit_ClassDef(self, n):
        self.stack.append(n.name)
        self.generic_visit(n)
        self.stack.pop()

    def visit_FunctionDef(self, n):
        self.stack.append(n.name)
        self.funcs.append((".".join(self.stack), n))
        self.generic_visit(n)
        self.stack.pop()

    visit_AsyncFunctionDef = visit_FunctionDef


def own_nodes(fn):
    """nodes of a function body, not descending into nested function definitions (they are visited separately)"""
    todo = list(fn.body)
    while todo:
        n = todo.pop()
        if isinstance(n, (ast.FunctionDef, ast.AsyncFunctionDef)):
            continue
        yield n
        for c in ast.iter_child_nodes(n):
            if isinstance(c, (ast.FunctionDef, ast.AsyncFunctionDef, ast.Lambda)) and c is not n:
                if isinstance(c, ast.Lambda):
                    todo.append(c)
                continue
            todo.append(c)


def is_optimizer_module(tree) -> bool:
    return any(isinstance(n, ast.ClassDef) and any("OptimizationAbstract" in U(b) for b in n.bases) for n in tree.body)


def analyse_package(repo: Path, pkg: str, agents: set[str], helper_rng: dict):
    """one fact record per optimizer class of the package: its own module plus the package's shared (non-optimizer) modules"""
    pdir = repo / "pyvolutionary" / pkg
    allmods = {p: parse(p) for p in sorted(pdir.glob("*.py")) if p.name != "__init__.py"}
    out = []
    for p, t in allmods.items():
        if is_optimizer_module(t):
            mods = {q: u for q, u in allmods.items() if q == p or not is_optimizer_module(u)}
            f = analyse_unit(repo, pkg, mods, agents, helper_rng)
            if f:
                out.append(f)
    return out


def analyse_unit(repo: Path, pkg: str, mods: dict, agents: set[str], helper_rng: dict):
    facts = {"package": pkg, "ctors": [], "coreStores": [], "badCopyUpdates": [], "objectiveRefs": [], "cfgWrites": [], "taskWrites": [],
             "rngOther": [], "fitnessReads": [], "directionReads": [], "whileLoops": [], "files": [str(p.relative_to(repo)) for p in mods]}
    opt_cls = None
    opt_file = None
    # private attributes bound (without a copy) to a mutable field of the configuration / task: `self.__x = self._config.<field>`
    cfg_attr_alias, task_attr_alias = set(), set()
    for path, tree in mods.items():
        for n in ast.walk(tree):
            if isinstance(n, ast.Assign) and is_uncopied(n.value):
                rc = root_chain(n.value)
                if rc and rc[0] == "self" and len(rc[1]) > 1 and rc[1][0] in ("_config", "_task"):
                    for t in n.targets:
                        for e in (t.elts if isinstance(t, (ast.Tuple, ast.List)) else [t]):
                            rt = root_chain(e)
                            if rt and rt[0] == "self" and len(rt[1]) == 1 and rt[1][0] not in ("_config", "_task"):
                                (cfg_attr_alias if rc[1][0] == "_config" else task_attr_alias).add(rt[1][0])
    # private attributes bound to a SHALLOW copy of the configuration / task (`self._config.model_copy()`, `copy.copy(self._config)`):
    # assigning a field of the copy is private, but its list / dict / sub-model values are still the caller's objects
    cfg_shallow, task_shallow = set(), set()

    def shallow_of(v):
        if isinstance(v, ast.Call):
            if isinstance(v.func, ast.Attribute) and v.func.attr in ("model_copy", "copy") and not any(kw.arg == "deep" for kw in v.keywords):
                rc = root_chain(v.func.value)
                if rc and rc[0] == "self" and rc[1] in (["_config"], ["_task"]):
                    return rc[1][0]
            if U(v.func) in ("copy.copy", "copy") and len(v.args) == 1:
                rc = root_chain(v.args[0])
                if rc and rc[0] == "self" and rc[1] in (["_config"], ["_task"]):
                    return rc[1][0]
        return None
    for path, tree in mods.items():
        for n in ast.walk(tree):
            if isinstance(n, ast.Assign) and shallow_of(n.value):
                for t in n.targets:
                    rt = root_chain(t)
                    if rt and rt[0] == "self" and len(rt[1]) == 1:
                        (cfg_shallow if shallow_of(n.value) == "_config" else task_shallow).add(rt[1][0])
    for path, tree in mods.items():
        rel = str(path.relative_to(repo))
        aliases = import_aliases(tree)
        imports_random = any((isinstance(n, ast.Import) and any(a.name == "random" for a in n.names)) or
                             (isinstance(n, ast.ImportFrom) and n.module == "random") for n in ast.walk(tree))
        for n in tree.body:
            if isinstance(n, ast.ClassDef) and any("OptimizationAbstract" in U(b) for b in n.bases):
                opt_cls, opt_file = n, rel
        if path.name == "models.py":
            # config / agent model declarations: only validators live here; scan for randomness and loops only
            pass
        fv = Funcs()
        fv.visit(tree)
        for qual, fn in fv.funcs:
            # local aliases of config/task fields and of agent positions (flow-insensitive within the function)
            cfg_alias, task_alias, pos_alias = set(), set(), set()
            cfg_shallow_loc, task_shallow_loc = set(), set()
            cfg_whole, task_whole = set(), set()      # local names bound to the configuration / task object itself (`config = self._config`)
            for n in own_nodes(fn):
                if isinstance(n, (ast.Assign, ast.AnnAssign)) and isinstance(getattr(n, "value", None), ast.Attribute):
                    tg = n.targets if isinstance(n, ast.Assign) else [n.target]
                    rcw = root_chain(n.value)
                    if rcw and rcw[0] == "self" and rcw[1] in (["_config"], ["_task"]):
                        for t_ in tg:
                            if isinstance(t_, ast.Name):
                                (cfg_whole if rcw[1] == ["_config"] else task_whole).add(t_.id)
                if isinstance(n, ast.Assign) and len(n.targets) == 1 and isinstance(n.targets[0], ast.Name) and shallow_of(n.value):
                    (cfg_shallow_loc if shallow_of(n.value) == "_config" else task_shallow_loc).add(n.targets[0].id)
                if isinstance(n, ast.Assign) and len(n.targets) == 1 and isinstance(n.targets[0], ast.Name) and is_uncopied(n.value):
                    rc0 = root_chain(n.value)
                    # a field of a shallow copy, bound to a local name: still the caller's object
                    if rc0 and rc0[0] == "self" and len(rc0[1]) >= 2 and rc0[1][0] in cfg_shallow:
                        cfg_alias.add(n.targets[0].id)
                    if rc0 and rc0[0] == "self" and len(rc0[1]) >= 2 and rc0[1][0] in task_shallow:
                        task_alias.add(n.targets[0].id)
                if isinstance(n, ast.Assign) and len(n.targets) == 1 and isinstance(n.targets[0], ast.Name) and is_uncopied(n.value):
                    rc = root_chain(n.value)
                    if rc and rc[0] == "self" and rc[1][:1] == ["_config"] and len(rc[1]) > 1:
                        cfg_alias.add(n.targets[0].id)
                    if rc and rc[0] == "self" and rc[1][:1] == ["_task"] and len(rc[1]) > 1:
                        task_alias.add(n.targets[0].id)
                    if rc and rc[1] and rc[1][-1] in CORE_ATTRS and rc[0] != "self":
                        pos_alias.add(n.targets[0].id)
                    if rc and rc[0] == "self" and len(rc[1]) == 1 and rc[1][0] in cfg_attr_alias:
                        cfg_alias.add(n.targets[0].id)
                    if rc and rc[0] == "self" and len(rc[1]) == 1 and rc[1][0] in task_attr_alias:
                        task_alias.add(n.targets[0].id)
                # `for x in (a, b, c)` over a literal of (aliases of) config / task fields binds x to each of them in turn
                if isinstance(n, (ast.For, ast.comprehension)) and isinstance(n.target, ast.Name) and isinstance(n.iter, (ast.Tuple, ast.List)):
                    for el in n.iter.elts:
                        rc = root_chain(el) if is_uncopied(el) else None
                        if not rc:
                            continue
                        if (rc[0] == "self" and rc[1][:1] == ["_config"] and len(rc[1]) > 1) or (rc[0] == "self" and len(rc[1]) == 1 and rc[1][0] in cfg_attr_alias) or (rc[0] in cfg_alias and not rc[1]):
                            cfg_alias.add(n.target.id)
                        if (rc[0] == "self" and rc[1][:1] == ["_task"] and len(rc[1]) > 1) or (rc[0] == "self" and len(rc[1]) == 1 and rc[1][0] in task_attr_alias) or (rc[0] in task_alias and not rc[1]):
                            task_alias.add(n.target.id)
            for n in own_nodes(fn):
                where = f"{rel}:{getattr(n, 'lineno', 0)}:{qual}"
                # ---- agent constructions
                if isinstance(n, ast.Call):
                    fname = n.func.id if isinstance(n.func, ast.Name) else None
                    if fname and aliases.get(fname, fname) in agents:
                        kind = "raw"
                        stars = [k for k in n.keywords if k.arg is None]
                        named = {k.arg for k in n.keywords if k.arg}
                        if len(stars) == 1 and not n.args and not (named & set(CORE_ATTRS)):
                            v = stars[0].value
                            if isinstance(v, ast.Call) and isinstance(v.func, ast.Attribute) and v.func.attr == "model_dump":
                                src = v.func.value
                                if isinstance(src, ast.Call) and U(src.func) in ("self._init_agent", "super()._init_agent"):
                                    kind = "fromInit"
                                elif isinstance(src, ast.Call) and U(src.func) in ("best_agent", "worst_agent"):
                                    kind = "fromBestOf"
                                elif isinstance(src, (ast.Name, ast.Attribute, ast.Subscript, ast.Call)):
                                    kind = "fromAgent"
                        facts["ctors"].append({"kind": kind, "cls": aliases.get(fname, fname), "where": where})
                    if isinstance(n.func, ast.Attribute) and n.func.attr in ("model_validate", "model_construct", "model_validate_json") and \
                            isinstance(n.func.value, ast.Name) and aliases.get(n.func.value.id, n.func.value.id) in agents:
                        facts["ctors"].append({"kind": "raw", "cls": n.func.value.id, "where": where})
                    if isinstance(n.func, ast.Attribute) and n.func.attr in ("model_copy", "copy"):
                        for k in n.keywords:
                            if k.arg == "update":
                                keys = [U(x).strip("'\"") for x in k.value.keys] if isinstance(k.value, ast.Dict) else ["?"]
                                bad = [x for x in keys if x in CORE_ATTRS or x == "?"]
                                if bad:
                                    facts["badCopyUpdates"].append({"keys": bad, "where": where})
                    if isinstance(n.func, ast.Name) and n.func.id == "setattr" and n.args:
                        tgt = U(n.args[0])
                        key = U(n.args[1]).strip("'\"") if len(n.args) > 1 else "?"
                        if tgt.startswith("self._config"):
                            facts["cfgWrites"].append({"what": f"setattr({tgt}, {key})", "where": where})
                        elif tgt.startswith("self._task"):
                            facts["taskWrites"].append({"what": f"setattr({tgt}, {key})", "where": where})
                        elif key in CORE_ATTRS or key == "?":
                            facts["coreStores"].append({"what": f"setattr({tgt}, {key})", "where": where})
                    # mutating method calls on config/task fields or aliases, or on an agent's core attribute
                    if isinstance(n.func, ast.Attribute) and n.func.attr in MUTATORS:
                        rc = root_chain(n.func.value)
                        if rc:
                            if rc[0] == "self" and rc[1][:1] == ["_config"] and len(rc[1]) > 1:
                                facts["cfgWrites"].append({"what": U(n.func), "where": where})
                            elif rc[0] == "self" and rc[1][:1] == ["_task"] and len(rc[1]) > 1:
                                facts["taskWrites"].append({"what": U(n.func), "where": where})
                            elif rc[0] == "self" and rc[1][:1] and rc[1][0] in cfg_attr_alias:
                                facts["cfgWrites"].append({"what": "attribute alias " + U(n.func), "where": where})
                            elif rc[0] == "self" and rc[1][:1] and rc[1][0] in task_attr_alias:
                                facts["taskWrites"].append({"what": "attribute alias " + U(n.func), "where": where})
                            elif rc[0] in cfg_whole and rc[1]:
                                facts["cfgWrites"].append({"what": "through the local name of the configuration " + U(n.func), "where": where})
                            elif rc[0] in task_whole and rc[1]:
                                facts["taskWrites"].append({"what": "through the local name of the task " + U(n.func), "where": where})
                            elif rc[0] in cfg_alias:
                                facts["cfgWrites"].append({"what": "alias " + U(n.func), "where": where})
                            elif rc[0] in task_alias:
                                facts["taskWrites"].append({"what": "alias " + U(n.func), "where": where})
                            elif (rc[0] == "self" and len(rc[1]) >= 2 and rc[1][0] in cfg_shallow) or (rc[0] in cfg_shallow_loc and rc[1]):
                                facts["cfgWrites"].append({"what": "through a shallow copy " + U(n.func), "where": where})
                            elif (rc[0] == "self" and len(rc[1]) >= 2 and rc[1][0] in task_shallow) or (rc[0] in task_shallow_loc and rc[1]):
                                facts["taskWrites"].append({"what": "through a shallow copy " + U(n.func), "where": where})
                            elif rc[0] != "self" and any(a in CORE_ATTRS for a in rc[1]):
                                facts["coreStores"].append({"what": U(n.func), "where": where})
                            elif rc[0] in pos_alias and not rc[1]:
                                facts["coreStores"].append({"what": "alias " + U(n.func), "where": where})
                    # randomness other than numpy's global generator
                    fn_src = U(n.func)
                    if (fn_src.startswith("random.") and imports_random) or fn_src in ("np.random.default_rng", "np.random.RandomState", "np.random.Generator",
                                                                                         "numpy.random.default_rng", "time.time", "time.time_ns", "time.perf_counter",
                                                                                         "os.urandom", "uuid.uuid4", "uuid.uuid1", "datetime.now", "datetime.datetime.now") or \
                            fn_src.startswith("secrets.") or (fn_src in ("hash", "id") and False):
                        facts["rngOther"].append({"what": fn_src, "where": where})
                    if isinstance(n.func, ast.Name) and n.func.id in helper_rng and helper_rng[n.func.id]:
                        facts["rngOther"].append({"what": f"helpers.{n.func.id} -> {helper_rng[n.func.id]}", "where": where})
                # ---- stores
                tgts = []
                if isinstance(n, ast.Assign):
                    for t in n.targets:
                        tgts += list(t.elts) if isinstance(t, (ast.Tuple, ast.List)) else [t]
                elif isinstance(n, (ast.AugAssign, ast.AnnAssign)):
                    tgts = [n.target]
                elif isinstance(n, ast.Delete):
                    tgts = list(n.targets)
                elif isinstance(n, (ast.For, ast.comprehension)):
                    tgts = [n.target]
                for t in tgts:
                    rc = root_chain(t)
                    if not rc or not isinstance(t, (ast.Attribute, ast.Subscript)):
                        continue
                    base, chain = rc
                    if base == "self" and chain[:1] == ["_config"] and len(chain) > 1:
                        facts["cfgWrites"].append({"what": U(t), "where": where})
                    elif base == "self" and chain[:1] == ["_task"] and len(chain) > 1:
                        facts["taskWrites"].append({"what": U(t), "where": where})
                    elif base == "self" and len(chain) > 1 and chain[0] in cfg_attr_alias:
                        facts["cfgWrites"].append({"what": "attribute alias " + U(t), "where": where})
                    elif base == "self" and len(chain) > 1 and chain[0] in task_attr_alias:
                        facts["taskWrites"].append({"what": "attribute alias " + U(t), "where": where})
                    elif (base == "self" and len(chain) >= 3 and chain[0] in cfg_shallow) or (base in cfg_shallow_loc and len(chain) >= 2):
                        facts["cfgWrites"].append({"what": "through a shallow copy " + U(t), "where": where})
                    elif (base == "self" and len(chain) >= 3 and chain[0] in task_shallow) or (base in task_shallow_loc and len(chain) >= 2):
                        facts["taskWrites"].append({"what": "through a shallow copy " + U(t), "where": where})
                    elif base in cfg_whole and chain:
                        facts["cfgWrites"].append({"what": "through the local name of the configuration " + U(t), "where": where})
                    elif base in task_whole and chain:
                        facts["taskWrites"].append({"what": "through the local name of the task " + U(t), "where": where})
                    elif base in cfg_alias and chain:
                        facts["cfgWrites"].append({"what": "alias " + U(t), "where": where})
                    elif base in task_alias and chain:
                        facts["taskWrites"].append({"what": "alias " + U(t), "where": where})
                    elif base != "self" and any(a in CORE_ATTRS for a in chain):
                        facts["coreStores"].append({"what": U(t), "where": where})
                    elif base in pos_alias and chain and chain[0] == "[]":
                        facts["coreStores"].append({"what": "alias " + U(t), "where": where})
                # ---- references
                if isinstance(n, ast.Attribute) and n.attr in ("objective_function", "solve", "_fcn"):
                    facts["objectiveRefs"].append({"what": U(n), "where": where})
                if isinstance(n, ast.Attribute) and n.attr == "fitness" and isinstance(n.ctx, ast.Load):
                    facts["fitnessReads"].append({"what": U(n), "where": where})
                if (isinstance(n, ast.Attribute) and n.attr == "minmax") or (isinstance(n, ast.Name) and n.id == "TaskType"):
                    facts["directionReads"].append({"what": U(n), "where": where})
                if isinstance(n, ast.While):
                    facts["whileLoops"].append({"test": U(n.test), "where": f"{rel}:{qual}"})
    if opt_cls is None:
        return None
    facts["cls"] = opt_cls.name
    facts["file"] = opt_file
    # ---- class-level facts
    meths = {m.name: m for m in opt_cls.body if isinstance(m, ast.FunctionDef)}

    def reach(roots):
        seen, todo = set(), [r for r in roots if r in meths]
        while todo:
            m = todo.pop()
            if m in seen:
                continue
            seen.add(m)
            for n in ast.walk(meths[m]):
                if isinstance(n, ast.Call) and isinstance(n.func, ast.Attribute) and isinstance(n.func.value, ast.Name) and \
                        n.func.value.id == "self" and n.func.attr in meths:
                    todo.append(n.func.attr)
        return seen

    def fields(ms, ctx):
        out = set()
        for m in ms:
            for n in ast.walk(meths[m]):
                if isinstance(n, ast.Attribute) and isinstance(n.value, ast.Name) and n.value.id == "self" and isinstance(n.ctx, ctx):
                    if n.attr.startswith("__") and not n.attr.endswith("__"):
                        out.add(n.attr)
        return out

    def uncond_writes(m):
        """fields (re)assigned by a top-level, unconditional, non-accumulating assignment in method m"""
        out = set()
        if m not in meths:
            return out
        for st in meths[m].body:
            if isinstance(st, (ast.Assign, ast.AnnAssign)):
                tgts = st.targets if isinstance(st, ast.Assign) else [st.target]
                for t in tgts:
                    for e in (t.elts if isinstance(t, ast.Tuple) else [t]):
                        if isinstance(e, ast.Attribute) and isinstance(e.value, ast.Name) and e.value.id == "self":
                            out.add(e.attr)
        return out

    def step_entry_reads(m, seen=None):
        """private fields whose value at the entry of method m can be observed: read before an unconditional top-level write
        (statement order, nested statements count as reads-and-conditional-writes; calls into self methods are followed)."""
        seen = seen or set()
        if m not in meths or m in seen:
            return set(), set()
        seen = seen | {m}
        written, entry = set(), set()
        for st in meths[m].body:
            # reads in this statement (including nested function bodies: closures run later but within the step)
            value_nodes = list(ast.walk(st))
            for n in value_nodes:
                if isinstance(n, ast.Attribute) and isinstance(n.value, ast.Name) and n.value.id == "self" and n.attr.startswith("__") \
                        and not n.attr.endswith("__") and isinstance(n.ctx, ast.Load) and n.attr not in written:
                    entry.add(n.attr)
                if isinstance(n, ast.Call) and isinstance(n.func, ast.Attribute) and isinstance(n.func.value, ast.Name) and \
                        n.func.value.id == "self" and n.func.attr in meths:
                    e2, _ = step_entry_reads(n.func.attr, seen)
                    entry |= (e2 - written)
            if isinstance(st, (ast.Assign, ast.AnnAssign)):
                tgts = st.targets if isinstance(st, ast.Assign) else [st.target]
                for t in tgts:
                    for e in (t.elts if isinstance(t, ast.Tuple) else [t]):
                        if isinstance(e, ast.Attribute) and isinstance(e.value, ast.Name) and e.value.id == "self":
                            written.add(e.attr)
        return entry, written

    init_path = ["before_initialization", "_init_population", "after_initialization"]
    init_writes = set()
    init_reads_before_write = set()
    for m in init_path:
        e, w = step_entry_reads(m)
        init_reads_before_write |= (e - init_writes)
        init_writes |= uncond_writes(m)
    step_entry = set()
    for m in ("optimization_step",):
        e, _ = step_entry_reads(m)
        step_entry |= e
    for m in ("_init_agent", "_greedy_select_agent"):
        if m in meths:
            e, _ = step_entry_reads(m)
            step_entry |= e
    # constants: assigned only in __init__, from literals / config-independent expressions
    ctor_assigned = {}
    if "__init__" in meths:
        for st in meths["__init__"].body:
            if isinstance(st, (ast.Assign, ast.AnnAssign)):
                tgts = st.targets if isinstance(st, ast.Assign) else [st.target]
                val = st.value
                for t in tgts:
                    if isinstance(t, ast.Attribute) and isinstance(t.value, ast.Name) and t.value.id == "self":
                        ctor_assigned[t.attr] = val
    written_elsewhere = fields([m for m in meths if m != "__init__"], ast.Store)
    mutated_elsewhere = set()
    for m in meths:
        if m == "__init__":
            continue
        for n in ast.walk(meths[m]):
            if isinstance(n, ast.Call) and isinstance(n.func, ast.Attribute) and n.func.attr in MUTATORS:
                rc = root_chain(n.func.value)
                if rc and rc[0] == "self" and rc[1] and rc[1][0].startswith("__"):
                    mutated_elsewhere.add(rc[1][0])
            if isinstance(n, (ast.Assign, ast.AugAssign)):
                for t in (n.targets if isinstance(n, ast.Assign) else [n.target]):
                    rc = root_chain(t)
                    if rc and rc[0] == "self" and len(rc[1]) > 1 and rc[1][0].startswith("__"):
                        mutated_elsewhere.add(rc[1][0])
    ctor_const = set()
    for f, val in ctor_assigned.items():
        if f.startswith("__") and f not in written_elsewhere and f not in mutated_elsewhere:
            names = {n.id for n in ast.walk(val) if isinstance(n, ast.Name)} if val is not None else set()
            if not (names & {"config", "self"}):
                ctor_const.add(f)
    leak = sorted((step_entry | init_reads_before_write) - init_writes - ctor_const)
    facts["stepEntryReads"] = sorted(step_entry)
    facts["initReadsBeforeWrite"] = sorted(init_reads_before_write)
    facts["initWrites"] = sorted(w for w in init_writes if w.startswith("__"))
    facts["ctorConst"] = sorted(ctor_const)
    facts["leakFields"] = leak
    facts["frameworkFieldWrites"] = sorted({n.attr for m in meths for n in ast.walk(meths[m]) if isinstance(n, ast.Attribute) and isinstance(n.value, ast.Name)
                                            and n.value.id == "self" and isinstance(n.ctx, ast.Store) and n.attr in ("_current_cycle", "_errors", "_error_diffs", "_config", "_task", "_mode", "_workers")
                                            and m != "set_config_parameters"}
                                           | {n.func.value.attr for m in meths for n in ast.walk(meths[m]) if isinstance(n, ast.Call) and isinstance(n.func, ast.Attribute)
                                              and n.func.attr in MUTATORS and isinstance(n.func.value, ast.Attribute) and isinstance(n.func.value.value, ast.Name)
                                              and n.func.value.value.id == "self" and n.func.value.attr in ("_errors", "_error_diffs") and m != "set_config_parameters"})
    # ctor reads config
    crc = []
    if "__init__" in meths:
        for n in ast.walk(meths["__init__"]):
            if isinstance(n, ast.Attribute):
                s = U(n)
                if s.startswith("self._config.") or (isinstance(n.value, ast.Name) and n.value.id == "config"):
                    crc.append(s)
            if isinstance(n, ast.Subscript) and U(n.value) in ("config", "self._config"):
                crc.append(U(n))
    facts["ctorReadsConfig"] = crc
    sc = meths.get("set_config_parameters")
    canon = False
    if sc:
        body = [st for st in sc.body if not (isinstance(st, ast.Expr) and isinstance(st.value, ast.Constant))]
        if len(body) == 1 and isinstance(body[0], ast.Assign) and U(body[0].targets[0]) == "self._config":
            v = body[0].value
            canon = isinstance(v, ast.Call) and isinstance(v.func, ast.Name) and v.func.id.endswith("Config") and not v.args and \
                len(v.keywords) == 1 and v.keywords[0].arg is None and U(v.keywords[0].value) == "parameters"
            facts["configClass"] = v.func.id if canon else None
    facts["setConfigCanonical"] = canon
    facts["overrides"] = sorted(m for m in meths if m in ("_init_agent", "_init_population", "_greedy_select_agent", "_greedy_select_population",
                                                            "_generate_agents", "_extend_and_trim_population", "_replace_and_trim_population", "optimize", "_fcn"))
    # direction reads other than as the argument of calculate_fitness: keep all, minus those inside calculate_fitness(...) calls
    return facts


def analyse_core(repo: Path):
    core = {}
    files = ["abstract.py", "models.py", "helpers.py", "utils.py", "hypertuner.py", "multitask.py"]
    refs = {"objective_function": [], "solve": [], "_fcn": []}
    whiles = []
    helper_rng = {}
    fw_rng = []
    for f in files:
        tree = parse(repo / "pyvolutionary" / f)
        fv = Funcs()
        fv.visit(tree)
        for qual, fn in fv.funcs:
            for n in own_nodes(fn):
                if isinstance(n, ast.Attribute) and n.attr in refs and isinstance(n.ctx, ast.Load):
                    refs[n.attr].append(f"{f}:{qual}")
                if isinstance(n, ast.While):
                    whiles.append({"test": U(n.test), "where": f"pyvolutionary/{f}:{qual}"})
            for n in ast.walk(fn):
                if isinstance(n, ast.Call):
                    src = U(n.func)
                    if src.startswith("random.") or src.startswith("secrets.") or src in (
                            "np.random.default_rng", "np.random.RandomState", "np.random.Generator", "np.random.SeedSequence", "numpy.random.default_rng",
                            "default_rng", "RandomState", "time.time", "time.time_ns", "time.perf_counter", "os.urandom", "uuid.uuid4", "uuid.uuid1"):
                        fw_rng.append({"what": src, "where": f"pyvolutionary/{f}:{qual}"})
            if f == "helpers.py" and "." not in qual:
                srcs = set()
                for n in ast.walk(fn):
                    if isinstance(n, ast.Call):
                        s = U(n.func)
                        if s.startswith("random."):
                            srcs.add("pyRandom")
                        if s in ("np.random.default_rng", "np.random.RandomState", "time.time", "os.urandom"):
                            srcs.add(s)
                helper_rng[qual] = sorted(srcs)
    hp = parse(repo / "pyvolutionary" / "helpers.py")
    shapes = {}
    for n in hp.body:
        if isinstance(n, ast.FunctionDef) and n.name in ("get_pool_results", "get_pool_executor"):
            shapes[n.name] = [U(st) for st in n.body if not (isinstance(st, ast.Expr) and isinstance(st.value, ast.Constant))]
    core["poolResultsShape"] = shapes.get("get_pool_results") == ["res = []", "for i in parallel.as_completed(executors):\n    res.append(i.result())", "return res"]
    core["poolExecutorShape"] = shapes.get("get_pool_executor") == ["return parallel.ThreadPoolExecutor(n_workers) if mode == ModeSolver.THREAD else parallel.ProcessPoolExecutor(n_workers)"]
    core["objectiveCallers"] = {k: sorted(set(v)) for k, v in refs.items()}
    core["whileLoops"] = whiles
    core["helperRng"] = {k: v for k, v in helper_rng.items() if v}
    core["frameworkRngOther"] = fw_rng
    # optimize(): order of the prologue
    ab = parse(repo / "pyvolutionary" / "abstract.py")
    opt = None
    init_agent = None
    for n in ast.walk(ab):
        if isinstance(n, ast.FunctionDef) and n.name == "optimize":
            opt = n
        if isinstance(n, ast.FunctionDef) and n.name == "_init_agent":
            init_agent = n
    order = []
    for st in opt.body:
        s = U(st)
        if s.startswith("if not self._config"):
            order.append("configCheck")
        elif "np.random.seed(task.seed)" in s:
            order.append("seed")
        elif s.startswith("if workers is not None"):
            order.append("workersCheck")
        elif s.startswith("if mode is not None"):
            order.append("modeCheck")
        elif s.startswith("self._task = task"):
            order.append("setTask")
        elif s.startswith("self._current_cycle = 1"):
            order.append("resetCycle")
        elif s.startswith("self._errors = []"):
            order.append("resetErrors")
        elif s.startswith("self._error_diffs = []"):
            order.append("resetDiffs")
        elif s.startswith("self.before_initialization()"):
            order.append("beforeInit")
        elif s.startswith("self._init_population()"):
            order.append("initPopulation")
        elif s.startswith("self.after_initialization()"):
            order.append("afterInit")
        elif isinstance(st, ast.While):
            order.append("loop")
        elif isinstance(st, ast.Return):
            order.append("return")
    core["prologueOrder"] = order
    ia = [U(st) for st in init_agent.body if not (isinstance(st, ast.Expr) and isinstance(st.value, ast.Constant))]
    core["initAgentShape"] = bool(len(ia) >= 2 and ia[0].startswith("position = self._task.initial_solution(position)") and ia[1].startswith("cost = self._fcn(position)")
                                  and any("Agent(position=position, cost=cost, fitness=calculate_fitness(cost, self._task.minmax))" in s for s in ia))
    mo = parse(repo / "pyvolutionary" / "models.py")
    seed_ann = None
    solve_shape = False
    initial_shape = False
    for n in ast.walk(mo):
        if isinstance(n, ast.ClassDef) and n.name == "Task":
            for st in n.body:
                if isinstance(st, ast.AnnAssign) and U(st.target) == "seed":
                    seed_ann = U(st.annotation)
                if isinstance(st, ast.FunctionDef) and st.name == "solve":
                    b = [U(x) for x in st.body]
                    solve_shape = b == ["solution = self.correct_solution(x)", "return self.objective_function(solution)"]
                if isinstance(st, ast.FunctionDef) and st.name == "initial_solution":
                    b = [U(x) for x in st.body if not (isinstance(x, ast.Expr) and isinstance(x.value, ast.Constant))]
                    initial_shape = bool(b) and b[-1] == "return self.correct_solution(solution if solution is not None else self.empty_solution())"
    core["seedAnnotation"] = seed_ann
    core["solveShape"] = solve_shape
    core["initialSolutionShape"] = initial_shape
    core["pins"] = source_pins(repo)
    return core, helper_rng


# functions whose model is hand-written (not translated by py2lean; the ones py2lean has since taken over — Task.get_variables / get_bounds /
# correct_solution / transform_solution, Multitask.__check_modes__ / __get_mode__ / __run__ / execute / __parallelize__, ParameterGrid.__iter__ / __len__, _generate_agents / _init_population — are no longer pinned: the
# refinement theorems R14 / R20 / R11 are about their text as it is now) and tied by the correspondence suites: the fingerprint of their
# source text (docstrings and comments removed) is part of the generated facts, so that the model is known to have been validated against
# exactly the text that is there now; a change of any of them breaks the pin obligation (Props/T14 T19 T20) and sends the check searching
PINNED = {
    "models.py": ["LabelEncoder", "EarlyStopping", "BaseOptimizationConfig", "Agent", "ContinuousMultiVariable", "DiscreteMultiVariable", "PermutationVariable",
                  "MultiObjectiveVariable", "BinaryVariable", "Task.validate_objective_weights", "Task.empty_solution"],
    "hypertuner.py": ["ParameterGrid.__init__", "ParameterGrid.__getitem__", "HyperTuner"],
    "multitask.py": ["Multitask.__set_keyword_arguments__", "Multitask.export_results"],
    "enums.py": ["ModeSolver", "TaskType", "ExportType"],
    "helpers.py": ["average_fitness"],
    "abstract.py": [],
}


def _strip_doc(node):
    for n in ast.walk(node):
        if isinstance(n, (ast.FunctionDef, ast.ClassDef, ast.AsyncFunctionDef)) and n.body and isinstance(n.body[0], ast.Expr) \
                and isinstance(n.body[0].value, ast.Constant) and isinstance(n.body[0].value.value, str):
            n.body = n.body[1:] or [ast.Pass()]
    return node


def source_pins(repo: Path):
    import hashlib
    out = []
    for f, quals in PINNED.items():
        tree = parse(repo / "pyvolutionary" / f)
        for q in quals:
            body, node = tree.body, None
            for part in q.split("."):
                node = next((n for n in body if isinstance(n, (ast.FunctionDef, ast.ClassDef)) and n.name == part), None)
                if node is None:
                    break
                body = node.body
            fp = "missing" if node is None else hashlib.sha256(ast.unparse(_strip_doc(node)).encode()).hexdigest()[:16]
            out.append((f"{f}:{q}", fp))
    return out


def lean_str(s: str) -> str:
    return '"' + s.replace("\\", "\\\\").replace('"', '\\"') + '"'


def lean_list(xs):
    return "[" + ", ".join(xs) + "]"


def render_lean(algos: list[dict], core: dict) -> tuple[str, str]:
    ids = [a["cls"] for a in algos]
    L = []
    L.append("/-! GENERATED by tools/translate.py from /repo's working tree — do not edit. -/")
    L.append("namespace Generated\n")
    L.append("inductive AlgoId where")
    for i in ids:
        L.append(f"  | {i}")
    L.append("deriving DecidableEq, Repr\n")
    L.append("""structure AlgoFacts where
  id : AlgoId
  ctorsFromInit : Nat
  ctorsFromAgent : Nat
  ctorsRaw : Nat
  coreStores : Nat
  badCopyUpdates : Nat
  objectiveRefs : Nat
  cfgWrites : Nat
  taskWrites : Nat
  ctorReadsConfig : Nat
  setConfigCanonical : Bool
  rngOther : Nat
  leakFields : Nat
  stepEntryReads : List Nat        -- private fields (ids into the class's own field list, see facts.json) observable at step entry
  initReadsBeforeWrite : List Nat  -- private fields read by the per-run initialisation before it writes them
  initWrites : List Nat            -- private fields unconditionally (re)assigned by the per-run initialisation
  ctorConst : List Nat             -- private fields assigned only in __init__, from config-independent expressions
  frameworkFieldWrites : Nat
  fitnessReads : Nat
  directionReads : Nat
  whileLoops : Nat
  overridesInitAgent : Bool
  overridesGreedyAgent : Bool
deriving Repr
""")
    L.append("def algos : List AlgoFacts := [")
    rows = []

    def fid(a, key):
        names = sorted(set(a["stepEntryReads"]) | set(a["initReadsBeforeWrite"]) | set(a["initWrites"]) | set(a["ctorConst"]))
        a["fieldIds"] = names
        return "[" + ", ".join(str(names.index(x)) for x in a[key]) + "]"
    for a in algos:
        kinds = [c["kind"] for c in a["ctors"]]
        rows.append("  { id := .%s, ctorsFromInit := %d, ctorsFromAgent := %d, ctorsRaw := %d, coreStores := %d, badCopyUpdates := %d, objectiveRefs := %d, "
                    "cfgWrites := %d, taskWrites := %d, ctorReadsConfig := %d, setConfigCanonical := %s, rngOther := %d, leakFields := %d, "
                    "stepEntryReads := %s, initReadsBeforeWrite := %s, initWrites := %s, ctorConst := %s, frameworkFieldWrites := %d, "
                    "fitnessReads := %d, directionReads := %d, whileLoops := %d, overridesInitAgent := %s, overridesGreedyAgent := %s }" % (
                        a["cls"], kinds.count("fromInit"), kinds.count("fromAgent") + kinds.count("fromBestOf"), kinds.count("raw"), len(a["coreStores"]),
                        len(a["badCopyUpdates"]), len(a["objectiveRefs"]), len(a["cfgWrites"]), len(a["taskWrites"]), len(a["ctorReadsConfig"]),
                        "true" if a["setConfigCanonical"] else "false", len(a["rngOther"]), len(a["leakFields"]),
                        fid(a, "stepEntryReads"), fid(a, "initReadsBeforeWrite"), fid(a, "initWrites"), fid(a, "ctorConst"), len(a["frameworkFieldWrites"]),
                        len(a["fitnessReads"]), len(a["directionReads"]), len(a["whileLoops"]),
                        "true" if "_init_agent" in a["overrides"] else "false", "true" if "_greedy_select_agent" in a["overrides"] else "false"))
    L.append(",\n".join(rows))
    L.append("]\n\nend Generated")
    C = []
    C.append("/-! GENERATED by tools/translate.py from /repo's working tree — do not edit. -/")
    C.append("namespace Generated\n")
    C.append("""inductive PStep where
  | configCheck | seed | workersCheck | modeCheck | setTask | resetCycle | resetErrors | resetDiffs
  | beforeInit | initPopulation | afterInit | loop | ret
deriving DecidableEq, Repr

structure CoreFacts where
  objectiveFunctionCallers : List String   -- functions of the framework that reference `objective_function`
  solveCallers : List String
  fcnCallers : List String
  prologue : List PStep
  initAgentShape : Bool                     -- `_init_agent` = initial_solution; _fcn; weights; Agent(position, cost, fitness(cost))
  solveShape : Bool                         -- `Task.solve` = correct_solution then objective_function
  initialSolutionShape : Bool               -- `Task.initial_solution` ends in correct_solution(given or random)
  seedIsInt : Bool                          -- declared type of `Task.seed` admits an int and nothing numpy rejects
  frameworkWhileLoops : Nat
  helperNonNumpyRng : Nat
  frameworkNonGlobalRng : Nat               -- calls in the framework files that draw from anything but numpy's global generator (stdlib random, default_rng(), RandomState(), time, urandom, uuid)
  poolResultsShape : Bool                   -- `get_pool_results` = collect `as_completed(executors)` into a list, nothing else
  poolExecutorShape : Bool                  -- `get_pool_executor` = ThreadPoolExecutor / ProcessPoolExecutor with n_workers
deriving Repr
""")
    C.append("/-- fingerprints (sha256 of the docstring-free, comment-free normalised source `ast.unparse`) of the functions and classes whose model is hand-written -/")
    C.append("def pins : List (String × String) := [\n" + ",\n".join("  (%s, %s)" % (lean_str(k), lean_str(v)) for k, v in core["pins"]) + "]\n")
    ps = {"return": "ret"}
    C.append("def core : CoreFacts :=")
    C.append("  { objectiveFunctionCallers := %s," % lean_list(lean_str(x) for x in core["objectiveCallers"]["objective_function"]))
    C.append("    solveCallers := %s," % lean_list(lean_str(x) for x in core["objectiveCallers"]["solve"]))
    C.append("    fcnCallers := %s," % lean_list(lean_str(x) for x in core["objectiveCallers"]["_fcn"]))
    C.append("    prologue := %s," % lean_list("." + ps.get(x, x) for x in core["prologueOrder"]))
    C.append("    initAgentShape := %s, solveShape := %s, initialSolutionShape := %s," % tuple("true" if core[k] else "false" for k in ("initAgentShape", "solveShape", "initialSolutionShape")))
    seed_ok = core["seedAnnotation"] is not None and "int" in core["seedAnnotation"] and "float" not in core["seedAnnotation"]
    C.append("    seedIsInt := %s, frameworkWhileLoops := %d, helperNonNumpyRng := %d, frameworkNonGlobalRng := %d, poolResultsShape := %s, poolExecutorShape := %s }" % (
        "true" if seed_ok else "false", len(core["whileLoops"]), len(core["helperRng"]), len(core["frameworkRngOther"]), "true" if core["poolResultsShape"] else "false", "true" if core["poolExecutorShape"] else "false"))
    C.append("\nend Generated")
    return "\n".join(L) + "\n", "\n".join(C) + "\n"


def write_if_changed(path: Path, text: str):
    if path.exists() and path.read_text() == text:
        return False
    path.parent.mkdir(parents=True, exist_ok=True)
    tmp = path.with_suffix(path.suffix + f".tmp{os.getpid()}")
    tmp.write_text(text)
    os.replace(tmp, path)
    return True


def translate(repo: Path):
    agents, _ = agent_class_names(repo)
    core, helper_rng = analyse_core(repo)
    algos = []
    for pkg in exported_packages(repo):
        algos += analyse_package(repo, pkg, agents, helper_rng)
    algos.sort(key=lambda a: a["cls"])
    return algos, core


def main():
    ap = argparse.ArgumentParser()
    here = Path(__file__).resolve().parents[1]
    ap.add_argument("--repo", default=os.environ.get("PV_REPO", "/repo"))
    ap.add_argument("--out", default=str(here / "lean" / "PvModel" / "Generated"))
    ap.add_argument("--json", default=str(here / ".work" / "facts.json"))
    args = ap.parse_args()
    algos, core = translate(Path(args.repo))
    a_lean, c_lean = render_lean(algos, core)
    ch1 = write_if_changed(Path(args.out) / "Algos.lean", a_lean)
    ch2 = write_if_changed(Path(args.out) / "Core.lean", c_lean)
    Path(args.json).parent.mkdir(parents=True, exist_ok=True)
    Path(args.json).write_text(json.dumps({"algos": algos, "core": core}, indent=1))
    print(f"translate: {len(algos)} classes; Algos.lean {'rewritten' if ch1 else 'unchanged'}; Core.lean {'rewritten' if ch2 else 'unchanged'}")


if __name__ == "__main__":
    main()
