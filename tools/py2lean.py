#!/usr/bin/env python3
"""py2lean — translate the structural functions of /repo's working tree into Lean definitions, statement by statement.

    python3 tools/py2lean.py [/repo]   ->  lean/PvModel/Generated/Src.lean

Unlike tools/translate.py (which extracts *facts* about 84 optimizer modules), this translator regenerates the *model itself*
for the functions listed in SPEC: the Python `ast` of each function body becomes a Lean `do` block over the primitives of
`PvModel/Py.lean` (Python slices with negative indices, `list.sort(key=, reverse=)`, tuple unpacking, `IndexError`,
`ValueError`, `as_completed`, …).  `Props/R*.lean` prove the hand-written model equal to these definitions, so a change of the
source changes a definition and breaks a refinement theorem (or the translation itself, reported as an untranslatable
construct), instead of having to be found by sampling.

The translation is deliberately literal: one Python statement = one `do` statement; mutable locals = `let mut`; a method's
reads of `self` are parameters and its writes are returned.  What is NOT derived from the source and is therefore trusted:
the typing SPEC below (parameter / field types, which Lean record a Python object maps to) and the primitive library.
Never imports the package.
"""
from __future__ import annotations
import ast
import json
import sys
from pathlib import Path

# ------------------------------------------------------------------------------------------------ types
# 'int' 'nat' 'bool' 'dir' 'mode' 'agent' 'num' 'R' 'coords' 'es' ; ('list', T) ('opt', T) ('tuple', [T…]) ; 'unit'


def L(t):
    return ("list", t)


def O(t):
    return ("opt", t)


def T(*ts):
    return ("tuple", list(ts))


def lean_type(t) -> str:
    if isinstance(t, tuple):
        if t[0] == "list":
            return f"List {lean_type_atom(t[1])}"
        if t[0] == "opt":
            return f"Option {lean_type_atom(t[1])}"
        if t[0] == "tuple":
            return " × ".join(lean_type_atom(x) for x in t[1])
        if t[0] == "dict":
            return f"List (String × {lean_type_atom(t[1])})"
    return {"int": "Int", "nat": "Nat", "bool": "Bool", "dir": "Dir", "mode": "Mode", "agent": "Agent", "num": "Num", "R": "R", "rho": "ρ",
            "coords": "List Coord", "es": "ES R", "unit": "Unit", "gen": "List Agent", "cfg": "StopCfg R", "book": "Book R",
            "A": "α", "str": "String", "task": "τ", "self": "Self R σ τ", "objval": "ObjVal", "raws": "List Raw", "tasksem": "TaskSem", "vd": "VarDecl", "var": "Var", "vdget": "VarGet", "raw": "Raw", "coord": "Coord", "bentry": "BEntry", "decoded": "TaskDecl.Decoded", "darg": "TaskDecl.DArg", "mmode": "Multi.Mode", "mobj": "Multi.Obj", "mcell": "Multi.RunDict ρ", "poolsize": "Unit", "poolkind": "Py.PoolKind"}[t]


def lean_type_atom(t) -> str:
    s = lean_type(t)
    return f"({s})" if " " in s else s


class Untranslatable(Exception):
    def __init__(self, node, why):
        self.node, self.why = node, why
        super().__init__(f"line {getattr(node, 'lineno', '?')}: {why}")


# attribute access on typed values: (type, attr) -> (lean term template, type)
ATTRS = {
    ("mobj", "name"): ("{0}.name", "str"),
    ("agent", "cost"): ("{0}.cost", "num"),
    ("agent", "position"): ("{0}.position", "coords"),
    ("agent", "fitness"): ("{0}.fitness", "num"),
    ("es", "min_delta"): ("{0}.minDelta", "R"),
    ("es", "patience"): ("({0}.patience : Int)", "int"),
    ("cfg", "fitness_error"): ("{0}.fe", O("R")),
    ("cfg", "max_cycles"): ("{0}.maxCycles", "int"),
    ("cfg", "early_stopping"): ("{0}.es", O("es")),
    ("tasksem", "minmax"): ("{0}.dir", "dir"),
    ("tasksem", "objective_weights"): ("{0}.weights", O(L("num"))),
}

EXC = {"ValueError": "Err.valueError", "IndexError": "Err.indexError", "TypeError": "Err.typeError"}

# the instance record of `optimize` (PvModel/Py.lean: Self): python attribute -> (record field, type)
SELF_FIELDS = {
    "_config": ("config", O("cfg")), "_debug": ("debug", "bool"), "_mode": ("mode", "mode"), "_workers": ("workers", "int"),
    "_task": ("task", O("task")), "_population": ("population", L("agent")), "_best_agent": ("best_agent", O("agent")),
    "_worst_agent": ("worst_agent", O("agent")), "_current_cycle": ("current_cycle", "int"), "_errors": ("errors", L("R")),
    "_error_diffs": ("error_diffs", L("R")),
}
# hooks: overridable methods / opaque library calls of `optimize` (PvModel/Py.lean: Hooks)
HOOK_METHODS = {"before_initialization": "before_initialization", "_init_population": "init_population",
                "after_initialization": "after_initialization", "optimization_step": "optimization_step"}

# ------------------------------------------------------------------------------------------------ the functions translated
# name: Lean name; src: (file, qualname); params: python name -> type (in source order, `self` excluded);
# selfr: python attribute path -> (lean parameter, type)   (read-only state of the instance)
# selfw: python attribute path -> (lean parameter, type)   (state the method reads and writes; returned after the value)
# ret: type of the returned value ('unit' for procedures); R: uses rate arithmetic (`ar : Arith R`)
# opaque: python callee -> (lean parameter name, lean type, result type): functions left abstract (numerics)
SPEC = [
    dict(name="sort_by_cost", src=("helpers.py", "sort_by_cost"), params={"population": L("agent"), "task_type": "dir"}, ret=L("agent")),
    dict(name="sort_by_cost_indexes", src=("helpers.py", "sort_by_cost_indexes"), params={"population": L("agent"), "task_type": "dir"}, ret=L("nat")),
    dict(name="sort_and_trim", src=("helpers.py", "sort_and_trim"), params={"population": L("agent"), "population_size": "int"}, ret=L("agent")),
    dict(name="best_agents", src=("helpers.py", "best_agents"), params={"population": L("agent"), "n_best": "int", "task_type": "dir"}, ret=L("agent")),
    dict(name="best_agents_indexes", src=("helpers.py", "best_agents_indexes"), params={"population": L("agent"), "n_best": "int", "task_type": "dir"}, ret=L("nat")),
    dict(name="worst_agents", src=("helpers.py", "worst_agents"), params={"population": L("agent"), "n_worst": "int", "task_type": "dir"}, ret=L("agent")),
    dict(name="worst_agents_indexes", src=("helpers.py", "worst_agents_indexes"), params={"population": L("agent"), "n_worst": "int", "task_type": "dir"}, ret=L("nat")),
    dict(name="best_agent", src=("helpers.py", "best_agent"), params={"population": L("agent"), "task_type": "dir"}, ret="agent"),
    dict(name="best_agent_index", src=("helpers.py", "best_agent_index"), params={"population": L("agent"), "task_type": "dir"}, ret="nat"),
    dict(name="worst_agent", src=("helpers.py", "worst_agent"), params={"population": L("agent"), "task_type": "dir"}, ret="agent"),
    dict(name="worst_agent_index", src=("helpers.py", "worst_agent_index"), params={"population": L("agent"), "task_type": "dir"}, ret="nat"),
    dict(name="special_agents", src=("helpers.py", "special_agents"),
         params={"population": L("agent"), "n_best": O("int"), "n_worst": O("int"), "task_type": "dir"}, ret=T(L("agent"), L("agent")),
         locals={"best": L("agent"), "worst": L("agent")}),
    dict(name="get_pool_results", src=("helpers.py", "get_pool_results"), params={"executors": L("A")}, ret=L("A"), pool=True, poly=True, locals={"res": L("A")}),
    dict(name="find_centers", src=("helpers.py", "find_centers"), params={"pop_groups": L(L("agent"))}, ret=L("agent")),
    dict(name="greedy_select_agent", src=("abstract.py", "OptimizationAbstract._greedy_select_agent"), params={"agent": "agent", "new_agent": "agent"}, ret="agent"),
    dict(name="greedy_select_population", src=("abstract.py", "OptimizationAbstract._greedy_select_population"), params={"new_population": L("agent")},
         selfr={"_mode": ("self_mode", "mode"), "_workers": ("self_workers", "int")}, selfw={"_population": ("self_population", L("agent"))}, ret="unit", pool=True),
    dict(name="extend_and_trim_population", src=("abstract.py", "OptimizationAbstract._extend_and_trim_population"), params={"new_population": L("agent")},
         selfr={"_config.population_size": ("population_size", "int")}, selfw={"_population": ("self_population", L("agent"))}, ret="unit"),
    dict(name="replace_and_trim_population", src=("abstract.py", "OptimizationAbstract._replace_and_trim_population"), params={"new_population": L("agent")},
         selfr={"_config.population_size": ("population_size", "int")}, selfw={"_population": ("self_population", L("agent"))}, ret="unit"),
    dict(name="generate_group_population", src=("abstract.py", "OptimizationAbstract._generate_group_population"),
         params={"n_groups": "int", "n_agents": "int", "with_residual": "bool"},
         selfr={"_config.population_size": ("population_size", "int"), "_population": ("self_population", L("agent"))}, ret=L(L("agent")),
         locals={"groups": L(L("agent"))}),
    dict(name="should_stop", src=("abstract.py", "OptimizationAbstract.__should_stop__"), params={"current_error": "R"},
         selfr={"_config": ("cfg", "cfg"), "_current_cycle": ("self_cycle", "int"), "_error_diffs": ("self_diffs", L("R"))}, ret="bool", R=True),
    dict(name="error_check", src=("abstract.py", "OptimizationAbstract.__error_check__"), params={},
         selfr={"_config": ("cfg", "cfg"), "_current_cycle": ("self_cycle", "int"), "_population": ("self_population", L("agent"))},
         selfw={"_errors": ("self_errors", L("R")), "_error_diffs": ("self_diffs", L("R"))}, ret=T("R", "R", "bool"), R=True,
         opaque={"average_fitness": ("average_fitness", "List Agent → R", "R")}, consts={"1": "one"}),
    dict(name="population_init", src=("models.py", "Population.__init__"), kwargs={"agents": L("agent"), "task_type": "dir"}, params={}, ret=L("agent"),
         ret_fields=["agents"], nested={"refine_agent": dict(params={"a": "agent", "tt": "dir"}, ret="agent")}),
    dict(name="result_init", src=("models.py", "OptimizationResult.__init__"),
         kwargs={"evolution": L(L("agent")), "rates": L("R"), "best_solution": O("agent"), "task_type": "dir"}, params={},
         ret=T(L(L("agent")), L("R"), O("agent"), "dir"), ret_fields=["evolution", "rates", "best_solution", "task_type"], Rtype=True,
         nested={"refine_best_solution": dict(params={"a": "agent", "tt": "dir"}, ret="agent")}),
    dict(name="optimizer_init", src=("abstract.py", "OptimizationAbstract.__init__"), params={"config": O("cfg"), "debug": "bool"}, ret="unit", selfrec=True, hooks=True, R=True),
    dict(name="optimize", src=("abstract.py", "OptimizationAbstract.optimize"), params={"task": "task", "mode": O("str"), "workers": O("int")},
         ret=T(L(L("agent")), L("R"), O("agent"), "dir"), R=True, selfrec=True, hooks=True, fuel=True,
         opaque={"average_fitness": ("average_fitness", "List Agent → R", "R")}, consts={"1": "one"},
         locals={"evolution": L(L("agent"))}),
    dict(name="cont_get_bounds", src=("models.py", "ContinuousVariable.get_bounds"), params={}, ret=T("num", "num"),
         selfr={"lower_bound": ("lower_bound", "num"), "upper_bound": ("upper_bound", "num")}),
    dict(name="cont_correct", src=("models.py", "ContinuousVariable.correct"), params={"value": "num"}, ret="num",
         selfr={"lower_bound": ("lower_bound", "num"), "upper_bound": ("upper_bound", "num")}),
    dict(name="cont_decode", src=("models.py", "ContinuousVariable.decode"), params={"value": "num"}, ret="num"),
    dict(name="cont_size", src=("models.py", "ContinuousVariable.size"), params={}, ret="int"),
    dict(name="cont_has_children", src=("models.py", "ContinuousVariable.has_children"), params={}, ret="bool"),
    dict(name="disc_get_bounds", src=("models.py", "DiscreteVariable.get_bounds"), params={}, ret=T("int", "int"), poly=True,
         selfr={"choices": ("choices", L("A"))}),
    dict(name="disc_correct", src=("models.py", "DiscreteVariable.correct"), params={"value": "num"}, ret="int", poly=True,
         selfr={"choices": ("choices", L("A"))}),
    dict(name="disc_decode", src=("models.py", "DiscreteVariable.decode"), params={"value": "num"}, ret="A", poly=True,
         selfr={"choices": ("choices", L("A"))}),
    dict(name="disc_size", src=("models.py", "DiscreteVariable.size"), params={}, ret="int"),
    dict(name="disc_has_children", src=("models.py", "DiscreteVariable.has_children"), params={}, ret="bool"),
    dict(name="perm_correct", src=("models.py", "PermutationVariable.correct"), params={"value": L("num")}, ret=L("nat")),
    dict(name="perm_size", src=("models.py", "PermutationVariable.size"), params={}, ret="int"),
    dict(name="perm_has_children", src=("models.py", "PermutationVariable.has_children"), params={}, ret="bool"),
    dict(name="task_solve", src=("models.py", "Task.solve"), params={"x": "raws"}, ret="objval", selfobj=("T", "tasksem")),
    dict(name="task_initial_solution", src=("models.py", "Task.initial_solution"), params={"solution": O("raws")}, ret="coords", selfobj=("T", "tasksem"),
         extra=[("empty_solution", "List Raw")]),
    dict(name="fcn", src=("abstract.py", "OptimizationAbstract._fcn"), params={"x": "coords"}, ret="objval", selfr={"_task": ("T", "tasksem")}),
    dict(name="init_agent", src=("abstract.py", "OptimizationAbstract._init_agent"), params={"position": O("raws")}, ret="agent", selfr={"_task": ("T", "tasksem")},
         extra=[("empty_solution", "List Raw"), ("calculate_fitness", "Num → Dir → Num")]),
    dict(name="grid_iter", src=("hypertuner.py", "ParameterGrid.__iter__"), params={}, ret=L(("dict", "A")), poly=True, generator=True, grid=True,
         selfr={"param_grid": ("param_grid", L(("dict", L("A"))))}),
    dict(name="grid_len", src=("hypertuner.py", "ParameterGrid.__len__"), params={}, ret="int", poly=True, grid=True,
         selfr={"param_grid": ("param_grid", L(("dict", L("A"))))}),
    dict(name="multitask_init", src=("multitask.py", "Multitask.__init__"), params={"algorithms": L("mobj"), "tasks": L("mobj"), "modes": O(L("str")), "n_workers": O("int")},
         ret="unit", multitask=True, rho_type=True, kwargs_empty=True,
         selfw={"_algorithms": ("self_algorithms", L("mobj")), "_tasks": ("self_tasks", L("mobj")), "_n_algorithms": ("n_algorithms", "int"), "_m_tasks": ("m_tasks", "int"),
                "_modes": ("self_modes", O(L(L("str")))), "_n_workers": ("self_n_workers", O("int")), "_debug": ("self_debug", O("bool")),
                "_df2": ("self_df2", L(("dict", L("mcell"))))}),
    dict(name="multitask_debug_results", src=("multitask.py", "Multitask.__debug_results__"), params={"result": "mcell", "optimizer_name": "str"}, ret="unit",
         selfr={"_debug": ("self_debug", "bool")}, multitask=True, rho=True),
    dict(name="multitask_run", src=("multitask.py", "Multitask.__run__"), params={"id_trial": "int", "optimizer": "mobj", "task": "mobj", "mode": "mmode"}, ret="mcell",
         selfr={"_n_workers": ("n_workers", O("int"))}, multitask=True, rho=True, optimize_ctx=["id_trial"]),
    dict(name="multitask_parallelize", src=("multitask.py", "Multitask.__parallelize__"),
         params={"optimizer": "mobj", "task": "mobj", "mode": "mmode", "n_cpus": "poolsize", "trial_list": L("int")}, ret=L("mcell"),
         selfr={"_debug": ("self_debug", "bool"), "_n_workers": ("n_workers", O("int"))}, multitask=True, rho=True, optimize_ctx=[], locals={"best_fit_trials": L("mcell")}),
    dict(name="multitask_execute", src=("multitask.py", "Multitask.execute"), params={"n_trials": "int", "n_jobs": "int", "debug": "bool"}, ret="unit",
         selfr={"_algorithms": ("algorithms", L("mobj")), "_tasks": ("tasks", L("mobj")), "_modes": ("modes", O(L(L("str")))), "_n_workers": ("n_workers", O("int"))},
         selfw={"_debug": ("self_debug", "bool"), "_df2": ("self_df2", L(("dict", L("mcell"))))}, multitask=True, rho=True, optimize_ctx=[],
         locals={"best_fit_optimizer_results": ("dict", L("mcell"))}),
    dict(name="generate_agents", src=("abstract.py", "OptimizationAbstract._generate_agents"), params={"n_agents": "int"}, ret=L("agent"), pool=True, draws=True,
         selfr={"_mode": ("self_mode", "mode"), "_workers": ("self_workers", "int"), "_task": ("T", "tasksem")},
         extra=[("calculate_fitness", "Num → Dir → Num")]),
    dict(name="init_population", src=("abstract.py", "OptimizationAbstract._init_population"), params={}, ret="unit", pool=True, draws=True,
         selfr={"_mode": ("self_mode", "mode"), "_workers": ("self_workers", "int"), "_task": ("T", "tasksem"), "_config.population_size": ("population_size", "int")},
         selfw={"_population": ("self_population", L("agent"))}, extra=[("calculate_fitness", "Num → Dir → Num")]),
    dict(name="contmulti_get_bounds", src=("models.py", "ContinuousMultiVariable.get_bounds"), params={}, ret=T(L("num"), L("num")),
         selfr={"lower_bounds": ("lower_bounds", L("num")), "upper_bounds": ("upper_bounds", L("num"))}),
    dict(name="contmulti_children", src=("models.py", "ContinuousMultiVariable.__init__"), params={}, ret=L("var"), init_children=True,
         selfr={"lower_bounds": ("lower_bounds", L("num")), "upper_bounds": ("upper_bounds", L("num"))}),
    dict(name="contmulti_size", src=("models.py", "ContinuousMultiVariable.size"), params={}, ret="int",
         selfr={"lower_bounds": ("lower_bounds", L("num"))}),
    dict(name="contmulti_has_children", src=("models.py", "ContinuousMultiVariable.has_children"), params={}, ret="bool"),
    dict(name="multiobj_get_bounds", src=("models.py", "MultiObjectiveVariable.get_bounds"), params={}, ret=T(L("num"), L("num")),
         selfr={"lower_bounds": ("lower_bounds", L("num")), "upper_bounds": ("upper_bounds", L("num"))}),
    dict(name="multiobj_children", src=("models.py", "MultiObjectiveVariable.__init__"), params={}, ret=L("var"), init_children=True,
         selfr={"lower_bounds": ("lower_bounds", L("num")), "upper_bounds": ("upper_bounds", L("num"))}),
    dict(name="multiobj_size", src=("models.py", "MultiObjectiveVariable.size"), params={}, ret="int",
         selfr={"lower_bounds": ("lower_bounds", L("num"))}),
    dict(name="multiobj_has_children", src=("models.py", "MultiObjectiveVariable.has_children"), params={}, ret="bool"),
    dict(name="discmulti_children", src=("models.py", "DiscreteMultiVariable.__init__"), params={}, ret=L("var"), init_children=True, poly=True,
         selfr={"choices": ("choices", L(L("A")))}),
    dict(name="discmulti_size", src=("models.py", "DiscreteMultiVariable.size"), params={}, ret="int", poly=True, selfr={"choices": ("choices", L(L("A")))}),
    dict(name="discmulti_has_children", src=("models.py", "DiscreteMultiVariable.has_children"), params={}, ret="bool"),
    dict(name="binary_children", src=("models.py", "BinaryVariable.__init__"), params={}, ret=L("var"), init_children=True, selfr={"n_vars": ("n_vars", "int")}),
    dict(name="binary_size", src=("models.py", "BinaryVariable.size"), params={}, ret="int", selfr={"n_vars": ("n_vars", "int")}),
    dict(name="binary_has_children", src=("models.py", "BinaryVariable.has_children"), params={}, ret="bool"),
    dict(name="perm_get_bounds", src=("models.py", "PermutationVariable.get_bounds"), params={}, ret=T(L("num"), L("num")), poly=True,
         selfr={"items": ("items", L("A"))}, extra=[("permUb", "Nat → Num")], floats={"n_items - 0.0001": ("(permUb n_items.toNat)", "num")}),
    dict(name="binary_get_bounds", src=("models.py", "BinaryVariable.get_bounds"), params={}, ret=T(L("num"), L("num")),
         selfr={"n_vars": ("n_vars", "int")}, floats={"2 - np.finfo(float).eps": ("VarDecl.binaryUb", "num")}),
    dict(name="discmulti_get_bounds", src=("models.py", "DiscreteMultiVariable.get_bounds"), params={}, ret=T(L("num"), L("num")), poly=True,
         selfr={"choices": ("choices", L(L("A")))}, children=("discmulti_children", "choices"), uses_var_dispatch=True),
    dict(name="task_get_bounds", src=("models.py", "Task.get_bounds"), params={}, ret=T(L("bentry"), L("bentry")), selfr={"variables": ("variables", L("vd"))},
         uses_dispatch=True, extra=[("permUb", "Nat → Num")], locals={"lb": L("bentry"), "ub": L("bentry")}),
    dict(name="task_transform_solution", src=("models.py", "Task.transform_solution"), params={"x": "coords"}, ret=("dict", "decoded"),
         selfr={"variables": ("variables", L("vd"))}, uses_dispatch=True, extra=[("name_of", "VarDecl → String")], locals={"solution": ("dict", "decoded")}),
    dict(name="contmulti_correct", src=("models.py", "ContinuousMultiVariable.correct"), params={"value": L("raw")}, ret=L("coord"), uses_dispatch=True,
         selfr={"lower_bounds": ("lower_bounds", L("num")), "upper_bounds": ("upper_bounds", L("num"))}, children=("contmulti_children", ["lower_bounds", "upper_bounds"])),
    dict(name="multiobj_correct", src=("models.py", "MultiObjectiveVariable.correct"), params={"value": L("raw")}, ret=L("coord"), uses_dispatch=True,
         selfr={"lower_bounds": ("lower_bounds", L("num")), "upper_bounds": ("upper_bounds", L("num"))}, children=("multiobj_children", ["lower_bounds", "upper_bounds"])),
    dict(name="discmulti_correct", src=("models.py", "DiscreteMultiVariable.correct"), params={"value": L("raw")}, ret=L("coord"), uses_dispatch=True, poly=True,
         selfr={"choices": ("choices", L(L("A")))}, children=("discmulti_children", "choices")),
    dict(name="binary_correct", src=("models.py", "BinaryVariable.correct"), params={"value": L("raw")}, ret=L("coord"), uses_dispatch=True,
         selfr={"n_vars": ("n_vars", "int")}, children=("binary_children", "n_vars")),
    dict(name="get_pool_executor", src=("helpers.py", "get_pool_executor"), params={"mode": "mode", "n_workers": O("int")}, ret="poolkind"),
    dict(name="calculate_fitness", src=("helpers.py", "calculate_fitness"), params={"value": "num", "task_type": "dir"}, ret="num", float_ops=True),
    dict(name="task_init", src=("models.py", "Task.__init__"), kwargs={"variables": L("vd"), "space_dimension": "int"}, params={}, ret=T(L("vd"), "int"),
         ret_fields=["variables", "space_dimension"], uses_dispatch=True, after_init_ok=["self._EPS = np.finfo(float).eps"]),
    dict(name="task_get_variables", src=("models.py", "Task.get_variables"), params={}, ret=L("var"), selfr={"variables": ("variables", L("vd"))}, uses_dispatch=True),
    dict(name="task_correct_solution", src=("models.py", "Task.correct_solution"), params={"solution": "raws"}, ret="coords",
         selfr={"variables": ("variables", L("vd"))}, uses_dispatch=True),
    dict(name="check_input", src=("multitask.py", "Multitask.__check_input__"), params={"name": "str", "kind": "str", "values": O(L("A"))}, poly=True,
         selfr={"_n_algorithms": ("n_algorithms", "int"), "_m_tasks": ("m_tasks", "int")}, ret=O(L(L("A"))), tuple_params=["values"]),
    dict(name="check_modes", src=("multitask.py", "Multitask.__check_modes__"), params={}, ret="unit", selfr={"_modes": ("modes", O(L(L("str"))))}, multitask=True),
    dict(name="get_mode", src=("multitask.py", "Multitask.__get_mode__"), params={"id_optimizer": "nat", "id_prob": "nat"}, ret="mmode",
         selfr={"_modes": ("modes", O(L(L("str"))))}, multitask=True),
    dict(name="agent_trend", src=("utils.py", "agent_trend"), params={"result": "result", "idx": "int", "iters": O(L("int"))}, ret=L("num")),
    dict(name="best_agent_trend", src=("utils.py", "best_agent_trend"), params={"result": "result", "iters": O(L("int"))}, ret=L("num")),
    dict(name="agent_position", src=("utils.py", "agent_position"), params={"result": "result", "idx": "int", "iters": O(L("int"))}, ret=L("coords")),
    dict(name="best_agent_position", src=("utils.py", "best_agent_position"), params={"result": "result", "iters": O(L("int"))}, ret=L("coords")),
]
# `result: OptimizationResult` is passed as its two fields read by utils
RESULT_FIELDS = {"evolution": ("result_evolution", L(L("agent"))), "task_type": ("result_task_type", "dir")}


def find_function(tree, qual):
    parts = qual.split(".")
    body = tree.body
    node = None
    for p in parts:
        node = next((n for n in body if isinstance(n, (ast.FunctionDef, ast.ClassDef)) and n.name == p), None)
        if node is None:
            return None
        body = node.body
    return node


class Fn:
    """translation of one function"""

    def __init__(self, spec, node, table, effectful):
        self.spec, self.node, self.table, self.effectful = spec, node, table, effectful
        self.is_method = "." in spec["src"][1]
        self.eff = spec["name"] in effectful
        self.selfr = dict(spec.get("selfr", {}))
        self.selfw = dict(spec.get("selfw", {}))
        self.fresh = 0
        self.lines: list[str] = []
        self.selfrec = bool(spec.get("selfrec"))
        self.narrow = {}
        self.var_types = {}
        self.cur_pad = "  "
        self.in_lambda = 0
        self.loop_defs: list[str] = []

    # ---- helpers
    def err(self, node, why):
        raise Untranslatable(node, why)

    def ret_type(self):
        r = self.spec["ret"]
        if self.spec.get("selfrec"):
            return T(r, "self")
        ws = [t for _, t in self.selfw.values()]
        if not ws:
            return r
        if r == "unit":
            return ws[0] if len(ws) == 1 else T(*ws)
        return T(r, *ws)

    def ret_term(self, val):
        if self.selfrec:
            return f"({'()' if val is None else val}, self)"
        ws = [n for n, _ in self.selfw.values()]
        if not ws:
            return val if val is not None else "()"
        items = ([val] if val is not None else []) + ws
        return items[0] if len(items) == 1 else "(" + ", ".join(items) + ")"

    def self_path(self, node):
        """`self.a.b` -> 'a.b' or None"""
        parts = []
        while isinstance(node, ast.Attribute):
            parts.append(node.attr)
            node = node.value
        if isinstance(node, ast.Name) and node.id == "self":
            return ".".join(reversed(parts))
        return None

    # ---- expressions: returns (term, type)
    def E(self, n, env, want=None):
        t, ty = self._E(n, env, want)
        return t, ty

    def coerce(self, term, ty, want, node):
        if want is None or ty == want or norm_type(ty) == norm_type(want):
            return term
        if isinstance(want, tuple) and want[0] == "opt":
            if ty == "none":
                return "none"
            if ty == want[1] or (ty == "intlit" and want[1] in ("int", "nat")):
                return f"(some {term})"
        if ty == "intlit" and want in ("int", "nat"):
            return term
        if ty == "intlit" and want == "R":
            return self.const_R(term, node)
        if ty == "nat" and want == "int":
            return f"({term} : Int)"
        if ty == "emptylist" and isinstance(want, tuple) and want[0] == "list":
            return "[]"
        if ty == "emptydict" and isinstance(want, tuple) and want[0] == "dict":
            return "[]"
        if ty == "coords" and want == "raws":
            return f"({atom(term)}.map Coord.toRaw)"
        if ty == "coords" and want == O("raws"):
            return f"(some ({atom(term)}.map Coord.toRaw))"
        if ty == "num" and want == "objval":
            return f"(ObjVal.single {atom(term)})"
        if ty == L("num") and want == "objval":
            return f"(ObjVal.multi {atom(term)})"
        self.err(node, f"type mismatch: have {ty}, want {want}")

    def const_R(self, lit, node):
        if lit == "0":
            return "ar.zero"
        c = self.spec.get("consts", {}).get(lit)
        if c:
            return c
        self.err(node, f"numeric literal {lit} in rate arithmetic")

    def tasksem_term(self, node):
        so = self.spec.get("selfobj")
        if so and so[1] == "tasksem":
            return so[0]
        for path, (nm, ty) in self.selfr.items():
            if ty == "tasksem":
                return nm
        self.err(node, "no task in scope")

    def _E(self, n, env, want=None):
        key = ast.dump(n) if isinstance(n, (ast.Attribute, ast.Name)) else None
        if key is not None and key in self.narrow:
            return self.narrow[key]
        if isinstance(n, ast.IfExp):
            r = self.ifexp_narrow(n, env)
            if r is not None:
                return r
        if isinstance(n, ast.Constant):
            if n.value is None:
                return "none", "none"
            if isinstance(n.value, bool):
                return ("true" if n.value else "false"), "bool"
            if isinstance(n.value, int):
                return str(n.value), "intlit"
            if isinstance(n.value, str) and self.spec.get("multitask"):
                return json.dumps(n.value), "str"
            self.err(n, f"constant {n.value!r}")
        if isinstance(n, ast.JoinedStr):
            # a name / message string: not modelled, but it must not do anything
            if any(isinstance(x, (ast.Call, ast.NamedExpr, ast.Await, ast.Yield)) for x in ast.walk(n)):
                self.err(n, "f-string with a call inside")
            if self.spec.get("multitask"):
                # the string itself matters (a dictionary key): literal parts and string-valued fields, concatenated
                parts = []
                for v in n.values:
                    if isinstance(v, ast.Constant) and isinstance(v.value, str):
                        parts.append(json.dumps(v.value))
                    elif isinstance(v, ast.FormattedValue) and v.conversion == -1 and v.format_spec is None:
                        t, ty = self.E(v.value, env)
                        if ty != "str":
                            self.err(n, f"f-string field of type {ty}")
                        parts.append(t)
                    else:
                        self.err(n, "f-string field with a conversion or a format")
                return "(" + " ++ ".join(parts or ['""']) + ")", "str"
            return '""', "str"
        if isinstance(n, ast.Name):
            if n.id in env:
                if isinstance(env[n.id][1], tuple) and env[n.id][1][0] == "iter":
                    return self.use_iter(n, env)
                return env[n.id]
            self.err(n, f"unknown name {n.id}")
        if isinstance(n, ast.Attribute):
            sp = self.self_path(n)
            if sp == "_children" and self.spec.get("children"):
                fn, field = self.spec["children"]
                arg = " ".join(self.selfr[f_][0] for f_ in ([field] if isinstance(field, str) else field))
                if fn in self.effectful:
                    self.need_eff(n)
                    return f"(← {fn} {arg})", L("var")
                return f"({fn} {arg})", L("var")
            if sp is not None and self.selfrec:
                head, _, rest = sp.partition(".")
                if head in SELF_FIELDS and not rest:
                    f, ty = SELF_FIELDS[head]
                    return f"self.{f}", ty
                self.err(n, f"self.{sp} is not a framework attribute")
            if sp is not None:
                if sp in self.selfw:
                    return self.selfw[sp]
                if sp in self.selfr:
                    return self.selfr[sp]
                # attribute of a typed self field (self._config.max_cycles)
                base, _, attr = sp.rpartition(".")
                if base in self.selfr or base in self.selfw:
                    bt, bty = (self.selfr.get(base) or self.selfw.get(base))
                    if (bty, attr) in ATTRS:
                        tmpl, ty = ATTRS[(bty, attr)]
                        return tmpl.format(bt), ty
                self.err(n, f"self.{sp} is not in the function's declared state")
            if isinstance(n.value, ast.Name) and n.value.id == "TaskType" and n.attr in ("MIN", "MAX"):
                return f"Dir.{n.attr.lower()}", "dir"
            if isinstance(n.value, ast.Name) and n.value.id == "ModeSolver" and n.attr in ("SERIAL", "THREAD", "PROCESS"):
                return f"Mode.{n.attr.lower()}", "mode"
            if isinstance(n.value, ast.Name) and env.get(n.value.id, (None, None))[1] == "result":
                if n.attr in RESULT_FIELDS:
                    return RESULT_FIELDS[n.attr]
            if isinstance(n.value, ast.Name) and env.get(n.value.id, (None, None))[1] == "task" and self.spec.get("hooks") and n.attr in ("minmax", "seed"):
                return f"(H.task_{n.attr} {env[n.value.id][0]})", {"minmax": "dir", "seed": "int"}[n.attr]
            if n.attr == "name" and "name_of" in [e[0] for e in self.spec.get("extra", [])]:
                bt, bty = self.E(n.value, env)
                if bty == "vd":
                    return f"(name_of {atom(bt)})", "str"
            if n.attr == "agents":      # Population.agents: a recorded generation is its list of agents
                bt, bty = self.E(n.value, env)
                if bty == L("agent"):
                    return bt, bty
            bt, bty = self.E(n.value, env)
            if (bty, n.attr) in ATTRS:
                tmpl, ty = ATTRS[(bty, n.attr)]
                return tmpl.format(atom(bt)), ty
            self.err(n, f"attribute .{n.attr} of a value of type {bty}")
        if isinstance(n, ast.Tuple):
            parts = [self.E(e, env) for e in n.elts]
            parts = [((f"({p} : Int)", "int") if t == "intlit" else (p, t)) for p, t in parts]
            return "(" + ", ".join(p for p, _ in parts) + ")", T(*[t for _, t in parts])
        if isinstance(n, ast.List):
            if not n.elts:
                return "[]", "emptylist"
            parts = [self.E(e, env) for e in n.elts]
            return "[" + ", ".join(p for p, _ in parts) + "]", L(parts[0][1])
        if isinstance(n, ast.Dict):
            if not n.keys:
                return "[]", "emptydict"
            if len(n.keys) == 1 and n.keys[0] is not None:
                k, kty = self.E(n.keys[0], env)
                v, vty = self.E(n.values[0], env)
                if kty != "str":
                    self.err(n, f"dict key of type {kty}")
                return f"[({k}, {v})]", ("dict", vty)
            if self.spec.get("rho") and [getattr(k, "value", None) for k in n.keys] == ["id_trial", "solution", "problem_name"]:
                it, ity = self.E(n.values[0], env)
                st, sty = self.E(n.values[1], env)
                pt, pty = self.E(n.values[2], env)
                if (ity, sty, pty) != ("int", "rho", "str"):
                    self.err(n, f"result dict of a {ity}, a {sty} and a {pty}")
                return f"({{ id_trial := {it}, solution := {st}, problem_name := {pt} }} : Multi.RunDict ρ)", "mcell"
            self.err(n, "dict literal with several entries")
        if isinstance(n, ast.UnaryOp):
            v, ty = self.E(n.operand, env)
            if isinstance(n.op, ast.Not):
                return f"(!{self.truthy(v, ty, n)})", "bool"
            if isinstance(n.op, ast.USub):
                if ty in ("int", "intlit"):
                    return f"(-{atom(v)})", "int"
                if ty == "nat":
                    return f"(-({v} : Int))", "int"
                if ty == "num":
                    return f"(Num.neg {atom(v)})", "num"
            self.err(n, "unary operator")
        if isinstance(n, ast.BoolOp):
            op = " && " if isinstance(n.op, ast.And) else " || "
            parts = []
            for v in n.values:
                t, ty = self.E(v, env)
                if "(← " in t:
                    self.err(v, "effectful operand of a short-circuit operator")
                parts.append(self.truthy(t, ty, v))
            return "(" + op.join(parts) + ")", "bool"
        if isinstance(n, ast.IfExp):
            c, cty = self.E(n.test, env)
            a, aty = self.E(n.body, env)
            b, bty = self.E(n.orelse, env)
            if {repr(norm_type(aty)), repr(norm_type(bty))} == {repr("coord"), repr(L("coord"))}:
                # `temp if v.has_children() else temp[0]`: the slice, or its first coordinate — what `decode` is handed
                a = f"(TaskDecl.DArg.many {atom(a)})" if norm_type(aty) == L("coord") else f"(TaskDecl.DArg.one {atom(a)})"
                b = f"(TaskDecl.DArg.many {atom(b)})" if norm_type(bty) == L("coord") else f"(TaskDecl.DArg.one {atom(b)})"
                aty = bty = "darg"
            if {repr(aty), repr(bty)} == {repr("bentry"), repr(L("bentry"))}:
                # `lb_ if v.has_children() else [lb_]`: the numbers of a list-valued bound, or the bound itself as one entry
                a = f"(← Py.bentryAsList {atom(a)})" if aty == "bentry" else a
                b = f"(← Py.bentryAsList {atom(b)})" if bty == "bentry" else b
                aty = bty = L("bentry")
            if {repr(aty), repr(bty)} == {repr("vdget"), repr(L("vdget"))}:
                # `v.get() if v.has_children() else [v.get()]`: either the list of children, or a one-element list of the variable itself
                def as_vars(t, ty):
                    if ty == "vdget":
                        return f"(← Py.getAsList {atom(t)})"
                    return f"(← {atom(t)}.mapM Py.getAsOne)"
                a, b = as_vars(a, aty), as_vars(b, bty)
                aty = bty = L("var")
            if aty != bty:
                if aty == "intlit" and bty != "intlit":
                    a, aty = self.coerce(a, aty, bty, n.body), bty
                elif bty == "intlit":
                    b, bty = self.coerce(b, bty, aty, n.orelse), aty
                else:
                    self.err(n, f"branches of different types {aty} / {bty}")
            if "(← " in a or "(← " in b:      # only the chosen branch is evaluated: each branch is its own `do` block
                self.need_eff(n)
                return f"(← (if {self.truthy(c, cty, n.test)} then (do return {a}) else (do return {b})))", aty
            return f"(if {self.truthy(c, cty, n.test)} then {a} else {b})", aty
        if isinstance(n, ast.Compare):
            return self.compare(n, env)
        if isinstance(n, ast.BinOp):
            txt = ast.unparse(n)
            if txt in self.spec.get("floats", {}):
                # floating-point arithmetic is not modelled: this exact expression stands for the named constant / parameter
                return self.spec["floats"][txt]
            if isinstance(n.op, ast.Mult) and isinstance(n.right, ast.Call) and ast.unparse(n.right.func) == "np.ones" and len(n.right.args) == 1:
                x, xt = self.E(n.left, env)
                k, kt = self.index_term(n.right.args[0], env)
                if xt != "num":
                    self.err(n, f"scalar of type {xt} times np.ones")
                k = k if kt == "nat" else f"({k}).toNat"
                return f"(List.replicate {k} {atom(x)})", L("num")
            return self.binop(n, env)
        if isinstance(n, ast.Subscript):
            return self.subscript(n, env)
        if isinstance(n, ast.GeneratorExp) and self.spec.get("grid"):
            lc = ast.ListComp(elt=n.elt, generators=n.generators)
            ast.copy_location(lc, n)
            return self.listcomp(lc, env)
        if isinstance(n, ast.ListComp):
            return self.listcomp(n, env)
        if isinstance(n, ast.Lambda):
            self.err(n, "lambda outside a key= argument")
        if isinstance(n, ast.Call):
            return self.call(n, env, want)
        self.err(n, f"expression {type(n).__name__}")

    def ifexp_narrow(self, n, env):
        """conditional expressions whose test decides the *type* of a name in each branch"""
        t = n.test
        # `A if X is not None else B` with X an optional attribute / name
        if isinstance(t, ast.Compare) and len(t.ops) == 1 and isinstance(t.ops[0], (ast.IsNot, ast.Is)) and isinstance(t.comparators[0], ast.Constant) \
                and t.comparators[0].value is None and isinstance(t.left, (ast.Attribute, ast.Name)):
            x, xty = self.E(t.left, env)
            if isinstance(xty, tuple) and xty[0] == "opt":
                self.fresh += 1
                v = f"n{self.fresh}"
                yes, no = (n.body, n.orelse) if isinstance(t.ops[0], ast.IsNot) else (n.orelse, n.body)
                key = ast.dump(t.left)
                old = self.narrow.get(key)
                self.narrow[key] = (v, xty[1])
                try:
                    a, aty = self.E(yes, env)
                finally:
                    if old is None:
                        self.narrow.pop(key, None)
                    else:
                        self.narrow[key] = old
                b, bty = self.E(no, env)
                if aty == "intlit" and bty != "intlit":
                    a, aty = self.coerce(a, aty, bty, yes), bty
                if bty == "intlit" and aty != "intlit":
                    b, bty = self.coerce(b, bty, aty, no), aty
                if aty == "intlit" and bty == "intlit":
                    aty = bty = "int"
                if aty != bty:
                    self.err(n, f"branches of different types {aty} / {bty}")
                if "(← " in a or "(← " in b:
                    self.need_eff(n)
                    return f"(← (match {x} with | some {v} => (do return {a}) | none => (do return {b})))", aty
                return f"(match {x} with | some {v} => {a} | none => {b})", aty
        # `A if isinstance(X, list) else B` with X a `float | list[float]` value
        if isinstance(t, ast.Call) and isinstance(t.func, ast.Name) and t.func.id == "isinstance" and len(t.args) == 2 and isinstance(t.args[0], ast.Name) \
                and isinstance(t.args[1], ast.Name) and t.args[1].id == "list" and env.get(t.args[0].id, (None, None))[1] == "objval":
            nm = t.args[0].id
            x = env[nm][0]
            self.fresh += 1
            vl, vs = f"l{self.fresh}", f"s{self.fresh}"
            a, aty = self.E(n.body, {**env, nm: (vl, L("num"))})
            b, bty = self.E(n.orelse, {**env, nm: (vs, "num")})
            if "(← " in a or "(← " in b:
                self.err(n, "effectful branch of an isinstance conditional")
            if aty == L("num") and bty == "num":
                return f"(match {x} with | .multi {vl} => ObjVal.multi {a} | .single {vs} => ObjVal.single {b})", "objval"
            if aty == "intlit":
                aty = "int"
            if bty == "intlit":
                bty = "int"
            if aty != bty:
                self.err(n, f"branches of different types {aty} / {bty}")
            return f"(match {x} with | .multi {vl} => {a} | .single {vs} => {b})", aty
        return None

    def truthy(self, term, ty, node):
        if ty == "bool":
            return term
        if isinstance(ty, tuple) and ty[0] == "opt":
            return f"{atom(term)}.isSome"
        if isinstance(ty, tuple) and ty[0] in ("list", "dict"):
            return f"(!{atom(term)}.isEmpty)"
        if ty in ("int", "nat"):
            return f"(decide ({term} ≠ 0))"
        self.err(node, f"truth value of a {ty}")

    def compare(self, n, env):
        if len(n.ops) != 1:
            self.err(n, "chained comparison")
        op, a, b = n.ops[0], n.left, n.comparators[0]
        if isinstance(op, (ast.Is, ast.IsNot)):
            if not (isinstance(b, ast.Constant) and b.value is None):
                self.err(n, "`is` against something other than None")
            t, ty = self.E(a, env)
            if not (isinstance(ty, tuple) and ty[0] == "opt"):
                self.err(n, f"`is None` on a non-optional value of type {ty}")
            return (f"{atom(t)}.isNone" if isinstance(op, ast.Is) else f"{atom(t)}.isSome"), "bool"
        if isinstance(op, ast.In) and isinstance(b, ast.Name) and b.id == "ModeSolver" and self.spec.get("multitask"):
            x, xt = self.E(a, env)
            if xt != "str":
                self.err(n, f"`in ModeSolver` of a {xt}")
            return f"(Multi.validMode {atom(x)})", "bool"
        x, xt = self.E(a, env)
        y, yt = self.E(b, env)
        sym = {ast.Eq: "=", ast.NotEq: "≠", ast.Lt: "<", ast.LtE: "≤", ast.Gt: ">", ast.GtE: "≥"}.get(type(op))
        if sym is None:
            self.err(n, "comparison operator")
        ints = ("int", "nat", "intlit")
        if xt in ints and yt in ints:
            if "nat" in (xt, yt) and "int" in (xt, yt):
                x = f"({x} : Int)" if xt == "nat" else x
                y = f"({y} : Int)" if yt == "nat" else y
            return f"(decide ({x} {sym} {y}))", "bool"
        if xt == yt and xt in ("dir", "mode") and sym in ("=", "≠"):
            return f"(decide ({x} {sym} {y}))", "bool"
        if "R" in (xt, yt):
            x = self.coerce(x, xt, "R", a)
            y = self.coerce(y, yt, "R", b)
            return {"<": f"(ar.lt {atom(x)} {atom(y)})", "≤": f"(ar.le {atom(x)} {atom(y)})", ">": f"(ar.lt {atom(y)} {atom(x)})",
                    "≥": f"(ar.le {atom(y)} {atom(x)})"}.get(sym) or self.err(n, "equality on rates"), "bool"
        if self.spec.get("float_ops") and {xt, yt} == {"num", "intlit"}:
            x, xt = (x, xt) if xt == "num" else (f"(intNum {x})", "num")
            y, yt = (y, yt) if yt == "num" else (f"(intNum {y})", "num")
        if xt == "num" and yt == "num":
            return {"<": f"(Num.lt {atom(x)} {atom(y)})", "≤": f"(Num.le {atom(x)} {atom(y)})", ">": f"(Num.lt {atom(y)} {atom(x)})",
                    "≥": f"(Num.le {atom(y)} {atom(x)})"}.get(sym) or self.err(n, "equality on doubles"), "bool"
        self.err(n, f"comparison of {xt} with {yt}")

    def binop(self, n, env):
        x, xt = self.E(n.left, env)
        y, yt = self.E(n.right, env)
        ints = ("int", "nat", "intlit")
        if self.spec.get("float_ops") and "num" in (xt, yt) and {xt, yt} <= {"num", "intlit"} and isinstance(n.op, (ast.Add, ast.Div)):
            x = x if xt == "num" else f"(intNum {x})"
            y = y if yt == "num" else f"(intNum {y})"
            return f"(fl.{'add' if isinstance(n.op, ast.Add) else 'div'} {atom(x)} {atom(y)})", "num"
        if xt in ints and yt in ints:
            if xt == "nat":
                x = f"({x} : Int)"
            if yt == "nat":
                y = f"({y} : Int)"
            if isinstance(n.op, ast.Add):
                return f"({x} + {y})", "int"
            if isinstance(n.op, ast.Sub):
                return f"({x} - {y})", "int"
            if isinstance(n.op, ast.Mult):
                return f"({x} * {y})", "int"
            if isinstance(n.op, ast.Mod):
                self.need_eff(n)
                return f"(← Py.mod {atom(x)} {atom(y)})", "int"
            if isinstance(n.op, ast.FloorDiv):
                self.need_eff(n)
                return f"(← Py.floordiv {atom(x)} {atom(y)})", "int"
            self.err(n, "integer operator")
        if "R" in (xt, yt):
            x = self.coerce(x, xt, "R", n.left)
            y = self.coerce(y, yt, "R", n.right)
            if isinstance(n.op, ast.Sub):
                return f"(ar.sub {atom(x)} {atom(y)})", "R"
            self.err(n, "rate arithmetic other than subtraction")
        if isinstance(n.op, ast.Mult) and yt == "num" and ast.unparse(n.left) == "-1":
            return f"(Num.neg {atom(y)})", "num"       # `-1 * x`: exact on doubles
        if isinstance(xt, tuple) and xt[0] == "list" and xt == yt and isinstance(n.op, ast.Add):
            return f"({x} ++ {y})", xt
        self.err(n, f"operator on {xt} and {yt}")

    def index_term(self, n, env):
        t, ty = self.E(n, env)
        if ty in ("int", "intlit"):
            return t, "int"
        if ty == "nat":
            return t, "nat"
        self.err(n, f"index of type {ty}")

    def subscript(self, n, env):
        base, bty = self.E(n.value, env)
        bty = norm_type(bty)
        if not (isinstance(bty, tuple) and bty[0] == "list"):
            self.err(n, f"subscript of a {bty}")
        s = n.slice
        if isinstance(s, ast.Slice):
            if s.step is not None:
                st, _ = self.E(s.step, env)
                if s.lower is None and s.upper is None and st.replace("(", "").replace(")", "") == "-1":
                    return f"{atom(base)}.reverse", bty
                self.err(n, "slice step")

            def ix(e):
                t, ty = self.index_term(e, env)
                return f"({t} : Int)" if ty == "nat" else t
            if s.lower is None and s.upper is None:
                return base, bty
            if s.lower is None:
                return f"(Py.sliceTo {atom(base)} {atom(ix(s.upper))})", bty
            if s.upper is None:
                return f"(Py.sliceFrom {atom(base)} {atom(ix(s.lower))})", bty
            return f"(Py.slice {atom(base)} {atom(ix(s.lower))} {atom(ix(s.upper))})", bty
        t, ty = self.index_term(s, env)
        self.need_eff(n)
        if ty == "nat":
            return f"(← Py.getNat {atom(base)} {atom(t)})", bty[1]
        return f"(← Py.getItem {atom(base)} {atom(t)})", bty[1]

    def use_iter(self, n, env):
        """a read of a one-shot iterator (`executor.map(...)`): the translation treats it as the list of its results, which is only sound if the
        source consumes it exactly once, and not inside a loop or comprehension that could run the consuming statement again"""
        if not hasattr(self, "iters_used"):
            self.iters_used = {}
        if n.id in self.iters_used:
            self.err(n, f"the one-shot iterator {n.id} is consumed a second time (line {self.iters_used[n.id]} exhausted it)")
        if self.in_lambda or getattr(self, "loop_depth", 0) > 0:
            self.err(n, f"the one-shot iterator {n.id} is consumed inside a loop or comprehension")
        self.iters_used[n.id] = getattr(n, "lineno", 0)
        return env[n.id][0], L(env[n.id][1][1])

    def need_eff(self, node):
        if not self.eff:
            self.err(node, "internal: effect in a function inferred pure")

    def listcomp(self, n, env):
        if len(n.generators) == 2 and not any(g.is_async or g.ifs for g in n.generators):
            # [e for a in A for b in B(a)]  ==  flatten([[e for b in B(a)] for a in A])
            inner = ast.ListComp(elt=n.elt, generators=[n.generators[1]])
            outer = ast.ListComp(elt=inner, generators=[n.generators[0]])
            ast.copy_location(inner, n)
            ast.copy_location(outer, n)
            t, ty = self.listcomp(outer, env)
            if not (isinstance(ty, tuple) and ty[0] == "list" and isinstance(ty[1], tuple) and ty[1][0] == "list"):
                self.err(n, "nested comprehension")
            return f"({atom(t)}.flatten)", ty[1]
        if len(n.generators) != 1 or n.generators[0].is_async:
            self.err(n, "comprehension with several generators")
        g = n.generators[0]
        it, ity = self.E(g.iter, env)
        if not (isinstance(ity, tuple) and ity[0] == "list"):
            self.err(n, f"iteration over a {ity}")
        env2 = dict(env)
        pat = self.bind_target(g.target, ity[1], env2)
        self.in_lambda += 1
        try:
            return self._listcomp_body(n, g, env2, pat, it)
        finally:
            self.in_lambda -= 1

    def _listcomp_body(self, n, g, env2, pat, it):
        src = it
        for cond in g.ifs:
            c, cty = self.E(cond, env2)
            if "(← " in c:
                self.err(cond, "effectful comprehension filter")
            src = f"({src}.filter (fun {pat} => {self.truthy(c, cty, cond)}))"
        body, bty = self.E(n.elt, env2)
        if "(← " in body:
            return f"(← {atom(src)}.mapM (fun {pat} => do return {body}))", L(bty)
        return f"({atom(src)}.map (fun {pat} => {body}))", L(bty)

    def bind_target(self, target, ty, env):
        """bind a for / comprehension / assignment target of type ty; returns the Lean pattern"""
        if isinstance(target, ast.Name):
            env[target.id] = (target.id, ty)
            return target.id
        if isinstance(target, ast.Tuple) and isinstance(ty, tuple) and ty[0] == "tuple" and len(ty[1]) == len(target.elts):
            return "(" + ", ".join(self.bind_target(e, t, env) for e, t in zip(target.elts, ty[1])) + ")"
        self.err(target, f"binding target for a {ty}")

    def call(self, n, env, want=None):
        f = n.func
        # --- builtins
        if isinstance(f, ast.Name):
            name = f.id
            if name == "len" and len(n.args) == 1:
                t, ty = self.E(n.args[0], env)
                ty = norm_type(ty)
                if isinstance(ty, tuple) and ty[0] == "list":
                    return f"(Py.len {atom(t)})", "int"
                self.err(n, f"len of a {ty}")
            if name == "all" and len(n.args) == 1:
                t, ty = self.E(n.args[0], env)
                if ty == L("bool"):
                    # `all([f(x) for x in xs])`: keep the comprehension visible as List.all
                    return f"({atom(t)}.all id)", "bool"
                self.err(n, f"all() of a {ty}")
            if name == "float" and len(n.args) == 1 and not n.keywords:
                t, ty = self.E(n.args[0], env)
                if ty == "num":
                    return t, "num"         # a double stays the double it is
                if ty in ("int", "intlit", "nat"):
                    return f"(intNum {atom(t)})", "num"
                self.err(n, f"float() of a {ty}")
            if name == "int" and len(n.args) == 1 and not n.keywords:
                t, ty = self.E(n.args[0], env)
                if ty == "num":
                    self.need_eff(n)
                    return f"(← Py.intOfNum {atom(t)})", "int"
                if ty in ("int", "intlit"):
                    return t, "int"
                self.err(n, f"int() of a {ty}")
            if name == "abs" and len(n.args) == 1:
                t, ty = self.E(n.args[0], env)
                if ty == "num" and self.spec.get("float_ops"):
                    return f"(fl.abs {atom(t)})", "num"
                if ty == "R":
                    return f"(ar.abs {atom(t)})", "R"
                self.err(n, f"abs of a {ty}")
            if name == "range":
                args = [self.index_term(a, env) for a in n.args]
                args = [f"({t} : Int)" if ty == "nat" else t for t, ty in args]
                if len(args) == 1:
                    return f"(Py.range 0 {atom(args[0])})", L("int")
                if len(args) == 2:
                    return f"(Py.range {atom(args[0])} {atom(args[1])})", L("int")
                self.err(n, "range with a step")
            if name == "enumerate" and len(n.args) == 1:
                t, ty = self.E(n.args[0], env)
                if isinstance(ty, tuple) and ty[0] == "list":
                    return f"(Py.enumerate {atom(t)})", L(T("nat", ty[1]))
                self.err(n, f"enumerate of a {ty}")
            if name == "isinstance" and len(n.args) == 2 and isinstance(n.args[0], ast.Name) and n.args[0].id in self.spec.get("tuple_params", []) \
                    and isinstance(n.args[1], ast.Name) and n.args[1].id == "tuple":
                return "true", "bool"        # the typing SPEC declares this parameter a tuple: the non-tuple call is outside the translation
            if name == "isinstance" and len(n.args) == 2 and ast.unparse(n.args[1]) == "np.ndarray":
                self.E(n.args[0], env)
                return "false", "bool"       # values cross the boundary as lists: an ndarray and its tolist() are the same value here
            if name == "isinstance" and len(n.args) == 2 and isinstance(n.args[0], ast.Name) and ast.unparse(n.args[1]) == "list" \
                    and env.get(n.args[0].id, (None, None))[1] == "objval":
                return f"(ObjVal.isList {env[n.args[0].id][0]})", "bool"
            if name == "deepcopy" and len(n.args) == 1 and not n.keywords:
                return self.E(n.args[0], env)  # values have no identity
            if self.spec.get("grid"):
                if name == "sorted" and len(n.args) == 1 and not n.keywords:
                    t, ty = self.E(n.args[0], env)
                    if isinstance(ty, tuple) and ty[0] == "list" and isinstance(ty[1], tuple) and ty[1][0] == "tuple" and ty[1][1][0] == "str":
                        return f"(Py.sortedItems {atom(t)})", ty      # tuples whose first components are distinct strings (dict items): ordered by them
                    self.err(n, f"sorted() of a {ty}")
                if name == "zip" and len(n.args) == 1 and isinstance(n.args[0], ast.Starred) and not n.keywords:
                    t, ty = self.E(n.args[0].value, env)
                    if isinstance(ty, tuple) and ty[0] == "list" and isinstance(ty[1], tuple) and ty[1][0] == "tuple" and len(ty[1][1]) == 2:
                        # `a, b = zip(*xs)`: for an empty xs there is nothing to unpack (ValueError)
                        self.need_eff(n)
                        return f"(← Py.unzipNonempty {atom(t)})", T(L(ty[1][1][0]), L(ty[1][1][1]))
                    self.err(n, f"zip(*) of a {ty}")
                if name == "product" and len(n.args) == 1 and isinstance(n.args[0], ast.Starred) and not n.keywords:
                    t, ty = self.E(n.args[0].value, env)
                    if isinstance(ty, tuple) and ty[0] == "list" and isinstance(ty[1], tuple) and ty[1][0] == "list":
                        return f"(Py.product {atom(t)})", ty
                    self.err(n, f"product(*) of a {ty}")
                if name == "dict" and len(n.args) == 1 and not n.keywords and isinstance(n.args[0], ast.Call) and getattr(n.args[0].func, "id", None) == "zip" and len(n.args[0].args) == 2:
                    kt, kty = self.E(n.args[0].args[0], env)
                    vt, vty = self.E(n.args[0].args[1], env)
                    if kty != L("str") or not (isinstance(vty, tuple) and vty[0] == "list"):
                        self.err(n, f"dict(zip()) of a {kty} and a {vty}")
                    return f"(Py.dictOfPairs (Py.zip {atom(kt)} {atom(vt)}))", ("dict", vty[1])
                if name == "partial" and len(n.args) == 2 and ast.unparse(n.args[0]) == "reduce" and ast.unparse(n.args[1]) == "operator.mul" and not n.keywords:
                    return "Py.reduceMul", "fn_reduce_mul"
                if name in env and env[name][1] == "fn_reduce_mul" and len(n.args) == 1 and not n.keywords:
                    t, ty = self.E(n.args[0], env)
                    if ty != L("int"):
                        self.err(n, f"reduce(operator.mul) over a {ty}")
                    self.need_eff(n)
                    return f"(← Py.reduceMul {atom(t)})", "int"
            if name == "sum" and len(n.args) == 1 and not n.keywords:
                t, ty = self.E(n.args[0], env)
                if ty != L("int"):
                    self.err(n, f"sum() of a {ty}")
                return f"({atom(t)}.sum)", "int"
            if name == "str" and len(n.args) == 1 and not n.keywords and self.spec.get("multitask"):
                t, ty = self.E(n.args[0], env)
                if ty == "mmode":
                    return f"(Multi.Mode.toString {atom(t)})", "str"     # enums.Enum.__str__ returns the value
                if ty == "str":
                    return t, "str"
                self.err(n, f"str() of a {ty}")
            if name == "list" and len(n.args) == 1 and not n.keywords:
                t, ty = self.E(n.args[0], env)
                if isinstance(ty, tuple) and ty[0] == "list":
                    return t, ty
                self.err(n, f"list() of a {ty}")
            if name == "ModeSolver" and self.spec.get("multitask") and len(n.args) == 1 and not n.keywords:
                t, ty = self.E(n.args[0], env)
                if ty != "str":
                    self.err(n, f"ModeSolver of a {ty}")
                self.need_eff(n)
                return f"(← Multi.parseMode {atom(t)})", "mmode"
            if name == "print":
                return "()", "unit"
            if name in self.spec.get("opaque", {}):
                pname, _, rty = self.spec["opaque"][name]
                args = [self.E(a, env)[0] for a in n.args]
                return f"({pname} " + " ".join(atom(a) for a in args) + ")", rty
            if name == "zip" and len(n.args) == 2 and not n.keywords:
                a, aty = self.E(n.args[0], env)
                b, bty = self.E(n.args[1], env)
                aty, bty = norm_type(aty), norm_type(bty)
                if not (isinstance(aty, tuple) and aty[0] == "list" and isinstance(bty, tuple) and bty[0] == "list"):
                    self.err(n, f"zip of {aty} and {bty}")
                return f"(Py.zip {atom(a)} {atom(b)})", L(T(aty[1], bty[1]))
            if name == "ContinuousVariable" and not n.args and {kw.arg for kw in n.keywords} == {"name", "lower_bound", "upper_bound"}:
                kws = {kw.arg: kw.value for kw in n.keywords}
                self.E(kws["name"], env)
                lo, loty = self.E(kws["lower_bound"], env)
                hi, hity = self.E(kws["upper_bound"], env)
                if loty != "num" or hity != "num":
                    self.err(n, f"ContinuousVariable bounds of type {loty}, {hity}")
                return f"(Var.cont {atom(lo)} {atom(hi)})", "var"
            if name == "DiscreteVariable" and not n.args and {kw.arg for kw in n.keywords} == {"name", "choices"}:
                kws = {kw.arg: kw.value for kw in n.keywords}
                self.E(kws["name"], env)
                c, cty = self.E(kws["choices"], env)
                if not (isinstance(cty, tuple) and cty[0] == "list"):
                    self.err(n, f"DiscreteVariable choices of type {cty}")
                return f"(Var.disc (Py.len {atom(c)}).toNat)", "var"
            if name == "Agent" and not n.args and {kw.arg for kw in n.keywords} == {"position", "cost", "fitness"}:
                if self.in_lambda:
                    self.err(n, "Agent(...) inside a comprehension")
                kws = {kw.arg: kw.value for kw in n.keywords}
                self.need_eff(n)
                self.fresh += 1
                k = self.fresh
                vals = {}
                for arg in ("position", "cost", "fitness"):          # argument expressions first, in source order …
                    t, ty = self.E(kws[arg], env)
                    self.lines.append(f"{self.cur_pad}let a{k}_{arg} := {t}")
                    vals[arg] = ty
                if vals["position"] != "coords":
                    self.err(n, f"Agent(position=…) of type {vals['position']}")
                cost = f"a{k}_cost"
                if vals["cost"] == "objval":                           # … then pydantic's validation of `cost: float`
                    self.lines.append(f"{self.cur_pad}let a{k}_cost ← Py.asFloat a{k}_cost")
                elif vals["cost"] != "num":
                    self.err(n, f"Agent(cost=…) of type {vals['cost']}")
                if vals["fitness"] != "num":
                    self.err(n, f"Agent(fitness=…) of type {vals['fitness']}")
                return f"({{ position := a{k}_position, cost := a{k}_cost, fitness := a{k}_fitness, tag := 0 }} : Agent)", "agent"
            if name in [e[0] for e in self.spec.get("extra", [])] and name == "calculate_fitness" and len(n.args) == 2:
                c, cty = self.E(n.args[0], env)
                d, dty = self.E(n.args[1], env)
                if cty == "objval":        # a list reaching `value >= 0` is a TypeError
                    self.need_eff(n)
                    c = f"(← Py.asFloatT {atom(c)})"
                elif cty != "num":
                    self.err(n, f"calculate_fitness of a {cty}")
                return f"(calculate_fitness {atom(c)} {atom(d)})", "num"
            if name in self.table:
                return self.call_translated(name, n, env, method=False)
            if name in self.spec.get("nested", {}):
                nd = self.spec["nested"][name]
                if n.keywords or len(n.args) != len(nd["params"]):
                    self.err(n, f"call of nested function {name}")
                args = []
                for a, (pn, pty) in zip(n.args, nd["params"].items()):
                    t, ty = self.E(a, env, pty)
                    args.append(atom(self.coerce(t, ty, pty, a)))
                return f"({self.spec['name']}_{name} " + " ".join(args) + ")", nd["ret"]
            if name == "ModeSolver" and self.spec.get("hooks") and len(n.args) == 1 and not n.keywords:
                t, ty = self.E(n.args[0], env)
                if ty != "str":
                    self.err(n, f"ModeSolver of a {ty}")
                self.need_eff(n)
                return f"(← H.parse_mode {atom(t)})", "mode"
            self.err(n, f"call of unknown function {name}")
        if isinstance(f, ast.Attribute):
            if isinstance(f.value, ast.Name) and f.value.id == "np" and f.attr == "clip" and len(n.args) == 3 and not n.keywords:
                parts = []
                for a in n.args:
                    t, ty = self.E(a, env)
                    if ty in ("int", "intlit", "nat"):
                        t, ty = f"(intNum {atom(t)})", "num"
                    if ty != "num":
                        self.err(n, f"np.clip argument of type {ty}")
                    parts.append(atom(t))
                return f"(Num.clip {parts[0]} {parts[1]} {parts[2]})", "num"
            if isinstance(f.value, ast.Name) and f.value.id == "np" and f.attr == "zeros" and len(n.args) == 1 and not n.keywords:
                k, kt = self.index_term(n.args[0], env)
                k = k if kt == "nat" else f"({k}).toNat"
                return f"(List.replicate {k} (Num.fin 0))", L("num")
            if isinstance(f.value, ast.Name) and f.value.id == "np" and f.attr == "array" and len(n.args) == 1 and not n.keywords:
                t, ty = self.E(n.args[0], env)
                if ty != L("bentry"):
                    self.err(n, f"np.array of a {ty}")
                self.need_eff(n)
                return f"(← Py.npArray {atom(t)})", L("bentry")
            if isinstance(f.value, ast.Name) and f.value.id == "np" and f.attr == "atleast_1d" and len(n.args) == 1 and not n.keywords:
                t, ty = self.E(n.args[0], env)
                if ty == "objval":
                    return f"(ObjVal.toList {atom(t)})", L("num")
                if ty == "num":
                    return f"[{t}]", L("num")
                if ty == L("num"):
                    return t, ty
                self.err(n, f"np.atleast_1d of a {ty}")
            if isinstance(f.value, ast.Name) and f.value.id == "np" and f.attr == "dot" and len(n.args) == 2 and not n.keywords:
                a, aty = self.E(n.args[0], env)
                b, bty = self.E(n.args[1], env)
                if aty != L("num") or bty != L("num"):
                    self.err(n, f"np.dot of {aty} and {bty}")
                return f"({self.tasksem_term(n)}.dot {atom(a)} {atom(b)})", "num"
            # dynamic dispatch over the declared variable classes / the flattened scalar variables
            if f.attr in ("get", "has_children", "size") and not n.args and not n.keywords and self.spec.get("uses_dispatch"):
                rt, rty = self.E(f.value, env)
                if rty == "vd":
                    if f.attr == "get":
                        self.need_eff(n)
                        return f"(← vd_get {atom(rt)})", "vdget"
                    if f.attr == "has_children":
                        return f"(vd_has_children {atom(rt)})", "bool"
                    return f"(vd_size {atom(rt)})", "int"
            if f.attr == "get_bounds" and not n.args and not n.keywords and (self.spec.get("uses_dispatch") or self.spec.get("uses_var_dispatch")):
                rt, rty = self.E(f.value, env)
                if rty == "var":
                    self.need_eff(n)
                    return f"(← var_get_bounds_scalar {atom(rt)})", T("num", "num")
                if rty == "vd":
                    self.need_eff(n)
                    return f"(← vd_get_bounds permUb {atom(rt)})", T("bentry", "bentry")
            if f.attr == "decode" and len(n.args) == 1 and not n.keywords and self.spec.get("uses_dispatch"):
                rt, rty = self.E(f.value, env)
                a, aty = self.E(n.args[0], env)
                if rty == "vd" and aty == "darg":
                    self.need_eff(n)
                    return f"(← TaskDecl.decodeVar {atom(rt)} {atom(a)})", "decoded"
            if f.attr == "correct" and len(n.args) == 1 and not n.keywords and self.spec.get("uses_dispatch"):
                rt, rty = self.E(f.value, env)
                a, aty = self.E(n.args[0], env)
                if rty == "var" and aty == "raw":
                    self.need_eff(n)
                    return f"(← Var.correct {atom(rt)} {atom(a)})", "coord"
            # methods of the task object (`self` inside Task, `self._task` inside an optimizer)
            if f.attr in ("correct_solution", "objective_function", "empty_solution", "solve", "initial_solution"):
                rt, rty = (None, None)
                if isinstance(f.value, ast.Name) and f.value.id == "self" and self.spec.get("selfobj", (None, None))[1] == "tasksem":
                    rt, rty = self.spec["selfobj"][0], "tasksem"
                elif self.self_path(f.value) is not None and not self.selfrec:
                    try:
                        rt, rty = self.E(f.value, env)
                    except Untranslatable:
                        rt = None
                if rty == "tasksem":
                    if f.attr == "correct_solution" and len(n.args) == 1:
                        a, aty = self.E(n.args[0], env)
                        if aty == "coords":
                            a = f"({atom(a)}.map Coord.toRaw)"
                        elif aty != "raws":
                            self.err(n, f"correct_solution of a {aty}")
                        self.need_eff(n)
                        return f"(← {rt}.decl.correctSolution {atom(a)})", "coords"
                    if f.attr == "objective_function" and len(n.args) == 1:
                        a, aty = self.E(n.args[0], env)
                        if aty != "coords":
                            self.err(n, f"objective_function of a {aty}")
                        return f"({rt}.F {atom(a)})", "objval"
                    if f.attr == "empty_solution" and not n.args and self.spec.get("draws"):
                        # the next element of the random stream; the counter of draws is the function's state
                        self.need_eff(n)
                        return "(← Py.nextDraw draw)", "raws"
                    if f.attr == "empty_solution" and not n.args:
                        if "empty_solution" not in [e[0] for e in self.spec.get("extra", [])]:
                            self.err(n, "empty_solution not declared")
                        return "empty_solution", "raws"
                    key = f"Task::self.{f.attr}"
                    if key in self.table:
                        return self.call_translated(key, n, env, method=True, receiver=rt)
            # np.argsort(xs, axis=0)
            if isinstance(f.value, ast.Name) and f.value.id == "np" and f.attr == "argsort":
                t, ty = self.E(n.args[0], env)
                if ty == L("nat") and not n.keywords:
                    return f"(Py.npArgsort ({atom(t)}.map natNum))", L("nat")
                if ty != L("num"):
                    self.err(n, f"np.argsort of a {ty}")
                for kw in n.keywords:
                    if not (kw.arg == "axis" and isinstance(kw.value, ast.Constant) and kw.value.value == 0):
                        self.err(n, f"np.argsort keyword {kw.arg}")
                return f"(Py.npArgsort {atom(t)})", L("nat")
            if self.spec.get("grid") and f.attr in ("items", "values") and not n.args and not n.keywords:
                t, ty = self.E(f.value, env)
                if isinstance(ty, tuple) and ty[0] == "dict":
                    if f.attr == "items":
                        return t, L(T("str", ty[1]))          # an insertion-ordered association list is its own list of items
                    return f"({atom(t)}.map Prod.snd)", L(ty[1])
                self.err(n, f".{f.attr}() of a {ty}")
            if self.spec.get("rho"):
                # the size of the pool of trial processes: a scheduling parameter (how many trials run at once), no value depends on it
                if ast.unparse(f) == "np.clip" and len(n.args) == 3 and [kw.arg for kw in n.keywords] == ["dtype"] and ast.unparse(n.args[2]).startswith("os.cpu_count()"):
                    self.E(n.args[0], env)
                    return "()", "poolsize"
                # `pd.DataFrame(d)` of a dict of equally long columns: the table is that dict
                if ast.unparse(f) == "pd.DataFrame" and len(n.args) == 1 and not n.keywords:
                    t, ty = self.E(n.args[0], env)
                    if not (isinstance(ty, tuple) and ty[0] == "dict"):
                        self.err(n, f"pd.DataFrame of a {ty}")
                    return t, ty
                # `executor.map(partial(self.m, k=v, …), xs)`: the results in the order of xs
                if f.attr == "map" and isinstance(f.value, ast.Name) and env.get(f.value.id, (None, None))[1] == "executor" and len(n.args) == 2 and not n.keywords \
                        and isinstance(n.args[0], ast.Call) and getattr(n.args[0].func, "id", None) == "partial" and len(n.args[0].args) == 1:
                    pc = n.args[0]
                    xs, xty = self.E(n.args[1], env)
                    if not (isinstance(xty, tuple) and xty[0] == "list"):
                        self.err(n, f"executor.map over a {xty}")
                    self.fresh += 1
                    x = f"x{self.fresh}"
                    inner = ast.Call(func=pc.args[0], args=[ast.Name(id=x, ctx=ast.Load())], keywords=pc.keywords)
                    ast.copy_location(inner, n)
                    ast.fix_missing_locations(inner)
                    env2 = dict(env)
                    env2[x] = (x, xty[1])
                    self.in_lambda += 1
                    try:
                        body, bty = self.call(inner, env2)
                    finally:
                        self.in_lambda -= 1
                    # the value is a ONE-SHOT iterator over the results: it may be consumed once (one `for`, one `list(...)`), see `use_iter`
                    if "(← " in body:
                        self.need_eff(n)
                        return f"(← {atom(xs)}.mapM (fun {x} => do return {body}))", ("iter", bty)
                    return f"({atom(xs)}.map (fun {x} => {body}))", ("iter", bty)
                # `optimizer.optimize(task, mode=str(mode), workers=self._n_workers)`
                if f.attr == "optimize" and len(n.args) == 1 and sorted(kw.arg for kw in n.keywords) == ["mode", "workers"]:
                    rt, rty = self.E(f.value, env)
                    tt, tty = self.E(n.args[0], env)
                    kws = {kw.arg: kw.value for kw in n.keywords}
                    mt, mty = self.E(kws["mode"], env)
                    wt, wty = self.E(kws["workers"], env)
                    if (rty, tty, mty, wty) != ("mobj", "mobj", "str", O("int")):
                        self.err(n, f"optimize of a {rty} on a {tty} with mode {mty} and workers {wty}")
                    ctx = self.spec.get("optimize_ctx")
                    if ctx != ["id_trial"] or "id_trial" not in env:
                        self.err(n, "optimize() outside the per-trial worker function")
                    return f"(optimize {atom(rt)} {atom(tt)} {atom(mt)} {atom(wt)} id_trial)", "rho"
            if ast.unparse(f) in ("parallel.ThreadPoolExecutor", "parallel.ProcessPoolExecutor") and len(n.args) == 1 and not n.keywords and self.spec.get("ret") == "poolkind":
                t, ty = self.E(n.args[0], env)
                if ty != O("int"):
                    self.err(n, f"pool of {ty} workers")
                return f"(Py.PoolKind.{'thread' if 'Thread' in ast.unparse(f) else 'process'} {atom(t)})", "poolkind"
            if ast.unparse(f) == "chain.from_iterable" and len(n.args) == 1 and not n.keywords:
                t, ty = self.E(n.args[0], env)
                if isinstance(ty, tuple) and ty[0] == "list" and isinstance(ty[1], tuple) and ty[1][0] == "list":
                    return f"({atom(t)}.flatten)", ty[1]
                self.err(n, f"chain.from_iterable of a {ty}")
            if isinstance(f.value, ast.Name) and f.value.id == "parallel" and f.attr == "as_completed" and len(n.args) == 1:
                t, ty = self.E(n.args[0], env)
                return f"(Py.asCompleted σ {atom(t)})", ty
            if isinstance(f.value, ast.Name) and f.value.id == "kwargs" and f.attr == "get" and "kwargs" in self.spec and n.args \
                    and isinstance(n.args[0], ast.Constant) and n.args[0].value in self.spec["kwargs"]:
                k = n.args[0].value
                return f"kw_{k}", self.spec["kwargs"][k]
            if f.attr == "model_copy" and not n.args and len(n.keywords) == 1 and n.keywords[0].arg == "update" and isinstance(n.keywords[0].value, ast.Dict):
                bt, bty = self.E(f.value, env)
                if bty != "agent":
                    self.err(n, f"model_copy(update=…) of a {bty}")
                ups = []
                for k, v in zip(n.keywords[0].value.keys, n.keywords[0].value.values):
                    if not (isinstance(k, ast.Constant) and ("agent", k.value) in ATTRS):
                        self.err(n, "model_copy(update=…) of an unknown field")
                    vt, vty = self.E(v, env)
                    if vty != ATTRS[("agent", k.value)][1]:
                        self.err(n, f"model_copy(update=…) stores a {vty} into {k.value}")
                    ups.append(f"{k.value} := {vt}")
                return "{ " + bt + " with " + ", ".join(ups) + " }", "agent"
            # self.method(...)
            if isinstance(f.value, ast.Name) and f.value.id == "self":
                key = "self." + f.attr
                cls = self.spec["src"][1].split(".")[0] if "." in self.spec["src"][1] else None
                if cls and f"{cls}::{key}" in self.table:
                    key = f"{cls}::{key}"
                if key in self.table:
                    return self.call_translated(key, n, env, method=True)
                self.err(n, f"call of self.{f.attr}")
            # executor.submit(f, args…): the pooled evaluation, modelled eagerly in submission order
            if f.attr == "submit" and isinstance(f.value, ast.Name) and env.get(f.value.id, (None, None))[1] == "executor":
                inner = ast.Call(func=n.args[0], args=n.args[1:], keywords=[])
                ast.copy_location(inner, n)
                return self.call(inner, env)
            if f.attr == "result" and not n.args:      # future.result()
                return self.E(f.value, env)
            # value methods
            if f.attr in ("copy", "model_copy", "tolist") and not n.args and not n.keywords:
                return self.E(f.value, env)
            self.err(n, f"method .{f.attr}()")
        self.err(n, "call")

    def call_translated(self, key, n, env, method, receiver=None):
        self.receiver = receiver
        callee_spec, callee_node = self.table[key]
        if "kwargs" in callee_spec:
            return self.call_kwargs_ctor(callee_spec, callee_node, n, env)
        params = [a.arg for a in callee_node.args.args if a.arg != "self"]
        defaults = callee_node.args.defaults
        dmap = dict(zip(params[len(params) - len(defaults):], defaults)) if defaults else {}
        given = {}
        for p, a in zip(params, n.args):
            given[p] = a
        for kw in n.keywords:
            if kw.arg not in params:
                self.err(n, f"unknown keyword {kw.arg}")
            given[kw.arg] = kw.value
        args = []
        poly = {}

        def subst(t):
            if t == "A":
                return poly.get("A", t)
            if isinstance(t, tuple):
                return (t[0], subst(t[1])) if t[0] in ("list", "opt") else (t[0], [subst(x) for x in t[1]])
            return t

        def unify(pat, ty):
            if pat == "A" and "A" not in poly:
                poly["A"] = ty
            elif isinstance(pat, tuple) and isinstance(ty, tuple) and pat[0] == ty[0] and pat[0] in ("list", "opt"):
                unify(pat[1], ty[1])
        # implicit state / type parameters first, in the callee's declaration order
        args += self.implicit_args(callee_spec, n, env)
        for p in params:
            pty = callee_spec["params"][p]
            if pty == "result":
                if not (p in given and isinstance(given[p], ast.Name) and env.get(given[p].id, (None, None))[1] == "result"):
                    self.err(n, "result argument")
                args += [pn for pn, _ in RESULT_FIELDS.values()]
                continue
            if p in given:
                t, ty = self.E(given[p], env, pty)
                if callee_spec.get("poly"):
                    unify(pty, ty)
                    pty = subst(pty)
                args.append(self.coerce(t, ty, pty, given[p]))
            elif p in dmap:
                t, ty = self.E(dmap[p], {}, pty)
                args.append(self.coerce(t, ty, pty, dmap[p]))
            else:
                self.err(n, f"missing argument {p}")
        term = callee_spec["name"] + "".join(" " + atom(a) for a in args)
        callee = Fn(callee_spec, callee_node, self.table, self.effectful)
        rty = subst(callee.ret_type())
        if callee_spec["name"] in self.effectful:
            self.need_eff(n)
            term = f"(← {term})"
        else:
            term = f"({term})"
        if self.selfrec and callee_spec.get("selfw"):
            # the callee returns (value, written fields…): store the fields back into the instance, hand on the value
            if self.in_lambda:
                self.err(n, "call of a state-writing method inside a comprehension")
            self.fresh += 1
            k = self.fresh
            names = [f"w{k}_{SELF_FIELDS[path][0]}" for path in callee_spec["selfw"]]
            has_val = callee_spec["ret"] != "unit"
            pat = "(" + ", ".join(([f"r{k}"] if has_val else []) + names) + ")" if (len(names) + has_val) > 1 else names[0]
            self.lines.append(f"{self.cur_pad}let {pat} := {term}")
            ups = ", ".join(f"{SELF_FIELDS[path][0]} := {nm}" for path, nm in zip(callee_spec["selfw"], names))
            self.lines.append(f"{self.cur_pad}self := {{ self with {ups} }}")
            return (f"r{k}" if has_val else "()"), callee_spec["ret"]
        return term, rty

    def call_kwargs_ctor(self, cs, cnode, n, env):
        """`Population(agents=…, task_type=…)`: the `__init__(**kwargs)` translated with one parameter per keyword it reads;
        a keyword the caller omits takes the default of the callee's own `kwargs.get(name, default)`"""
        if n.args:
            self.err(n, "positional argument to a keyword-only constructor")
        given = {kw.arg: kw.value for kw in n.keywords}
        for k in given:
            if k not in cs["kwargs"]:
                self.err(n, f"unknown keyword {k}")
        defaults = {}
        for x in ast.walk(cnode):
            if isinstance(x, ast.Call) and isinstance(x.func, ast.Attribute) and x.func.attr == "get" and isinstance(x.func.value, ast.Name) \
                    and x.func.value.id == "kwargs" and x.args and isinstance(x.args[0], ast.Constant) and len(x.args) == 2:
                defaults.setdefault(x.args[0].value, x.args[1])
        args = []
        for k, kty in cs["kwargs"].items():
            if k in given:
                t, ty = self.E(given[k], env, kty)
                args.append(atom(self.coerce(t, ty, kty, given[k])))
            elif k in defaults:
                t, ty = self.E(defaults[k], {}, kty)
                args.append(atom(self.coerce(t, ty, kty, defaults[k])))
            elif isinstance(kty, tuple) and kty[0] == "opt":
                args.append("none")
            else:
                self.err(n, f"keyword {k} omitted and the constructor has no default for it")
        return f"({cs['name']} " + " ".join(args) + ")", cs["ret"]

    def implicit_args(self, cs, node, env=None):
        # in the order of the callee's header: arithmetic, opaque functions, constants, pool schedule, receiver, extras, random stream, then the instance attributes
        out = []
        if cs.get("rho"):
            if not self.spec.get("rho"):
                self.err(node, "callee runs optimizers, the caller is not declared to")
            out.append("optimize")
        if cs.get("R"):
            out.append("ar")
        for _, (pname, _, _) in cs.get("opaque", {}).items():
            out.append(pname)
        for c in cs.get("consts", {}).values():
            out.append(c)
        if cs.get("pool"):
            out.append("σ")
        if cs.get("selfobj"):
            if not getattr(self, "receiver", None):
                self.err(node, "method of an object called without a receiver")
            out.append(self.receiver)
        for nm, _ in cs.get("extra", []):
            if nm == "empty_solution" and self.spec.get("draws"):
                # the callee reads `self._task.empty_solution()` only when its `position` is None: a call without a position draws (and advances the stream),
                # a call with a position that cannot be None is handed what the next draw would be and does not advance it
                pos = [a for a in node.args] + [kw.value for kw in node.keywords if kw.arg == "position"]
                if not pos:
                    self.need_eff(node)
                    out.append("(← Py.nextDraw draw)")
                else:
                    _, pty = self.E(pos[0], env or {})
                    if pty != "raws":
                        self.err(node, f"position argument of type {pty}: whether the callee draws is not static")
                    self.need_eff(node)
                    out.append("(← Py.peekDraw draw)")
                continue
            if nm not in [e[0] for e in self.spec.get("extra", [])]:
                self.err(node, f"callee needs {nm}, which the caller does not have")
            out.append(nm)
        if cs.get("draws"):
            if not self.spec.get("draws"):
                self.err(node, "callee draws from the random stream, the caller is not declared to")
            out.append("draw")
        for path, (pname, pty) in list(cs.get("selfr", {}).items()) + list(cs.get("selfw", {}).items()):
            if self.selfrec:
                if path not in SELF_FIELDS:
                    self.err(node, f"callee needs self.{path}, which is not a framework attribute")
                f, fty = SELF_FIELDS[path]
                if fty == pty:
                    out.append(f"self.{f}")
                elif fty == O(pty):       # e.g. self._config: reading an attribute of None raises AttributeError
                    self.need_eff(node)
                    out.append(f"(← Py.attrOf self.{f})")
                else:
                    self.err(node, f"self.{path} has type {fty}, the callee expects {pty}")
                continue
            mine = self.selfr.get(path) or self.selfw.get(path)
            if mine is None:
                self.err(node, f"callee needs self.{path}, which is not in the caller's declared state")
            out.append(mine[0])
        return out

    # ---- statements
    def S(self, stmts, env, ind):
        """translate a block; returns True when every path through it returns / raises"""
        pad = "  " * ind
        i = 0
        while i < len(stmts):
            s = stmts[i]
            i += 1
            self.cur_pad = pad
            if isinstance(s, ast.Expr) and isinstance(s.value, ast.Constant) and isinstance(s.value.value, str):
                continue
            if self.ended and ast.unparse(s) in self.spec.get("after_init_ok", []):
                continue               # a private constant stored after the record has been built: not part of the returned fields
            if print_only(s):          # debug output: no effect on any value
                continue
            if isinstance(s, ast.FunctionDef) and s.name in self.spec.get("nested", {}):
                continue               # emitted as a separate definition
            if isinstance(s, ast.AnnAssign) and isinstance(s.target, (ast.Name, ast.Attribute)) and s.value is not None:
                self.assign(s.target, s.value, env, pad)
                continue
            if isinstance(s, ast.Break):
                if not self.loop_ret:
                    self.err(s, "break outside a translated loop")
                self.lines.append(f"{pad}return {self.loop_ret[-1]}")
                return True
            if isinstance(s, ast.While):
                self.while_true(s, env, ind)
                continue
            if isinstance(s, ast.Try):
                self.try_stmt(s, env, ind)
                continue
            if isinstance(s, ast.Return):
                if s.value is None:
                    self.lines.append(f"{pad}return {self.ret_term(None)}")
                else:
                    t, ty = self.E(s.value, env, self.spec["ret"])
                    t = self.coerce(t, ty, self.spec["ret"], s.value)
                    self.lines.append(f"{pad}return {self.ret_term(t)}")
                return True
            if isinstance(s, ast.Raise):
                exc = s.exc.func.id if isinstance(s.exc, ast.Call) and isinstance(s.exc.func, ast.Name) else None
                if exc not in EXC:
                    self.err(s, "raise of an unmapped exception")
                self.need_eff(s)
                self.lines.append(f"{pad}throw {EXC[exc]}")
                return True
            if isinstance(s, ast.Assign):
                if len(s.targets) != 1:
                    self.err(s, "chained assignment")
                self.assign(s.targets[0], s.value, env, pad)
                continue
            if isinstance(s, ast.AugAssign) and self.selfrec and self.self_path(s.target) in SELF_FIELDS:
                f, fty = SELF_FIELDS[self.self_path(s.target)]
                v, vty = self.E(s.value, env)
                if isinstance(s.op, ast.Add) and fty == "int" and vty in ("int", "intlit"):
                    self.lines.append(f"{pad}self := {{ self with {f} := self.{f} + {v} }}")
                    continue
                self.err(s, "augmented assignment to a framework attribute")
            if isinstance(s, ast.AugAssign):
                if not isinstance(s.target, ast.Name) or s.target.id not in env:
                    self.err(s, "augmented assignment target")
                cur, cty = env[s.target.id]
                v, vty = self.E(s.value, env)
                if isinstance(s.op, ast.BitOr) and cty == "bool" and vty == "bool":
                    self.lines.append(f"{pad}{cur} := {cur} || {v}")
                elif isinstance(s.op, ast.Add) and cty == "int" and vty in ("int", "intlit"):
                    self.lines.append(f"{pad}{cur} := {cur} + {v}")
                else:
                    self.err(s, "augmented assignment operator")
                continue
            if isinstance(s, ast.Expr) and isinstance(s.value, ast.Yield) and self.spec.get("generator") and s.value.value is not None:
                # a generator whose only consumer takes all of it (`list(ParameterGrid(...))`): the yielded values, in order
                rt = self.spec["ret"][1]
                t, ty = self.E(s.value.value, env, rt)
                self.lines.append(f"{pad}gen_out := gen_out ++ [{self.coerce(t, ty, rt, s.value.value)}]")
                continue
            if isinstance(s, ast.Expr):
                self.expr_stmt(s.value, env, pad)
                continue
            if isinstance(s, ast.If):
                self.if_stmt(s, env, ind)
                continue
            if isinstance(s, ast.For):
                it, ity = self.E(s.iter, env)
                if not (isinstance(ity, tuple) and ity[0] == "list"):
                    self.err(s, f"iteration over a {ity}")
                if s.orelse:
                    self.err(s, "for … else")
                env2 = dict(env)
                pat = self.bind_target(s.target, ity[1], env2)
                self.lines.append(f"{pad}for {pat} in {it} do")
                self.loop_depth = getattr(self, "loop_depth", 0) + 1
                try:
                    self.S(s.body, env2, ind + 1)
                finally:
                    self.loop_depth -= 1
                continue
            if isinstance(s, ast.With):
                # `with get_pool_executor(mode, workers) as executor:` — the pool is a scheduling device: body only
                if len(s.items) == 1 and isinstance(s.items[0].context_expr, ast.Call) and getattr(s.items[0].context_expr.func, "id", None) == "get_pool_executor" \
                        and isinstance(s.items[0].optional_vars, ast.Name):
                    for a in s.items[0].context_expr.args:
                        self.E(a, env)       # the arguments must at least be well-formed reads
                    env[s.items[0].optional_vars.id] = ("executor", "executor")
                    if self.S(s.body, env, ind):
                        return True
                    continue
                if self.spec.get("rho") and len(s.items) == 1 and ast.unparse(s.items[0].context_expr.func if isinstance(s.items[0].context_expr, ast.Call) else s.items[0].context_expr) == "parallel.ProcessPoolExecutor" \
                        and isinstance(s.items[0].optional_vars, ast.Name) and len(s.items[0].context_expr.args) == 1 and not s.items[0].context_expr.keywords:
                    _, pty = self.E(s.items[0].context_expr.args[0], env)
                    if pty != "poolsize":
                        self.err(s, f"pool of size {pty}")
                    env[s.items[0].optional_vars.id] = ("executor", "executor")
                    if self.S(s.body, env, ind):
                        return True
                    continue
                self.err(s, "with statement")
            self.err(s, f"statement {type(s).__name__}")
        return False

    def store(self, target, term, ty, env, pad, node):
        """store a computed value into an arbitrary target (name, framework attribute, nested tuples)"""
        if isinstance(target, ast.Name):
            self.declare(target.id, ty, term, env, pad)
            return
        sp = self.self_path(target)
        if sp is not None and self.selfrec:
            if sp not in SELF_FIELDS:
                self.err(target, f"store into self.{sp}, which is not a framework attribute")
            f, fty = SELF_FIELDS[sp]
            self.lines.append(f"{pad}self := {{ self with {f} := {self.coerce(term, ty, fty, node)} }}")
            return
        if isinstance(target, ast.Tuple) and len(target.elts) == 1 and isinstance(ty, tuple) and ty[0] == "list":
            self.need_eff(target)
            self.fresh += 1
            u = f"u{self.fresh}"
            self.lines.append(f"{pad}let {u} ← Py.unpack1 {atom(term)}")
            self.store(target.elts[0], u, ty[1], env, pad, node)
            return
        if isinstance(target, ast.Tuple) and isinstance(ty, tuple) and ty[0] == "tuple" and len(ty[1]) == len(target.elts):
            names = []
            for _ in target.elts:
                self.fresh += 1
                names.append(f"u{self.fresh}")
            self.lines.append(f"{pad}let ({', '.join(names)}) := {term}")
            for e, nm, t in zip(target.elts, names, ty[1]):
                self.store(e, nm, t, env, pad, node)
            return
        self.err(target, f"assignment target for a {ty}")

    def assign(self, target, value, env, pad):
        if isinstance(target, ast.Subscript) and isinstance(target.value, ast.Name) and target.value.id in env \
                and isinstance(env[target.value.id][1], tuple) and env[target.value.id][1][0] == "dict" and target.value.id in self.muts:
            d, dty = env[target.value.id]
            k, kty = self.E(target.slice, env)
            v, vty = self.E(value, env)
            if kty != "str" or vty != dty[1]:
                self.err(target, f"dict store of a {vty} under a {kty} key")
            self.lines.append(f"{pad}{d} := Py.dictSet {d} {atom(k)} {atom(v)}")
            return
        if self.spec.get("init_children") and self.self_path(target) == "_children":
            v, vty = self.E(value, env, self.spec["ret"])
            if vty != self.spec["ret"]:
                self.err(value, f"_children of type {vty}")
            self.lines.append(f"{pad}return {v}")
            self.ended = True
            return
        if isinstance(target, ast.Subscript) and isinstance(target.value, ast.Name) and target.value.id == "kwargs" and "kwargs" in self.spec \
                and isinstance(target.slice, ast.Constant) and target.slice.value in self.spec["kwargs"]:
            k = target.slice.value
            v, vty = self.E(value, env, self.spec["kwargs"][k])
            self.lines.append(f"{pad}kw_{k} := {self.coerce(v, vty, self.spec['kwargs'][k], value)}")
            return
        if self.selfrec and (self.self_path(target) is not None or (isinstance(target, ast.Tuple) and any(not isinstance(e, ast.Name) for e in target.elts))):
            v, vty = self.E(value, env)
            self.store(target, v, vty, env, pad, value)
            return
        # x, = e   /  (a,), (b,) = e
        if isinstance(target, ast.Tuple) and len(target.elts) == 1 and isinstance(target.elts[0], ast.Name):
            v, vty = self.E(value, env)
            if not (isinstance(vty, tuple) and vty[0] == "list"):
                self.err(target, f"unpacking a {vty}")
            self.need_eff(target)
            name = target.elts[0].id
            if name in self.muts and self.var_types.get(name) == "objval":
                env[name] = (name, "objval")
            self.declare(name, vty[1], f"(← Py.unpack1 {atom(v)})", env, pad)
            return
        if isinstance(target, ast.Tuple) and all(isinstance(e, ast.Name) for e in target.elts):
            v, vty = self.E(value, env)
            if not (isinstance(vty, tuple) and vty[0] == "tuple" and len(vty[1]) == len(target.elts)):
                self.err(target, f"unpacking a {vty} into {len(target.elts)} names")
            tmp = "(" + ", ".join("t_" + e.id for e in target.elts) + ")"
            self.lines.append(f"{pad}let {tmp} := {v}")
            for e, t in zip(target.elts, vty[1]):
                self.declare(e.id, t, "t_" + e.id, env, pad)
            return
        if isinstance(target, ast.Name):
            want = env[target.id][1] if target.id in env else None
            v, vty = self.E(value, env, want)
            if isinstance(value, (ast.Name, ast.Attribute)) and isinstance(vty, tuple) and vty[0] == "list":
                src = value.id if isinstance(value, ast.Name) else None
                if target.id in self.inplace or (src is not None and src in self.inplace) or (src is None and self.self_path(value) is not None):
                    self.err(value, "alias of a list that is edited in place")
            # Python 3's zip / map / filter / enumerate / reversed objects and generator expressions are ONE-SHOT iterators: bound to a name they may be
            # consumed once (the translation treats them as the list of their elements, see `use_iter`)
            lazy = isinstance(value, ast.GeneratorExp) or (isinstance(value, ast.Call) and isinstance(value.func, ast.Name)
                                                           and value.func.id in ("zip", "map", "filter", "enumerate", "reversed", "iter"))
            if lazy and isinstance(vty, tuple) and vty[0] == "list":
                vty = ("iter", vty[1])
            if vty == "emptydict":
                vty = want if want is not None else self.forward_type(target.id, value)
                v = "[]"
            if vty in ("emptylist", "none", "intlit"):
                if want is not None:
                    v = self.coerce(v, vty, want, value)
                    vty = want
                elif vty == "intlit":
                    vty = "int"
                else:
                    vty = self.forward_type(target.id, value)
                    v = self.coerce(v, "emptylist" if v == "[]" else "none", vty, value)
            self.declare(target.id, vty, v, env, pad)
            return
        sp = self.self_path(target)
        if sp is not None:
            if sp not in self.selfw:
                self.err(target, f"store into self.{sp}, which is not declared writable state")
            pname, pty = self.selfw[sp]
            v, vty = self.E(value, env, pty)
            self.lines.append(f"{pad}{pname} := {self.coerce(v, vty, pty, value)}")
            return
        self.err(target, "assignment target")

    def forward_type(self, name, value):
        """type of a local initialised with [] / None: taken from the declared locals of the spec"""
        t = self.spec.get("locals", {}).get(name)
        if t is None:
            t = self.infer_local(name)
        if t is None:
            self.err(value, f"cannot type the empty initialiser of {name}")
        return t

    def infer_local(self, name):
        return self.local_types.get(name)

    def declare(self, name, ty, term, env, pad):
        if name in self.muts and self.var_types.get(name) == "objval" and ty in ("num", L("num"), "objval"):
            self.lines.append(f"{pad}{name} := {self.coerce(term, ty, 'objval', None)}")
            env[name] = (name, "objval")
            return
        if name in env and env[name][0] == name and name in self.muts and env[name][1] != ty:
            # a name re-bound to a value of another type (`position = task.initial_solution(position)`): a new binding shadows the old one
            self.fresh += 1
            new = f"{name}_{self.fresh}"           # Lean does not let a mutable variable be shadowed: the re-typed value gets a name of its own
            self.lines.append(f"{pad}let {new} := {term}")
            env[name] = (new, ty)
            return
        if name in env and env[name][0] == name and name in self.muts:
            self.lines.append(f"{pad}{name} := {term}")
        else:
            kw = "let mut" if name in self.reassigned else "let"
            self.lines.append(f"{pad}{kw} {name} := {term}")
            env[name] = (name, ty)
            if name in self.reassigned:
                self.muts.add(name)
                self.var_types[name] = ty

    def expr_stmt(self, v, env, pad):
        if isinstance(v, ast.Call) and isinstance(v.func, ast.Attribute) and self.spec.get("hooks"):
            f = v.func
            if isinstance(f.value, ast.Name) and f.value.id == "self" and f.attr in HOOK_METHODS and not v.args and not v.keywords:
                self.need_eff(v)
                self.lines.append(f"{pad}self ← H.{HOOK_METHODS[f.attr]} self")
                return
            if ast.unparse(f) == "np.random.seed" and len(v.args) == 1 and not v.keywords:
                t, ty = self.E(v.args[0], env)
                if ty != "int":
                    self.err(v, f"np.random.seed of a {ty}")
                self.lines.append(f"{pad}self := {{ self with priv := H.np_random_seed {atom(t)} self.priv }}")
                return
        if self.spec.get("kwargs_empty") and ast.unparse(v) == "self.__set_keyword_arguments__(kwargs)":
            # the constructor is modelled for calls without extra keyword arguments: the callee must be the plain `setattr` loop over them (nothing to do)
            callee = self.spec.get("_class_methods", {}).get("__set_keyword_arguments__")
            if callee is None or [ast.unparse(x) for x in callee.body] != ["for key, value in kwargs.items():\n    setattr(self, key, value)"]:
                self.err(v, "__set_keyword_arguments__ is not the plain setattr loop over the extra keyword arguments")
            return
        if self.spec.get("init_children") and ast.unparse(v) == "super().__init__(**kwargs)":
            return       # pydantic stores the declared fields: they are this function's parameters
        if "kwargs" in self.spec and ast.unparse(v) == "super().__init__(**kwargs)":
            fields = ["kw_" + k for k in self.spec["ret_fields"]]
            self.lines.append(f"{pad}return " + (fields[0] if len(fields) == 1 else "(" + ", ".join(fields) + ")"))
            self.ended = True
            return
        if isinstance(v, ast.Call) and isinstance(v.func, ast.Attribute):
            f = v.func
            recv_self = self.self_path(f.value)
            # x.sort(key=lambda a: a.cost, reverse=…)
            if f.attr == "sort" and isinstance(f.value, ast.Name) and f.value.id in env:
                cur, cty = env[f.value.id]
                if f.value.id not in self.muts:
                    self.err(v, "in-place sort of a non-local list (would mutate the caller's list)")
                key = rev = None
                for kw in v.keywords:
                    if kw.arg == "key" and isinstance(kw.value, ast.Lambda) and len(kw.value.args.args) == 1:
                        a = kw.value.args.args[0].arg
                        kt, kty = self.E(kw.value.body, {**env, a: (a, cty[1])})
                        if kty != "num":
                            self.err(v, f"sort key of type {kty}")
                        key = f"(fun {a} => {kt})"
                    elif kw.arg == "reverse":
                        rt, rty = self.E(kw.value, env)
                        rev = self.truthy(rt, rty, kw.value)
                    else:
                        self.err(v, f"sort keyword {kw.arg}")
                if key is None or v.args:
                    self.err(v, "sort without a key")
                self.lines.append(f"{pad}{cur} := Py.sortKey {key} {atom(rev or 'false')} {cur}")
                return
            if f.attr == "append" and len(v.args) == 1 and isinstance(v.args[0], (ast.Name, ast.Attribute)):
                # value semantics are only sound when no alias of a mutable list is retained: `history.append(self._population)`
                # would record the live list object, which later in-place edits rewrite
                at, aty = self.E(v.args[0], env)
                if isinstance(aty, tuple) and aty[0] == "list":
                    self.err(v, "a list is stored without being copied (aliasing: later in-place edits would rewrite the stored value)")
            if f.attr in ("append", "extend") and len(v.args) == 1:
                if isinstance(f.value, ast.Name) and f.value.id in env and f.value.id in self.muts:
                    cur, cty = env[f.value.id]
                elif recv_self is not None and self.selfrec and recv_self in SELF_FIELDS:
                    fld, cty = SELF_FIELDS[recv_self]
                    a, aty = self.E(v.args[0], env, cty[1] if f.attr == "append" else cty)
                    if f.attr == "append":
                        self.lines.append(f"{pad}self := {{ self with {fld} := self.{fld} ++ [{self.coerce(a, aty, cty[1], v.args[0])}] }}")
                    else:
                        self.lines.append(f"{pad}self := {{ self with {fld} := self.{fld} ++ {a} }}")
                    return
                elif recv_self is not None and recv_self in self.selfw:
                    cur, cty = self.selfw[recv_self]
                else:
                    self.err(v, f".{f.attr} on something that is neither a local list nor declared writable state")
                a, aty = self.E(v.args[0], env, cty[1] if f.attr == "append" else cty)
                if f.attr == "append":
                    a = self.coerce(a, aty, cty[1], v.args[0])
                    self.lines.append(f"{pad}{cur} := {cur} ++ [{a}]")
                else:
                    if aty != cty:
                        self.err(v, f"extend of {cty} with {aty}")
                    self.lines.append(f"{pad}{cur} := {cur} ++ {a}")
                return
        t, ty = self.E(v, env)
        if t == "()":
            return
        if ty == "unit":
            self.lines.append(f"{pad}let _ := {t}")
            return
        self.err(v, "expression statement with an unmodelled effect")

    def while_true(self, s, env, ind):
        """`while True: … if c: break …` -> a fuelled recursive definition over the variables the loop carries"""
        pad = "  " * ind
        if not (isinstance(s.test, ast.Constant) and s.test.value is True) or s.orelse:
            self.err(s, "loop other than `while True:`")
        if not self.spec.get("fuel"):
            self.err(s, "while loop in a function without a fuel parameter")
        assigned = set()
        for x in ast.walk(s):
            if isinstance(x, (ast.Assign, ast.AugAssign)):
                for t in (x.targets if isinstance(x, ast.Assign) else [x.target]):
                    for nm in ast.walk(t):
                        if isinstance(nm, ast.Name) and nm.id in env:
                            assigned.add(nm.id)
            if isinstance(x, ast.Call) and isinstance(x.func, ast.Attribute) and x.func.attr in ("append", "extend", "sort") and isinstance(x.func.value, ast.Name) and x.func.value.id in env:
                assigned.add(x.func.value.id)
        carried = (["self"] if self.selfrec else []) + sorted(assigned)
        ctypes = [("self" if c == "self" else env[c][1]) for c in carried]
        tup = "(" + ", ".join(carried) + ")" if len(carried) > 1 else carried[0]
        lname = f"{self.spec['name']}_loop"
        # the loop body, translated with the carried variables as mutable locals
        saved_lines, saved_muts = self.lines, set(self.muts)
        self.lines = []
        self.loop_ret.append(tup)
        env2 = dict(env)
        for c in carried:
            self.lines.append(f"    let mut {c} := {c}")
            if c != "self":
                self.muts.add(c)
        ended = self.S(s.body, env2, 2)
        if not ended:
            self.lines.append(f"    {lname} {self.sig_args} fuel " + " ".join(carried))
        body = self.lines
        self.loop_ret.pop()
        self.lines, self.muts = saved_lines, saved_muts
        params = " ".join(f"({c} : {lean_type('self' if c == 'self' else env[c][1])})" for c in carried)
        rty = " × ".join(lean_type_atom(t) for t in ctypes)
        free = sorted(nm for nm in env if nm not in carried and nm in {x.id for x in ast.walk(s) if isinstance(x, ast.Name)})
        fparams = " ".join(f"({nm} : {lean_type(env[nm][1])})" for nm in free)
        self.loop_defs.append(
            f"/-- the `while True:` loop of `{self.spec['src'][1]}` (line {s.lineno}); `fuel` bounds the number of iterations, `break` returns -/\n"
            f"def {lname} {self.sig_header} {fparams} (fuel : Nat) {params} : Except Err ({rty}) :=\n"
            f"  match fuel with\n  | 0 => return {tup}\n  | fuel + 1 => do\n" + "\n".join(body) + "\n")
        self.sig_loop_free = free
        call = f"{lname} {self.sig_args} " + " ".join(free) + " fuel " + " ".join(carried)
        # fix the recursive call inside the body to pass the free variables as well
        self.loop_defs[-1] = self.loop_defs[-1].replace(f"{lname} {self.sig_args} fuel ", f"{lname} {self.sig_args} " + "".join(f + " " for f in free) + "fuel ")
        self.need_eff(s)
        ltup = "(" + ", ".join("l_" + c for c in carried) + ")" if len(carried) > 1 else "l_" + carried[0]
        self.lines.append(f"{pad}let {ltup} ← {call}")
        for c in carried:
            self.lines.append(f"{pad}{c} := l_{c}")
        # the carried locals are rebound by the pattern above (shadowing): keep them immutable from here on unless reassigned

    def try_stmt(self, s, env, ind):
        """`try: A except E: raise E2`"""
        pad = "  " * ind
        if s.orelse or s.finalbody or len(s.handlers) != 1:
            self.err(s, "try statement shape")
        h = s.handlers[0]
        exc = h.type.id if isinstance(h.type, ast.Name) else None
        if exc not in EXC or h.name is not None or len(h.body) != 1 or not isinstance(h.body[0], ast.Raise):
            self.err(s, "exception handler shape")
        r = h.body[0]
        exc2 = r.exc.func.id if isinstance(r.exc, ast.Call) and isinstance(r.exc.func, ast.Name) else None
        if exc2 not in EXC:
            self.err(s, "handler raises an unmapped exception")
        self.need_eff(s)
        # the guarded statement must be a single assignment: its right-hand side is evaluated under the handler, the store
        # itself (which cannot raise) happens after it
        if len(s.body) != 1 or not isinstance(s.body[0], ast.Assign) or len(s.body[0].targets) != 1:
            self.err(s, "try body other than a single assignment")
        a = s.body[0]
        v, vty = self.E(a.value, env)
        self.fresh += 1
        t = f"t{self.fresh}"
        self.lines.append(f"{pad}let {t} ← tryCatch (do return {v}) (fun e => if e = {EXC[exc]} then throw {EXC[exc2]} else throw e)")
        self.store(a.targets[0], t, vty, env, pad, a.value)

    def if_stmt(self, s, env, ind):
        pad = "  " * ind
        # `if X is not None:` / `if X is None: X = e` on an optional local: narrowing
        test = s.test
        if isinstance(test, ast.Compare) and len(test.ops) == 1 and isinstance(test.comparators[0], ast.Constant) and test.comparators[0].value is None \
                and isinstance(test.left, ast.Name) and test.left.id in env and isinstance(env[test.left.id][1], tuple) and env[test.left.id][1][0] == "opt":
            x = test.left.id
            xt, xty = env[x]
            if isinstance(test.ops[0], ast.IsNot) and not s.orelse:
                env2 = dict(env)
                env2[x] = (x, xty[1])
                self.lines.append(f"{pad}if let some {x} := {xt} then")
                self.S(s.body, env2, ind + 1)
                return
            if isinstance(test.ops[0], ast.Is) and not s.orelse and len(s.body) == 1 and isinstance(s.body[0], (ast.Return, ast.Raise)):
                # `if X is None: return …` — afterwards X is not None
                self.lines.append(f"{pad}let some {x} := {xt} | do")
                self.S(s.body, dict(env), ind + 1)
                env[x] = (x, xty[1])
                self.muts.discard(x)
                return
            if isinstance(test.ops[0], ast.Is) and not s.orelse and len(s.body) == 1 and isinstance(s.body[0], ast.Assign) \
                    and isinstance(s.body[0].targets[0], ast.Name) and s.body[0].targets[0].id == x:
                v, vty = self.E(s.body[0].value, env, xty[1])
                v = self.coerce(v, vty, xty[1], s.body[0].value)
                self.lines.append(f"{pad}let {x} := match {xt} with | some v => v | none => {v}")
                env[x] = (x, xty[1])
                self.muts.discard(x)
                return
        if isinstance(test, ast.Compare) and len(test.ops) == 1 and isinstance(test.ops[0], ast.Is) and isinstance(test.comparators[0], ast.Constant) \
                and test.comparators[0].value is None and isinstance(test.left, ast.Attribute) and not s.orelse and len(s.body) == 1 \
                and isinstance(s.body[0], (ast.Return, ast.Raise)):
            # `if self.x is None: return …` — afterwards self.x is not None
            x, xty = self.E(test.left, env)
            if isinstance(xty, tuple) and xty[0] == "opt":
                self.fresh += 1
                v = f"n{self.fresh}"
                self.lines.append(f"{pad}let some {v} := {x} | do")
                self.S(s.body, dict(env), ind + 1)
                self.narrow[ast.dump(test.left)] = (v, xty[1])
                return
        if isinstance(test, ast.Compare) and len(test.ops) == 1 and isinstance(test.ops[0], ast.IsNot) and isinstance(test.comparators[0], ast.Constant) \
                and test.comparators[0].value is None and isinstance(test.left, ast.Attribute):
            x, xty = self.E(test.left, env)
            if isinstance(xty, tuple) and xty[0] == "opt":
                self.fresh += 1
                v = f"n{self.fresh}"
                key = ast.dump(test.left)
                self.lines.append(f"{pad}if let some {v} := {x} then")
                self.narrow[key] = (v, xty[1])
                try:
                    self.S(s.body, dict(env), ind + 1)
                finally:
                    self.narrow.pop(key, None)
                if s.orelse:
                    self.lines.append(f"{pad}else")
                    self.S(s.orelse, dict(env), ind + 1)
                return
        if isinstance(test, ast.Call) and isinstance(test.func, ast.Name) and test.func.id == "isinstance" and len(test.args) == 2 and isinstance(test.args[0], ast.Name) \
                and ast.unparse(test.args[1]) == "list" and env.get(test.args[0].id, (None, None))[1] == "objval" and not s.orelse:
            nm = test.args[0].id
            self.fresh += 1
            vl = f"l{self.fresh}"
            self.lines.append(f"{pad}if let .multi {vl} := {env[nm][0]} then")
            self.S(s.body, {**env, nm: (vl, L("num"))}, ind + 1)
            return
        c, cty = self.E(test, env)
        self.lines.append(f"{pad}if {self.truthy(c, cty, test)} then")
        self.S(s.body, dict(env), ind + 1)
        if s.orelse:
            self.lines.append(f"{pad}else")
            self.S(s.orelse, dict(env), ind + 1)

    # ---- whole function
    def translate(self) -> str:
        sp, fn = self.spec, self.node
        params = [a.arg for a in fn.args.args if a.arg != "self"]
        if list(sp["params"].keys()) != params:
            raise Untranslatable(fn, f"parameters are {params}, the typing spec expects {list(sp['params'].keys())}")
        if sp.get("init_children") and not (fn.args.kwarg is not None and fn.args.kwarg.arg == "kwargs" and len(fn.body) >= 2):
            raise Untranslatable(fn, "constructor shape")
        if "kwargs" in sp and not (fn.args.kwarg is not None and fn.args.kwarg.arg == "kwargs"):
            raise Untranslatable(fn, "constructor no longer takes **kwargs")
        self.loop_ret = []
        self.ended = False
        # locals assigned more than once / mutated in place -> `let mut`
        counts = {}
        self.local_types = {}
        for node in ast.walk(fn):
            if isinstance(node, (ast.Assign, ast.AugAssign)):
                tg = node.targets if isinstance(node, ast.Assign) else [node.target]
                for t in tg:
                    for nm in ast.walk(t):
                        if isinstance(nm, ast.Name):
                            counts[nm.id] = counts.get(nm.id, 0) + (2 if isinstance(node, ast.AugAssign) else 1)
            if isinstance(node, ast.Call) and isinstance(node.func, ast.Attribute) and node.func.attr in ("sort", "append", "extend") and isinstance(node.func.value, ast.Name):
                counts[node.func.value.id] = counts.get(node.func.value.id, 0) + 2
            if isinstance(node, ast.Assign) and isinstance(node.targets[0], ast.Subscript) and isinstance(node.targets[0].value, ast.Name):
                counts[node.targets[0].value.id] = counts.get(node.targets[0].value.id, 0) + 2
            if isinstance(node, ast.For):      # anything assigned inside a loop body is reassigned
                for sub in ast.walk(node):
                    if isinstance(sub, ast.Assign):
                        for t in sub.targets:
                            if isinstance(t, ast.Name):
                                counts[t.id] = counts.get(t.id, 0) + 2
        self.reassigned = {k for k, c in counts.items() if c >= 2}
        self.inplace = {n.func.value.id for n in ast.walk(fn) if isinstance(n, ast.Call) and isinstance(n.func, ast.Attribute)
                        and n.func.attr in ("sort", "append", "extend", "pop", "insert", "remove", "reverse", "clear") and isinstance(n.func.value, ast.Name)}
        self.muts = set()
        # forward typing of locals initialised with []: the type of the first append / later assignment
        self.local_types.update(sp.get("locals", {}))
        env = {}
        header = []
        if sp.get("poly"):
            header.append("{α : Type}")
        if sp.get("float_ops"):
            # double arithmetic whose rounding is not modelled: `+`, `/` and `abs` on doubles are parameters (negation and comparisons are exact)
            header.append("(fl : Py.FloatOps)")
        if sp.get("rho_type"):
            header.append("{ρ : Type}")
        if sp.get("rho"):
            # the result of `optimizer.optimize(task, mode=…, workers=…)` made in the worker process of a given trial: an opaque function of the two objects,
            # the mode string, the workers argument and the trial whose process makes the call
            header.append("{ρ : Type} (optimize : Multi.Obj → Multi.Obj → String → Option Int → Int → ρ)")
        if sp.get("selfrec"):
            header.append("{R σ τ : Type} (ar : Arith R) (H : Hooks R σ τ)")
        elif sp.get("R"):
            header.append("{R : Type} (ar : Arith R)")
        elif sp.get("Rtype"):
            header.append("{R : Type}")
        for _, (pname, lty, _) in sp.get("opaque", {}).items():
            header.append(f"({pname} : {lty})")
        for c in sp.get("consts", {}).values():
            header.append(f"({c} : R)")
        if sp.get("pool"):
            header.append("(σ : List Nat)")
        if sp.get("selfobj"):
            header.append(f"({sp['selfobj'][0]} : {lean_type(sp['selfobj'][1])})")
        for nm, lty in sp.get("extra", []):
            header.append(f"({nm} : {lty})")
        if sp.get("draws"):
            header.append("(draw : Nat → List Raw)")
        self.sig_header = " ".join(header)          # type / opaque parameters shared with a loop definition
        for path, (pname, ty) in list(self.selfr.items()) + list(self.selfw.items()):
            header.append(f"({pname} : {lean_type(ty)})")
        for p, ty in sp["params"].items():
            if ty == "result":
                for _, (pname, fty) in RESULT_FIELDS.items():
                    header.append(f"({pname} : {lean_type(fty)})")
                env[p] = (p, "result")
            else:
                header.append(f"({p} : {lean_type(ty)})")
                env[p] = (p, ty)
        self.sig_args = " ".join(["ar"] * bool(sp.get("R")) + ["H"] * bool(sp.get("hooks")) + [pn for pn, _, _ in sp.get("opaque", {}).values()] + list(sp.get("consts", {}).values()))
        for k, kty in sp.get("kwargs", {}).items():
            header.append(f"(kw_{k} : {lean_type(kty)})")
        if sp.get("fuel"):
            header.append("(fuel : Nat)")
        if sp.get("selfrec"):
            header.append("(self : Self R σ τ)")
        rty = lean_type(self.ret_type())
        self.lines = []
        if sp.get("generator"):
            self.lines.append("  let mut gen_out := []")
        if sp.get("selfrec"):
            self.lines.append("  let mut self := self")
        for k in sp.get("kwargs", {}):
            self.lines.append(f"  let mut kw_{k} := kw_{k}")
        for pname, _ in self.selfw.values():
            self.lines.append(f"  let mut {pname} := {pname}")
        for p in sp["params"]:
            if p in self.reassigned and sp["params"][p] != "result":
                self.lines.append(f"  let mut {p} := {p}")
                self.muts.add(p)
        nested_defs = []
        for st in fn.body:
            if isinstance(st, ast.FunctionDef) and st.name in sp.get("nested", {}):
                nd = sp["nested"][st.name]
                sub = Fn(dict(name=f"{sp['name']}_{st.name}", src=(sp["src"][0], sp["src"][1] + "." + st.name), params=nd["params"], ret=nd["ret"]),
                         st, self.table, self.effectful)
                nested_defs.append(sub.translate())
        done = self.S(fn.body, env, 1) or self.ended
        if not done and sp.get("generator"):
            if any(isinstance(x, ast.Return) for x in ast.walk(fn)):
                raise Untranslatable(fn, "return inside a generator")
            self.lines.append("  return gen_out")
            done = True
        if not done:
            if sp["ret"] != "unit":
                raise Untranslatable(fn, "control can reach the end of a function that returns a value")
            self.lines.append(f"  return {self.ret_term(None)}")
        head = f"def {sp['name']} " + " ".join(header) + " : " + (f"StateT Nat (Except Err) {atom_type(rty)}" if sp.get("draws") else f"Except Err {atom_type(rty)}" if self.eff else rty) + " := " + ("do" if self.eff else "Id.run do")
        doc = f"/-- `{sp['src'][0]}:{sp['src'][1]}` (line {fn.lineno}) -/"
        pre = "".join(d + "\n" for d in nested_defs) + "".join(d + "\n" for d in self.loop_defs)
        return pre + doc + "\n" + head + "\n" + "\n".join(self.lines) + "\n"


def norm_type(t):
    """`raws` / `coords` are lists of raw / corrected coordinates"""
    if t == "raws":
        return L("raw")
    if t == "coords":
        return L("coord")
    if isinstance(t, tuple) and t[0] in ("list", "opt", "dict"):
        return (t[0], norm_type(t[1]))
    if isinstance(t, tuple) and t[0] == "tuple":
        return ("tuple", [norm_type(x) for x in t[1]])
    return t


def print_only(s) -> bool:
    """a statement whose only effect is debug output: `print(...)`, or an `if` guarding nothing but such statements"""
    if isinstance(s, ast.Expr) and isinstance(s.value, ast.Call) and isinstance(s.value.func, ast.Name) and s.value.func.id == "print":
        # only if printing cannot change anything: no calls (other than a few pure builtins / strftime-like formatting), no walrus
        for x in ast.walk(s.value):
            if isinstance(x, ast.NamedExpr):
                return False
            if isinstance(x, ast.Call) and x is not s.value:
                if not (isinstance(x.func, ast.Name) and x.func.id in ("len", "str", "abs", "round", "repr", "float", "int", "min", "max", "sum")):
                    return False
        return True
    if isinstance(s, ast.If) and not s.orelse and all(print_only(x) for x in s.body):
        return True
    return False


def atom(t: str) -> str:
    t = t.strip()
    if " " in t and not (t.startswith("(") and matching(t)) and not (t.startswith("[") and t.endswith("]")):
        return f"({t})"
    return t


def atom_type(t: str) -> str:
    return f"({t})" if " " in t else t


def matching(t: str) -> bool:
    """does the opening parenthesis at 0 close at the very end"""
    d = 0
    for i, ch in enumerate(t):
        if ch == "(":
            d += 1
        elif ch == ")":
            d -= 1
            if d == 0:
                return i == len(t) - 1
    return False


def infer_effects(table) -> set[str]:
    """which translated functions can raise: raise, indexing, unpacking, or a call of such a function (fixpoint)"""
    eff = set()
    calls = {}
    for key, (sp, node) in table.items():
        own = False
        cs = set()
        for n in (x for st in node.body for x in ast.walk(st)):
            if isinstance(n, ast.Raise):
                own = True
            if isinstance(n, ast.Subscript) and not isinstance(n.slice, ast.Slice) and not (isinstance(n.value, ast.Name) and n.value.id == "kwargs"):
                own = True
            if isinstance(n, ast.BinOp) and isinstance(n.op, (ast.Mod, ast.FloorDiv, ast.Div)):
                own = True
            if isinstance(n, ast.Assign) and isinstance(n.targets[0], ast.Tuple):
                for e in ast.walk(n.targets[0]):
                    if isinstance(e, ast.Tuple) and len(e.elts) == 1:
                        own = True
            if isinstance(n, ast.Call):
                if isinstance(n.func, ast.Name) and n.func.id in table:
                    cs.add(n.func.id)
                if isinstance(n.func, ast.Attribute) and isinstance(n.func.value, ast.Name) and n.func.value.id == "self":
                    cls = sp["src"][1].split(".")[0] if "." in sp["src"][1] else None
                    for cand in (f"{cls}::self.{n.func.attr}", "self." + n.func.attr):
                        if cand in table:
                            cs.add(cand)
                            break
                if isinstance(n.func, ast.Name) and n.func.id in ("int", "Agent", "ModeSolver"):
                    own = True
                if isinstance(n.func, ast.Attribute) and n.func.attr == "correct_solution":
                    own = True
                if isinstance(n.func, ast.Attribute) and f"Task::self.{n.func.attr}" in table and sp["src"][1].split(".")[0] != "Task" \
                        and ast.unparse(n.func.value) == "self._task":
                    cs.add(f"Task::self.{n.func.attr}")
        calls[key] = cs
        if own or sp.get("selfrec") or sp.get("uses_dispatch") or sp.get("uses_var_dispatch") or sp.get("grid"):
            eff.add(key)
    changed = True
    while changed:
        changed = False
        for k, cs in calls.items():
            if k not in eff and cs & eff:
                eff.add(k)
                changed = True
    return eff, calls


# the declared variable classes: VarDecl constructor, pattern variables, class, prefix of its translated methods, how its fields are read off the
# constructor's arguments, and the flattened `Var` a scalar class stands for (`get()` returning `self`)
CLASSES = [
    (".cont", "lb ub", "ContinuousVariable", "cont", {"lower_bound": "lb", "upper_bound": "ub"}, "(Var.cont lb ub)"),
    (".contMulti", "lbs ubs", "ContinuousMultiVariable", "contmulti", {"lower_bounds": "lbs", "upper_bounds": "ubs"}, None),
    (".disc", "n", "DiscreteVariable", "disc", {"choices": "(List.range n)"}, "(Var.disc n)"),
    (".discMulti", "ns", "DiscreteMultiVariable", "discmulti", {"choices": "(ns.map List.range)"}, None),
    (".perm", "n", "PermutationVariable", "perm", {"items": "(List.range n)"}, "(Var.perm n)"),
    (".multiObj", "lbs ubs", "MultiObjectiveVariable", "multiobj", {"lower_bounds": "lbs", "upper_bounds": "ubs"}, None),
    (".binary", "n", "BinaryVariable", "binary", {"n_vars": "n"}, None),
]


def dispatchers(table, trees, effectful, failed) -> tuple[str | None, str | None]:
    """`v.has_children()`, `v.size()`, `v.get()` for `v` ranging over the declared variable classes: one match arm per class, each calling the
    translation of that class's own method (so a change of any class's method changes the dispatcher). Returns (lean text, None) or (None, why)."""
    by_name = {sp["name"]: sp for sp, _ in table.values()}
    tree = trees.get("models.py")
    arms = {"has_children": [], "size": [], "get": []}
    for ctor, pvars, cls, prefix, binding, scalar in CLASSES:
        for meth in ("has_children", "size"):
            fn = f"{prefix}_{meth}"
            if fn not in by_name or fn in failed:
                return None, f"{cls}.{meth} is not translated"
            sp = by_name[fn]
            args = " ".join(binding[f] for f in sp.get("selfr", {}))
            call = (fn + " " + args).strip()
            if fn in effectful:
                return None, f"{cls}.{meth} can raise"
            arms[meth].append(f"  | {ctor} {pvars} => {call}")
        cnode = next((n for n in tree.body if isinstance(n, ast.ClassDef) and n.name == cls), None)
        gets = [n for n in (cnode.body if cnode else []) if isinstance(n, ast.FunctionDef) and n.name == "get"]
        if len(gets) != 1 or gets[0].decorator_list:
            return None, f"{cls}.get not found"
        body = [st for st in gets[0].body if not (isinstance(st, ast.Expr) and isinstance(st.value, ast.Constant))]
        src = ast.unparse(body[0]) if len(body) == 1 else None
        if scalar is not None and src == "return self":
            arms["get"].append(f"  | {ctor} {pvars} => .ok (.one {scalar})")
        elif scalar is None and src == "return self._children":
            fn = f"{prefix}_children"
            if fn not in by_name or fn in failed:
                return None, f"{cls}.__init__ (children) is not translated"
            sp = by_name[fn]
            args = " ".join(binding[f] for f in sp.get("selfr", {}))
            call = (fn + " " + args).strip()
            arms["get"].append(f"  | {ctor} {pvars} => " + (f"VarGet.many <$> {call}" if fn in effectful else f".ok (.many ({call}))"))
        else:
            return None, f"{cls}.get is neither `return self` nor `return self._children`"
    txt = ("/-- `v.has_children()` over the declared variable classes: one arm per class, calling that class's translated method -/\n"
           "def vd_has_children : VarDecl → Bool\n" + "\n".join(arms["has_children"]) + "\n\n"
           "/-- `v.size()` -/\ndef vd_size : VarDecl → Int\n" + "\n".join(arms["size"]) + "\n\n"
           "/-- `v.get()`: the variable itself (`return self`) or the children built by the class's `__init__` (`return self._children`) -/\n"
           "def vd_get : VarDecl → Except Err VarGet\n" + "\n".join(arms["get"]) + "\n")
    return txt, None


def _gb_call(by_name, effectful, failed, prefix, binding):
    fn = f"{prefix}_get_bounds"
    if fn not in by_name or fn in failed:
        return None
    sp = by_name[fn]
    args = [nm for nm, _ in sp.get("extra", [])] + [binding[f] for f in sp.get("selfr", {})]
    return fn, (fn + " " + " ".join(args)).strip(), sp["ret"], fn in effectful


def var_dispatcher(table, effectful, failed):
    """`v.get_bounds()` for `v` a flattened scalar variable, where a pair of numbers is expected (children of a multi-variable)"""
    by_name = {sp["name"]: sp for sp, _ in table.values()}
    arms = []
    for ctor, pvars, cls, prefix, binding, scalar in CLASSES:
        if scalar is None:
            continue
        r = _gb_call(by_name, effectful, failed, prefix, binding)
        if r is None:
            return None, f"{cls}.get_bounds is not translated"
        fn, call, ret, eff = r
        vctor = "." + scalar.strip("()").split()[0].split(".")[1]
        if eff:
            return None, f"{cls}.get_bounds can raise"
        if ret == T("num", "num"):
            arms.append(f"  | {vctor} {pvars} => .ok ({call})")
        elif ret == T("int", "int"):
            arms.append(f"  | {vctor} {pvars} => .ok (intNum ({call}).1, intNum ({call}).2)")
        else:
            arms.append(f"  | {vctor} {pvars} => .error .typeError      -- {cls}.get_bounds is list-valued: not a pair of numbers")
    return ("/-- `child.get_bounds()` where a pair of numbers is expected: one arm per scalar class, calling that class's translated method -/\n"
            "def var_get_bounds_scalar : Var → Except Err (Num × Num)\n" + "\n".join(arms) + "\n"), None


def bounds_dispatcher(table, effectful, failed):
    by_name = {sp["name"]: sp for sp, _ in table.values()}
    arms = []
    for ctor, pvars, cls, prefix, binding, scalar in CLASSES:
        r = _gb_call(by_name, effectful, failed, prefix, binding)
        if r is None:
            return None, f"{cls}.get_bounds is not translated"
        fn, call, ret, eff = r
        get = f"(← {call})" if eff else f"({call})"
        if ret == T("num", "num"):
            conv = "(.scalar b.1, .scalar b.2)"
        elif ret == T("int", "int"):
            conv = "(.scalar (intNum b.1), .scalar (intNum b.2))"
        elif ret == T(L("num"), L("num")):
            conv = "(.vec b.1, .vec b.2)"
        else:
            return None, f"{cls}.get_bounds returns {ret}"
        arms.append(f"  | {ctor} {pvars} => do let b := {get}; return {conv}")
    return ("/-- `v.get_bounds()` over the declared variable classes: each component is a number or a list of numbers, as the class's own method returns it -/\n"
            "def vd_get_bounds (permUb : Nat → Num) : VarDecl → Except Err (BEntry × BEntry)\n" + "\n".join(arms) + "\n"), None


def generate(repo: Path) -> tuple[str, dict]:
    trees = {}
    table = {}
    report = {"translated": [], "untranslatable": {}}
    for sp in SPEC:
        fname, qual = sp["src"]
        if fname not in trees:
            trees[fname] = ast.parse((repo / "pyvolutionary" / fname).read_text())
        node = find_function(trees[fname], qual)
        if node is None:
            report["untranslatable"][sp["name"]] = f"{fname}:{qual} not found"
            continue
        key = ("self." + qual.split(".")[-1]) if "." in qual else qual
        if "." in qual and qual.split(".")[0] != "OptimizationAbstract":
            key = qual.split(".")[0] + "::" + key
        if qual.endswith(".__init__"):
            key = qual.split(".")[0]
        if sp.get("kwargs_empty") and "." in qual:
            sp["_class_methods"] = {m.name: m for c in trees[fname].body if isinstance(c, ast.ClassDef) and c.name == qual.split(".")[0] for m in c.body if isinstance(m, ast.FunctionDef)}
        table[key] = (sp, node)
    # ---- soundness guards: the translation reads function bodies; anything that changes what a *name* or an *attribute* means
    # without changing the body must be refused, not ignored
    guard_fail = {}
    for key, (sp, node) in table.items():
        fname, qual = sp["src"]
        tree = trees[fname]
        why = None
        if node.decorator_list:
            why = "decorated (" + ", ".join(ast.unparse(d) for d in node.decorator_list) + "): a decorator can replace the function"
        parts = qual.split(".")
        scope = tree.body
        cls = None
        if len(parts) > 1:
            cls = next((n for n in tree.body if isinstance(n, ast.ClassDef) and n.name == parts[0]), None)
            scope = cls.body if cls else []
        last = parts[-1]
        defs = [n for n in scope if isinstance(n, (ast.FunctionDef, ast.AsyncFunctionDef, ast.ClassDef)) and n.name == last]
        if len(defs) != 1:
            why = why or f"{len(defs)} definitions of {last} in its scope"
        for n in scope:
            tg = []
            if isinstance(n, ast.Assign):
                tg = n.targets
            elif isinstance(n, (ast.AugAssign, ast.AnnAssign)):
                tg = [n.target]
            for t in tg:
                if any(isinstance(x, ast.Name) and x.id == last for x in ast.walk(t)):
                    why = why or f"the name {last} is re-bound in its scope (line {n.lineno})"
        if cls is not None:
            # the attributes the translation treats as plain instance state must not be class-level names (shared objects, properties, descriptors)
            state = {p.split(".")[0] for p in list(sp.get("selfr", {})) + list(sp.get("selfw", {}))} | (set(SELF_FIELDS) if sp.get("selfrec") else set())
            for n in cls.body:
                names = []
                if isinstance(n, (ast.FunctionDef, ast.AsyncFunctionDef)):
                    names = [n.name]
                elif isinstance(n, ast.Assign):
                    names = [x.id for t in n.targets for x in ast.walk(t) if isinstance(x, ast.Name)]
                elif isinstance(n, ast.AnnAssign) and isinstance(n.target, ast.Name) and n.value is not None and cls.name == "OptimizationAbstract":
                    names = [n.target.id]
                for nm in names:
                    if nm in state:
                        why = why or f"{cls.name}.{nm} is a class-level name (line {n.lineno}): instances would share or intercept it"
                    if nm in ("__getattr__", "__getattribute__", "__setattr__", "__slots__"):
                        why = why or f"{cls.name} defines {nm}"
        if why:
            guard_fail[sp["name"]] = f"{fname}:{qual} {why}"
    # a translated callee used from another file must be the one imported from its defining module, and nothing else may bind its name there
    owners = {}
    for key, (sp, node) in table.items():
        if "." not in sp["src"][1]:
            owners[sp["src"][1]] = sp["src"][0]
    for fname, tree in trees.items():
        for name, home in owners.items():
            if home == fname:
                continue
            used = any(isinstance(x, ast.Name) and x.id == name for x in ast.walk(tree))
            if not used:
                continue
            binds = []
            for n in ast.walk(tree):
                if isinstance(n, ast.ImportFrom):
                    for a in n.names:
                        if (a.asname or a.name) == name:
                            binds.append(("import", n.module, n.level, a.name))
                elif isinstance(n, ast.Import):
                    for a in n.names:
                        if (a.asname or a.name) == name:
                            binds.append(("import-module", a.name, 0, a.name))
                elif isinstance(n, (ast.FunctionDef, ast.ClassDef)) and n.name == name:
                    binds.append(("def", None, None, None))
                elif isinstance(n, ast.Assign) and any(isinstance(x, ast.Name) and x.id == name and isinstance(x.ctx, ast.Store) for t in n.targets for x in ast.walk(t)):
                    binds.append(("assign", None, None, None))
                elif isinstance(n, ast.arg) and n.arg == name:
                    binds.append(("parameter", None, None, None))
            ok = binds == [("import", home[:-3], 1, name)]
            if not ok:
                for key, (sp, node) in table.items():
                    if sp["src"][0] == fname and any(isinstance(x, ast.Name) and x.id == name for x in ast.walk(node)):
                        guard_fail.setdefault(sp["name"], f"{fname}: the name {name} is not simply `from .{home[:-3]} import {name}` here ({binds})")
    eff_keys, calls = infer_effects(table)
    effectful = {table[k][0]["name"] for k in eff_keys}
    # topological order (callees first)
    order, seen = [], set()

    def visit(k):
        if k in seen:
            return
        seen.add(k)
        for c in sorted(calls.get(k, ())):
            visit(c)
        order.append(k)
    for k in table:
        visit(k)
    out = ["import PvModel.Py",
           "/-! GENERATED by tools/py2lean.py from /repo's working tree — do not edit.",
           "Each definition is the statement-by-statement translation of the named Python function. -/", "", "set_option linter.unusedVariables false", "", "namespace Src", ""]
    failed = set()
    dispatch_done = False
    # functions that use the dispatchers come after everything else they might call
    def rank(k):
        sp = table[k][0]
        return 2 if sp.get("uses_dispatch") else (1 if sp.get("uses_var_dispatch") else 0)
    order = sorted(order, key=rank)       # stable: plain functions, then those needing the scalar dispatch, then those needing the class dispatch
    var_dispatch_done = False
    for k in order:
        sp, node = table[k]
        if (sp.get("uses_var_dispatch") or sp.get("uses_dispatch")) and not var_dispatch_done:
            var_dispatch_done = True
            vtxt, vwhy = var_dispatcher(table, effectful, failed)
            if vtxt is None:
                report["untranslatable"]["var_dispatch"] = vwhy
                failed.add("var_dispatch")
            else:
                out.append(vtxt)
        if sp.get("uses_var_dispatch") and "var_dispatch" in failed:
            failed.add(sp["name"])
            report["untranslatable"][sp["name"]] = "needs the dispatch over the scalar variable classes: " + report["untranslatable"]["var_dispatch"]
            continue
        if sp.get("uses_dispatch") and not dispatch_done:
            dispatch_done = True
            dtxt, dwhy = dispatchers(table, trees, effectful, failed)
            if dtxt is not None:
                btxt, bwhy = bounds_dispatcher(table, effectful, failed)
                if btxt is None:
                    dtxt, dwhy = None, bwhy
                else:
                    dtxt = dtxt + "\n" + btxt
            if dtxt is None:
                report["untranslatable"]["vd_dispatch"] = dwhy
                failed.add("vd_dispatch")
                out.append(f"-- UNTRANSLATABLE dispatch over the variable classes: {dwhy}\n")
            else:
                out.append(dtxt)
        if sp.get("uses_dispatch") and "vd_dispatch" in failed:
            failed.add(sp["name"])
            report["untranslatable"][sp["name"]] = "needs the dispatch over the variable classes: " + report["untranslatable"]["vd_dispatch"]
            continue
        # a function whose callee could not be translated cannot be translated either
        if sp["name"] in guard_fail:
            failed.add(sp["name"])
            report["untranslatable"][sp["name"]] = guard_fail[sp["name"]]
            out.append(f"-- UNTRANSLATABLE {sp['name']}: {guard_fail[sp['name']]}\n")
            continue
        bad = [c for c in calls.get(k, ()) if table[c][0]["name"] in failed]
        if bad:
            failed.add(sp["name"])
            report["untranslatable"][sp["name"]] = f"calls untranslatable {bad}"
            continue
        try:
            txt = Fn(sp, node, table, effectful).translate()
            out.append(txt)
            report["translated"].append(sp["name"])
        except Untranslatable as e:
            failed.add(sp["name"])
            report["untranslatable"][sp["name"]] = f"{sp['src'][0]}:{sp['src'][1]} {e}"
            out.append(f"-- UNTRANSLATABLE {sp['name']}: {e}\n")
    out.append("end Src")
    return "\n".join(out) + "\n", report


def main():
    repo = Path(sys.argv[1] if len(sys.argv) > 1 else "/repo")
    text, report = generate(repo)
    dst = Path(__file__).resolve().parents[1] / "lean" / "PvModel" / "Generated" / "Src.lean"
    if not dst.exists() or dst.read_text() != text:
        dst.write_text(text)
    import json
    print(json.dumps(report, indent=1))


if __name__ == "__main__":
    main()
