#!/bin/sh
# tools/runall.sh [tier] — every registered check once, sequentially; prints one summary line per check and the exit codes
cd /verif
TIER=${1:-quick}
for P in C01 C02 C03 C04 C05 C06 C07 C08 C09 C10 C11 C12 C13 C14 C15 C16 C17 C18 C19 C20; do
  S=$(date +%s); OUT=$(./check $P --tier $TIER 2>&1); RC=$?; E=$(( $(date +%s) - S ))
  echo "$P rc=$RC ${E}s $(echo "$OUT" | grep -c '^KNOWN-FINDING') known | $(echo "$OUT" | grep "^\[$P\]" | cut -c1-170)"
  [ $RC -ne 0 ] && echo "$OUT" | grep -E "^VIOLATION|rror" | head -5
done
