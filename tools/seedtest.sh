#!/bin/sh
# tools/seedtest.sh <patch.diff> <prop> [<prop> ...]  — apply a seeded change to /repo, run the named checks (quick), undo the change.
# prints one line per check: property, exit code, first VIOLATION line.
PATCH="$1"; shift
cd /repo || exit 2
if ! git diff --quiet; then echo "/repo has uncommitted changes"; exit 2; fi
git apply "$PATCH" || { echo "patch does not apply"; exit 2; }
trap 'git -C /repo checkout -- . >/dev/null 2>&1' EXIT INT TERM
cd /verif
for P in "$@"; do
  OUT=$(VERIF_SEED=${VERIF_SEED:-0} ./check "$P" --tier ${TIER:-quick} 2>&1); RC=$?
  echo "$P rc=$RC $(echo "$OUT" | grep -m1 '^VIOLATION') | $(echo "$OUT" | grep -m1 "^\[$P\]" | cut -c1-160)"
  if [ $RC -eq 1 ]; then
    R=$(echo "$OUT" | grep -m1 '^VIOLATION' | sed 's/.*replay=\([^ ]*\).*/\1/'); [ -f "$R" ] && python3 -c "import json,sys; d=json.load(open('$R')); print('   ', d.get('signature', 'unproved'), '|', str(d.get('what', d.get('broken_obligations')))[:200])"
  fi
done
