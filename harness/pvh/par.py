"""fork-based parallel map over the 16 cores (the harness's own work distribution; results come back in input order)."""
from __future__ import annotations
import multiprocessing as mp
import os

JOBS = int(os.environ.get("VERIF_JOBS", "0") or 0) or min(16, os.cpu_count() or 4)


def pmap(func, items, jobs: int | None = None, chunksize: int | None = None):
    items = list(items)
    jobs = jobs or JOBS
    if len(items) < 2 * jobs or jobs <= 1:
        return [func(x) for x in items]
    ctx = mp.get_context("fork")
    with ctx.Pool(jobs) as pool:
        return pool.map(func, items, chunksize or max(1, len(items) // (jobs * 8)))
