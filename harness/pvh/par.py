"""fork-based parallel map over the 16 cores (the harness's own work distribution; results come back in input order).
Workers are non-daemonic (concurrent.futures), so a job may itself start a process pool (process-mode optimizer runs)."""
from __future__ import annotations
import multiprocessing as mp
import os
from concurrent.futures import ProcessPoolExecutor

JOBS = int(os.environ.get("VERIF_JOBS", "0") or 0) or min(16, os.cpu_count() or 4)


def pmap(func, items, jobs: int | None = None, chunksize: int | None = None):
    items = list(items)
    jobs = jobs or JOBS
    if len(items) < 2 * jobs or jobs <= 1:
        return [func(x) for x in items]
    with ProcessPoolExecutor(jobs, mp_context=mp.get_context("fork")) as pool:
        return list(pool.map(func, items, chunksize=chunksize or max(1, len(items) // (jobs * 8))))
