"""A scripted optimizer: a bare subclass of OptimizationAbstract whose step installs the next scripted population.

It drives the REAL `optimize()` (prologue, loop, __error_check__, __should_stop__, packaging) through prescribed histories,
and gives access to the real combinators (`_greedy_select_population`, `_extend_and_trim_population`, …)."""
from __future__ import annotations
import contextlib
import io
from typing import Any

from pyvolutionary import Task, ContinuousVariable
from pyvolutionary.abstract import OptimizationAbstract
from pyvolutionary.models import Agent, BaseOptimizationConfig, EarlyStopping


class ScriptTask(Task):
    def objective_function(self, x):
        return 0.0


def script_task(minmax="min", **kw):
    return ScriptTask(variables=[ContinuousVariable(name="x", lower_bound=-1e9, upper_bound=1e9)], minmax=minmax, **kw)


class Scripted(OptimizationAbstract):
    """generations: list of list[Agent]; generation 0 is the initial population, generation k the population after step k."""

    def __init__(self, config=None, generations=None):
        super().__init__(config)
        self.generations = generations or []
        self.steps = 0

    def set_config_parameters(self, parameters: dict[str, Any]):
        self._config = BaseOptimizationConfig(**parameters)

    def _init_population(self):
        self.steps = 0
        self._population = list(self.generations[0])

    def optimization_step(self):
        self.steps += 1
        self._population = list(self.generations[self.steps])


def make_agent(tag: int, cost: float, fitness: float = 0.0) -> Agent:
    return Agent(position=[float(tag)], cost=cost, fitness=fitness)


def quiet(f, *a, **kw):
    """call f with stdout swallowed (the library prints debug lines from __should_stop__)."""
    with contextlib.redirect_stdout(io.StringIO()):
        return f(*a, **kw)
