"""The decision procedure shared by every check (DESIGN.md §2.4).

    build  : lake build of the property's proof obligations (Props modules, incl. `decide`s over regenerated tables)
    audit  : #print axioms on every Props theorem, forbidden-token grep
    corr   : model output == implementation output on every generated case (suite code reports disagreements)
    oracle : the property itself, evaluated on implementation outputs (suite code reports failures)

all green -> exit 0; oracle failure -> VIOLATION (or KNOWN-FINDING when its signature is listed);
build/audit/corr broken but no failing input after the widened search -> VIOLATION ... no-failing-input-found.
Infrastructure trouble -> exit 2, never a VIOLATION line.
"""
from __future__ import annotations
import hashlib
import json
import re
import os
import random
import sys
import time
import traceback
from collections import Counter
from pathlib import Path

from . import lean
import warnings
warnings.filterwarnings("ignore")

VERIF = Path(__file__).resolve().parents[2]
EVIDENCE = VERIF / "evidence"
REPLAYS = VERIF / "replays"
KNOWN = VERIF / "known_findings.json"

TRUSTED_BASE = [
    "Lean 4.33.0 kernel; axioms limited to propext, Classical.choice, Quot.sound (audited by #print axioms each run)",
    "hand-written Lean model of the structural core, tied to /repo by the differential correspondence suites of this run",
    "tools/translate.py (Python ast) regenerating the per-class fact tables from /repo's working tree",
    "tools/py2lean.py (Python ast -> Lean do-blocks) regenerating Generated/Src.lean, its typing SPEC and the Python primitives of PvModel/Py.lean (slices, stable sort, unpacking, IndexError/ValueError/ZeroDivisionError, as_completed)",
    "harness canonicalisation (64-bit patterns, exception enum) and generators (distribution recorded in this file)",
    "numpy clip/argsort/average/dot and samplers, pydantic validation/copy, CPython stable sort, concurrent.futures, pandas rank/mean/std: modelled, not verified",
]


def load_known() -> dict:
    if KNOWN.exists():
        return json.loads(KNOWN.read_text())
    return {"findings": [], "fixed": []}


def table_culprits(facts: dict, tables: list[str]) -> dict:
    """for a report only: which classes / framework facts falsify a table obligation (the verdict itself is Lean's `decide`)"""
    out = {}
    algos = facts.get("algos", [])
    core = facts.get("core", {})
    steps = facts.get("steps", {}).get("classes", {})

    def cls(pred, show):
        return {a["cls"]: show(a) for a in algos if pred(a)}
    for t in tables:
        if t == "T01":
            out[t] = cls(lambda a: a["cls"] != "ImperialistCompetitiveOptimization" and (any(c["kind"] == "raw" for c in a["ctors"]) or a["coreStores"] or a["badCopyUpdates"] or a["objectiveRefs"]),
                         lambda a: {"raw": [c["where"] for c in a["ctors"] if c["kind"] == "raw"], "coreStores": a["coreStores"], "badCopyUpdates": a["badCopyUpdates"], "objectiveRefs": a["objectiveRefs"]})
        elif t == "T09":
            out[t] = cls(lambda a: a["cfgWrites"] or a["taskWrites"] or a["frameworkFieldWrites"], lambda a: {"cfgWrites": a["cfgWrites"], "taskWrites": a["taskWrites"], "frameworkFieldWrites": a["frameworkFieldWrites"]})
        elif t == "T07":
            out[t] = {"classes": cls(lambda a: a["rngOther"], lambda a: a["rngOther"]), "prologue": core.get("prologueOrder", [])[:3], "seedAnnotation": core.get("seedAnnotation"), "helperRng": core.get("helperRng")}
        elif t == "T08":
            out[t] = cls(lambda a: a["leakFields"] or a["frameworkFieldWrites"], lambda a: {"leakFields": a["leakFields"], "frameworkFieldWrites": a["frameworkFieldWrites"]})
        elif t == "T12":
            out[t] = cls(lambda a: a["cls"] not in ("AntLionOptimization", "ImperialistCompetitiveOptimization") and (a["fitnessReads"] or a["directionReads"]), lambda a: {"fitnessReads": a["fitnessReads"], "directionReads": a["directionReads"]})
        elif t == "T18":
            out[t] = cls(lambda a: a["ctorReadsConfig"] or not a["setConfigCanonical"], lambda a: {"ctorReadsConfig": a["ctorReadsConfig"], "setConfigCanonical": a["setConfigCanonical"]})
        elif t in ("T10", "T17"):
            out[t] = {k: {"sizePreserving": v["sizePreserving"], "monotone": v["monotone"], "opaque": v["opaque"][:3]} for k, v in steps.items()} if False else "see .work/facts.json: steps.classes (sizePreserving / monotone per class) and steps.coreShapes"
        elif t in ("T02", "T13", "T14", "T19", "T20"):
            # pin obligations: which fingerprints moved (the expected values are in the Props file, the current ones in the regenerated facts)
            txt = (lean.LEAN_DIR / "PvModel" / "Props" / f"{t}.lean").read_text()
            exp = dict(re.findall(r'\("([^"]+)", "([0-9a-f]+|missing)"\)', txt))
            cur = dict(core.get("pins", []))
            out[t] = {"source_text_changed": sorted(k for k, v in exp.items() if cur.get(k) != v)}
        elif t in ("T04", "T05", "T11"):
            out[t] = {k: core.get(k) for k in ("prologueOrder", "objectiveCallers", "initAgentShape", "solveShape", "initialSolutionShape", "poolResultsShape", "poolExecutorShape", "whileLoops")}
    return out


class Ctx:
    def __init__(self, prop: str, tier: str, seed: int):
        self.prop = prop
        self.tier = tier
        self.seed = seed
        self.rng = random.Random(f"{prop}/{seed}")
        self.t0 = time.time()
        self.evaluations = 0
        self.distinct: set[str] = set()
        self.trivial = 0
        self.dist: Counter = Counter()
        self.samples: list = []
        self.rule_parts: list[str] = []
        self.disagreements: list[dict] = []      # model vs implementation (corr)
        self.failures: list[dict] = []           # oracle failures: {signature, what, case, suite}
        self.broken: list[str] = []              # broken proof obligations / audit items
        self.obligations: list[str] = []
        self.discharged: list[str] = []
        self.table_obligations = 0
        self.notes: list[str] = []
        self.extra: dict = {}
        self.suites_run: list[str] = []
        self.thorough = tier == "thorough"

    # -- bookkeeping used by suites -------------------------------------------------------------
    def case(self, key, nontrivial: bool = True, kind: str | None = None):
        """count one evaluated case; `key` identifies it for the distinct count."""
        self.evaluations += 1
        if kind:
            self.dist[kind] += 1
        if nontrivial:
            h = hashlib.blake2b(repr(key).encode(), digest_size=8).hexdigest()
            self.distinct.add(h)
        else:
            self.trivial += 1

    def sample(self, s, limit=8):
        if len(self.samples) < limit:
            self.samples.append(s)

    def disagree(self, suite: str, case, model, impl):
        if len(self.disagreements) < 200:
            self.disagreements.append({"suite": suite, "case": case, "model": model, "impl": impl})
        self.dist[f"disagree:{suite}"] += 1

    def fail(self, signature: str, what: str, suite: str, case):
        """an oracle failure: the property is false on this implementation output."""
        self.failures.append({"signature": signature, "what": what, "suite": suite, "case": case})

    def rule(self, text: str):
        if text not in self.rule_parts:
            self.rule_parts.append(text)

    # -- proofs -------------------------------------------------------------------------------------
    def prove(self, modules: list[str]):
        """regenerate the fact tables from /repo, build the Props / table-obligation modules and audit them;
        records obligations / discharged / broken (per module, so one failing table does not hide the other theorems)."""
        with lean.BuildLock():      # facts + build + audit form one critical section: concurrent checks share Generated/ and .lake
            return self._prove_locked(modules)

    def _prove_locked(self, modules: list[str]):
        try:
            self.facts = lean.regenerate_facts()
        except SyntaxError as e:
            raise lean.InfraError(f"/repo does not parse: {e}")
        ok, out = lean.lake_build(["Driver"] + modules)
        good = list(modules)
        if not ok:
            ok_driver, out_d = lean.lake_build(["Driver"])
            if not ok_driver:
                raise lean.InfraError("model/driver do not build:\n" + out_d[-3000:])
            good = []
            for m in modules:
                okm, outm = lean.lake_build([m])
                if okm:
                    good.append(m)
                else:
                    self.broken.append(f"module {m} does not build")
                    failing = lean.failing_theorems(m, outm)
                    if failing:
                        self.broken.append(f"in {m}: the proofs of {', '.join(failing)} no longer check (the other theorems of the module cannot be re-audited until it builds)")
                    self.extra.setdefault("build_output_tail", "")
                    self.extra["build_output_tail"] += f"\n--- {m} ---\n" + "\n".join(l for l in outm.splitlines() if "error" in l or "decide" in l)[-1500:]
        names = {}
        for m in modules:
            p = lean.LEAN_DIR / (m.replace(".", "/") + ".lean")
            if p.exists():
                names[m] = lean.theorems_of(p)
            else:
                self.broken.append(f"module {m} missing")
                names[m] = []
        try:
            a = lean.audit(good) if good else {"theorems": {}, "bad_axioms": {}, "forbidden": [], "ok": True}
        except Exception as e:  # audit itself failing is infrastructure
            raise lean.InfraError(f"audit failed: {e}")
        for m, ns in names.items():
            for n in ns:
                self.obligations.append(n)
                if m in good and n in a["theorems"] and n not in a["bad_axioms"]:
                    self.discharged.append(n)
                else:
                    self.broken.append(f"theorem {n}")
        for f, tok in a["forbidden"]:
            self.broken.append(f"forbidden token {tok!r} in {f}")
        if self.thorough and good:
            okc, outc = lean.leancheck(good)
            self.extra["leanchecker"] = "replayed " + ", ".join(good) + (": ok" if okc else ": FAILED " + outc[-500:])
            if not okc:
                self.broken.append("leanchecker rejects the compiled modules")
        self.extra["axioms"] = sorted({x for v in a["theorems"].values() for x in v})
        self.extra["modules"] = modules
        src = self.facts.get("src", {})
        self.extra["source_translation"] = {"translated_functions": src.get("translated", []), "untranslatable": src.get("untranslatable", {}),
                                            "refinement_modules": [m for m in modules if re.search(r"\.R\d\d$", m)]}
        failed_ref = [m for m in modules if m not in good and re.search(r"\.R\d\d$", m)]
        if failed_ref:
            self.extra["build_output_tail"] = self.extra.get("build_output_tail", "") + "\n--- refinement obligations (hand-written model = source translated by tools/py2lean.py) that no longer check: " \
                + ", ".join(failed_ref) + "; untranslatable: " + json.dumps(src.get("untranslatable", {})) + "; diff of Generated/Src.lean against the committed copy shows the changed definitions ---\n"
        failed_tables = [m.rsplit(".", 1)[1] for m in modules if m not in good and m.rsplit(".", 1)[1].startswith("T")]
        if failed_tables:
            self.extra["table_culprits"] = table_culprits(self.facts, failed_tables)
            self.extra["build_output_tail"] = self.extra.get("build_output_tail", "") + "\n--- classes / facts that falsify the table obligations ---\n" + json.dumps(self.extra["table_culprits"], indent=1)[:3000]
        self.prove_done = True
        return not self.broken

    # -- finish -------------------------------------------------------------------------------------
    def finish(self, level: str = "proof", assumptions: list[str] | None = None) -> int:
        known = load_known()
        kf = {(f["property"], f["signature"]): f for f in known.get("findings", [])}
        wall = time.time() - self.t0
        REPLAYS.mkdir(exist_ok=True)
        violations = []
        seen_sig = set()
        known_hit = []
        for f in self.failures:
            sig = f["signature"]
            if sig in seen_sig:
                continue
            seen_sig.add(sig)
            # a signature names the property whose oracle produced it (C11 re-uses the C01/C02/C03/C05/C10 oracles on pooled runs)
            kprop = sig.split("/", 1)[0] if sig.split("/", 1)[0] != "unproved" else self.prop
            if (kprop, sig) in kf:
                known_hit.append((sig, kf[(kprop, sig)].get("what", f["what"])))
                continue
            rp = REPLAYS / f"{self.prop}_{hashlib.blake2b(sig.encode(), digest_size=6).hexdigest()}.json"
            rp.write_text(json.dumps({"property": self.prop, "signature": sig, "what": f["what"], "suite": f["suite"],
                                      "case": f["case"], "seed": self.seed, "tier": self.tier}, indent=1, default=str))
            violations.append((sig, rp, ""))
        machinery_broken = bool(self.broken or self.disagreements)
        if machinery_broken and not violations:
            # a broken proof or correspondence is not by itself a violation, but the property is no longer shown to hold
            rp = REPLAYS / f"{self.prop}_unproved.json"
            rp.write_text(json.dumps({"property": self.prop, "no_failing_input_found": True,
                                      "broken_obligations": self.broken,
                                      "correspondence_disagreements": self.disagreements[:20],
                                      "known_findings_hit": [s for s, _ in known_hit],
                                      "build_output_tail": self.extra.get("build_output_tail", ""),
                                      "searched": {"evaluations": self.evaluations, "suites": self.suites_run},
                                      "seed": self.seed, "tier": self.tier}, indent=1, default=str))
            violations.append(("unproved", rp, " no-failing-input-found"))
        for sig, what in known_hit:
            print(f"KNOWN-FINDING: property={self.prop} {sig}: {what}")
        for sig, rp, tail in violations:
            print(f"VIOLATION property={self.prop} replay={rp}{tail}")
        cov = {
            "obligations": len(self.obligations) + self.table_obligations,
            "discharged": len(self.discharged) + self.table_obligations,
            "checker_cmd": "cd /verif/lean && lake build && lake env lean <audit file with #print axioms for every Props theorem>",
            "trusted_base": TRUSTED_BASE,
            "theorems": self.obligations,
            "axioms_used": self.extra.get("axioms", []),
            "table_obligations": sum(1 for t in self.obligations if re.match(r"T\d\d\.", t)),
            "evaluations": self.evaluations,
            "distinct_nontrivial": len(self.distinct),
            "trivial": self.trivial,
            "rule": " | ".join(self.rule_parts) or "n/a",
            "samples": self.samples or [{"note": "no generated cases in this run"}],
            "distribution": dict(self.dist),
            "suites": self.suites_run,
            "correspondence_disagreements": len(self.disagreements),
            "oracle_failures": len(self.failures),
            "known_findings_hit": [s for s, _ in known_hit],
            "broken": self.broken,
            "notes": self.notes,
        }
        for k, v in self.extra.items():
            if k not in ("build_output_tail",):
                cov.setdefault(k, v)
        ev = {"property_id": self.prop, "tier": self.tier, "seed": self.seed, "level": level, "coverage": cov,
              "assumptions": assumptions or [], "wall_s": round(wall, 2), "violations": len(violations)}
        EVIDENCE.mkdir(exist_ok=True)
        (EVIDENCE / f"{self.prop}.json").write_text(json.dumps(ev, indent=1, default=str))
        status = "VIOLATED" if violations else "ok"
        ntab = sum(1 for t in self.obligations if re.match(r"T\d\d\.", t))
        print(f"[{self.prop}] {status}: {len(self.discharged)}/{len(self.obligations)} theorems"
              f" (of which {ntab} table obligations over the regenerated facts), {self.evaluations} cases"
              f" ({len(self.distinct)} distinct non-trivial), {len(self.disagreements)} disagreements,"
              f" {len(self.failures)} oracle failures ({len(known_hit)} known), {wall:.1f}s")
        return 1 if violations else 0


def main(argv=None):
    import argparse
    import importlib
    ap = argparse.ArgumentParser()
    ap.add_argument("prop")
    ap.add_argument("--tier", default=os.environ.get("VERIF_TIER", "quick"))
    ap.add_argument("--replay", default=None)
    args = ap.parse_args(argv)
    seed = int(os.environ.get("VERIF_SEED", "0") or 0)
    prop = args.prop.upper()
    try:
        mod = importlib.import_module(f"pvh.props.{prop}")
    except ModuleNotFoundError as e:
        print(f"no check for {prop}: {e}", file=sys.stderr)
        return 2
    if args.replay:
        case = json.loads(Path(args.replay).read_text())
        return mod.replay(case)
    ctx = Ctx(prop, args.tier, seed)
    try:
        mod.run(ctx)
        return ctx.finish(level="proof", assumptions=getattr(mod, "ASSUMPTIONS", []))
    except lean.InfraError as e:
        print(f"[{prop}] infrastructure error: {e}", file=sys.stderr)
        return 2
    except Exception as e:
        traceback.print_exc()
        import subprocess
        import concurrent.futures.process as _cfp
        infra = isinstance(e, (OSError, MemoryError, subprocess.SubprocessError, _cfp.BrokenProcessPool, ImportError))
        if infra or not getattr(ctx, "prove_done", False):
            print(f"[{prop}] harness crashed (infrastructure)", file=sys.stderr)
            return 2
        # the proof obligations were dealt with and a suite then failed while it was handling what the implementation returned: the correspondence can no longer
        # be carried out on this tree (on the unchanged tree every suite runs through). That is a broken correspondence, not a crash: the decision procedure
        # reports it with the failing inputs found so far, or as no-failing-input-found, naming the suite code that could not go on.
        tb = traceback.extract_tb(e.__traceback__)
        where = next((f"{Path(fr.filename).name}:{fr.lineno} in {fr.name}" for fr in reversed(tb) if "/pvh/" in fr.filename), "?")
        ctx.broken.append(f"the correspondence suite could not process the implementation's behaviour on this tree: {type(e).__name__}: {e} (at {where})")
        print(f"[{prop}] a suite stopped on an implementation output it cannot handle — reported as a broken correspondence", file=sys.stderr)
        return ctx.finish(level="proof", assumptions=getattr(mod, "ASSUMPTIONS", []))
