"""Control of the completion order of pooled evaluations (no source hook: the name `get_pool_results` imported into
`pyvolutionary.abstract` is replaced in this interpreter; the parent collects the results in thread and process mode alike)."""
from __future__ import annotations
import contextlib
import random
import time

import pyvolutionary.abstract as ab

POOL_LOG = []          # (submitted, returned) per pool use


@contextlib.contextmanager
def permuted_pool(seed, delay=False):
    """as_completed order replaced by a seeded permutation of the finished futures (every future is awaited first)"""
    rng = random.Random(seed)
    orig = ab.get_pool_results

    def results(executors):
        res = [f.result() for f in executors]          # wait for all, in submission order
        order = list(range(len(res)))
        rng.shuffle(order)
        POOL_LOG.append((len(executors), len(res), list(order)))
        return [res[i] for i in order]

    ab.get_pool_results = results
    try:
        yield
    finally:
        ab.get_pool_results = orig


@contextlib.contextmanager
def counting_pool():
    """the real get_pool_results (true completion order), with the number of futures in / results out recorded"""
    orig = ab.get_pool_results

    def results(executors):
        res = orig(executors)
        POOL_LOG.append((len(executors), len(res), None))
        return res

    ab.get_pool_results = results
    try:
        yield
    finally:
        ab.get_pool_results = orig
