"""Recompute data/baseline_pairs.json: the (optimizer, integer encoding) pairs that run today on every sampled task.

C06 treats integer-coded tasks per pair: "a pair that works today must not start failing wholesale". The table is committed;
it is recomputed only by hand (python -m pvh.baseline) when the repository is deliberately changed."""
import json
import random
from . import trace, optimizers, jobs
from .par import pmap


def main(n=16):
    rng = random.Random(20260929)
    js = []
    for name in optimizers.names():
        for kind in trace.INT_KINDS:
            for i in range(n):
                js.append({"name": name, "kind": kind, "specs": trace.task_specs(rng, kind, rng.choice([2, 3, 4])), "objective": rng.choice(["sphere", "linear", "neg"]),
                           "minmax": rng.choice(["min", "max"]), "seed": rng.randrange(1, 10 ** 6),
                           "cfg": {"max_cycles": rng.choice([1, 2, 3, 5]), "fitness_error": None}, "mode": "serial", "trace": False})
    res = pmap(trace.run_traced, js)
    ok = {}
    fails = {}
    for r in res:
        k = (r["job"]["kind"], r["job"]["name"])
        ok.setdefault(k, []).append("result" in r)
        if "result" not in r:
            e = r.get("exception") or {"type": "setup", "func": r.get("setup_error")}
            fails.setdefault(k, set()).add(f"{e['type']}@{e['func']}")
    table = {kind: sorted(name for (kd, name), v in ok.items() if kd == kind and all(v)) for kind in trace.INT_KINDS}
    (jobs.DATA / "baseline_pairs.json").write_text(json.dumps(table, indent=1))
    for kind in trace.INT_KINDS:
        part = sorted(name for (kd, name), v in ok.items() if kd == kind and any(v) and not all(v))
        none = sorted(name for (kd, name), v in ok.items() if kd == kind and not any(v))
        print(kind, "always:", len(table[kind]), "sometimes:", len(part), part, "never:", len(none), {n: sorted(fails[(kind, n)]) for n in none})


if __name__ == "__main__":
    main()
