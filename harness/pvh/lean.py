"""Talking to Lean: build (under a lock), run the model driver on a batch of requests, audit axioms."""
from __future__ import annotations
import fcntl
import json
import os
import re
import subprocess
import time
from pathlib import Path

VERIF = Path(__file__).resolve().parents[2]
LEAN_DIR = VERIF / "lean"
WORK = VERIF / ".work"

ALLOWED_AXIOMS = {"propext", "Classical.choice", "Quot.sound"}
FORBIDDEN = re.compile(r"\b(sorry|admit|native_decide|bv_decide|implemented_by|unsafe|maxHeartbeats 0)\b|^axiom\s", re.M)


class InfraError(RuntimeError):
    """the machinery itself failed (exit 2), never a violation"""


def _env():
    e = dict(os.environ)
    e.pop("LEAN_PATH", None)
    return e


class BuildLock:
    """inter-process lock around everything that touches lean/PvModel/Generated and .lake (re-entrant within a process)"""
    depth = 0
    f = None

    def __enter__(self):
        if BuildLock.depth == 0:
            WORK.mkdir(exist_ok=True)
            BuildLock.f = open(WORK / "build.lock", "w")
            fcntl.flock(BuildLock.f, fcntl.LOCK_EX)
        BuildLock.depth += 1
        return self

    def __exit__(self, *a):
        BuildLock.depth -= 1
        if BuildLock.depth == 0:
            fcntl.flock(BuildLock.f, fcntl.LOCK_UN)
            BuildLock.f.close()


def regenerate_facts() -> dict:
    """run the translator on /repo's working tree (PV_REPO); rewrites lean/PvModel/Generated/*.lean only when the facts changed.
    returns the detailed facts (also written to .work/facts.json)."""
    import importlib.util
    spec = importlib.util.spec_from_file_location("pv_translate", VERIF / "tools" / "translate.py")
    tr = importlib.util.module_from_spec(spec)
    spec.loader.exec_module(tr)
    repo = Path(os.environ.get("PV_REPO", "/repo"))
    algos, core = tr.translate(repo)
    a_lean, c_lean = tr.render_lean(algos, core)
    # population skeletons (C10 / C17): tools/popexp.py -> Generated/Steps.lean
    spec2 = importlib.util.spec_from_file_location("pv_popexp", VERIF / "tools" / "popexp.py")
    px = importlib.util.module_from_spec(spec2)
    spec2.loader.exec_module(px)
    steps = px.classify(repo)
    s_lean = px.render_lean(steps)
    # the structural functions themselves, translated statement by statement: tools/py2lean.py -> Generated/Src.lean
    spec3 = importlib.util.spec_from_file_location("pv_py2lean", VERIF / "tools" / "py2lean.py")
    p2l = importlib.util.module_from_spec(spec3)
    spec3.loader.exec_module(p2l)
    src_lean, src_report = p2l.generate(repo)
    with BuildLock():
        tr.write_if_changed(LEAN_DIR / "PvModel" / "Generated" / "Src.lean", src_lean)
        tr.write_if_changed(LEAN_DIR / "PvModel" / "Generated" / "Algos.lean", a_lean)
        tr.write_if_changed(LEAN_DIR / "PvModel" / "Generated" / "Core.lean", c_lean)
        tr.write_if_changed(LEAN_DIR / "PvModel" / "Generated" / "Steps.lean", s_lean)
        WORK.mkdir(exist_ok=True)
        (WORK / "facts.json").write_text(json.dumps({"algos": algos, "core": core, "steps": steps, "src": src_report}, indent=1))
    return {"algos": algos, "core": core, "steps": steps, "src": src_report}


def lake_build(targets: list[str], timeout=1800) -> tuple[bool, str]:
    """returns (ok, output). Serialised by a file lock: Generated/*.lean and .lake are shared."""
    with BuildLock():
        p = subprocess.run(["lake", "build", *targets], cwd=LEAN_DIR, env=_env(), capture_output=True, text=True, timeout=timeout)
    out = "\n".join(l for l in (p.stdout + p.stderr).splitlines() if "WARNING conda" not in l)
    return p.returncode == 0, out


def run_driver(requests: list[dict], timeout=1800) -> list:
    """one JSON request per line -> one JSON answer per line (same order)."""
    if not requests:
        return []
    payload = "\n".join(json.dumps(r, separators=(",", ":")) for r in requests) + "\n"
    p = subprocess.run(["lake", "env", "lean", "--run", "run.lean"], cwd=LEAN_DIR, env=_env(), input=payload,
                       capture_output=True, text=True, timeout=timeout)
    lines = [l for l in p.stdout.splitlines() if l.strip()]
    if p.returncode != 0 or len(lines) != len(requests):
        raise InfraError(f"driver failed rc={p.returncode} answers={len(lines)}/{len(requests)}: {p.stderr[-2000:]}")
    out = []
    for l in lines:
        v = json.loads(l)
        if isinstance(v, dict) and "bad" in v:
            raise InfraError(f"driver rejected a request: {v['bad']}")
        out.append(v)
    return out


def run_driver_parallel(requests: list[dict], jobs: int = 8, chunk: int = 4000) -> list:
    """split a large batch over several driver processes."""
    if len(requests) <= chunk:
        return run_driver(requests)
    from concurrent.futures import ThreadPoolExecutor
    parts = [requests[i:i + chunk] for i in range(0, len(requests), chunk)]
    with ThreadPoolExecutor(jobs) as ex:
        res = list(ex.map(run_driver, parts))
    return [x for part in res for x in part]


THEOREM_RE = re.compile(r"^\s*(?:private\s+|protected\s+)?theorem\s+([A-Za-z_][A-Za-z0-9_.'!?]*)", re.M)
NAMESPACE_RE = re.compile(r"^\s*(namespace|end)\s+([A-Za-z_][A-Za-z0-9_.]*)\s*$", re.M)


def strip_comments(src: str) -> str:
    # block comments (possibly nested) and line comments
    out, i, depth = [], 0, 0
    while i < len(src):
        if src.startswith("/-", i):
            depth += 1
            i += 2
        elif src.startswith("-/", i) and depth:
            depth -= 1
            i += 2
        elif depth:
            i += 1
        elif src.startswith("--", i):
            while i < len(src) and src[i] != "\n":
                i += 1
        else:
            out.append(src[i])
            i += 1
    return "".join(out)


def theorems_of(module_file: Path) -> list[str]:
    """fully qualified theorem names declared in a Props file (namespace tracking is line-based)."""
    src = strip_comments(module_file.read_text())
    names, stack = [], []
    for line in src.splitlines():
        m = NAMESPACE_RE.match(line)
        if m:
            if m.group(1) == "namespace":
                stack.append(m.group(2))
            elif stack and stack[-1] == m.group(2):
                stack.pop()
            continue
        m = THEOREM_RE.match(line)
        if m:
            names.append(".".join(stack + [m.group(1)]))
    return names


def failing_theorems(module: str, build_output: str) -> list[str]:
    """names of the theorems of a module inside whose text the build reported errors (by line number)"""
    path = LEAN_DIR / (module.replace(".", "/") + ".lean")
    if not path.exists():
        return []
    rel = module.replace(".", "/") + ".lean"
    lines = sorted({int(m.group(1)) for m in re.finditer(re.escape(rel) + r":(\d+):\d+", build_output)})
    if not lines:
        return []
    src = path.read_text().splitlines()
    starts = [(i + 1, THEOREM_RE.match(l).group(1)) for i, l in enumerate(src) if THEOREM_RE.match(l)]
    out = []
    for ln in lines:
        owner = None
        for st, nm in starts:
            if st <= ln:
                owner = nm
        if owner and owner not in out:
            out.append(owner)
    return out


def audit(modules: list[str]) -> dict:
    """`#print axioms` on every theorem of the given Props modules + forbidden-token grep over the whole library.

    returns {theorems: {name: [axioms]}, bad_axioms: {...}, forbidden: [(file, token)], ok: bool}
    """
    res = {"theorems": {}, "bad_axioms": {}, "forbidden": [], "ok": True}
    for f in list((LEAN_DIR / "PvModel").rglob("*.lean")) + list((LEAN_DIR / "Driver").rglob("*.lean")):
        for m in FORBIDDEN.finditer(strip_comments(f.read_text())):
            res["forbidden"].append((str(f.relative_to(LEAN_DIR)), m.group(0).strip()))
    names = []
    for mod in modules:
        path = LEAN_DIR / (mod.replace(".", "/") + ".lean")
        names += [(mod, n) for n in theorems_of(path)]
    if names:
        WORK.mkdir(exist_ok=True)
        af = WORK / f"audit_{os.getpid()}.lean"
        af.write_text("".join(f"import {m}\n" for m in sorted({m for m, _ in names})) +
                      "".join(f"#print axioms {n}\n" for _, n in names))
        p = subprocess.run(["lake", "env", "lean", str(af)], cwd=LEAN_DIR, env=_env(), capture_output=True, text=True, timeout=900)
        af.unlink(missing_ok=True)
        text = p.stdout + p.stderr
        # "'name' depends on axioms: [a, b]" | "'name' does not depend on any axioms"
        for m in re.finditer(r"'([^']+)' depends on axioms: \[([^\]]*)\]", text):
            res["theorems"][m.group(1)] = [a.strip() for a in m.group(2).replace("\n", " ").split(",") if a.strip()]
        for m in re.finditer(r"'([^']+)' does not depend on any axioms", text):
            res["theorems"][m.group(1)] = []
        for _, n in names:
            if n not in res["theorems"]:
                res["bad_axioms"][n] = ["<not reported: " + text[-300:].replace("\n", " ") + ">"]
        for n, ax in res["theorems"].items():
            extra = [a for a in ax if a not in ALLOWED_AXIOMS]
            if extra:
                res["bad_axioms"][n] = extra
    res["ok"] = not res["forbidden"] and not res["bad_axioms"]
    return res


def leancheck(modules: list[str], timeout=1800) -> tuple[bool, str]:
    """thorough tier: Lean's independent re-checker replays the compiled .olean files of the property's modules through the kernel"""
    p = subprocess.run(["lake", "env", "leanchecker", *modules], cwd=LEAN_DIR, env=_env(), capture_output=True, text=True, timeout=timeout)
    out = "\n".join(l for l in (p.stdout + p.stderr).splitlines() if "WARNING conda" not in l)
    return p.returncode == 0 and "exception" not in out.lower() and "error" not in out.lower(), out
