"""Canonicalisation: how values cross the Python <-> Lean boundary.

Every double crosses as its 64-bit pattern (-0.0 is mapped to 0.0 first); the model answers with exact rationals.
"""
from __future__ import annotations
import math
import struct
from fractions import Fraction
import numpy as np


def bits(x) -> int:
    """64-bit pattern of a Python/numpy number interpreted as a double (-0.0 -> 0.0)."""
    x = float(x)
    if x == 0.0:
        x = 0.0
    return struct.unpack("<Q", struct.pack("<d", x))[0]


def from_bits(b: int) -> float:
    return struct.unpack("<d", struct.pack("<Q", b))[0]


def rnum(x) -> str:
    """canonical text of a double: the same form `Num.render` prints."""
    x = float(x)
    if math.isnan(x):
        return "nan"
    if math.isinf(x):
        return "inf" if x > 0 else "-inf"
    f = Fraction(x)
    return f"{f.numerator}/{f.denominator}"


def is_int(v) -> bool:
    return isinstance(v, (int, np.integer)) and not isinstance(v, (bool, np.bool_))


def is_float(v) -> bool:
    return isinstance(v, (float, np.floating))


def rcoord(c):
    """canonical form of a corrected coordinate (float -> rational text, int -> int, list -> list of ints)."""
    if isinstance(c, (list, tuple, np.ndarray)):
        return [int(i) for i in c]
    if is_int(c) or isinstance(c, (bool, np.bool_)):
        return int(c)
    return rnum(c)


def coord_json(c):
    """a corrected coordinate as sent to the model (`Proto.getCoord`)."""
    if isinstance(c, (list, tuple, np.ndarray)):
        return {"p": [int(i) for i in c]}
    if is_int(c) or isinstance(c, (bool, np.bool_)):
        return {"i": int(c)}
    return {"f": bits(c)}


def raw_json(x):
    if isinstance(x, (list, tuple, np.ndarray)):
        return [bits(v) for v in x]
    return bits(x)


ERR_NAMES = {"ValueError", "TypeError", "IndexError", "ValidationError", "OverflowError"}


def rerr(e: BaseException):
    n = type(e).__name__
    if n == "ValidationError":
        return {"err": "ValidationError"}
    for base in type(e).__mro__:
        if base.__name__ in ERR_NAMES:
            return {"err": base.__name__}
    return {"err": n}
