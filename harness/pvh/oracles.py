"""Property oracles over traced runs (S-trace) — each demands exactly what its property states.

The membership oracle is the Lean predicate `memList` (driver op `task.mem`) evaluated on the implementation's own positions;
cost/fitness oracles recompute the user's objective in the harness; the model correspondence for `_init_agent` events is the
Lean `correctSolution` on the recorded raw candidate.
"""
from __future__ import annotations
import math
import numpy as np

from . import trace
from .canon import bits, from_bits, rnum
from .lean import run_driver_parallel

SUITE = "S-trace"
# classes whose agent handling is a recorded finding (hand-built agents): excluded from the provenance correspondence
DISCIPLINE_EXEMPT = {"ImperialistCompetitiveOptimization"}
VARIABLE_SIZE = {"BeeColonyOptimization", "ForestOptimizationAlgorithm", "ImperialistCompetitiveOptimization"}


def job_key(job):
    out = {k: job.get(k) for k in ("name", "specs", "objective", "minmax", "weights", "seed", "cfg", "mode", "workers", "pool_perm")}
    # what makes a run a multi-step history must survive into the replay file
    out.update({k: job[k] for k in ("warmup", "reconfigure_from", "scribble", "nested", "derive_from", "weights_initial", "weights_via", "delay", "utils", "raise_after") if job.get(k) is not None})
    return out


def why_not_member(specs, pos):
    """a short classification for signatures (the verdict itself comes from the Lean predicate)"""
    flats = [f for s in specs for f in trace.gen.spec_flat(s)]
    if len(pos) != len(flats):
        return "wrong-length"
    for c, f in zip(pos, flats):
        if "bad" in c or "v" in c:
            return "malformed-coordinate"
        if f[0] == "cont":
            if "f" not in c:
                return "non-float-continuous-coordinate"
            x = from_bits(c["f"])
            if math.isnan(x):
                return "nan-coordinate"
            if math.isinf(x):
                return "infinite-coordinate"
            if not (f[1] <= x <= f[2]):
                return "out-of-bounds"
        elif f[0] == "disc":
            if "i" not in c:
                return "non-integer-index"
            if not (0 <= c["i"] < f[1]):
                return "index-out-of-range"
        else:
            if "p" not in c or sorted(c["p"]) != list(range(f[1])):
                return "not-a-permutation"
    return "other"


def coarse(kind: str) -> str:
    """signature granularity: NaN coordinates, wrong length, or otherwise not in the coordinate's domain"""
    return kind if kind in ("nan-coordinate", "wrong-length") else "not-in-domain"


class MemBatch:
    """collects positions to be judged by the Lean membership predicate, in one driver batch"""

    def __init__(self):
        self.req, self.meta = [], []

    def add(self, specs, pos, meta):
        pj = trace.pos_model_json(pos)
        if pj is None:
            self.meta.append((None, specs, pos, meta))
            return
        self.req.append({"op": "task.mem", "task": trace.task_json(specs), "c": pj})
        self.meta.append((len(self.req) - 1, specs, pos, meta))

    def verdicts(self):
        ans = run_driver_parallel(self.req)
        for idx, specs, pos, meta in self.meta:
            ok = (ans[idx] is True) if idx is not None else False
            yield ok, specs, pos, meta


def reported_agents(r):
    res = r["result"]
    for k, g in enumerate(res["evolution"]):
        for j, a in enumerate(g):
            yield f"gen{k}[{j}]", a
    yield "best_solution", res["best"]


def check_c01(ctx, results, prop="C01"):
    mb = MemBatch()
    for r in results:
        if "result" not in r:
            continue
        seen = set()
        for where, a in reported_agents(r):
            key = repr(a["pos"])
            if key in seen:
                continue
            seen.add(key)
            mb.add(r["job"]["specs"], a["pos"], (r["job"], where))
    n = 0
    for ok, specs, pos, (job, where) in mb.verdicts():
        n += 1
        if not ok:
            kind = why_not_member(specs, pos)
            ctx.fail(f"{prop}/{job['name']}/reported-position-outside-search-space/{coarse(kind)}",
                     f"{where} = {trace.dec_pos(pos)} is not a member of the search space ({kind})", SUITE, {"job": job_key(job), "where": where, "position": trace.dec_pos(pos), "kind": kind})
    ctx.dist["positions-judged"] += n


def check_c05(ctx, results, prop="C05"):
    mb = MemBatch()
    for r in results:
        seen = set()
        for i, c in enumerate(r.get("calls", [])):
            key = repr(c)
            if key in seen:
                continue
            seen.add(key)
            mb.add(r["job"]["specs"], c, (r["job"], i))
    n = 0
    for ok, specs, pos, (job, i) in mb.verdicts():
        n += 1
        if not ok:
            kind = why_not_member(specs, pos)
            ctx.fail(f"{prop}/{job['name']}/objective-called-outside-search-space/{coarse(kind)}",
                     f"objective call #{i} received {trace.dec_pos(pos)} ({kind})", SUITE, {"job": job_key(job), "call": i, "argument": trace.dec_pos(pos), "kind": kind})
    ctx.dist["objective-calls-judged"] += n


def fitness_of(cost):
    """the documented function of the (user-sign) cost: 1/(1+c) for c >= 0, 1+|c| for c < 0"""
    return (1 / (cost + 1)) if cost >= 0 else (1 + abs(cost))


def check_c02(ctx, results, prop="C02"):
    for r in results:
        if "result" not in r:
            continue
        job = r["job"]
        f = trace.OBJECTIVES[job["objective"]]
        w = job.get("weights")
        seen = set()
        for where, a in reported_agents(r):
            key = repr(a)
            if key in seen:
                continue
            seen.add(key)
            pos = trace.dec_pos(a["pos"])
            try:
                v = f(pos)
                if w is not None:
                    true_cost = float(np.dot(np.atleast_1d(v), w))
                else:
                    true_cost = float(v[0]) if isinstance(v, list) and len(v) == 1 else float(v)
            except Exception as e:  # position so malformed the objective cannot be evaluated: C01's business
                ctx.dist["c02-unevaluable-position"] += 1
                continue
            cost = from_bits(a["cost"])
            if bits(true_cost) != a["cost"] and not (math.isnan(true_cost) and math.isnan(cost)):
                ctx.fail(f"{prop}/{job['name']}/cost-is-not-objective-of-position",
                         f"{where}: cost {cost!r} but objective(position) = {true_cost!r} at {pos}", SUITE,
                         {"job": job_key(job), "where": where, "position": pos, "cost": cost, "objective": true_cost})
            fit = from_bits(a["fit"])
            exp = fitness_of(cost)
            if bits(exp) != a["fit"] and not (math.isnan(exp) and math.isnan(fit)):
                ctx.fail(f"{prop}/{job['name']}/fitness-is-not-documented-function-of-cost",
                         f"{where}: fitness {fit!r} but f(cost={cost!r}) = {exp!r}", SUITE, {"job": job_key(job), "where": where, "cost": cost, "fitness": fit})
            ctx.dist["agents-recomputed"] += 1


def check_init_correspondence(ctx, results):
    """model ↔ implementation on every `_init_agent` event: recorded position == model `correctSolution raw`,
    and (serial / thread) every reported agent is value-equal to an `_init_agent` result of its run."""
    req, meta = [], []
    for r in results:
        job = r["job"]
        seen = set()
        for ev in r.get("inits", []):
            if ev["raw"] is None or any(isinstance(c, dict) for c in ev["raw"]):
                continue
            key = repr(ev["raw"])
            if key in seen:
                continue
            seen.add(key)
            req.append({"op": "task.correct", "task": trace.task_json(job["specs"]), "x": ev["raw"]})
            meta.append((job, ev))
    ans = run_driver_parallel(req)
    for (job, ev), model in zip(meta, ans):
        impl = []
        for c in ev["agent"]["pos"]:
            impl.append(rnum(from_bits(c["f"])) if "f" in c else c.get("i", c.get("p", c)))
        ctx.dist["init-events-vs-model"] += 1
        if model != impl and isinstance(model, list) and isinstance(impl, list) and len(model) == len(impl):
            # numpy's argsort order among EQUAL keys is unspecified: a permutation coordinate with tied keys is compared relationally
            ok = True
            for raw_c, m_c, i_c in zip(ev["raw"], model, impl):
                if m_c == i_c:
                    continue
                if isinstance(raw_c, list) and isinstance(i_c, list) and len(set(raw_c)) < len(raw_c):
                    keys = [from_bits(b) for b in raw_c]
                    ok = ok and sorted(i_c) == list(range(len(keys))) and all((keys[a] >= keys[b]) or i_c[a] < i_c[b] for a in range(len(keys)) for b in range(len(keys)))
                    ctx.dist["init-events-relational (tied permutation keys)"] += 1
                else:
                    ok = False
            if ok:
                continue
        if model != impl:
            ctx.disagree(SUITE + "/init_agent", {"job": job_key(job), "raw": ev["raw"]}, model, impl)
    # the proved-sound Lean acceptor (PvModel/Accept.lean: acceptRun_sound) on every serial / thread run of a disciplined class:
    # every _init_agent event is the model's, every reported agent is value-equal to an _init_agent result of its run
    reqs, metas = [], []
    for r in results:
        job = r["job"]
        if "result" not in r or job.get("mode", "serial") == "process" or job["name"] in DISCIPLINE_EXEMPT or not r.get("inits"):
            continue
        sgn_max = job.get("minmax") == "max"
        inits, bad = [], False
        for ev in r["inits"]:
            pj = trace.pos_model_json(ev["agent"]["pos"])
            if pj is None or (ev["raw"] is not None and any(isinstance(c, dict) for c in ev["raw"])):
                bad = True
                break
            raw = ev["raw"]
            if raw is not None and any(isinstance(c, list) and len(set(c)) < len(c) for c in raw):
                # tied permutation keys: numpy's tie order is unspecified, so the exact model output is not demanded of this event
                # (its ranking is compared relationally above); the acceptor then requires the recorded position to be a fixed point
                raw = None
            inits.append({"raw": raw, "pos": pj, "cost": ev["agent"]["cost"], "fit": ev["agent"]["fit"]})
        gens = []
        for g in r["result"]["evolution"] + [[r["result"]["best"]]]:
            gg = []
            for a in g:
                pj = trace.pos_model_json(a["pos"])
                if pj is None:
                    bad = True
                    break
                c = from_bits(a["cost"])
                gg.append({"pos": pj, "cost": bits(-c if sgn_max else c), "fit": a["fit"]})
            gens.append(gg)
        if bad:
            ctx.dist["acceptor-skipped (malformed coordinate: judged by the C01/C05 oracles)"] += 1
            continue
        reqs.append({"op": "run.accept", "task": trace.task_json(job["specs"]), "inits": inits, "gens": gens})
        metas.append(job)
    for job, ans in zip(metas, run_driver_parallel(reqs, chunk=40)):
        ctx.dist["runs-through-lean-acceptor"] += 1
        if not ans.get("accept"):
            # a NaN raw candidate violates RawOK, the theorem's hypothesis about the numerical rule: that is C05's finding, not a model mismatch
            r0 = next(r for r in results if r["job"] is job)
            def nan_raw(i):
                raw = r0["inits"][i]["raw"]
                return raw is not None and any((from_bits(c) != from_bits(c)) if isinstance(c, int) else any(from_bits(x) != from_bits(x) for x in c) for c in raw)
            if ans.get("badInit") and not ans.get("orphans") and all(nan_raw(i) for i in ans["badInit"]):
                ctx.dist["acceptor-rejected: NaN raw candidate (RawOK violated; reported by the C05 oracle)"] += 1
                continue
            ctx.disagree(SUITE + "/acceptor", {"job": job_key(job), "badInit": ans.get("badInit"), "orphans": ans.get("orphans")},
                         "acceptRun = true (every _init_agent event is the model's and RawOK; every reported agent comes from one)", "acceptRun = false")


def check_c10(ctx, results, prop="C10"):
    for r in results:
        if "result" not in r:
            continue
        job = r["job"]
        ps = r["cfg_before"].get("population_size")
        sizes = [len(g) for g in r["result"]["evolution"]]
        ctx.dist["generations-sized"] += len(sizes)
        if any(s == 0 for s in sizes) or any(s > ps for s in sizes):
            ctx.fail(f"{prop}/{job['name']}/generation-empty-or-larger-than-population_size", f"sizes {sizes} with population_size {ps}", SUITE, {"job": job_key(job), "sizes": sizes})
        elif job["name"] not in VARIABLE_SIZE and any(s != ps for s in sizes):
            ctx.fail(f"{prop}/{job['name']}/population-size-not-conserved", f"sizes {sizes} with population_size {ps}", SUITE, {"job": job_key(job), "sizes": sizes})


def check_c15_history(ctx, results, prop="C15"):
    for r in results:
        if "result" not in r or not r.get("snaps"):
            continue
        job = r["job"]
        sgn_max = job.get("minmax") == "max"
        evo = r["result"]["evolution"]
        for k, snap in enumerate(r["snaps"]):
            if k + 1 >= len(evo):
                break
            exp = [(repr(a["pos"]), bits(-from_bits(a["cost"]) if sgn_max else from_bits(a["cost"])), a["fit"]) for a in snap]
            got = [(repr(a["pos"]), a["cost"], a["fit"]) for a in evo[k + 1]]
            ctx.dist["generations-vs-snapshot"] += 1
            if exp != got:
                ctx.fail(f"{prop}/{job['name']}/recorded-generation-altered-after-its-cycle",
                         f"generation {k + 1} differs from the deep snapshot taken right after cycle {k + 1}", SUITE, {"job": job_key(job), "generation": k + 1})
                break


def check_c17(ctx, results, elitist: set, prop="C17"):
    for r in results:
        job = r["job"]
        if "result" not in r or job["name"] not in elitist:
            continue
        sgn = -1.0 if job.get("minmax") == "max" else 1.0
        bests = []
        for g in r["result"]["evolution"]:
            cs = [sgn * from_bits(a["cost"]) for a in g]
            bests.append(min(cs))
        ctx.dist["generation-pairs"] += max(0, len(bests) - 1)
        for k in range(len(bests) - 1):
            if bests[k + 1] > bests[k]:
                ctx.fail(f"{prop}/{job['name']}/best-cost-got-worse", f"best cost of generation {k + 1} ({sgn * bests[k + 1]!r}) is worse than that of generation {k} ({sgn * bests[k]!r})",
                         SUITE, {"job": job_key(job), "generation": k + 1, "bests": [sgn * b for b in bests]})
                break
        b = sgn * from_bits(r["result"]["best"]["cost"])
        if bests and b > min(bests):
            ctx.fail(f"{prop}/{job['name']}/best_solution-not-best-ever-recorded", f"best_solution {sgn * b!r} vs best recorded {sgn * min(bests)!r}", SUITE, {"job": job_key(job)})


def check_c09(ctx, results, prop="C09"):
    for r in results:
        if "cfg_before" not in r or "cfg_after" not in r:
            continue
        job = r["job"]
        ctx.dist["config-task-dumps-compared"] += 1
        if r["cfg_before"] != r["cfg_after"]:
            diff = sorted(k for k in set(r["cfg_before"]) | set(r["cfg_after"]) if r["cfg_before"].get(k) != r["cfg_after"].get(k))
            ctx.fail(f"{prop}/{job['name']}/configuration-modified/{','.join(diff)}", f"fields {diff} changed during optimize()", SUITE,
                     {"job": job_key(job), "before": {k: r['cfg_before'].get(k) for k in diff}, "after": {k: r['cfg_after'].get(k) for k in diff}})
        if r["task_before"] != r["task_after"]:
            diff = sorted(k for k in set(r["task_before"]) | set(r["task_after"]) if r["task_before"].get(k) != r["task_after"].get(k))
            ctx.fail(f"{prop}/{job['name']}/task-modified/{','.join(diff)}", f"task fields {diff} changed during optimize()", SUITE, {"job": job_key(job)})


def check_c03(ctx, results, prop="C03"):
    for r in results:
        if "result" not in r:
            continue
        job = r["job"]
        last = r["result"]["evolution"][-1]
        b = r["result"]["best"]
        sgn = -1.0 if job.get("minmax") == "max" else 1.0
        ctx.dist["final-generations"] += 1
        if not any(a["pos"] == b["pos"] and a["cost"] == b["cost"] for a in last):
            ctx.fail(f"{prop}/{job['name']}/best_solution-not-in-last-generation", "best_solution is not an agent of the last recorded generation", SUITE, {"job": job_key(job)})
        elif any(sgn * from_bits(a["cost"]) < sgn * from_bits(b["cost"]) for a in last):
            ctx.fail(f"{prop}/{job['name']}/last-generation-has-strictly-better-agent", "an agent of the last generation is strictly better than best_solution", SUITE, {"job": job_key(job)})


def exception_signature(r):
    e = r["exception"]
    return f"{r['job']['name']}/{e['type']}/{e['func']}"


def check_skeleton_conformance(ctx, results, steps):
    """translator validation: what the generated step skeleton of a class claims must be visible in its runs.  Each comparison is a proved
    consequence of the claim (`C10.size_sound`; `C17.monotone_rank_sound` + `rank_le_of_countDom` = `C17.c17_skeleton_ranks`: every rank of the
    sorted cost vector, not only the best), so a run that contradicts it refutes the generated classification, never the theorem.
    * all writes `mapGreedy`           ⇒ per index, the cost never increases from one generation to the next;
    * monotone skeleton (greedy/elitist writes only, size preserved) ⇒ the sorted cost vector never increases at any rank;
    * size-preserving skeleton         ⇒ constant generation size.
    A run contradicting its class's skeleton is a correspondence disagreement (the facts claim more than the code does)."""
    for r in results:
        job = r["job"]
        if "result" not in r:
            continue
        st = steps.get(job["name"])
        if not st:
            continue
        prims = set()
        for o in st["ops"]:
            if o["op"] == "one":
                prims.add(o["prim"])
            else:
                prims |= {p["prim"] if isinstance(p, dict) else p for p in o.get("prims", [])}
        sgn = -1.0 if job.get("minmax") == "max" else 1.0
        gens = [[sgn * from_bits(a["cost"]) for a in g] for g in r["result"]["evolution"]]
        if any(c != c for g in gens for c in g):
            continue
        ctx.dist["skeleton-conformance-runs"] += 1
        for k in range(len(gens) - 1):
            a, b = gens[k], gens[k + 1]
            if st["sizePreserving"] and len(a) != len(b):
                ctx.disagree(SUITE + "/skeleton", {"job": job_key(job), "generation": k + 1}, "size-preserving skeleton", f"sizes {len(a)} -> {len(b)}")
                break
            if prims == {"mapGreedy"} and len(a) == len(b) and any(y > x for x, y in zip(a, b)):
                ctx.disagree(SUITE + "/skeleton", {"job": job_key(job), "generation": k + 1}, "mapGreedy skeleton: per-index cost never increases", "an element got costlier")
                break
            if st["monotone"] and len(a) == len(b) and any(y > x for x, y in zip(sorted(a), sorted(b))):
                ctx.disagree(SUITE + "/skeleton", {"job": job_key(job), "generation": k + 1}, "monotone skeleton: sorted cost vector never increases at any rank", "a rank got costlier")
                break


def _undump_num(v):
    return from_bits(v["f"]) if isinstance(v, dict) and "f" in v else v


def stop_cycle(rates, max_cycles, fe, es):
    """the declarative criterion of C04 over a rate history: the first cycle k ≥ 1 at which a configured criterion holds (None = not within the history).
    `es` = (patience, min_delta); the differences start from `rate₁ − 0` as `__error_check__` records them."""
    diffs = [rates[0] - 0] + [rates[i] - rates[i - 1] for i in range(1, len(rates))] if rates else []
    for k in range(1, len(rates) + 1):
        stop = k >= max_cycles
        if fe is not None and rates[k - 1] <= fe:
            stop = True
        if es is not None:
            p, md = es
            if all(d < 0 and abs(d) < md for d in diffs[max(0, k - p):k]):
                stop = True
        if stop:
            return k
    return None


def check_c04(ctx, results):
    """C04 on runs of the real optimizers (the scripted S-loop suite drives the same loop with arbitrary histories; this one looks at what every class
    actually reports): one generation and one rate per executed cycle, each rate = |1 − mean fitness| of its generation (np.average over the recorded
    agents, in recorded order: bit-exact), at most max(max_cycles, 1) cycles, and the run stopped at the FIRST cycle at which a configured criterion held —
    judged over the reported rate history by the model's `firstStop` (driver op `loop.firststop`, IEEE doubles; theorem `C04.c04_reported`)."""
    import numpy as np
    from .lean import run_driver_parallel
    todo = []
    for r in results:
        if "result" not in r:
            continue
        job, res = r["job"], r["result"]
        cfg = r.get("cfg_before") or {}
        mc = cfg.get("max_cycles")
        fe = _undump_num(cfg.get("fitness_error"))
        esd = cfg.get("early_stopping")
        es = None if esd is None else (esd.get("patience"), _undump_num(esd.get("min_delta")))
        if mc is None or (es is not None and (es[0] is None or es[1] is None)):
            continue
        rates = [from_bits(b) for b in res["rates"]]
        gens = res["evolution"]
        n = len(rates)
        ctx.dist["c04-real-runs"] += 1
        why = None
        if len(gens) != n + 1:
            why = f"generations-and-rates-out-of-step: {len(gens)} generations, {n} rates"
        elif n > max(mc, 1):
            why = f"more-cycles-than-max_cycles: {n} > {mc}"
        else:
            for k in range(n):
                fits = [from_bits(a["fit"]) for a in gens[k + 1]]
                if not fits:
                    continue
                want = abs(1 - float(np.average(fits)))
                if bits(want) != bits(rates[k]) and not (want != want and rates[k] != rates[k]):
                    why = f"rate-is-not-1-minus-mean-fitness: cycle {k + 1}: reported {rates[k]!r}, generation gives {want!r}"
                    break
        meta = {"job": job_key(job), "rates": rates[:12], "max_cycles": mc, "fitness_error": fe, "early_stopping": es}
        if why:
            ctx.fail(f"C04/{job['name']}/{why.split(':')[0]}", why, SUITE, meta)
        elif n and not any(x != x for x in rates):
            todo.append((job, meta, n, {"op": "loop.firststop", "rates": res["rates"], "maxCycles": mc, "fe": None if fe is None else bits(fe),
                                        "es": None if es is None else {"patience": es[0], "minDelta": bits(es[1])}}))
    for (job, meta, n, _), ans in zip(todo, run_driver_parallel([t[3] for t in todo])):
        k0 = ans.get("first") if isinstance(ans, dict) else None
        py = stop_cycle(meta["rates"], meta["max_cycles"], meta["fitness_error"], meta["early_stopping"]) if n <= 12 else k0
        if py != k0:
            ctx.disagree(SUITE + "/firststop", meta, k0, f"harness's own reading of the criterion: {py}")
        if k0 is None:
            ctx.fail(f"C04/{job['name']}/stopped-before-any-criterion-held", f"{n} cycles, no criterion holds on the reported rates: {meta}", SUITE, meta)
        elif k0 != n:
            ctx.fail(f"C04/{job['name']}/did-not-stop-at-the-first-criterion", f"criterion first holds at cycle {k0}, run executed {n}", SUITE, meta)
