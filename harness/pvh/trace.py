"""S-trace: run the real optimizers under observation.

`run_traced(job)` executes one optimizer on one generated task in this process with wrappers installed
(no source hooks: class-level wrapping of `_init_agent`, `optimization_step`, the task's objective) and returns a plain
dict: every `_init_agent` event (raw candidate → position, cost, fitness), every objective call, an independent deep
snapshot after every cycle, config/task dumps before and after, the result, or the exception.

Jobs are plain dicts (picklable) so that `par.pmap` can fan them out over the cores.
"""
from __future__ import annotations
import contextlib
import io
import json
import math
import os
import tempfile
import traceback
import warnings
from pathlib import Path

import numpy as np

from . import gen
from .canon import bits

WORK = Path(__file__).resolve().parents[2] / ".work"


# ------------------------------------------------------------------------------------------------
# objectives: deterministic, defined for every encoding, picklable by name
# ------------------------------------------------------------------------------------------------
def _flat(x):
    for e in x:
        if isinstance(e, (list, tuple, np.ndarray)):
            yield from _flat(e)
        else:
            yield float(e)


def obj_sphere(x):
    return float(sum((v - 0.25) ** 2 for v in _flat(x)))


def obj_linear(x):
    return float(sum((i + 1) * v for i, v in enumerate(_flat(x))))


def obj_rastrigin(x):
    vs = list(_flat(x))
    return float(10 * len(vs) + sum(v * v - 10 * math.cos(2 * math.pi * v) for v in vs))


def obj_neg(x):
    return -obj_sphere(x) + 3.0


def obj_multi2(x):
    vs = list(_flat(x))
    return [float(sum(v * v for v in vs)), float(sum((v - 1.0) ** 2 for v in vs))]


def obj_multi3(x):
    vs = list(_flat(x))
    return [float(sum(v * v for v in vs)), float(sum(abs(v) for v in vs)), float(max(vs) - min(vs))]


def obj_multi1(x):
    """a single objective handed back as a one-element list (`float | list[float]` admits it)"""
    return [obj_sphere(x)]


def obj_plateau(x):
    """integer-valued: whole regions of the space share one cost (ties between agents at different positions)"""
    return float(sum(math.floor(abs(v)) for v in _flat(x)))


OBJECTIVES = {"plateau": obj_plateau, "sphere": obj_sphere, "linear": obj_linear, "rastrigin": obj_rastrigin, "neg": obj_neg, "multi1": obj_multi1, "multi2": obj_multi2, "multi3": obj_multi3}


# ------------------------------------------------------------------------------------------------
# task zoo
# ------------------------------------------------------------------------------------------------
def task_specs(rng, kind, dim=None):
    """declaration specs for a task of the given kind"""
    d = dim or rng.randrange(1, 6)
    if kind == "cont":                      # moderate symmetric / asymmetric bounds
        bs = [gen.nice_bounds(rng) for _ in range(d)]
        return [{"k": "contMulti", "lbs": [b[0] for b in bs], "ubs": [b[1] for b in bs]}]
    if kind == "cont-sym":
        s = rng.choice([1.0, 5.0, 10.0, 100.0])
        return [{"k": "contMulti", "lbs": [-s] * d, "ubs": [s] * d}]
    if kind == "cont-zero":                 # bounds touching zero: where 0/0 arises in update rules
        return [{"k": "contMulti", "lbs": [0.0] * d, "ubs": [rng.choice([1.0, 4.0, 10.0])] * d}]
    if kind == "cont-onesided":
        s = rng.choice([1.0, 10.0, 1000.0])
        return [{"k": "contMulti", "lbs": [s] * d, "ubs": [3 * s] * d}]
    if kind == "cont-tiny":
        s = rng.choice([1e-9, 1e-6, 1e-3])
        return [{"k": "contMulti", "lbs": [-s] * d, "ubs": [s] * d}]
    if kind == "cont-huge":
        s = rng.choice([1e6, 1e9])
        return [{"k": "contMulti", "lbs": [-s] * d, "ubs": [s] * d}]
    if kind == "cont-scalars":              # d separate ContinuousVariables
        return [dict(zip(("k", "lb", "ub"), ("cont",) + gen.nice_bounds(rng))) for _ in range(d)]
    if kind == "multiobj":
        bs = [gen.nice_bounds(rng) for _ in range(d)]
        return [{"k": "multiObj", "lbs": [b[0] for b in bs], "ubs": [b[1] for b in bs]}]
    if kind == "disc":
        return [{"k": "disc", "n": rng.randrange(2, 7), "pool": 1} for _ in range(max(d, 2))]
    if kind == "discMulti":
        return [{"k": "discMulti", "ns": [rng.randrange(2, 6) for _ in range(max(d, 2))]}]
    if kind == "binary":
        return [{"k": "binary", "n": max(d, 2)}]
    if kind == "mixed":
        out = [{"k": "cont", "lb": -5.0, "ub": 5.0}, {"k": "disc", "n": rng.randrange(2, 5), "pool": 1}, {"k": "binary", "n": 2}]
        if d > 3:
            out.append({"k": "contMulti", "lbs": [0.0, -1.0], "ubs": [1.0, 1.0]})
        return out
    if kind == "perm":
        return [{"k": "perm", "n": rng.randrange(3, 7), "pool": 1}]
    raise ValueError(kind)


CONT_KINDS = ["cont", "cont-sym", "cont-zero", "cont-onesided", "cont-tiny", "cont-huge", "cont-scalars"]
INT_KINDS = ["disc", "discMulti", "binary", "mixed", "perm"]


def build_task(job):
    """the Task object for a job: objective by name; calls logged in-process (`_logid`) and/or to a file (`_callfile`)"""
    gen.OBJECTIVE_TABLE.update(OBJECTIVES)
    kw = {"minmax": job.get("minmax", "min")}
    if job.get("seed") is not None:
        kw["seed"] = job["seed"]
    if job.get("weights") is not None:
        kw["objective_weights"] = job["weights"] if job.get("weights_initial") is None else job["weights_initial"]
    if job.get("weights_initial") is not None:
        # multi-step history on the task: built with other weights (same count), used, then re-weighted by assignment or by model_copy(update=…)
        j2 = {k: v for k, v in job.items() if k not in ("weights_initial", "weights_via")}
        j2["weights"] = job["weights_initial"]
        t = build_task(j2)
        try:
            t.solve(t.initial_solution())
        except Exception:  # noqa
            pass
        if job.get("weights_via") == "copy":
            return t.model_copy(update={"objective_weights": list(job["weights"])})
        t.objective_weights = list(job["weights"])
        return t
    data = {}
    if job.get("_logid") is not None:
        data["logid"] = job["_logid"]
    if job.get("_callfile"):
        data["callfile"] = job["_callfile"]
    if job.get("delay"):
        data["delay"] = job["delay"]
    if job.get("scribble"):
        data["scribble"] = True
    if job.get("nested"):
        data["nested"] = True
    if job.get("derive_from"):
        # a task derived from an already USED task of the same shape (model_copy keeps pydantic private state): multi-step history
        base = gen.make_task(job["derive_from"], job["objective"], data=dict(data), **kw)
        base.get_variables(); base.get_bounds(); base.correct_solution(base.initial_solution()); base.transform_solution(base.initial_solution())
        return base.model_copy(update={"variables": [gen.make_variable(s, f"v{i}") for i, s in enumerate(job["specs"])], "data": {"objective": job["objective"], **data}})
    t = gen.make_task(job["specs"], job["objective"], data=data, **kw)
    if job.get("append_variable_after"):
        # the caller edits the task after building it (pydantic does not re-validate assigned fields): whatever is stale then is the caller's business,
        # optimize() must still leave every field as it found it
        t.variables = list(t.variables) + [gen.make_variable(job["append_variable_after"], "late")]
    return t


def _plain(x):
    return [(_plain(e) if isinstance(e, (list, tuple, np.ndarray)) else (e.item() if isinstance(e, np.generic) else e)) for e in x]


def _enc_pos(x):
    """a position as JSON: floats as bit patterns ({"f": bits}), ints ({"i": n}), permutation lists ({"p": [...]}), anything else tagged"""
    out = []
    for c in x:
        if isinstance(c, (list, tuple, np.ndarray)):
            try:
                out.append({"p": [int(i) for i in c]} if all(float(i) == int(i) for i in c) else {"v": [bits(i) for i in c]})
            except Exception:
                out.append({"bad": repr(c)})
        elif isinstance(c, (bool, np.bool_)):
            out.append({"i": int(c)})
        elif isinstance(c, (int, np.integer)):
            out.append({"i": int(c)})
        elif isinstance(c, (float, np.floating)):
            out.append({"f": bits(c)})
        else:
            out.append({"bad": repr(c)})
    return out


def _enc_raw(x):
    if x is None:
        return None
    x = x.tolist() if isinstance(x, np.ndarray) else x
    out = []
    for c in x:
        if isinstance(c, (list, tuple, np.ndarray)):
            out.append([bits(i) for i in c])
        else:
            try:
                out.append(bits(c))
            except Exception:
                out.append({"bad": repr(c)})
    return out


def _enc_agent(a):
    return {"pos": _enc_pos(a.position), "cost": bits(a.cost), "fit": bits(a.fitness)}


def _dump(model):
    """deep, comparable dump of a pydantic model (config / task)"""
    def conv(v):
        if isinstance(v, dict):
            return {str(k): conv(x) for k, x in v.items()}
        if isinstance(v, (list, tuple)):
            return [conv(x) for x in v]
        if isinstance(v, np.ndarray):
            return conv(v.tolist())
        if isinstance(v, float):
            return {"f": bits(v)}
        if isinstance(v, np.generic):
            return conv(v.item())
        if hasattr(v, "value") and v.__class__.__module__.endswith("enums"):
            return str(v.value)
        return v if isinstance(v, (int, str, bool, type(None))) else repr(v)
    out = conv(model.model_dump())
    vs = getattr(model, "variables", None)
    if isinstance(vs, list):
        # task.model_dump() serialises the variables as the declared base class (name only): dump each with its own fields and children
        out["variables"] = [[type(v).__name__, conv(v.model_dump()), [conv(c.model_dump()) for c in (v.get() if v.has_children() else [])]] for v in vs]
    return out


def run_traced(job, opt=None):
    """job: {name, specs, objective, minmax, weights, seed, cfg: {overrides}, mode, workers, trace: bool}"""
    warnings.filterwarnings("ignore")
    np.seterr(all="ignore")
    from pyvolutionary.abstract import OptimizationAbstract
    from . import optimizers
    out = {"job": {k: v for k, v in job.items() if not k.startswith("_")}}
    inits, calls, snaps = [], [], []
    mode = job.get("mode", "serial")
    job = dict(job)
    callfile = None
    if job.get("trace", True):
        if mode == "process":
            WORK.mkdir(exist_ok=True)
            fd, callfile = tempfile.mkstemp(prefix="calls_", suffix=".jsonl", dir=WORK)
            os.close(fd)
            job["_callfile"] = callfile
        else:
            job["_logid"] = id(calls)
            gen.CALL_LOGS[id(calls)] = calls
    try:
        # `_task_obj`: the caller hands in the very Task object of an earlier call (what a user who calls optimize(task) twice does)
        task = job["_task_obj"] if job.get("_task_obj") is not None else build_task(job)
        if opt is None and job.get("reconfigure_from") is not None:
            # multi-step history: the instance is built and run under ANOTHER configuration, then given the judged one through the
            # public set_config_parameters (as HyperTuner does); nothing derived from the first configuration may survive
            target = optimizers.make(job["name"], **job.get("cfg", {}))
            opt = optimizers.make(job["name"], **job["reconfigure_from"])
            try:
                with contextlib.redirect_stdout(io.StringIO()):
                    opt.optimize(build_task(job), mode=mode, workers=job.get("workers"))
            except Exception:  # noqa — the first run's own outcome is not what is being judged
                pass
            opt.set_config_parameters(json.loads(target._config.model_dump_json()))
        if opt is None:
            opt = optimizers.make(job["name"], **job.get("cfg", {}))
            if job.get("debug"):
                opt._debug = True          # what `Optimizer(config, debug=True)` sets: verbose per-cycle printing (stdout is captured below), nothing else
    except Exception as e:  # construction problems are reported, not raised
        out["setup_error"] = f"{type(e).__name__}: {e}"
        return out
    cls = type(opt)
    orig_init = OptimizationAbstract._init_agent
    orig_step = cls.optimization_step

    import functools

    @functools.wraps(orig_init)
    def init_wrapper(self, position=None):
        a = orig_init(self, position)
        if self is opt:
            inits.append({"raw": _enc_raw(position), "agent": _enc_agent(a)})
        return a

    @functools.wraps(orig_step)
    def step_wrapper(self):
        r = orig_step(self)
        if self is opt:
            snaps.append([_enc_agent(a) for a in self._population])
        return r

    if job.get("warmup"):
        # the same optimizer instance first solves ANOTHER task (multi-step history): e.g. same space and seed, other objective / direction
        wj = dict(job, **job["warmup"])
        wj.pop("warmup", None)
        wj["trace"] = False
        try:
            with contextlib.redirect_stdout(io.StringIO()):
                opt.optimize(build_task({k: v for k, v in wj.items() if not k.startswith("_")}), mode=job["warmup"].get("mode", mode), workers=job.get("workers"))
        except Exception:  # noqa — the warm-up's own outcome is not what is being judged
            pass
    out["cfg_before"] = _dump(opt._config)
    out["task_before"] = _dump(task)
    if job.get("trace", True):
        OptimizationAbstract._init_agent = init_wrapper
        cls.optimization_step = step_wrapper
    import signal

    class RunTimeout(BaseException):
        pass

    def on_alarm(signum, frame):
        raise RunTimeout(f"optimize() still running after {job.get('timeout', 120)} s")

    old_handler = None
    try:
        old_handler = signal.signal(signal.SIGALRM, on_alarm)
        signal.alarm(int(job.get("timeout", 120)))
    except ValueError:      # not in the main thread: no watchdog
        old_handler = None
    try:
        with contextlib.redirect_stdout(io.StringIO()):
            if job.get("pool_perm") is not None:
                from .pool import permuted_pool
                with permuted_pool(job["pool_perm"]):
                    res = opt.optimize(task, mode=mode, workers=job.get("workers"))
            else:
                res = opt.optimize(task, mode=mode, workers=job.get("workers"))
        out["result"] = {"evolution": [[_enc_agent(a) for a in pop.agents] for pop in res.evolution],
                         "rates": [bits(r) for r in res.rates], "best": _enc_agent(res.best_solution)}
        out["init_pop"] = None
        if job.get("utils"):
            from pyvolutionary import utils as pvu
            u = {}
            n_gen = len(res.evolution)
            sizes = [len(p.agents) for p in res.evolution]
            for label, iters in job["utils"]:
                its = None if iters is None else [i for i in iters]
                for idx in sorted({0, 1, min(sizes) - 1, min(sizes) // 2}):
                    if idx < 0:
                        continue
                    try:
                        tr = pvu.agent_trend(res, idx, its)
                        ps = pvu.agent_position(res, idx, its)
                        u[f"{label}:{idx}"] = {"trend": [bits(c) for c in tr], "pos": [_enc_pos(p) for p in ps]}
                    except Exception as e:  # noqa
                        u[f"{label}:{idx}"] = {"err": type(e).__name__}
            try:
                u["best_trend"] = [bits(c) for c in pvu.best_agent_trend(res)]
                u["best_pos"] = [_enc_pos(p) for p in pvu.best_agent_position(res)]
            except Exception as e:  # noqa
                u["best_trend"] = {"err": type(e).__name__}
            out["utils"] = u
            # the utilities are readers: the recorded history must be what it was before they were called
            out["evolution_after_utils"] = [[_enc_agent(a) for a in pop.agents] for pop in res.evolution]
    except BaseException as e:  # noqa
        tb = traceback.extract_tb(e.__traceback__)
        frames = [f for f in tb if "/pyvolutionary/" in f.filename]
        inner = frames[-1] if frames else (tb[-1] if tb else None)
        out["exception"] = {"type": type(e).__name__, "msg": str(e)[:300],
                            "func": inner.name if inner else "?", "file": os.path.basename(inner.filename) if inner else "?", "line": inner.lineno if inner else 0}
        if isinstance(e, (KeyboardInterrupt, SystemExit)):
            raise
    finally:
        if old_handler is not None:
            signal.alarm(0)
            signal.signal(signal.SIGALRM, old_handler)
        OptimizationAbstract._init_agent = orig_init
        cls.optimization_step = orig_step
    out["cfg_after"] = _dump(opt._config)
    out["task_after"] = _dump(task)
    if callfile:
        try:
            with open(callfile) as fh:
                out["calls"] = [json.loads(l) for l in fh if l.strip()]
        finally:
            os.unlink(callfile)
        out["inits"] = inits      # parent-side events only (thread/process workers log in their own address space)
    else:
        out["calls"] = [_enc_pos(c) for c in calls]
        gen.CALL_LOGS.pop(id(calls), None)
        out["inits"] = inits
    out["snaps"] = snaps
    return out


# ------------------------------------------------------------------------------------------------
# helpers for the oracles
# ------------------------------------------------------------------------------------------------
def dec_float(b):
    from .canon import from_bits
    return from_bits(b)


def dec_pos(p):
    """back to Python values (floats / ints / lists)"""
    out = []
    for c in p:
        if "f" in c:
            out.append(dec_float(c["f"]))
        elif "i" in c:
            out.append(c["i"])
        elif "p" in c:
            out.append(list(c["p"]))
        elif "v" in c:
            out.append([dec_float(b) for b in c["v"]])
        else:
            out.append(c)
    return out


def pos_model_json(p):
    """position → the coordinate JSON the model driver reads; None when some coordinate is not a float/int/permutation at all"""
    out = []
    for c in p:
        if "f" in c or "i" in c or "p" in c:
            out.append(c)
        else:
            return None
    return out


def task_json(specs):
    return [gen.spec_json(s) for s in specs]
